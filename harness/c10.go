package main

// C10: receipts are authentic and intact after transport. Real keys; the receipt travels in an agent
// message through the CAR response codec; the signature is re-verified from the transported root block.

import (
	"bytes"
	"encoding/json"
	"fmt"
	"github.com/storacha/go-ucanto/core/schema/options"
	"io"
	"sort"
	"strings"
	"sync"

	"github.com/ipld/go-ipld-prime/codec/dagcbor"
	"github.com/ipld/go-ipld-prime/datamodel"
	ipldschema "github.com/ipld/go-ipld-prime/schema"
	"github.com/storacha/go-ucanto/core/dag/blockstore"
	"github.com/storacha/go-ucanto/core/delegation"
	"github.com/storacha/go-ucanto/core/invocation"
	"github.com/storacha/go-ucanto/core/invocation/ran"
	"github.com/storacha/go-ucanto/core/ipld"
	"github.com/storacha/go-ucanto/core/message"
	"github.com/storacha/go-ucanto/core/receipt"
	"github.com/storacha/go-ucanto/core/receipt/fx"
	"github.com/storacha/go-ucanto/core/result"
	"github.com/storacha/go-ucanto/transport/car/response"
	"github.com/storacha/go-ucanto/ucan"
)

func init() {
	gens["C10"] = genC10
	execs["rcptconc"] = guard(execRcptConc)
	execs["rcpt"] = guard(execRcpt)
}

type RSpec struct {
	Key     string   `json:"key"`
	OK      bool     `json:"ok"`    // ok or error result
	Value   TV       `json:"value"` // the result value
	Forks   []string `json:"forks"` // "link" | "inv"
	Join    string   `json:"join"`  // "" | "link" | "inv"
	Meta    []KV     `json:"meta"`
	Prfs    []string `json:"prfs"` // "link" | "dlg"
	RanKind string   `json:"ran"`  // "inv" | "link"
	Alter   string   `json:"alter"`
	Reader  string   `json:"reader"` // untyped | typed | rebind
	// Effects: (C18 programs) the effects are honoured, built the way server.Run builds them
	// (fx.NewEffects, then receipt.WithFork / WithJoin)
	Effects bool `json:"effects,omitempty"`
}

var rcptAlter = []string{"none", "out-value", "out-flip", "ran", "fork-add", "fork-drop", "join", "meta", "iss", "iss-drop", "prf", "sig-flip", "sig-code", "other-key"}

func genC10(cfg Config, emit Emit) error {
	n := 900
	if cfg.Thorough() {
		n = 20000
	}
	r := cfg.Rng
	for i := 0; i < n; i++ {
		s := RSpec{OK: r.Intn(3) != 0, RanKind: []string{"inv", "inv", "link"}[r.Intn(3)], Reader: []string{"untyped", "typed", "rebind", "typedopt"}[i%4]}
		switch r.Intn(8) {
		case 0:
			s.Key = fmt.Sprintf("rsa%d", r.Intn(2))
		case 1:
			s.Key = fmt.Sprintf("wrap%s%d", []string{"", "U", "R"}[r.Intn(3)], r.Intn(6))
		default:
			s.Key = fmt.Sprintf("ed%d", r.Intn(12))
		}
		if s.Reader == "untyped" {
			s.Value = noNull(randTV(r, 2))
		} else {
			// the typed readers bind to {status String, n Int}
			s.Value = tvMap([]KV{{"n", tvInt(int64(r.Intn(1000)))}, {"status", tvStr([]string{"done", "", "ünï"}[r.Intn(3)])}})
		}
		for f := r.Intn(3); f > 0; f-- {
			s.Forks = append(s.Forks, []string{"link", "inv", "link", "inv", "dup"}[r.Intn(5)])
		}
		s.Join = []string{"", "link", "inv"}[r.Intn(3)]
		if r.Intn(2) == 0 {
			for _, kv := range randKVs(r, 1) {
				s.Meta = append(s.Meta, KV{kv.K, noNull(kv.V)})
			}
		}
		for p := r.Intn(3); p > 0; p-- {
			s.Prfs = append(s.Prfs, []string{"link", "dlg", "link", "dlg", "dup"}[r.Intn(5)])
		}
		s.Alter = rcptAlter[i%len(rcptAlter)]
		emit("rcpt", []string{mustJSON(&s)}, s.Alter+"/"+s.Reader, s.Alter != "none")
	}
	genRcptRepr(emit)
	nc, nb := 300, 20
	if cfg.Thorough() {
		nc, nb = 6000, 300
	}
	genCbor(cfg, emit, nc)
	genCborBlocks(cfg, emit, nb)
	nw := 80
	if cfg.Thorough() {
		nw = 2000
	}
	genWire(cfg, emit, nw, 0)
	// one signer, many goroutines
	for i, k := range []string{"rsa0", "rsa1", "ed3", "wrap2", "rsa0", "rsa1"} {
		emit("rcptconc", []string{k, "8", "4", []string{"262144", "1024", "65536"}[i%3]}, "concurrent-issue/"+k[:2], true)
	}
	// receipts as a server issues them: the effects a handler returns are the effects of its receipt
	ns := 120
	if cfg.Thorough() {
		ns = 2500
	}
	k := 0
	genWorlds(cfg, ns, genOpts{maxDepth: 3, sessions: true, sessionPct: 15, kinds: []string{"none", "none", "none", "expired"}}, func(w *AWorld, class string) {
		w.Services = []ASvc{{Can: w.Desc.Can, Result: []string{"okjoin", "okfx", "ok", "err"}[k%4]}}
		k++
		w.Invs = []int{w.Inv}
		emit("serve", []string{"C10", mustJSON(w)}, "served/"+w.Services[0].Result, true)
	})
	return nil
}

// bindnode cannot decode null into an Any field (known third-party limitation, see C07/F3)
func noNull(t TV) TV {
	switch t.T {
	case "null":
		return tvInt(0)
	case "list":
		var l []TV
		json.Unmarshal(t.V, &l)
		for i := range l {
			l[i] = noNull(l[i])
		}
		return tvList(l)
	case "map":
		m := mustKVs(t)
		for i := range m {
			m[i].V = noNull(m[i].V)
		}
		return tvMap(m)
	}
	return t
}

type typedOK struct {
	N      int64
	Status string
}

func (t typedOK) ToIPLD() (ipld.Node, error) {
	return tvMap([]KV{{"n", tvInt(t.N)}, {"status", tvStr(t.Status)}}).node()
}

type tagT struct{ S string }

type typedOKOpt struct {
	N      int64
	Status tagT
}

var typedOptSchema = []byte("type Result union {\n | TOk \"ok\"\n | TErr \"error\"\n} representation keyed\ntype Tag string\ntype TOk struct { n Int\n status Tag }\ntype TErr struct { n Int\n status Tag }")

var typedSchema = []byte("type Result union {\n | TOk \"ok\"\n | TErr \"error\"\n} representation keyed\ntype TOk struct { n Int\n status String }\ntype TErr struct { n Int\n status String }")

func nodeBytes(n datamodel.Node) []byte {
	if n == nil {
		return nil
	}
	var buf bytes.Buffer
	if tn, ok := n.(ipldschema.TypedNode); ok {
		n = tn.Representation()
	}
	if err := dagcbor.Encode(n, &buf); err != nil {
		return []byte("encode-error:" + err.Error())
	}
	return buf.Bytes()
}

func execRcpt(a []string) Result {
	var s RSpec
	if err := json.Unmarshal([]byte(a[0]), &s); err != nil {
		return Result{Impl: "bad-spec:" + err.Error()}
	}
	sg, err := pickSigner(s.Key)
	if err != nil {
		return Result{Impl: "key-error"}
	}
	pools()
	alice := edPool[20]
	mkInv := func(n string) invocation.Invocation {
		inv, err := invocation.Invoke(alice, sg, ucan.NewCapability("test/run", alice.DID().String(), NbMap{F: map[string]any{}}), delegation.WithNonce(n), delegation.WithNoExpiration())
		if err != nil {
			panic(err)
		}
		return inv
	}
	inv := mkInv("ran")
	var rn ran.Ran
	if s.RanKind == "link" {
		rn = ran.FromLink(inv.Link())
	} else {
		rn = ran.FromInvocation(inv)
	}
	var opts []receipt.Option
	var forkLinks []string
	var forks []fx.Effect
	var linkOnly []invocation.Invocation
	for i, f := range s.Forks {
		if f == "dup" && len(forks) > 0 { // the same effect listed again
			forks = append(forks, forks[len(forks)-1])
			forkLinks = append(forkLinks, forkLinks[len(forkLinks)-1])
		} else if f == "inv" {
			fi := mkInv(fmt.Sprintf("fork%d", i))
			forks = append(forks, fx.FromInvocation(fi))
			forkLinks = append(forkLinks, "inv:"+fi.Link().String())
		} else {
			// cited by link only; the invocation itself exists (and travels in other receipts, see history)
			li := mkInv(fmt.Sprintf("forklink%d", i))
			linkOnly = append(linkOnly, li)
			forks = append(forks, fx.FromLink(li.Link()))
			forkLinks = append(forkLinks, "link:"+li.Link().String())
		}
	}
	if len(forks) > 0 {
		opts = append(opts, receipt.WithFork(forks...))
	}
	joinLink := ""
	switch s.Join {
	case "inv":
		ji := mkInv("join")
		opts = append(opts, receipt.WithJoin(fx.FromInvocation(ji)))
		joinLink = "inv:" + ji.Link().String()
	case "link":
		li := mkInv("joinlink")
		linkOnly = append(linkOnly, li)
		opts = append(opts, receipt.WithJoin(fx.FromLink(li.Link())))
		joinLink = "link:" + li.Link().String()
	}
	if len(s.Meta) > 0 {
		meta := map[string]any{}
		for _, kv := range s.Meta {
			n, err := kv.V.node()
			if err != nil {
				return Result{Impl: "meta-error"}
			}
			// meta values are Go values wrapped by bindnode: hand over pointers to nodes' Go forms where simple
			switch kv.V.T {
			case "int":
				v, _ := n.AsInt()
				meta[kv.K] = &v
			case "str":
				v, _ := n.AsString()
				meta[kv.K] = &v
			case "bool":
				v, _ := n.AsBool()
				meta[kv.K] = &v
			default:
				v := int64(len(kv.K))
				meta[kv.K] = &v
			}
		}
		opts = append(opts, receipt.WithMeta(meta))
	}
	var prfLinks []string
	var prfs delegation.Proofs
	for i, p := range s.Prfs {
		if p == "dup" && len(prfs) > 0 { // the same proof cited again
			prfs = append(prfs, prfs[len(prfs)-1])
			prfLinks = append(prfLinks, prfLinks[len(prfLinks)-1])
		} else if p == "dlg" {
			d, err := delegation.Delegate(alice, sg, []ucan.Capability[NbMap]{ucan.NewCapability("test/run", alice.DID().String(), NbMap{F: map[string]any{}})}, delegation.WithNonce(fmt.Sprintf("p%d", i)), delegation.WithNoExpiration())
			if err != nil {
				panic(err)
			}
			prfs = append(prfs, delegation.FromDelegation(d))
			prfLinks = append(prfLinks, "dlg:"+d.Link().String())
		} else {
			prfs = append(prfs, delegation.FromLink(dummyLink(300+i)))
			prfLinks = append(prfLinks, "link:"+dummyLink(300+i).String())
		}
	}
	if len(prfs) > 0 {
		opts = append(opts, receipt.WithProofs(prfs))
	}
	var res result.Result[tvBuilder, tvBuilder]
	if s.OK {
		res = result.Ok[tvBuilder, tvBuilder](tvBuilder{s.Value})
	} else {
		res = result.Error[tvBuilder, tvBuilder](tvBuilder{s.Value})
	}
	rc, err := receipt.Issue(sg, res, rn, opts...)
	if err != nil {
		return Result{Impl: "issue-error:" + err.Error()}
	}
	wantVal, _ := s.Value.node()
	want := nodeBytes(wantVal)

	// transport: agent message through the response codec
	msg, err := message.Build(nil, []receipt.AnyReceipt{rc})
	if err != nil {
		return Result{Impl: "build-error:" + err.Error()}
	}
	hres, err := response.Encode(msg)
	if err != nil {
		return Result{Impl: "encode-error:" + err.Error()}
	}
	wire, _ := io.ReadAll(hres.Body())
	back, err := response.Decode(responseOf(wire))
	if err != nil {
		return Result{Impl: "decode-error:" + err.Error()}
	}
	rl, ok := back.Get(inv.Link())
	if !ok {
		return Result{Impl: "receipt-not-found-by-ran"}
	}
	var bad []string
	chk := func(c bool, what string) {
		if !c {
			bad = append(bad, what)
		}
	}
	chk(rl.String() == rc.Root().Link().String(), "receipt link changed")
	br, _ := blockstore.NewBlockReader(blockstore.WithBlocksIterator(back.Blocks()))

	// accessors through the chosen reader
	type acc struct {
		out         []byte
		okSide      bool
		ranL, iss   string
		forks, prfs []string
		join        string
		metaKeys    []string
	}
	read := func() (acc, error) {
		var a acc
		fill := func(ranL ipld.Link, issuer ucan.Principal, e fx.Effects, meta map[string]any, ps delegation.Proofs) {
			a.ranL = ranL.String()
			if issuer != nil {
				a.iss = issuer.DID().String()
			}
			for _, f := range e.Fork() {
				if _, ok := f.Invocation(); ok {
					a.forks = append(a.forks, "inv:"+f.Link().String())
				} else {
					a.forks = append(a.forks, "link:"+f.Link().String())
				}
			}
			if j := e.Join(); j != (fx.Effect{}) {
				if _, ok := j.Invocation(); ok {
					a.join = "inv:" + j.Link().String()
				} else {
					a.join = "link:" + j.Link().String()
				}
			}
			for k := range meta {
				a.metaKeys = append(a.metaKeys, k)
			}
			sort.Strings(a.metaKeys)
			for _, p := range ps {
				if _, ok := p.Delegation(); ok {
					a.prfs = append(a.prfs, "dlg:"+p.Link().String())
				} else {
					a.prfs = append(a.prfs, "link:"+p.Link().String())
				}
			}
		}
		// what a caller does with the values an accessor returned must not change what the receipt reports
		disturb := func(meta map[string]any, forks []fx.Effect, ps delegation.Proofs) {
			for k := range meta {
				delete(meta, k)
			}
			meta["scribbled"] = 1
			for i := range forks {
				forks[i] = fx.Effect{}
			}
			for i := range ps {
				ps[i] = delegation.FromLink(dummyLink(999))
			}
		}
		switch s.Reader {
		case "untyped":
			// one reader for the whole process; history: it has just read another receipt of the same run
			// that EMBEDS the invocations this one cites by link only
			rdr, err := sharedAnyReader()
			if err != nil {
				return a, err
			}
			if len(linkOnly) > 0 || s.RanKind == "link" {
				var hfx []fx.Effect
				for _, li := range linkOnly {
					hfx = append(hfx, fx.FromInvocation(li))
				}
				hopts := []receipt.Option{}
				if len(hfx) > 0 {
					hopts = append(hopts, receipt.WithFork(hfx...))
				}
				if hist, herr := receipt.Issue(sg, result.Ok[tvBuilder, tvBuilder](tvBuilder{tvInt(0)}), ran.FromInvocation(inv), hopts...); herr == nil {
					rdr.Read(hist.Root().Link(), hist.Blocks())
				}
			}
			r, err := rdr.Read(rl, back.Blocks())
			if err != nil {
				return a, err
			}
			disturb(r.Meta(), r.Fx().Fork(), r.Proofs())
			o, x := result.Unwrap(r.Out())
			if o != nil {
				a.out, a.okSide = nodeBytes(o), true
			} else {
				a.out = nodeBytes(x)
			}
			fill(r.Ran().Link(), r.Issuer(), r.Fx(), r.Meta(), r.Proofs())
		case "typedopt":
			// a typed reader whose schema has a named string type bound to a Go type through a converter option
			rdr, e2 := receipt.NewReceiptReader[typedOKOpt, typedOKOpt](typedOptSchema,
				options.NamedStringConverter("Tag", func(s string) (tagT, error) { return tagT{s}, nil }, func(t tagT) (string, error) { return t.S, nil }))
			if e2 != nil {
				return a, e2
			}
			r, err := rdr.Read(rl, back.Blocks())
			if err != nil {
				return a, err
			}
			o, x := result.Unwrap(r.Out())
			v := o
			a.okSide = true
			if !s.OK {
				v, a.okSide = x, false
			}
			n, _ := typedOK{N: v.N, Status: v.Status.S}.ToIPLD()
			a.out = nodeBytes(n)
			disturb(r.Meta(), r.Fx().Fork(), r.Proofs())
			fill(r.Ran().Link(), r.Issuer(), r.Fx(), r.Meta(), r.Proofs())
		default:
			var r receipt.Receipt[typedOK, typedOK]
			var err error
			if s.Reader == "typed" {
				rdr, e2 := receipt.NewReceiptReader[typedOK, typedOK](typedSchema)
				if e2 != nil {
					return a, e2
				}
				r, err = rdr.Read(rl, back.Blocks())
			} else {
				any0, e2 := receipt.NewReceipt[ipld.Node, ipld.Node](rl, br, anyUnionType())
				if e2 != nil {
					return a, e2
				}
				// history: the process has re-bound a receipt before, to other types that happen to carry
				// the same names (whatever that attempt yields is not observed)
				func() {
					defer func() { recover() }()
					if other, e := ipldLoad([]byte("type TOk struct { label String }\ntype TErr struct { code Int\n label String }")); e == nil {
						receipt.Rebind[typedOK, typedOK](any0, other.TypeByName("TOk"), other.TypeByName("TErr"))
					}
				}()
				ts, e3 := ipldLoad([]byte("type TOk struct { n Int\n status String }\ntype TErr struct { n Int\n status String }"))
				if e3 != nil {
					return a, e3
				}
				r, err = receipt.Rebind[typedOK, typedOK](any0, ts.TypeByName("TOk"), ts.TypeByName("TErr"))
			}
			if err != nil {
				return a, err
			}
			o, x := result.Unwrap(r.Out())
			v := o
			a.okSide = true
			if !s.OK {
				v, a.okSide = x, false
			}
			n, _ := v.ToIPLD()
			a.out = nodeBytes(n)
			disturb(r.Meta(), r.Fx().Fork(), r.Proofs())
			fill(r.Ran().Link(), r.Issuer(), r.Fx(), r.Meta(), r.Proofs())
		}
		return a, nil
	}
	got, err := read()
	if err != nil {
		return Result{Impl: "read-error:" + err.Error(), Oracle: "fail:C10-unreadable the transported receipt cannot be read with the " + s.Reader + " reader: " + err.Error()}
	}
	chk(bytes.Equal(got.out, want) && got.okSide == s.OK, "result value differs")
	chk(got.ranL == inv.Link().String(), "ran differs")
	chk(got.iss == sg.DID().String(), "issuer differs")
	chk(strings.Join(got.forks, ",") == strings.Join(forkLinks, ","), fmt.Sprintf("forks differ: %v vs %v", got.forks, forkLinks))
	chk(got.join == joinLink, "join differs")
	var mk []string
	for _, kv := range s.Meta {
		mk = append(mk, kv.K)
	}
	sort.Strings(mk)
	chk(strings.Join(got.metaKeys, ",") == strings.Join(mk, ","), "meta keys differ")
	chk(strings.Join(got.prfs, ",") == strings.Join(prfLinks, ","), fmt.Sprintf("proofs differ: %v vs %v", got.prfs, prfLinks))
	same := len(bad) == 0

	// signature over the canonical DAG-CBOR of the outcome, recomputed from the transported root block
	// (decoded as a plain IPLD node, independent of any Go binding)
	rblk, _, _ := br.Get(rl)
	rootN, err := decodeAny(rblk.Bytes())
	if err != nil {
		return Result{Impl: "root-decode-error:" + err.Error()}
	}
	ocmN, err1 := rootN.LookupByString("ocm")
	sigN, err2 := rootN.LookupByString("sig")
	if err1 != nil || err2 != nil {
		return Result{Impl: "root-shape-error"}
	}
	sigB, _ := sigN.AsBytes()
	verifyNode := func(ocm datamodel.Node, sig []byte, vfr ucan.Verifier) bool {
		return vfr.Verify(nodeBytes(ocm), signatureOf(sig))
	}
	verified := verifyNode(ocmN, sigB, sg.Verifier())

	// one alteration of the outcome (or of the signature), re-encoded and re-decoded like a received block
	vfr := ucan.Verifier(sg.Verifier())
	other := edPool[(atoi(strings.TrimLeft(s.Key, "edrsawpUR"))+5)%edPoolSize]
	altN := func(t TV) datamodel.Node { n, _ := t.node(); return n }
	linkN := func(k int) datamodel.Node { return altN(tvLink(dummyLink(k).String())) }
	aocm, asig := ocmN, sigB
	switch s.Alter {
	case "out-value":
		side := "ok"
		if !s.OK {
			side = "error"
		}
		aocm = setPath(ocmN, []string{"out", side}, altN(tvMap([]KV{{"n", tvInt(424242)}, {"status", tvStr("altered")}})))
	case "out-flip":
		from, to := "ok", "error"
		if !s.OK {
			from, to = to, from
		}
		outN, _ := ocmN.LookupByString("out")
		v, _ := outN.LookupByString(from)
		aocm = setPath(setPath(ocmN, []string{"out", from}, nil), []string{"out", to}, v)
	case "ran":
		aocm = setPath(ocmN, []string{"ran"}, linkN(999))
	case "fork-add", "fork-drop":
		fxN, _ := ocmN.LookupByString("fx")
		fk, _ := fxN.LookupByString("fork")
		var items []datamodel.Node
		for it := fk.ListIterator(); !it.Done(); {
			_, v, _ := it.Next()
			items = append(items, v)
		}
		if s.Alter == "fork-add" || len(items) == 0 {
			items = append(items, linkN(998))
		} else {
			items = items[1:]
		}
		aocm = setPath(ocmN, []string{"fx", "fork"}, listNode(items))
	case "join":
		fxN, _ := ocmN.LookupByString("fx")
		if _, err := fxN.LookupByString("join"); err != nil {
			aocm = setPath(ocmN, []string{"fx", "join"}, linkN(996))
		} else {
			aocm = setPath(ocmN, []string{"fx", "join"}, nil)
		}
	case "meta":
		aocm = setPath(ocmN, []string{"meta", "altered"}, altN(tvInt(1)))
	case "iss":
		aocm = setPath(ocmN, []string{"iss"}, altN(tvStr(other.DID().String())))
	case "iss-drop":
		aocm = setPath(ocmN, []string{"iss"}, nil)
	case "prf":
		pf, _ := ocmN.LookupByString("prf")
		var items []datamodel.Node
		for it := pf.ListIterator(); !it.Done(); {
			_, v, _ := it.Next()
			items = append(items, v)
		}
		aocm = setPath(ocmN, []string{"prf"}, listNode(append(items, linkN(995))))
	case "sig-flip":
		asig = append([]byte{}, sigB...)
		asig[len(asig)/2] ^= 4
	case "sig-code":
		asig = newSigBytes(0xd0e7, signatureOf(sigB).Raw())
	case "other-key":
		vfr = other.Verifier()
	}
	altered := false
	if ar, err := decodeAny(nodeBytes(mapNode([]string{"ocm", "sig"}, []datamodel.Node{aocm, altN(tvBytes(asig))}))); err == nil {
		o2, e1 := ar.LookupByString("ocm")
		s2, e2 := ar.LookupByString("sig")
		if e1 == nil && e2 == nil {
			sb, _ := s2.AsBytes()
			altered = verifyNode(o2, sb, vfr)
		}
	}
	tf := func(b bool) string {
		if b {
			return "T"
		}
		return "F"
	}
	oracle := "ok"
	if !verified {
		oracle = "fail:C10-unverified the signature of an issued receipt does not verify after transport"
	} else if !same {
		oracle = "fail:C10-changed after transport: " + strings.Join(bad, "; ")
	} else if s.Alter != "none" && altered {
		oracle = "fail:C10-undetected kind=" + s.Alter + " the altered receipt still verifies"
	}
	return Result{Impl: fmt.Sprintf("verified=%s|same=%s|altered=%s", tf(verified), tf(same), tf(altered)), Oracle: oracle}
}

// execRcptConc: receipts issued concurrently by ONE signer (as a server does for a batch): every one of
// them must carry a valid signature over its own outcome. args = [key, goroutines, per goroutine, bytes]
func execRcptConc(a []string) Result {
	pools()
	sg, err := pickSigner(a[0])
	if err != nil {
		return Result{Impl: "key-error"}
	}
	g, per, size := atoi(a[1]), atoi(a[2]), atoi(a[3])
	alice := edPool[1]
	inv, err := invocation.Invoke(alice, sg, ucan.NewCapability("test/run", alice.DID().String(), NbMap{F: map[string]any{}}), delegation.WithNoExpiration(), delegation.WithNonce("conc"))
	if err != nil {
		return Result{Impl: "invoke-error"}
	}
	type out struct {
		root []byte
		err  string
	}
	outs := make([]out, g*per)
	var wg sync.WaitGroup
	start := make(chan struct{})
	for i := 0; i < g; i++ {
		wg.Add(1)
		go func(i int) {
			defer wg.Done()
			defer func() {
				if r := recover(); r != nil {
					outs[i*per].err = fmt.Sprintf("panic: %v", r)
				}
			}()
			<-start
			for k := 0; k < per; k++ {
				val := tvBytes(bytes.Repeat([]byte{byte(i), byte(k)}, size/2))
				rc, err := receipt.Issue(sg, result.Ok[tvBuilder, tvBuilder](tvBuilder{val}), ran.FromLink(inv.Link()))
				if err != nil {
					outs[i*per+k].err = err.Error()
					continue
				}
				outs[i*per+k].root = rc.Root().Bytes()
			}
		}(i)
	}
	close(start)
	wg.Wait()
	bad := 0
	why := ""
	for _, o := range outs {
		if o.err != "" {
			bad++
			why = o.err
			continue
		}
		n, err := decodeAny(o.root)
		if err != nil {
			bad++
			why = "undecodable root"
			continue
		}
		ocm, e1 := n.LookupByString("ocm")
		sig, e2 := n.LookupByString("sig")
		if e1 != nil || e2 != nil {
			bad++
			continue
		}
		sb, _ := sig.AsBytes()
		if !sg.Verifier().Verify(nodeBytes(ocm), signatureOf(sb)) {
			bad++
			why = "signature does not verify"
		}
	}
	oracle := "ok"
	if bad > 0 {
		oracle = fmt.Sprintf("fail:C10-unverified %d of %d receipts issued concurrently by one signer are not authentic (%s)", bad, len(outs), why)
	}
	return Result{Impl: fmt.Sprintf("issued=%d|bad=%d", len(outs), bad), Oracle: oracle}
}

var (
	sharedAnyOnce sync.Once
	sharedAnyRdr  receipt.ReceiptReader[ipld.Node, ipld.Node]
	sharedAnyErr  error
)

// sharedAnyReader: one untyped receipt reader for the whole process
func sharedAnyReader() (receipt.ReceiptReader[ipld.Node, ipld.Node], error) {
	sharedAnyOnce.Do(func() {
		sharedAnyRdr, sharedAnyErr = receipt.NewReceiptReader[ipld.Node, ipld.Node](anyResultSchema)
	})
	return sharedAnyRdr, sharedAnyErr
}

// ---- results given as typed nodes whose schema does not use the default representation --------------------

type reprOK struct {
	N      int64
	Status string
	Kind   string // enum in the schema
	Inner  reprInner
}

type reprInner struct {
	A int64
	B *string
}

var reprSchema = []byte(`type Result union {
  | ROk "ok"
  | RErr "error"
} representation keyed
type RKind enum {
  | Created ("c")
  | Deleted ("d")
}
type RInner struct {
  a Int
  b optional String
} representation tuple
type ROk struct {
  n Int (rename "count")
  status String (rename "st")
  kind RKind
  inner RInner
}
type RErr struct {
  n Int (rename "count")
  status String (rename "st")
  kind RKind
  inner RInner
}`)

type reprB struct {
	v   reprOK
	typ ipldschema.Type
}

func (b reprB) ToIPLD() (ipld.Node, error) {
	v := b.v
	return ipld.WrapWithRecovery(&v, b.typ)
}

func init() {
	execs["rcptrepr"] = guard(execRcptRepr)
}

func genRcptRepr(emit Emit) {
	for i := 0; i < 24; i++ {
		emit("rcptrepr", []string{[]string{"ed0", "rsa0", "wrap2", "ed5"}[i%4], itoa(i)}, "typed-result/renamed-enum-tuple", true)
	}
}

// args = [key, variant]
func execRcptRepr(a []string) Result {
	pools()
	sg, err := pickSigner(a[0])
	if err != nil {
		return Result{Impl: "skip:key"}
	}
	k := atoi(a[1])
	ts, err := ipldLoad(reprSchema)
	if err != nil {
		return Result{Impl: "schema-error:" + err.Error()}
	}
	okSide := k%3 != 0
	val := reprOK{N: int64(k * 7), Status: []string{"done", "", "ünï"}[k%3], Kind: []string{"Created", "Deleted"}[k%2], Inner: reprInner{A: int64(k)}}
	if k%4 < 2 {
		s := "b"
		val.Inner.B = &s
	}
	typName := "ROk"
	if !okSide {
		typName = "RErr"
	}
	alice := edPool[20]
	inv, err := invocation.Invoke(alice, sg, ucan.NewCapability("test/run", alice.DID().String(), NbMap{F: map[string]any{}}), delegation.WithNonce("repr"), delegation.WithNoExpiration())
	if err != nil {
		return Result{Impl: "skip:" + err.Error()}
	}
	b := reprB{val, ts.TypeByName(typName)}
	var res result.Result[reprB, reprB]
	if okSide {
		res = result.Ok[reprB, reprB](b)
	} else {
		res = result.Error[reprB, reprB](b)
	}
	rc, err := receipt.Issue(sg, res, ran.FromInvocation(inv))
	if err != nil {
		return Result{Impl: "issue-error:" + err.Error(), Oracle: "fail:a receipt whose result is a typed node (renamed fields, enum, tuple) cannot be issued: " + err.Error()}
	}
	// what must be on the wire: the REPRESENTATION of the value
	inner := []TV{tvInt(val.Inner.A)}
	if val.Inner.B != nil {
		inner = append(inner, tvStr(*val.Inner.B))
	}
	wantTV := tvMap([]KV{{"count", tvInt(val.N)}, {"st", tvStr(val.Status)}, {"kind", tvStr(map[string]string{"Created": "c", "Deleted": "d"}[val.Kind])}, {"inner", tvList(inner)}})
	wn, _ := wantTV.node()
	want := nodeBytes(wn)
	msg, err := message.Build(nil, []receipt.AnyReceipt{rc})
	if err != nil {
		return Result{Impl: "build-error"}
	}
	hres, err := response.Encode(msg)
	if err != nil {
		return Result{Impl: "encode-error"}
	}
	wire, _ := io.ReadAll(hres.Body())
	back, err := response.Decode(responseOf(wire))
	if err != nil {
		return Result{Impl: "decode-error"}
	}
	rl, ok := back.Get(inv.Link())
	if !ok {
		return Result{Impl: "receipt-not-found"}
	}
	var bad []string
	if rdr, err := sharedAnyReader(); err == nil {
		r, err := rdr.Read(rl, back.Blocks())
		if err != nil {
			bad = append(bad, "untyped read: "+err.Error())
		} else {
			o, x := result.Unwrap(r.Out())
			got := o
			if !okSide {
				got = x
			}
			if got == nil || !bytes.Equal(nodeBytes(got), want) {
				bad = append(bad, fmt.Sprintf("the result read back is not the representation of the value issued (got %x, want %x)", nodeBytes(got), want))
			}
			if rn, derr := decodeAny(r.Root().Bytes()); derr == nil {
				ocmN, e1 := rn.LookupByString("ocm")
				sigN, e2 := rn.LookupByString("sig")
				if e1 == nil && e2 == nil {
					sb, _ := sigN.AsBytes()
					if !sg.Verifier().Verify(nodeBytes(ocmN), signatureOf(sb)) {
						bad = append(bad, "signature no longer verifies")
					}
				}
			}
		}
	}
	if rdr, err := receipt.NewReceiptReader[reprOK, reprOK](reprSchema); err == nil {
		r, err := rdr.Read(rl, back.Blocks())
		if err != nil {
			bad = append(bad, "typed read with the issuing schema: "+err.Error())
		} else {
			o, x := result.Unwrap(r.Out())
			got := o
			if !okSide {
				got = x
			}
			same := got.N == val.N && got.Status == val.Status && got.Kind == val.Kind && got.Inner.A == val.Inner.A &&
				(got.Inner.B == nil) == (val.Inner.B == nil) && (got.Inner.B == nil || *got.Inner.B == *val.Inner.B)
			if !same {
				bad = append(bad, fmt.Sprintf("typed read yields another value: %+v vs %+v", got, val))
			}
		}
	} else {
		bad = append(bad, "typed reader: "+err.Error())
	}
	if len(bad) > 0 {
		return Result{Impl: "changed", Oracle: "fail:C10 typed result: " + bad[0]}
	}
	return Result{Impl: "same", Oracle: "ok"}
}
