// Command vharness drives the real go-ucanto implementation (built from /repo's working tree) on
// generated cases and writes one JSON object per case: the abstract input handed to the Lean model
// driver (op + args) and the implementation's canonicalised output.
//
// Every case is (op, args): generators only choose args; the implementation side is a function of
// (op, args) alone, so a recorded case replays exactly (`vharness -replay file`).
package main

import (
	"bufio"
	"encoding/json"
	"flag"
	"fmt"
	"math/rand"
	"os"
	"path/filepath"
	"runtime"
	"sort"
	"sync"
)

// Case is one line of the cases file.
type Case struct {
	ID   string   `json:"id"`
	Op   string   `json:"op"`
	Args []string `json:"args"`
	// Impl is the canonical output of the implementation, compared with the model's.
	Impl string `json:"impl"`
	// Class is the generator's stratum (for the distribution table in evidence).
	Class string `json:"class,omitempty"`
	// Nontrivial by the property's own rule.
	Nontrivial bool `json:"nontrivial"`
	// Oracle is a verdict computed by the harness itself from ground truth ("" = none,
	// "ok", or "fail:<reason>").
	Oracle string `json:"oracle,omitempty"`
	// Soft observables: compared and logged, never alarm.
	Soft string `json:"soft,omitempty"`
	// Extra carries replay material (concrete bytes etc).
	Extra map[string]any `json:"extra,omitempty"`
}

// Result is what executing one case on the implementation yields.
type Result struct {
	// Args, when non-nil, replaces the case's args (generators may emit an abstract form which
	// the executor concretises; the concrete form is what the model driver is given and what a
	// replay re-executes)
	Args   []string
	Impl   string
	Oracle string
	Soft   string
	Extra  map[string]any
}

// Emit is handed to generators.
type Emit func(op string, args []string, class string, nontrivial bool)

type Config struct {
	Tier string
	Seed int64
	Rng  *rand.Rand
	Args []string
}

func (c Config) Thorough() bool { return c.Tier == "thorough" }

// gens: property id -> generator. execs: op -> implementation runner.
var gens = map[string]func(cfg Config, emit Emit) error{}
var execs = map[string]func(args []string) Result{}

// serialOps must not run concurrently with other cases (timing / process-global state).
var serialOps = map[string]bool{"handle": true}

func main() {
	tier := flag.String("tier", "quick", "quick|thorough")
	seed := flag.Int64("seed", 1, "PRNG seed")
	outp := flag.String("out", "", "cases file")
	replay := flag.String("replay", "", "re-execute the case recorded in this file on the implementation")
	flag.Parse()
	if *replay != "" {
		os.Exit(doReplay(*replay))
	}
	if flag.NArg() < 1 {
		var names []string
		for k := range gens {
			names = append(names, k)
		}
		sort.Strings(names)
		fmt.Fprintln(os.Stderr, "usage: vharness [-tier t] [-seed n] -out file <prop> [args]; props:", names)
		os.Exit(2)
	}
	name := flag.Arg(0)
	g, ok := gens[name]
	if !ok {
		fmt.Fprintln(os.Stderr, "unknown property", name)
		os.Exit(2)
	}
	var w *os.File = os.Stdout
	if *outp != "" {
		var err error
		w, err = os.Create(*outp)
		if err != nil {
			panic(err)
		}
		defer w.Close()
	}
	bw := bufio.NewWriterSize(w, 1<<20)
	cfg := Config{Tier: *tier, Seed: *seed, Rng: rand.New(rand.NewSource(*seed)), Args: flag.Args()[1:]}

	var cases []Case
	emit := func(op string, args []string, class string, nontrivial bool) {
		cases = append(cases, Case{ID: fmt.Sprintf("%s-%d", op, len(cases)+1), Op: op, Args: args, Class: class, Nontrivial: nontrivial})
	}
	// minimised past failures run first
	if dir := os.Getenv("VERIF_CORPUS"); dir != "" {
		files, _ := filepath.Glob(filepath.Join(dir, name, "*.json"))
		sort.Strings(files)
		for _, f := range files {
			b, err := os.ReadFile(f)
			if err != nil {
				continue
			}
			var rec struct {
				Case Case `json:"case"`
			}
			if json.Unmarshal(b, &rec) == nil && rec.Case.Op != "" {
				cases = append(cases, Case{ID: "corpus:" + filepath.Base(f), Op: rec.Case.Op, Args: rec.Case.Args, Class: "corpus", Nontrivial: true})
			}
		}
	}
	if err := g(cfg, emit); err != nil {
		fmt.Fprintln(os.Stderr, "harness generator error:", err)
		os.Exit(3)
	}
	runAll(cases)
	for i := range cases {
		b, err := json.Marshal(&cases[i])
		if err != nil {
			panic(err)
		}
		bw.Write(b)
		bw.WriteByte('\n')
	}
	bw.Flush()
}

func runOne(c *Case) {
	f, ok := execs[c.Op]
	if !ok {
		c.Impl = "no-exec:" + c.Op
		return
	}
	r := f(c.Args)
	c.Impl, c.Oracle, c.Soft, c.Extra = r.Impl, r.Oracle, r.Soft, r.Extra
	if r.Args != nil {
		c.Args = r.Args
	}
}

func runAll(cases []Case) {
	var par []int
	for i := range cases {
		if serialOps[cases[i].Op] {
			continue
		}
		par = append(par, i)
	}
	var wg sync.WaitGroup
	nw := runtime.NumCPU()
	ch := make(chan int, 1024)
	for w := 0; w < nw; w++ {
		wg.Add(1)
		go func() {
			defer wg.Done()
			for i := range ch {
				runOne(&cases[i])
			}
		}()
	}
	for _, i := range par {
		ch <- i
	}
	close(ch)
	wg.Wait()
	for i := range cases {
		if serialOps[cases[i].Op] {
			runOne(&cases[i])
		}
	}
}

func doReplay(path string) int {
	b, err := os.ReadFile(path)
	if err != nil {
		fmt.Fprintln(os.Stderr, err)
		return 2
	}
	var rec struct {
		Case Case `json:"case"`
	}
	if err := json.Unmarshal(b, &rec); err != nil || rec.Case.Op == "" {
		fmt.Fprintln(os.Stderr, "replay file has no case:", err)
		return 2
	}
	c := rec.Case
	if aa, ok := c.Extra["abstract_args"].([]any); ok {
		// clock-relative cases are re-executed from their abstract form
		c.Args = nil
		for _, a := range aa {
			c.Args = append(c.Args, fmt.Sprint(a))
		}
	}
	recorded := c.Impl
	runOne(&c)
	out, _ := json.Marshal(map[string]any{"op": c.Op, "args": c.Args, "impl_now": c.Impl, "impl_recorded": recorded, "oracle_now": c.Oracle, "extra": c.Extra})
	fmt.Println(string(out))
	return 0
}
