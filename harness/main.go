// Command vharness drives the real go-ucanto implementation (built from /repo's working tree) on
// generated cases and writes one JSON object per case: the abstract input handed to the Lean model
// driver (op + args) and the implementation's canonicalised output.
//
// Every case is (op, args): generators only choose args; the implementation side is a function of
// (op, args) alone, so a recorded case replays exactly (`vharness -replay file`).
package main

import (
	"bufio"
	"bytes"
	"encoding/json"
	"flag"
	"fmt"
	"io"
	"math/rand"
	"os"
	"os/exec"
	"path/filepath"
	"runtime"
	"runtime/debug"
	"sort"
	"strings"
	"sync"
	"time"
)

// Case is one line of the cases file.
type Case struct {
	ID   string   `json:"id"`
	Op   string   `json:"op"`
	Args []string `json:"args"`
	// Impl is the canonical output of the implementation, compared with the model's.
	Impl string `json:"impl"`
	// Class is the generator's stratum (for the distribution table in evidence).
	Class string `json:"class,omitempty"`
	// Nontrivial by the property's own rule.
	Nontrivial bool `json:"nontrivial"`
	// Oracle is a verdict computed by the harness itself from ground truth ("" = none,
	// "ok", or "fail:<reason>").
	Oracle string `json:"oracle,omitempty"`
	// Soft observables: compared and logged, never alarm.
	Soft string `json:"soft,omitempty"`
	// Extra carries replay material (concrete bytes etc).
	Extra map[string]any `json:"extra,omitempty"`
}

// Result is what executing one case on the implementation yields.
type Result struct {
	// Args, when non-nil, replaces the case's args (generators may emit an abstract form which
	// the executor concretises; the concrete form is what the model driver is given and what a
	// replay re-executes)
	Args   []string
	Impl   string
	Oracle string
	Soft   string
	Extra  map[string]any
}

// Emit is handed to generators.
type Emit func(op string, args []string, class string, nontrivial bool)

type Config struct {
	Tier string
	Seed int64
	Rng  *rand.Rand
	Args []string
}

func (c Config) Thorough() bool { return c.Tier == "thorough" }

// gens: property id -> generator. execs: op -> implementation runner.
var gens = map[string]func(cfg Config, emit Emit) error{}
var execs = map[string]func(args []string) Result{}

// serialOps must not run concurrently with other cases (timing / process-global state).
var serialOps = map[string]bool{"handle": true}

// isolatedOps run in worker subprocesses: a panic on a goroutine or a fatal error (stack overflow,
// concurrent map writes) kills only the worker; the case is then recorded as a crash.
var isolatedOps = map[string]bool{}

// freshOps additionally get a worker process of their own, started for the case and stopped after it:
// what the case does is the first use of the library in that process (lazily initialised package state)
var freshOps = map[string]bool{}

// crashOKOps: for these the death of the worker is an acceptable outcome (the case makes a caller-supplied
// function panic on a goroutine of the library); what must not happen is reported by the worker if it lives
var crashOKOps = map[string]bool{}

func main() {
	tier := flag.String("tier", "quick", "quick|thorough")
	seed := flag.Int64("seed", 1, "PRNG seed")
	outp := flag.String("out", "", "cases file")
	replay := flag.String("replay", "", "re-execute the case recorded in this file on the implementation")
	worker := flag.Bool("worker", false, "internal: execute cases read from stdin, one JSON object per line")
	facts := flag.String("facts", "", "write the facts extracted from /repo's source as a Lean file and exit")
	record := flag.String("record-c18", "", "record the C18 corpus into this file and exit (done once; the file is committed)")
	flag.Parse()
	if *record != "" {
		if err := recordC18(*record); err != nil {
			fmt.Fprintln(os.Stderr, "recording failed:", err)
			os.Exit(4)
		}
		return
	}
	if *facts != "" {
		if err := writeFacts(*facts); err != nil {
			fmt.Fprintln(os.Stderr, "fact extraction failed:", err)
			os.Exit(4)
		}
		return
	}
	if *worker {
		workerLoop()
		return
	}
	if *replay != "" {
		os.Exit(doReplay(*replay))
	}
	if flag.NArg() < 1 {
		var names []string
		for k := range gens {
			names = append(names, k)
		}
		sort.Strings(names)
		fmt.Fprintln(os.Stderr, "usage: vharness [-tier t] [-seed n] -out file <prop> [args]; props:", names)
		os.Exit(2)
	}
	name := flag.Arg(0)
	g, ok := gens[name]
	if !ok {
		fmt.Fprintln(os.Stderr, "unknown property", name)
		os.Exit(2)
	}
	var w *os.File = os.Stdout
	if *outp != "" {
		var err error
		w, err = os.Create(*outp)
		if err != nil {
			panic(err)
		}
		defer w.Close()
	}
	bw := bufio.NewWriterSize(w, 1<<20)
	cfg := Config{Tier: *tier, Seed: *seed, Rng: rand.New(rand.NewSource(*seed)), Args: flag.Args()[1:]}

	var cases []Case
	emit := func(op string, args []string, class string, nontrivial bool) {
		cases = append(cases, Case{ID: fmt.Sprintf("%s-%d", op, len(cases)+1), Op: op, Args: args, Class: class, Nontrivial: nontrivial})
	}
	// minimised past failures run first
	if dir := os.Getenv("VERIF_CORPUS"); dir != "" {
		files, _ := filepath.Glob(filepath.Join(dir, name, "*.json"))
		sort.Strings(files)
		for _, f := range files {
			b, err := os.ReadFile(f)
			if err != nil {
				continue
			}
			var rec struct {
				Case Case `json:"case"`
			}
			if json.Unmarshal(b, &rec) == nil && rec.Case.Op != "" {
				cases = append(cases, Case{ID: "corpus:" + filepath.Base(f), Op: rec.Case.Op, Args: rec.Case.Args, Class: "corpus", Nontrivial: true})
			}
		}
	}
	if err := g(cfg, emit); err != nil {
		fmt.Fprintln(os.Stderr, "harness generator error:", err)
		os.Exit(3)
	}
	runAll(cases)
	for i := range cases {
		b, err := json.Marshal(&cases[i])
		if err != nil {
			panic(err)
		}
		bw.Write(b)
		bw.WriteByte('\n')
	}
	bw.Flush()
}

func runOne(c *Case) {
	f, ok := execs[c.Op]
	if !ok {
		c.Impl = "no-exec:" + c.Op
		return
	}
	// a panic on the calling goroutine that an exec did not classify itself: the input is the
	// failing input (panics on other goroutines are caught by the isolated workers)
	defer func() {
		if rec := recover(); rec != nil {
			c.Impl = "panic"
			c.Oracle = fmt.Sprintf("fail:panic: %v at %s", rec, panicSite())
		}
	}()
	r := f(c.Args)
	c.Impl, c.Oracle, c.Soft, c.Extra = r.Impl, r.Oracle, r.Soft, r.Extra
	if r.Args != nil {
		c.Args = r.Args
	}
}

func runAll(cases []Case) {
	var par, iso []int
	for i := range cases {
		if serialOps[cases[i].Op] {
			continue
		}
		if isolatedOps[cases[i].Op] {
			iso = append(iso, i)
			continue
		}
		par = append(par, i)
	}
	runIsolated(cases, iso)
	var wg sync.WaitGroup
	nw := runtime.NumCPU()
	ch := make(chan int, 1024)
	for w := 0; w < nw; w++ {
		wg.Add(1)
		go func() {
			defer wg.Done()
			for i := range ch {
				runOne(&cases[i])
			}
		}()
	}
	for _, i := range par {
		ch <- i
	}
	close(ch)
	wg.Wait()
	for i := range cases {
		if serialOps[cases[i].Op] {
			runOne(&cases[i])
		}
	}
}

func doReplay(path string) int {
	b, err := os.ReadFile(path)
	if err != nil {
		fmt.Fprintln(os.Stderr, err)
		return 2
	}
	var rec struct {
		Case Case `json:"case"`
	}
	if err := json.Unmarshal(b, &rec); err != nil || rec.Case.Op == "" {
		fmt.Fprintln(os.Stderr, "replay file has no case:", err)
		return 2
	}
	c := rec.Case
	if isolatedOps[c.Op] {
		cs := []Case{c}
		runIsolated(cs, []int{0})
		out, _ := json.Marshal(map[string]any{"op": c.Op, "args": c.Args, "impl_now": cs[0].Impl, "impl_recorded": c.Impl, "oracle_now": cs[0].Oracle, "extra": cs[0].Extra})
		fmt.Println(string(out))
		return 0
	}
	if aa, ok := c.Extra["abstract_args"].([]any); ok {
		// clock-relative cases are re-executed from their abstract form
		c.Args = nil
		for _, a := range aa {
			c.Args = append(c.Args, fmt.Sprint(a))
		}
	}
	recorded := c.Impl
	runOne(&c)
	out, _ := json.Marshal(map[string]any{"op": c.Op, "args": c.Args, "impl_now": c.Impl, "impl_recorded": recorded, "oracle_now": c.Oracle, "extra": c.Extra})
	fmt.Println(string(out))
	return 0
}

// ---- crash-isolating workers -------------------------------------------------------------------

func workerLoop() {
	debug.SetMaxStack(48 << 20)
	in := bufio.NewReaderSize(os.Stdin, 1<<20)
	out := bufio.NewWriter(os.Stdout)
	// the library under test prints diagnostics with fmt.Printf: keep them off the protocol stream
	os.Stdout = os.Stderr
	for {
		line, err := in.ReadBytes('\n')
		if len(line) > 0 {
			var c Case
			if json.Unmarshal(line, &c) == nil {
				runOne(&c)
				b, _ := json.Marshal(&c)
				out.Write(b)
				out.WriteByte('\n')
				out.Flush()
			}
		}
		if err != nil {
			return
		}
	}
}

type workerProc struct {
	cmd    *exec.Cmd
	stdin  io.WriteCloser
	stdout *bufio.Reader
	stderr *capWriter
}

func startWorker() (*workerProc, error) {
	cmd := exec.Command(os.Args[0], "-worker")
	cmd.Env = append(os.Environ(), "GOMEMLIMIT=2GiB", "GOTRACEBACK=single", "GORACE=halt_on_error=1")
	in, err := cmd.StdinPipe()
	if err != nil {
		return nil, err
	}
	out, err := cmd.StdoutPipe()
	if err != nil {
		return nil, err
	}
	eb := &bytes.Buffer{}
	cw := &capWriter{buf: eb, max: 1 << 16}
	cmd.Stderr = cw
	if err := cmd.Start(); err != nil {
		return nil, err
	}
	return &workerProc{cmd, in, bufio.NewReaderSize(out, 1<<20), cw}, nil
}

// capWriter keeps the first max bytes and the last max bytes (a stack overflow dumps megabytes; a
// chatty library may print a lot before the panic line)
type capWriter struct {
	buf  *bytes.Buffer
	tail []byte
	max  int
}

func (w *capWriter) Write(p []byte) (int, error) {
	if w.buf.Len() < w.max {
		n := w.max - w.buf.Len()
		if n > len(p) {
			n = len(p)
		}
		w.buf.Write(p[:n])
	}
	w.tail = append(w.tail, p...)
	if len(w.tail) > w.max {
		w.tail = w.tail[len(w.tail)-w.max:]
	}
	return len(p), nil
}

func crashSummary(stderr string) string {
	for _, l := range strings.Split(stderr, "\n") {
		if strings.HasPrefix(l, "panic:") || strings.HasPrefix(l, "fatal error:") || strings.HasPrefix(l, "runtime: goroutine stack exceeds") || strings.HasPrefix(l, "WARNING: DATA RACE") {
			return strings.TrimSpace(l)
		}
	}
	if len(stderr) > 200 {
		return "no panic line; stderr ends: " + stderr[len(stderr)-200:]
	}
	return stderr
}

func runIsolated(cases []Case, idx []int) {
	if len(idx) == 0 {
		return
	}
	nw := runtime.NumCPU()
	if nw > len(idx) {
		nw = len(idx)
	}
	ch := make(chan int, len(idx))
	for _, i := range idx {
		ch <- i
	}
	close(ch)
	var wg sync.WaitGroup
	for w := 0; w < nw; w++ {
		wg.Add(1)
		go func() {
			defer wg.Done()
			var wp *workerProc
			for i := range ch {
				if wp != nil && freshOps[cases[i].Op] {
					wp.stdin.Close()
					wp.cmd.Wait()
					wp = nil
				}
				if wp == nil {
					var err error
					wp, err = startWorker()
					if err != nil {
						cases[i].Impl = "worker-start-failed:" + err.Error()
						continue
					}
				}
				b, _ := json.Marshal(&cases[i])
				wp.stdin.Write(append(b, '\n'))
				done := make(chan []byte, 1)
				go func(r *bufio.Reader) {
					line, _ := r.ReadBytes('\n')
					done <- line
				}(wp.stdout)
				var line []byte
				timedOut := false
				select {
				case line = <-done:
				case <-time.After(caseTimeout()):
					timedOut = true
					wp.cmd.Process.Kill()
					line = <-done
				}
				var res Case
				if len(line) > 0 && json.Unmarshal(line, &res) == nil && !timedOut {
					cases[i].Impl, cases[i].Oracle, cases[i].Soft, cases[i].Extra = res.Impl, res.Oracle, res.Soft, res.Extra
					if res.Args != nil {
						cases[i].Args = res.Args
					}
					if freshOps[cases[i].Op] {
						wp.stdin.Close()
						wp.cmd.Wait()
						wp = nil
					}
					continue
				}
				// the worker died (or hung) on this case
				wp.stdin.Close()
				wp.cmd.Wait()
				what := "crash:" + crashSummary(wp.stderr.buf.String()+"\n"+string(wp.stderr.tail))
				if timedOut {
					what = "hang:no answer within the case timeout"
				}
				cases[i].Impl = what
				cases[i].Oracle = "fail:the process handling this input terminated (" + what + ")"
				if crashOKOps[cases[i].Op] && !timedOut {
					cases[i].Impl, cases[i].Oracle = "crashed-or-refused", "ok"
				}
				wp = nil
			}
			if wp != nil {
				wp.stdin.Close()
				wp.cmd.Wait()
			}
		}()
	}
	wg.Wait()
}

func caseTimeout() time.Duration {
	if s := os.Getenv("VERIF_CASE_TIMEOUT"); s != "" {
		if d, err := time.ParseDuration(s); err == nil {
			return d
		}
	}
	return 60 * time.Second
}
