package main

import (
	"encoding/hex"
	"runtime/debug"
	"strconv"
	"strings"
)

func hexTok(b []byte) string {
	if len(b) == 0 {
		return "-"
	}
	return hex.EncodeToString(b)
}

// enumExact returns all strings of length n over alpha in lexicographic order (first symbol most
// significant) — the same order as Enum.exact in the Lean model.
func enumExact(alpha []byte, n int) [][]byte {
	if n == 0 {
		return [][]byte{{}}
	}
	sub := enumExact(alpha, n-1)
	var out [][]byte
	for _, a := range alpha {
		for _, s := range sub {
			x := make([]byte, 0, n)
			x = append(x, a)
			x = append(x, s...)
			out = append(out, x)
		}
	}
	return out
}

func enumUpTo(alpha []byte, n int) [][]byte {
	var out [][]byte
	for k := 0; k <= n; k++ {
		out = append(out, enumExact(alpha, k)...)
	}
	return out
}

const hexdigits = "0123456789abcdef"

func itoa(n int) string { return strconv.Itoa(n) }

func atoi(s string) int {
	n, err := strconv.Atoi(s)
	if err != nil {
		panic(err)
	}
	return n
}

func unhexTok(s string) []byte {
	if s == "-" {
		return nil
	}
	b, err := hex.DecodeString(s)
	if err != nil {
		panic(err)
	}
	return b
}

// panicSite names the innermost frames of the current panic that lie in the library or the harness
// (call it inside the deferred function that recovered).
func panicSite() string {
	var out []string
	for _, l := range strings.Split(string(debug.Stack()), "\n") {
		l = strings.TrimSpace(l)
		if (strings.Contains(l, "/repo/") || strings.Contains(l, "/harness/")) && strings.Contains(l, ".go:") {
			if i := strings.Index(l, " +0x"); i > 0 {
				l = l[:i]
			}
			out = append(out, l)
			if len(out) == 4 {
				break
			}
		}
	}
	return strings.Join(out, " < ")
}
