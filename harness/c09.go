package main

// C09: one receipt per invocation under any schedule. Batches of 0..64 invocations with mixed
// outcomes against a real server whose handlers, resolvers and checker perturb the schedule; also
// several concurrent requests against one server. Built with -race and executed in crash-isolating
// workers with GORACE=halt_on_error=1, so a data race kills the worker on the offending batch.

import (
	"encoding/json"
	"fmt"
	"github.com/storacha/go-ucanto/core/invocation"
	"github.com/storacha/go-ucanto/core/message"
	"github.com/storacha/go-ucanto/server"
	"math/rand"
	"runtime"
	"strings"
	"sync"
	"time"
)

func init() {
	gens["C09"] = genC09
	execs["batch"] = execBatch
	isolatedOps["batch"] = true
	execs["batchfresh"] = execBatch
	isolatedOps["batchfresh"] = true
	freshOps["batchfresh"] = true
}

func genC09(cfg Config, emit Emit) error {
	n := 160
	if cfg.Thorough() {
		n = 4000
	}
	sizes := []int{0, 1, 2, 3, 5, 8, 13, 21, 34, 64}
	o := genOpts{maxDepth: 3, sessions: true, sessionPct: 20, caveats: true, caveatPct: 20,
		kinds: []string{"none", "none", "wrongkey", "expired", "resource", "revoke", "decoys", "missing", "missing"}}
	i := 0
	o.rsaServicePct = 30
	genWorlds(cfg, n, o, func(w *AWorld, class string) {
		r := cfg.Rng
		size := sizes[i%len(sizes)]
		i++
		res := []string{"ok", "okfx", "err", "okjoin"}
		w.Services = []ASvc{{Can: w.Desc.Can, Result: res[r.Intn(4)]}, {Can: "other/thing", Result: res[r.Intn(4)]}}
		main := w.Tokens[w.Inv]
		w.Invs = nil
		if size > 0 {
			w.Invs = []int{w.Inv}
		}
		for k := 1; k < size; k++ {
			t := main
			t.Caps = append([]ACap(nil), main.Caps...)
			t.Prfs = append([]int(nil), main.Prfs...)
			t.Inline = append([]bool(nil), main.Inline...)
			t.Nonce = fmt.Sprintf("b%d", k)
			switch r.Intn(8) {
			case 0:
				t.Caps = []ACap{{Can: "nope/run", With: main.Caps[0].With, Nb: [][2]int{}}}
			case 1:
				t.Caps = []ACap{}
			case 2:
				t.Caps = append(t.Caps, ACap{Can: "other/thing", With: main.Caps[0].With, Nb: [][2]int{}})
			case 3:
				t.Caps = []ACap{{Can: main.Caps[0].Can, With: fmt.Sprintf("@%d", r.Intn(len(w.Principals))), Nb: main.Caps[0].Nb}}
			case 4:
				s := r.Intn(len(w.Principals))
				if w.Principals[s].Kind == "ed" {
					t.Iss, t.Signer, t.Prfs, t.Inline = s, s, nil, nil
				}
			case 5:
				t.Caps = []ACap{{Can: "other/thing", With: main.Caps[0].With, Nb: [][2]int{}}}
			case 6:
				// the very same invocation once more (same link): one receipt for the distinct link
				if len(w.Invs) > 0 {
					w.Invs = append(w.Invs, w.Invs[r.Intn(len(w.Invs))])
					continue
				}
			}
			t.ID = len(w.Tokens)
			w.Tokens = append(w.Tokens, t)
			w.Invs = append(w.Invs, t.ID)
		}
		if w.Invs == nil {
			w.Invs = []int{}
		}
		r.Shuffle(len(w.Invs), func(a, b int) { w.Invs[a], w.Invs[b] = w.Invs[b], w.Invs[a] })
		normalize(w)
		procs := []int{1, 2, 4, 16}[r.Intn(4)]
		conc := 1
		if r.Intn(3) == 0 {
			conc = 2 + r.Intn(5)
		}
		emit("batch", []string{"C09", mustJSON(w), itoa(r.Intn(1 << 30)), itoa(procs), itoa(conc)}, fmt.Sprintf("size%d/procs%d/conc%d", size, procs, conc), size > 1)
	})
	// batches that are the first thing their process does with the library: several session-backed
	// (non-key issuer) and plain invocations validated concurrently before anything was validated
	nf := 12
	if cfg.Thorough() {
		nf = 48
	}
	j := 0
	genWorlds(cfg, nf, genOpts{minDepth: 1, maxDepth: 3, sessions: true, sessionPct: 100, properSession: j%2 == 0, kinds: []string{"none", "none", "expired"}}, func(w *AWorld, class string) {
		j++
		w.Services = []ASvc{{Can: w.Desc.Can, Result: "ok"}}
		main := w.Tokens[w.Inv]
		w.Invs = []int{w.Inv}
		for k := 1; k < 3+j%6; k++ {
			t := main
			t.Caps = append([]ACap(nil), main.Caps...)
			t.Prfs = append([]int(nil), main.Prfs...)
			t.Inline = append([]bool(nil), main.Inline...)
			t.Nonce = fmt.Sprintf("f%d", k)
			t.ID = len(w.Tokens)
			w.Tokens = append(w.Tokens, t)
			w.Invs = append(w.Invs, t.ID)
		}
		normalize(w)
		emit("batchfresh", []string{"C09", mustJSON(w), itoa(cfg.Rng.Intn(1 << 30)), itoa([]int{2, 4, 16}[j%3]), itoa(1 + j%2)}, "fresh-process/"+class, true)
	})
	return nil
}

// execBatch: args = [mode, world, seed, GOMAXPROCS, concurrent requests]
func execBatch(a []string) (res Result) {
	var w AWorld
	if err := json.Unmarshal([]byte(a[1]), &w); err != nil {
		return Result{Impl: "bad-world:" + err.Error()}
	}
	defer func() {
		if r := recover(); r != nil {
			res = Result{Impl: fmt.Sprintf("panic:%v", r), Oracle: fmt.Sprintf("fail:panic: %v", r)}
		}
	}()
	cw, err := Concretise(&w)
	if err != nil {
		return Result{Impl: "concretise-error:" + err.Error()}
	}
	seed := int64(atoi(a[2]))
	cw.forgeReports = seed%4 == 0
	old := runtime.GOMAXPROCS(atoi(a[3]))
	defer runtime.GOMAXPROCS(old)
	conc := atoi(a[4])

	var rmu sync.Mutex
	rng := rand.New(rand.NewSource(seed))
	perturb := func() {
		rmu.Lock()
		k := rng.Intn(6)
		rmu.Unlock()
		switch k {
		case 0:
			runtime.Gosched()
		case 1:
			time.Sleep(time.Duration(50+k*37) * time.Microsecond)
		case 2:
			time.Sleep(time.Millisecond)
		}
	}
	log := &runLog{}
	var calls []handlerCall
	var mu sync.Mutex
	srv, err := cw.buildServer(log, &calls, &mu, perturb)
	if err != nil {
		return Result{Impl: "server-error:" + err.Error()}
	}
	// half of the batches travel over HTTP: one channel shared by all concurrent requests
	if seed%2 == 0 {
		ch, closeFn := httpFront(srv)
		defer closeFn()
		cw.channel = ch
	}
	outs := make([]string, conc)
	var wg sync.WaitGroup
	for c := 0; c < conc; c++ {
		wg.Add(1)
		go func(c int) {
			defer wg.Done()
			defer func() {
				if r := recover(); r != nil {
					outs[c] = fmt.Sprintf("panic:%v", r)
				}
			}()
			var mine []handlerCall
			statuses, problems := cw.serveBatch(srv, &mine)
			var parts []string
			for i, id := range w.Invs {
				st := "?"
				if i < len(statuses) {
					st = statuses[i]
				}
				parts = append(parts, fmt.Sprintf("%d:%s", id, st))
			}
			outs[c] = strings.Join(parts, ";")
			if len(problems) > 0 {
				outs[c] += "|problems:" + strings.Join(problems, ",")
			}
		}(c)
	}
	wg.Wait()
	// concurrent requests must not interfere: all of them see the same, complete answer
	impl := outs[0]
	oracle := "ok"
	for c := 1; c < conc; c++ {
		if outs[c] != outs[0] {
			oracle = fmt.Sprintf("fail:concurrent identical requests were answered differently: %q vs %q", outs[0], outs[c])
		}
	}
	if strings.Contains(impl, "|problems:") {
		oracle = "fail:" + impl[strings.Index(impl, "|problems:")+1:]
	}
	// at most one handler call per (request, invocation)
	per := map[int]int{}
	for _, c := range calls {
		per[c.Inv]++
	}
	occ := map[int]int{}
	for _, id := range w.Invs {
		occ[id]++
	}
	for id, n := range per {
		if n > conc*occ[id] {
			oracle = fmt.Sprintf("fail:handler ran %d times for invocation %d sent %d times", n, id, conc*occ[id])
		}
	}
	// the message server.Execute returns, looked at directly (not through the transport codec): every
	// invocation of the batch finds its receipt
	if len(w.Invs) > 0 {
		var invs []invocation.Invocation
		for _, id := range w.Invs {
			invs = append(invs, cw.D[id])
		}
		if msg, err := message.Build(invs, nil); err == nil {
			if out, err := server.Execute(srv, msg); err == nil {
				for _, id := range w.Invs {
					if _, ok := out.Get(cw.D[id].Link()); !ok && oracle == "ok" {
						oracle = fmt.Sprintf("fail:the message returned by server.Execute has no receipt for invocation %d of the batch", id)
					}
				}
				if len(out.Receipts()) < len(per) && oracle == "ok" {
					oracle = "fail:the message returned by server.Execute lists fewer receipts than invocations ran"
				}
			}
		}
	}
	return Result{Args: []string{a[0], mustJSON(&w), a[2], a[3], a[4]}, Impl: impl, Oracle: oracle}
}
