package main

// Small correspondences added after the eighth round of seeded changes: option plumbing of
// delegation.Delegate / invocation.Invoke against the validity window, client.Execute over HTTP for every
// status, RSA key tags, absentee signers.
import (
	"bytes"
	"fmt"
	"github.com/storacha/go-ucanto/core/dag/blockstore"
	"github.com/storacha/go-ucanto/core/ipld"
	"github.com/storacha/go-ucanto/core/ipld/block"
	"github.com/storacha/go-ucanto/core/ipld/codec/cbor"
	"github.com/storacha/go-ucanto/core/ipld/hash/sha256"
	"github.com/storacha/go-ucanto/ucan/crypto/signature"
	udm "github.com/storacha/go-ucanto/ucan/datamodel/ucan"
	"net/http"
	"net/http/httptest"
	"net/url"
	"time"

	"github.com/storacha/go-ucanto/client"
	"github.com/storacha/go-ucanto/core/delegation"
	"github.com/storacha/go-ucanto/core/invocation"
	"github.com/storacha/go-ucanto/did"
	"github.com/storacha/go-ucanto/principal"
	"github.com/storacha/go-ucanto/principal/absentee"
	edverifier "github.com/storacha/go-ucanto/principal/ed25519/verifier"
	rsasigner "github.com/storacha/go-ucanto/principal/rsa/signer"
	rsaverifier "github.com/storacha/go-ucanto/principal/rsa/verifier"
	thttp "github.com/storacha/go-ucanto/transport/http"
	"github.com/storacha/go-ucanto/ucan"
	"github.com/storacha/go-ucanto/validator"
)

func init() {
	execs["delegwin"] = guard(execDelegWin)
	execs["clientexec"] = guard(execClientExec)
	execs["clientexec2"] = guard(execClientExec2)
	execs["rsatag"] = guard(execRsaTag)
	execs["rsastrip"] = guard(execRsaStrip)
}

// execDelegWin: a self-issued invocation issued through invocation.Invoke with the given window options,
// optionally resting on a delegation issued through delegation.Delegate with them; validated right away.
// args = [exp: none|past|future, nbf: unset|past|future, where: inv|proof]. Impl "ok" | "fail".
func execDelegWin(a []string) Result {
	pools()
	now := int(time.Now().Unix())
	var opts []delegation.Option
	switch a[0] {
	case "none":
		opts = append(opts, delegation.WithNoExpiration())
	case "past":
		opts = append(opts, delegation.WithExpiration(now-5000))
	case "future":
		opts = append(opts, delegation.WithExpiration(now+5000))
	}
	switch a[1] {
	case "past":
		opts = append(opts, delegation.WithNotBefore(now-5000))
	case "future":
		opts = append(opts, delegation.WithNotBefore(now+5000))
	}
	// in both orders: the options are independent of each other
	if a[3] == "rev" {
		for i, j := 0, len(opts)-1; i < j; i, j = i+1, j-1 {
			opts[i], opts[j] = opts[j], opts[i]
		}
	}
	svc, alice, bob := edPool[0], edPool[1], edPool[2]
	capb := validator.NewCapability[NbMap]("test/run", strReader{"did"}, nbReader{}, nil)
	var inv invocation.Invocation
	var err error
	if a[2] == "inv" {
		inv, err = invocation.Invoke(alice, svc, ucan.NewCapability("test/run", alice.DID().String(), NbMap{F: map[string]any{}}), opts...)
	} else {
		var d delegation.Delegation
		d, err = delegation.Delegate(alice, bob, []ucan.Capability[NbMap]{ucan.NewCapability("test/run", alice.DID().String(), NbMap{F: map[string]any{}})}, opts...)
		if err == nil {
			inv, err = invocation.Invoke(bob, svc, ucan.NewCapability("test/run", alice.DID().String(), NbMap{F: map[string]any{}}), delegation.WithProof(delegation.FromDelegation(d)))
		}
	}
	if err != nil {
		return Result{Impl: "issue-error:" + err.Error()}
	}
	ctx := validator.NewValidationContext(svc.Verifier(), capb, validator.IsSelfIssued,
		func(validator.Authorization[any]) validator.Revoked { return nil },
		validator.ProofUnavailable, parseAnyVerifier, validator.FailDIDKeyResolution)
	_, aerr := validator.Access(inv, ctx)
	impl := "ok"
	if aerr != nil {
		impl = "fail"
	}
	want := "ok"
	if a[0] == "past" || a[1] == "future" {
		want = "fail"
	}
	oracle := "ok"
	if impl != want {
		oracle = fmt.Sprintf("fail:a token issued with expiration=%s not-before=%s (%s, options %s) is %s by the validator", a[0], a[1], a[2], a[3], map[string]string{"ok": "accepted", "fail": "refused"}[impl])
	}
	return Result{Impl: impl, Oracle: oracle}
}

// execClientExec: client.Execute through the library's HTTP channel against a peer answering with the
// given status and a well-formed (empty) agent message. args = [status]
func execClientExec(a []string) Result {
	f := c20Setup()
	st := atoi(a[0])
	ts := httptest.NewServer(http.HandlerFunc(func(w http.ResponseWriter, r *http.Request) {
		w.Header().Set("Content-Type", carCT)
		w.WriteHeader(st)
		if st != 204 && st != 304 {
			w.Write(f.bodies["valid0"])
		}
	}))
	defer ts.Close()
	u, _ := url.Parse(ts.URL)
	conn, err := client.NewConnection(edPool[0], thttp.NewHTTPChannel(u))
	if err != nil {
		return Result{Impl: "conn-error"}
	}
	_, err = client.Execute(nil, conn)
	if err != nil {
		return Result{Impl: "error"}
	}
	return Result{Impl: "response"}
}

// execRsaTag: an RSA public / private key whose multicodec tag is written as a non-minimal varint.
// args = [which: verifier|signer, padding bytes count]
func execRsaTag(a []string) Result {
	pools()
	var good []byte
	if a[0] == "verifier" {
		good = rsaPool[0].Verifier().Encode()
	} else {
		good = rsaPool[0].Encode()
	}
	// the tag is the leading varint (two bytes for 0x1205 / 0x1305): lengthen it with continuation bits
	if len(good) < 3 || good[1]&0x80 != 0 {
		return Result{Impl: "skip"}
	}
	n := atoi(a[1])
	bad := []byte{good[0], good[1] | 0x80}
	for i := 1; i < n; i++ {
		bad = append(bad, 0x80)
	}
	bad = append(bad, 0x00)
	bad = append(bad, good[2:]...)
	var err error
	if a[0] == "verifier" {
		_, err = rsaverifier.Decode(bad)
	} else {
		_, err = rsasigner.Decode(bad)
	}
	if n == 0 {
		// control: the well-formed key decodes
		if a[0] == "verifier" {
			_, err = rsaverifier.Decode(good)
		} else {
			_, err = rsasigner.Decode(good)
		}
		if err != nil {
			return Result{Impl: "err", Oracle: "fail:a well-formed RSA key no longer decodes"}
		}
		return Result{Impl: "ok"}
	}
	if err == nil {
		return Result{Impl: "ok", Oracle: "fail:an RSA " + a[0] + " whose multicodec tag is a non-minimal varint is accepted (two byte strings for one key)"}
	}
	return Result{Impl: "err"}
}

// absenteeKeepsDID: an absentee signer for a DID is that DID
func absenteeKeepsDID(s string) bool {
	d, err := did.Parse(s)
	if err != nil {
		return true
	}
	return absentee.From(d).DID() == d && bytes.Equal(absentee.From(d).DID().Bytes(), d.Bytes())
}

func parseAnyVerifier(s string) (principal.Verifier, error) {
	if v, err := edverifier.Parse(s); err == nil {
		return v, nil
	}
	return rsaverifier.Parse(s)
}

// execRsaStrip: an RS256 token whose signature begins with a zero byte; the same token with that byte
// removed (a shorter byte string) must not verify. args = [rsa key index]
func execRsaStrip(a []string) Result {
	pools()
	sg := rsaPool[atoi(a[0])%len(rsaPool)]
	aud := edPool[3]
	for i := 0; i < 4000; i++ {
		d, err := delegation.Delegate(sg, aud, []ucan.Capability[NbMap]{ucan.NewCapability("store/add", sg.DID().String(), NbMap{F: map[string]any{}})},
			delegation.WithNoExpiration(), delegation.WithNonce(fmt.Sprintf("z%d", i)))
		if err != nil {
			return Result{Impl: "issue-error"}
		}
		raw := d.Signature().Raw()
		if len(raw) == 0 || raw[0] != 0 {
			continue
		}
		ok, _ := ucan.VerifySignature(d.Data(), sg.Verifier())
		m := *d.Data().Model()
		m.S = signature.NewSignature(d.Signature().Code(), raw[1:]).Bytes()
		rt, err := block.Encode(&m, udm.Type(), cbor.Codec, sha256.Hasher)
		if err != nil {
			return Result{Impl: "encode-error"}
		}
		bs, _ := blockstore.NewBlockStore(blockstore.WithBlocks([]ipld.Block{rt}))
		ad, _ := delegation.NewDelegation(rt, bs)
		alt, _ := ucan.VerifySignature(ad.Data(), sg.Verifier())
		oracle := "ok"
		if !ok {
			oracle = "fail:C07-unverified a freshly issued RS256 token whose signature starts with a zero byte does not verify"
		} else if alt {
			oracle = "fail:C07-undetected kind=sig-strip-leading-zero the altered token still verifies"
		}
		return Result{Impl: fmt.Sprintf("issued=%v|altered=%v", ok, alt), Oracle: oracle, Extra: map[string]any{"nonce": i}}
	}
	return Result{Impl: "skip:no such signature found"}
}

// execClientExec2: client.Execute through the library's HTTP channel against a peer answering with the given
// status, content type and body (not an agent message unless kind is "car"). args = [status, content type, body hex|"car"]
func execClientExec2(a []string) Result {
	f := c20Setup()
	st := atoi(a[0])
	body := f.bodies["valid0"]
	if a[2] != "car" {
		body = unhexTok(a[2])
	}
	ts := httptest.NewServer(http.HandlerFunc(func(w http.ResponseWriter, r *http.Request) {
		if a[1] != "" {
			w.Header().Set("Content-Type", a[1])
		}
		w.WriteHeader(st)
		if st != 204 && st != 304 {
			w.Write(body)
		}
	}))
	defer ts.Close()
	u, _ := url.Parse(ts.URL)
	conn, err := client.NewConnection(edPool[0], thttp.NewHTTPChannel(u))
	if err != nil {
		return Result{Impl: "conn-error"}
	}
	_, err = client.Execute(nil, conn)
	if err != nil {
		return Result{Impl: "error"}
	}
	return Result{Impl: "response"}
}

func genClientExec2(emit Emit) {
	bodies := []string{"{}", `{"code":429}`, `{"error":{}}`, `{"error":null}`, `{"message":null}`, `{"message":5}`, `{"error":{"message":null}}`, `{"error":"x"}`, "[]", "null", "", "x", `{"message":"m"}`,
		`{"type":"about:blank","title":"Too Many Requests","status":429}`, "\xff\xfe", `{"message":`}
	ctypes := []string{"application/json", "application/json; charset=utf-8", "application/problem+json", "text/plain", "", carCT, "application/JSON"}
	for _, st := range []int{400, 401, 404, 413, 429, 500, 502, 503, 201, 202, 206, 301} {
		for i, b := range bodies {
			emit("clientexec2", []string{itoa(st), ctypes[(i+st)%len(ctypes)], hexTok([]byte(b))}, "client-execute/non-200-bodies", true)
			if i%4 == 0 {
				emit("clientexec2", []string{itoa(st), "application/json", hexTok([]byte(b))}, "client-execute/non-200-json", true)
			}
		}
	}
	for _, b := range bodies[:6] {
		emit("clientexec2", []string{"200", "application/json", hexTok([]byte(b))}, "client-execute/200-not-a-message", true)
	}
	emit("clientexec2", []string{"200", carCT, "car"}, "client-execute/200-message", true)
}
