package main

// C15: no response can crash the client. client.Execute over a fake channel that answers with a
// chosen status and body; then every lookup a caller can make on the response.

import (
	"bytes"
	"encoding/binary"
	"fmt"
	"github.com/ipfs/go-cid"
	cidlink "github.com/ipld/go-ipld-prime/linking/cid"
	mh "github.com/multiformats/go-multihash"
	edverifier "github.com/storacha/go-ucanto/principal/ed25519/verifier"
	"io"
	"log"
	"math/rand"
	"net/http"
	"net/http/httptest"
	"net/url"
	"strings"

	"github.com/ipld/go-ipld-prime/datamodel"
	"github.com/storacha/go-ucanto/client"
	"github.com/storacha/go-ucanto/core/car"
	"github.com/storacha/go-ucanto/core/dag/blockstore"
	"github.com/storacha/go-ucanto/core/delegation"
	"github.com/storacha/go-ucanto/core/invocation"
	"github.com/storacha/go-ucanto/core/invocation/ran"
	"github.com/storacha/go-ucanto/core/ipld"
	"github.com/storacha/go-ucanto/core/ipld/block"
	"github.com/storacha/go-ucanto/core/ipld/codec/cbor"
	"github.com/storacha/go-ucanto/core/ipld/hash/sha256"
	"github.com/storacha/go-ucanto/core/message"
	mdm "github.com/storacha/go-ucanto/core/message/datamodel"
	"github.com/storacha/go-ucanto/core/receipt"
	rdm "github.com/storacha/go-ucanto/core/receipt/datamodel"
	"github.com/storacha/go-ucanto/core/receipt/fx"
	"github.com/storacha/go-ucanto/core/result"
	"github.com/storacha/go-ucanto/transport"
	thttp "github.com/storacha/go-ucanto/transport/http"
	"github.com/storacha/go-ucanto/ucan"
)

func init() {
	gens["C15"] = genC15
	execs["resp"] = execResp
	isolatedOps["resp"] = true
}

// cutExtra: bytes announced but not sent by the "http-cut" server (set while building the body)
var cutExtra = 7

// expectBlocks: for well-formed responses, the number of blocks the client must be able to iterate (-1: no claim)
var expectBlocks = -1

var respKinds = []string{
	"empty-batch", "empty-report", "foreign-report", "normal", "bare-ran", "missing-receipt-block", "missing-invocation-block",
	"receipt-not-a-receipt", "receipt-empty-out", "receipt-no-issuer", "receipt-bad-issuer", "receipt-empty-sig", "receipt-fx", "report-nil-value",
	"root-not-message", "no-roots", "two-roots", "garbage", "empty-body", "truncated", "flipped",
	"receipt-bad-issuer", "receipt-bad-issuer", "text-error", "text-error", "text-error", "receipt-short-sig", "receipt-short-sig", "huge-section", "huge-section", "report-null", "report-null", "http-cut", "http-cut", "http-cut", "links-to-non-ucan", "links-to-non-ucan", "identity-block", "identity-block", "big-aligned",
	"mh-odd", "mh-odd", "mh-odd",
}

func genC15(cfg Config, emit Emit) error {
	n := 30
	if cfg.Thorough() {
		n = 600
	}
	statuses := []int{200, 200, 200, 201, 204, 301, 400, 404, 500, 503}
	for i := 0; i < n; i++ {
		for _, k := range respKinds {
			st := statuses[cfg.Rng.Intn(len(statuses))]
			via := []string{"direct", "http"}[(i+len(k))%2]
			if k == "http-cut" {
				via = "http"
			}
			emit("resp", []string{k, itoa(st), itoa(cfg.Rng.Intn(1 << 30)), via}, k+"/"+via, true)
		}
	}
	genClientExec2(emit)
	return nil
}

type fakeChannel struct {
	status int
	body   []byte
}

func (f fakeChannel) Request(req transport.HTTPRequest) (transport.HTTPResponse, error) {
	io.Copy(io.Discard, req.Body())
	h := http.Header{}
	h.Set("Content-Type", carCT)
	return thttp.NewHTTPResponse(f.status, bytes.NewReader(f.body), h), nil
}

func carOf(roots []ipld.Link, blocks []ipld.Block) []byte {
	b, err := io.ReadAll(car.Encode(roots, func(yield func(ipld.Block, error) bool) {
		for _, x := range blocks {
			if !yield(x, nil) {
				return
			}
		}
	}))
	if err != nil {
		panic(err)
	}
	return b
}

func encodeMsgRoot(ex []ipld.Link, report *mdm.ReportModel) ipld.Block {
	m := mdm.AgentMessageModel{UcantoMessage7: &mdm.DataModel{Execute: ex, Report: report}}
	rt, err := block.Encode(&m, mdm.Type(), cbor.Codec, sha256.Hasher)
	if err != nil {
		panic(err)
	}
	return rt
}

// respBody builds the response body of the given kind; it returns the body and the links worth
// looking up afterwards.
func respBody(kind string, r *rand.Rand) ([]byte, []ipld.Link) {
	pools()
	svc, alice := edPool[0], edPool[1]
	inv, err := invocation.Invoke(alice, svc, ucan.NewCapability("test/run", alice.DID().String(), NbMap{F: map[string]any{}}), delegation.WithNonce(fmt.Sprint(r.Intn(1000))))
	if err != nil {
		panic(err)
	}
	okRes := result.Ok[okOut, ipld.Builder](okOut{1})
	lookups := []ipld.Link{inv.Link(), dummyLink(r.Intn(5))}
	mkMsg := func(rcpts []receipt.AnyReceipt) message.AgentMessage {
		m, err := message.Build(nil, rcpts)
		if err != nil {
			panic(err)
		}
		return m
	}
	msgBytes := func(m message.AgentMessage) []byte {
		var bl []ipld.Block
		for b, err := range m.Blocks() {
			if err != nil {
				break
			}
			bl = append(bl, b)
		}
		return carOf([]ipld.Link{m.Root().Link()}, bl)
	}
	normalRcpt := func(opts ...receipt.Option) receipt.AnyReceipt {
		rc, err := receipt.Issue(svc, okRes, ran.FromInvocation(inv), opts...)
		if err != nil {
			panic(err)
		}
		return rc
	}
	rcptBlocks := func(rc receipt.AnyReceipt) []ipld.Block {
		var bl []ipld.Block
		for b, err := range rc.Blocks() {
			if err != nil {
				break
			}
			bl = append(bl, b)
		}
		return bl
	}
	// a hand-made receipt root with chosen fields
	rawReceipt := func(iss *string, sig []byte, ranLink ipld.Link) ipld.Block {
		okNode, _ := okOut{1}.ToIPLD()
		om := rdm.OutcomeModel[ipld.Node, ipld.Node]{Ran: ranLink, Out: rdm.ResultModel[ipld.Node, ipld.Node]{Ok: &okNode}, Iss: iss}
		rm := rdm.ReceiptModel[ipld.Node, ipld.Node]{Ocm: om, Sig: sig}
		rt, err := block.Encode(&rm, rdm.TypeSystem().TypeByName("Receipt"), cbor.Codec, sha256.Hasher)
		if err != nil {
			panic(err)
		}
		return rt
	}
	rawReceiptFull := func(ranLink ipld.Link, forks []ipld.Link, join ipld.Link, prf []ipld.Link) ipld.Block {
		okNode, _ := okOut{1}.ToIPLD()
		iss := svc.DID().String()
		om := rdm.OutcomeModel[ipld.Node, ipld.Node]{Ran: ranLink, Out: rdm.ResultModel[ipld.Node, ipld.Node]{Ok: &okNode}, Iss: &iss,
			Fx: rdm.EffectsModel{Fork: forks, Join: join}, Prf: prf}
		rm := rdm.ReceiptModel[ipld.Node, ipld.Node]{Ocm: om, Sig: []byte{0xed, 0xa1, 0x03, 0x00}}
		rt, err := block.Encode(&rm, rdm.TypeSystem().TypeByName("Receipt"), cbor.Codec, sha256.Hasher)
		if err != nil {
			panic(err)
		}
		return rt
	}
	reportFor := func(key ipld.Link, root ipld.Link) *mdm.ReportModel {
		return &mdm.ReportModel{Keys: []string{key.String()}, Values: map[string]ipld.Link{key.String(): root}}
	}
	switch kind {
	case "empty-batch":
		return msgBytes(mkMsg(nil)), lookups
	case "empty-report":
		rt := encodeMsgRoot([]ipld.Link{}, &mdm.ReportModel{Keys: []string{}, Values: map[string]ipld.Link{}})
		return carOf([]ipld.Link{rt.Link()}, []ipld.Block{rt}), lookups
	case "foreign-report":
		rc := normalRcpt()
		rt := encodeMsgRoot([]ipld.Link{}, reportFor(dummyLink(9), rc.Root().Link()))
		return carOf([]ipld.Link{rt.Link()}, append(rcptBlocks(rc), rt)), append(lookups, dummyLink(9))
	case "normal":
		return msgBytes(mkMsg([]receipt.AnyReceipt{normalRcpt()})), lookups
	case "receipt-fx":
		rc := normalRcpt(receipt.WithFork(fx.FromLink(dummyLink(3)), fx.FromInvocation(inv)), receipt.WithJoin(fx.FromLink(dummyLink(4))),
			receipt.WithMeta(map[string]any{"a": metaVal()}), receipt.WithProofs(delegation.Proofs{delegation.FromLink(dummyLink(5)), delegation.FromDelegation(inv)}))
		return msgBytes(mkMsg([]receipt.AnyReceipt{rc})), lookups
	case "bare-ran":
		// a receipt whose invocation block does not travel with it
		rc, err := receipt.Issue(svc, okRes, ran.FromLink(inv.Link()))
		if err != nil {
			panic(err)
		}
		rt := encodeMsgRoot([]ipld.Link{}, reportFor(inv.Link(), rc.Root().Link()))
		return carOf([]ipld.Link{rt.Link()}, []ipld.Block{rc.Root(), rt}), lookups
	case "missing-receipt-block":
		rc := normalRcpt()
		rt := encodeMsgRoot([]ipld.Link{}, reportFor(inv.Link(), rc.Root().Link()))
		return carOf([]ipld.Link{rt.Link()}, []ipld.Block{rt}), lookups
	case "missing-invocation-block":
		rc := normalRcpt()
		rt := encodeMsgRoot([]ipld.Link{inv.Link()}, reportFor(inv.Link(), rc.Root().Link()))
		return carOf([]ipld.Link{rt.Link()}, []ipld.Block{rc.Root(), rt}), lookups
	case "receipt-not-a-receipt":
		rt := encodeMsgRoot([]ipld.Link{}, reportFor(inv.Link(), inv.Link()))
		return carOf([]ipld.Link{rt.Link()}, append(rcptBlocks(normalRcpt()), rt)), lookups
	case "receipt-empty-out":
		// a receipt whose result carries neither ok nor error
		om := rdm.OutcomeModel[ipld.Node, ipld.Node]{Ran: inv.Link(), Out: rdm.ResultModel[ipld.Node, ipld.Node]{}}
		rm := rdm.ReceiptModel[ipld.Node, ipld.Node]{Ocm: om, Sig: []byte{}}
		rr, err := block.Encode(&rm, rdm.TypeSystem().TypeByName("Receipt"), cbor.Codec, sha256.Hasher)
		if err != nil {
			panic(err)
		}
		rt := encodeMsgRoot([]ipld.Link{}, reportFor(inv.Link(), rr.Link()))
		return carOf([]ipld.Link{rt.Link()}, []ipld.Block{rr, rt, inv.Root()}), lookups
	case "receipt-no-issuer":
		rr := rawReceipt(nil, []byte{}, inv.Link())
		rt := encodeMsgRoot([]ipld.Link{}, reportFor(inv.Link(), rr.Link()))
		return carOf([]ipld.Link{rt.Link()}, []ipld.Block{rr, rt, inv.Root()}), lookups
	case "receipt-bad-issuer":
		valid := svc.DID().String()
		cands := []string{"", "did:", "nonsense", "did:key:zzz", "did", "did:key", "did:key:", "did:key:z", "did:key:m", "did:key:z6Mk", "did:web:", "did:k\x00y:", "did:key:z" + strings.Repeat("1", 70),
			valid[:len(valid)/2], valid[:len(valid)-1], valid + "x", " " + valid, "DID:KEY:" + valid[8:], valid[:1+r.Intn(len(valid)-1)]}
		s := cands[r.Intn(len(cands))]
		rr := rawReceipt(&s, []byte{0xed, 0xa1, 0x03}, inv.Link())
		rt := encodeMsgRoot([]ipld.Link{}, reportFor(inv.Link(), rr.Link()))
		return carOf([]ipld.Link{rt.Link()}, []ipld.Block{rr, rt, inv.Root()}), lookups
	case "text-error":
		// what gateways and proxies answer: short texts, JSON, HTML; with and without a final newline
		bodies := []string{"Not Found", "Not Found\n", "", "\n", "{\"error\":\"bad gateway\"}", "<html><body>502</body></html>", "x", strings.Repeat("a", 2000), "line one\nline two", "\x00\x01\x02", "ünï"}
		return []byte(bodies[r.Intn(len(bodies))]), lookups
	case "receipt-short-sig":
		// a signature that declares more bytes than it carries (or a size that is absurd)
		s := svc.DID().String()
		sigs := [][]byte{{0xed, 0xa1, 0x03, 0x40, 1, 2, 3}, {0xed, 0xa1, 0x03, 0x40}, {0xed, 0xa1, 0x03, 0x80, 0x80, 0x80, 0x80, 0x80, 0x20}, {0x85, 0xa4, 0xc0, 0x06, 0x80, 0x02, 9}, {0xed, 0xa1, 0x03, 0x01}}
		rr := rawReceipt(&s, sigs[r.Intn(len(sigs))], inv.Link())
		rt := encodeMsgRoot([]ipld.Link{}, reportFor(inv.Link(), rr.Link()))
		return carOf([]ipld.Link{rt.Link()}, []ipld.Block{rr, rt, inv.Root()}), lookups
	case "huge-section":
		// a well-formed response followed by a section that announces an absurd length
		rt := encodeMsgRoot([]ipld.Link{}, nil)
		good := carOf([]ipld.Link{rt.Link()}, []ipld.Block{rt})
		l := []uint64{1 << 62, 1<<62 + 1, 1<<63 - 1, 1 << 63, 1<<64 - 1, 1 << 40, 32<<20 + 1}[r.Intn(7)]
		return append(append(good, binary.AppendUvarint(nil, l)...), 0x01, 0x71), lookups
	case "report-null":
		// {"ucanto/message@7.0.0": {"report": {"<invocation>": null}}}
		n := anyNode(func(na datamodel.NodeAssembler) {
			ma, _ := na.BeginMap(1)
			ma.AssembleKey().AssignString("ucanto/message@7.0.0")
			da, _ := ma.AssembleValue().BeginMap(1)
			da.AssembleKey().AssignString("report")
			ra, _ := da.AssembleValue().BeginMap(1)
			ra.AssembleKey().AssignString(inv.Link().String())
			ra.AssembleValue().AssignNull()
			ra.Finish()
			da.Finish()
			ma.Finish()
		})
		enc, _ := encodeNode(n)
		rt := rawCborBlock(enc)
		return carOf([]ipld.Link{rt.Link()}, []ipld.Block{rt, inv.Root()}), lookups
	case "links-to-non-ucan":
		// ran, a fork, the join and a proof all point at a block that is in the archive but is no token
		junk := rawCborBlock([]byte{0xa1, 0x61, 0x78, 0x01}) // {"x": 1}
		rr := rawReceiptFull(junk.Link(), []ipld.Link{junk.Link()}, junk.Link(), []ipld.Link{junk.Link()})
		rt := encodeMsgRoot([]ipld.Link{}, reportFor(inv.Link(), rr.Link()))
		return carOf([]ipld.Link{rt.Link()}, []ipld.Block{rt, rr, junk}), lookups
	case "identity-block":
		// a well-formed response that also carries a block under an identity CID (its bytes are its link)
		data := []byte{0x18, 0x2a}
		h, _ := mh.Sum(data, mh.IDENTITY, -1)
		ib := block.NewBlock(cidlink.Link{Cid: cid.NewCidV1(0x55, h)}, data)
		rc := normalRcpt()
		m := mkMsg([]receipt.AnyReceipt{rc})
		var bl []ipld.Block
		for b, err := range m.Blocks() {
			if err == nil {
				bl = append(bl, b)
			}
		}
		bl = append(bl, ib)
		expectBlocks = len(bl)
		return carOf([]ipld.Link{m.Root().Link()}, bl), lookups
	case "big-aligned":
		// a large well-formed response in which a section ends exactly at 1, 2, 4 or 8 MiB
		target := []int{1 << 20, 2 << 20, 4 << 20, 8 << 20}[r.Intn(4)]
		rc := normalRcpt()
		m := mkMsg([]receipt.AnyReceipt{rc})
		var bl []ipld.Block
		for b, err := range m.Blocks() {
			if err == nil {
				bl = append(bl, b)
			}
		}
		base := len(carOf([]ipld.Link{m.Root().Link()}, bl))
		d := target - base - 40 // 4 bytes of length, 36 of CID
		pad := make([]byte, d)
		hp, _ := mh.Sum(pad, mh.SHA2_256, -1)
		bl = append(bl, block.NewBlock(cidlink.Link{Cid: cid.NewCidV1(0x55, hp)}, pad), rawCborBlock([]byte{0x18, 0x63}), rawCborBlock([]byte{0x18, 0x64}))
		body := carOf([]ipld.Link{m.Root().Link()}, bl)
		expectBlocks = len(bl)
		return body, lookups
	case "mh-odd":
		// a good response followed by a section whose CID announces sha2-256 (or another registered code) with a
		// digest that is longer / shorter than the function's, or of length zero
		rc := normalRcpt()
		m := mkMsg([]receipt.AnyReceipt{rc})
		var bl []ipld.Block
		for b, err := range m.Blocks() {
			if err == nil {
				bl = append(bl, b)
			}
		}
		body := carOf([]ipld.Link{m.Root().Link()}, bl)
		data := []byte{0x18, 0x63}
		full, _ := mh.Sum(data, mh.SHA2_256, -1)
		dg := full[2:] // the 32 digest bytes
		code := []uint64{mh.SHA2_256, mh.SHA2_256, mh.SHA2_512, mh.SHA1}[r.Intn(4)]
		n := []int{33, 40, 64, 127, 20, 0, 31}[r.Intn(7)]
		digest := make([]byte, n)
		copy(digest, dg)
		var c []byte
		c = append(c, 0x01, 0x55)
		c = appendUvarint(c, code)
		c = appendUvarint(c, uint64(n))
		c = append(c, digest...)
		body = appendUvarint(body, uint64(len(c)+len(data)))
		body = append(body, c...)
		body = append(body, data...)
		return body, lookups
	case "http-cut":
		// a good response of several blocks whose transmission stops exactly at a section boundary
		rr := rawReceipt(nil, []byte{0xed, 0xa1, 0x03, 0x00}, inv.Link())
		rt := encodeMsgRoot([]ipld.Link{}, reportFor(inv.Link(), rr.Link()))
		full := carOf([]ipld.Link{rt.Link()}, []ipld.Block{rt, rr, inv.Root()})
		part := carOf([]ipld.Link{rt.Link()}, []ipld.Block{rt, rr})
		if r.Intn(2) == 0 {
			part = carOf([]ipld.Link{rt.Link()}, []ipld.Block{rt})
		}
		cutExtra = len(full) - len(part)
		return part, lookups
	case "receipt-empty-sig":
		s := svc.DID().String()
		rr := rawReceipt(&s, []byte{}, dummyLink(6))
		rt := encodeMsgRoot([]ipld.Link{}, reportFor(inv.Link(), rr.Link()))
		return carOf([]ipld.Link{rt.Link()}, []ipld.Block{rr, rt}), lookups
	case "report-nil-value":
		// a report whose key list names a key its value map lacks
		rt := encodeMsgRoot([]ipld.Link{}, &mdm.ReportModel{Keys: []string{inv.Link().String(), "not-a-cid"}, Values: map[string]ipld.Link{inv.Link().String(): dummyLink(7), "not-a-cid": dummyLink(8)}})
		return carOf([]ipld.Link{rt.Link()}, []ipld.Block{rt}), lookups
	case "root-not-message":
		return carOf([]ipld.Link{inv.Link()}, []ipld.Block{inv.Root()}), lookups
	case "no-roots":
		return carOf(nil, []ipld.Block{inv.Root()}), lookups
	case "two-roots":
		m := mkMsg([]receipt.AnyReceipt{normalRcpt()})
		var bl []ipld.Block
		for b, err := range m.Blocks() {
			if err != nil {
				break
			}
			bl = append(bl, b)
		}
		return carOf([]ipld.Link{dummyLink(1), m.Root().Link()}, bl), lookups
	case "garbage":
		b := make([]byte, r.Intn(200))
		r.Read(b)
		return b, lookups
	case "empty-body":
		return []byte{}, lookups
	case "truncated":
		b := msgBytes(mkMsg([]receipt.AnyReceipt{normalRcpt()}))
		return b[:r.Intn(len(b))], lookups
	default: // flipped
		b := msgBytes(mkMsg([]receipt.AnyReceipt{normalRcpt()}))
		for k := 0; k < 1+r.Intn(3); k++ {
			b[r.Intn(len(b))] ^= byte(1 << r.Intn(8))
		}
		return b, lookups
	}
}

func execResp(a []string) (res Result) {
	kind, status := a[0], atoi(a[1])
	r := rand.New(rand.NewSource(int64(atoi(a[2]))))
	var step string
	defer func() {
		if rec := recover(); rec != nil {
			res = Result{Impl: "panic", Oracle: fmt.Sprintf("fail:panic in %s: %v", step, rec)}
		}
	}()
	step = "building the response"
	expectBlocks = -1
	body, lookups := respBody(kind, r)
	pools()
	ctPick := 0
	if kind == "text-error" {
		ctPick = 1 + atoi(a[2])%5
	}
	var ch transport.Channel = fakeChannel{status, body}
	if len(a) > 3 && a[3] == "http" {
		// the library's own HTTP channel against a server that answers with this status and body
		ts := httptest.NewServer(http.HandlerFunc(func(w http.ResponseWriter, r *http.Request) {
			io.Copy(io.Discard, r.Body)
			switch ct := []string{carCT, "text/plain", "text/plain; charset=utf-8", "application/json", "text/html", ""}[ctPick%6]; ct {
			case "": // let net/http sniff it
			default:
				w.Header().Set("Content-Type", ct)
			}
			mode := atoi(a[2]) / 7 % 4
			if kind == "http-cut" {
				mode = 2
			}
			if mode == 2 && status == 200 && len(body) > 0 {
				// the connection breaks before the announced length has arrived
				w.Header().Set("Content-Length", itoa(len(body)+cutExtra))
			}
			w.WriteHeader(status)
			if status != 204 && status != 304 {
				if mode == 1 { // no Content-Length: the reply is streamed
					if f, ok := w.(http.Flusher); ok {
						f.Flush()
					}
				}
				w.Write(body)
			}
		}))
		ts.Config.ErrorLog = log.New(io.Discard, "", 0)
		defer func() { ts.CloseClientConnections(); ts.Close() }()
		u, _ := url.Parse(ts.URL)
		ch = thttp.NewHTTPChannel(u)
	}
	conn, err := client.NewConnection(edPool[0], ch)
	if err != nil {
		return Result{Impl: "conn-error"}
	}
	step = "client.Execute"
	resp, err := client.Execute(nil, conn)
	// was the reply deliberately broken off (see the server above)?
	broken := len(a) > 3 && a[3] == "http" && (kind == "http-cut" || atoi(a[2])/7%4 == 2)
	if broken {
		expectBlocks = -1
	}
	if err != nil {
		if expectBlocks >= 0 && status == 200 {
			return Result{Impl: "error", Oracle: "fail:a well-formed response is refused by client.Execute: " + err.Error()}
		}
		return Result{Impl: "error", Oracle: "ok"}
	}
	var trace []string
	rdr, _ := receipt.NewReceiptReader[ipld.Node, ipld.Node](anyResultSchema)
	var rlinks []ipld.Link
	for _, l := range lookups {
		step = "Get(" + l.String() + ")"
		rl, ok := resp.Get(l)
		trace = append(trace, fmt.Sprintf("get=%v", ok))
		if ok && rl != nil {
			rlinks = append(rlinks, rl)
		}
	}
	step = "Blocks()"
	nb := 0
	blkErr := false
	for _, err := range resp.Blocks() {
		if err != nil {
			blkErr = true
			break
		}
		nb++
	}
	trace = append(trace, fmt.Sprintf("blocks=%d", nb))
	if expectBlocks >= 0 && status == 200 && (blkErr || nb != expectBlocks) {
		return Result{Impl: "response", Oracle: fmt.Sprintf("fail:a well-formed response of %d blocks reads back as %d blocks (iteration error: %v)", expectBlocks, nb, blkErr)}
	}
	if kind == "http-cut" && status == 200 && !blkErr {
		return Result{Impl: "response", Oracle: "fail:a reply whose transmission broke off before the announced length was accepted as a complete response (no error from Execute, none from its blocks)"}
	}
	if am, ok := resp.(message.AgentMessage); ok {
		step = "Receipts()"
		rlinks = append(rlinks, am.Receipts()...)
		step = "Invocations()"
		_ = am.Invocations()
	}
	type anyRcpt = receipt.Receipt[ipld.Node, ipld.Node]
	var readers []func(rl ipld.Link) (anyRcpt, error)
	readers = append(readers, func(rl ipld.Link) (anyRcpt, error) { return rdr.Read(rl, resp.Blocks()) })
	readers = append(readers, func(rl ipld.Link) (anyRcpt, error) {
		br, err := blockstore.NewBlockReader(blockstore.WithBlocksIterator(resp.Blocks()))
		if err != nil {
			return nil, err
		}
		return receipt.NewReceipt[ipld.Node, ipld.Node](rl, br, rdm.TypeSystem().TypeByName("Receipt"))
	})
	for _, rl := range rlinks {
		for ri, read := range readers {
			step = fmt.Sprintf("reading receipt %s with reader %d", rl.String(), ri)
			rc, err := read(rl)
			if err != nil {
				trace = append(trace, "read=err")
				continue
			}
			trace = append(trace, "read=ok")
			step = "Receipt.Out"
			result.MatchResultR0(rc.Out(), func(o ipld.Node) { nodeKind(o) }, func(x ipld.Node) { nodeKind(x) })
			step = "Receipt.Ran"
			_ = rc.Ran().Link()
			// whatever the receipt embeds is looked at the way an application does
			look := func(d delegation.Delegation) {
				if d == nil {
					return
				}
				_ = d.Link()
				if p := d.Issuer(); p != nil {
					_ = p.DID().String()
				}
				if p := d.Audience(); p != nil {
					_ = p.DID().String()
				}
				for _, c := range d.Capabilities() {
					_, _ = c.Can(), c.With()
				}
				_, _, _, _ = d.Expiration(), d.NotBefore(), d.Nonce(), d.Facts()
				_ = d.Signature().Raw()
				for _, pl := range d.Proofs() {
					_ = pl.String()
				}
			}
			step = "Receipt.Ran().Invocation() fields"
			if inv, ok := rc.Ran().Invocation(); ok {
				look(inv)
			}
			step = "effect invocation fields"
			for _, f := range rc.Fx().Fork() {
				if inv, ok := f.Invocation(); ok {
					look(inv)
				}
			}
			if inv, ok := rc.Fx().Join().Invocation(); ok {
				look(inv)
			}
			step = "proof delegation fields"
			for _, pr := range rc.Proofs() {
				if d, ok := pr.Delegation(); ok {
					look(d)
				}
			}
			step = "Receipt.Issuer"
			if p := rc.Issuer(); p != nil {
				_ = p.DID().String()
			}
			step = "Receipt.Fx"
			e := rc.Fx()
			for _, f := range e.Fork() {
				_ = f.Link()
			}
			_ = e.Join()
			step = "Receipt.Meta"
			_ = rc.Meta()
			step = "Receipt.Proofs"
			for _, p := range rc.Proofs() {
				_ = p.Link()
			}
			step = "Receipt.Signature"
			s := rc.Signature()
			_, _, _ = s.Code(), s.Size(), s.Raw()
			step = "Receipt.VerifySignature"
			if p := rc.Issuer(); p != nil {
				if v, err := edverifier.Parse(p.DID().String()); err == nil {
					_ = v.Verify([]byte("anything"), s)
				}
			}
			step = "Receipt.Blocks"
			for _, err := range rc.Blocks() {
				if err != nil {
					break
				}
			}
			step = "message.Build with the receipt"
			_, _ = message.Build(nil, []receipt.AnyReceipt{rc})
		}
	}
	return Result{Impl: "response", Oracle: "ok", Soft: strings.Join(trace, ",")}
}

func nodeKind(n ipld.Node) datamodel.Kind {
	if n == nil {
		return datamodel.Kind_Invalid
	}
	return n.Kind()
}

func metaVal() *int64 {
	x := int64(3)
	return &x
}

func appendUvarint(b []byte, v uint64) []byte {
	for v >= 0x80 {
		b = append(b, byte(v)|0x80)
		v >>= 7
	}
	return append(b, byte(v))
}
