package main

// DAG-CBOR correspondence: the Lean byte-level codec model (Model/Cbor.lean) against go-ipld-prime's
// dagcbor as go-ucanto uses it.
//   cbor      : a generated IPLD value of any kind -> bytes written by dagcbor.Encode, and whether
//               decoding those bytes gives the value back
//   cborblock : a real block produced by the library (token, receipt, message, archive descriptor) ->
//               decoded as a plain node, re-encoded: the bytes must be the block's own bytes
import (
	"bytes"
	"encoding/hex"
	"encoding/json"
	"fmt"
	"io"
	"math/rand"
	"sort"
	"strings"

	"github.com/ipld/go-ipld-prime/codec/dagcbor"
	"github.com/ipld/go-ipld-prime/datamodel"
	cidlink "github.com/ipld/go-ipld-prime/linking/cid"
	"github.com/storacha/go-ucanto/core/delegation"
	"github.com/storacha/go-ucanto/core/invocation"
	"github.com/storacha/go-ucanto/core/invocation/ran"
	"github.com/storacha/go-ucanto/core/ipld"
	"github.com/storacha/go-ucanto/core/message"
	"github.com/storacha/go-ucanto/core/receipt"
	"github.com/storacha/go-ucanto/core/receipt/fx"
	"github.com/storacha/go-ucanto/core/result"
	"github.com/storacha/go-ucanto/ucan"
)

func init() {
	execs["cbor"] = guard(execCbor)
	execs["cborblock"] = guard(execCborBlock)
}

// nodeToCJ writes a node in the small JSON form the driver reads:
// "z" null | true/false | {"i":"<decimal>"} | {"s":hex utf8} | {"b":hex} | {"l":hex cid} | {"a":[..]} | {"m":[[hexkey, v],..]}
func nodeToCJ(n datamodel.Node) (any, error) {
	switch n.Kind() {
	case datamodel.Kind_Null:
		return "z", nil
	case datamodel.Kind_Bool:
		b, _ := n.AsBool()
		return b, nil
	case datamodel.Kind_Int:
		i, err := n.AsInt()
		if err != nil {
			return nil, err
		}
		return map[string]any{"i": fmt.Sprint(i)}, nil
	case datamodel.Kind_String:
		s, _ := n.AsString()
		return map[string]any{"s": hex.EncodeToString([]byte(s))}, nil
	case datamodel.Kind_Bytes:
		b, _ := n.AsBytes()
		return map[string]any{"b": hex.EncodeToString(b)}, nil
	case datamodel.Kind_Link:
		l, _ := n.AsLink()
		cl, ok := l.(cidlink.Link)
		if !ok {
			return nil, fmt.Errorf("link kind")
		}
		return map[string]any{"l": hex.EncodeToString(cl.Cid.Bytes())}, nil
	case datamodel.Kind_List:
		out := []any{}
		it := n.ListIterator()
		for !it.Done() {
			_, v, err := it.Next()
			if err != nil {
				return nil, err
			}
			x, err := nodeToCJ(v)
			if err != nil {
				return nil, err
			}
			out = append(out, x)
		}
		return map[string]any{"a": out}, nil
	case datamodel.Kind_Map:
		out := []any{}
		it := n.MapIterator()
		for !it.Done() {
			k, v, err := it.Next()
			if err != nil {
				return nil, err
			}
			ks, err := k.AsString()
			if err != nil {
				return nil, err
			}
			x, err := nodeToCJ(v)
			if err != nil {
				return nil, err
			}
			out = append(out, []any{hex.EncodeToString([]byte(ks)), x})
		}
		return map[string]any{"m": out}, nil
	}
	return nil, fmt.Errorf("kind %v outside the model", n.Kind())
}

func encodeNode(n datamodel.Node) ([]byte, error) {
	var buf bytes.Buffer
	if err := dagcbor.Encode(n, &buf); err != nil {
		return nil, err
	}
	return buf.Bytes(), nil
}

// randTVWide: like randTV but with boundary integers, long strings / lists (multi-byte heads) and
// keys whose canonical order differs from their alphabetical order
func randTVWide(r *rand.Rand, depth int) TV { budget := 70000; return randTVW(r, depth, &budget) }

// budget: bytes still available for long strings in this value (keeps a case below ~150 kB)
func randTVW(r *rand.Rand, depth int, budget *int) TV {
	switch k := r.Intn(12); {
	case k == 0:
		return tvNull()
	case k == 1:
		return tvBool(r.Intn(2) == 0)
	case k <= 3:
		b := []int64{0, 1, 23, 24, 25, 255, 256, 65535, 65536, 1<<32 - 1, 1 << 32, 1<<63 - 1, -1, -24, -25, -256, -257, -65536, -65537, -(1 << 32), -(1 << 32) - 1, -(1 << 63)}
		if r.Intn(3) == 0 {
			return tvInt(r.Int63() >> uint(r.Intn(63)) * int64(1-2*r.Intn(2)))
		}
		return tvInt(b[r.Intn(len(b))])
	case k == 4:
		n := []int{0, 1, 23, 24, 255, 256, 300, 66000}[r.Intn(8)]
		if n > *budget {
			n = r.Intn(24)
		}
		*budget -= n
		s := make([]byte, n)
		for i := range s {
			s[i] = "abcxyz09 /é"[r.Intn(10)]
		}
		return tvStr(string(bytes.ToValidUTF8(s, []byte("?"))))
	case k == 5:
		n := []int{0, 1, 23, 24, 255, 256, 66000}[r.Intn(7)]
		if n > *budget {
			n = r.Intn(24)
		}
		*budget -= n
		b := make([]byte, n)
		r.Read(b)
		return tvBytes(b)
	case k == 6:
		return tvLink(cidPool[r.Intn(len(cidPool))])
	case k <= 8 && depth > 0:
		n := []int{0, 1, 2, 3, 23, 24, 30}[r.Intn(7)]
		if depth < 2 && n > 3 {
			n = 3
		}
		l := make([]TV, n)
		for i := range l {
			l[i] = randTVW(r, depth-1, budget)
		}
		return tvList(l)
	case depth > 0:
		n := []int{0, 1, 2, 3, 5, 24, 26}[r.Intn(7)]
		if depth < 2 && n > 5 {
			n = 5
		}
		var m []KV
		seen := map[string]bool{}
		for i := 0; i < n; i++ {
			keys := []string{"", "a", "b", "aa", "ab", "z", "B", "é", "ran", "out", "fx", "meta", "iss", "prf", "with", "can", "nb", fmt.Sprintf("k%d", i), fmt.Sprintf("key-%03d", r.Intn(40))}
			k := keys[r.Intn(len(keys))]
			if seen[k] {
				k = fmt.Sprintf("%s~%d", k, i)
			}
			seen[k] = true
			m = append(m, KV{k, randTVW(r, depth-1, budget)})
		}
		return tvMap(m)
	}
	return tvInt(int64(r.Intn(100)))
}

func genCbor(cfg Config, emit Emit, n int) {
	for i := 0; i < n; i++ {
		tv := randTVWide(cfg.Rng, 1+cfg.Rng.Intn(4))
		emit("cbor", []string{mustJSON(tv)}, "cbor/"+tv.T, true)
	}
}

// execCbor: args [TV json] -> Args [CVal json], Impl "<hex of dagcbor.Encode>|<T/F decode gives the value back>"
func execCbor(a []string) Result {
	var tv TV
	if err := json.Unmarshal([]byte(a[0]), &tv); err != nil {
		return Result{Impl: "bad-tv"}
	}
	n, err := tv.node()
	if err != nil {
		return Result{Impl: "skip:" + err.Error()}
	}
	cj, err := nodeToCJ(n)
	if err != nil {
		return Result{Impl: "skip:" + err.Error()}
	}
	enc, err := encodeNode(n)
	if err != nil {
		return Result{Args: []string{mustJSON(cj)}, Impl: "encode-error"}
	}
	// read back: the decoded node, written again, gives the same bytes, and it is the value written
	// up to the order of map entries (DeepEqual is order sensitive; the encoder sorts)
	back, err := decodeAny(enc)
	re := []byte{}
	same := false
	if err == nil {
		re, _ = encodeNode(back)
		cb, e2 := nodeToCJ(back)
		same = e2 == nil && bytes.Equal(re, enc) && canonJSON(cb) == canonJSON(cj)
	}
	oracle := "ok"
	if !same {
		oracle = fmt.Sprintf("fail:dag-cbor does not read back what it wrote (decode error %v, re-encoding equal %v)", err, bytes.Equal(re, enc))
	}
	return Result{Args: []string{mustJSON(cj)}, Impl: hex.EncodeToString(enc) + "|" + map[bool]string{true: "T", false: "F"}[same], Oracle: oracle}
}

// execCborBlock: args [hex block, what] -> Impl "<hex of re-encoding the decoded block>"
func execCborBlock(a []string) Result {
	b, err := hex.DecodeString(a[0])
	if err != nil {
		return Result{Impl: "bad-hex"}
	}
	n, err := decodeAny(b)
	if err != nil {
		return Result{Impl: "undecodable"}
	}
	re, err := encodeNode(n)
	if err != nil {
		return Result{Impl: "encode-error"}
	}
	oracle := "ok"
	if !bytes.Equal(re, b) {
		oracle = "fail:a block the library wrote is not in the encoder's canonical form (decode then encode gives other bytes)"
	}
	return Result{Impl: hex.EncodeToString(re), Oracle: oracle}
}

// genCborBlocks: real blocks of every kind the library writes
func genCborBlocks(cfg Config, emit Emit, n int) {
	pools()
	r := cfg.Rng
	o := genOpts{maxDepth: 4, sessions: true, sessionPct: 40, caveats: true, caveatPct: 50}
	for i := 0; i < n; i++ {
		var class string
		w := genWorld(r, 0, o, &class)
		normalize(w)
		cw, err := Concretise(w)
		if err != nil {
			continue
		}
		seen := map[string]bool{}
		put := func(b ipld.Block, what string) {
			if b == nil || seen[b.Link().String()] || len(b.Bytes()) > 200000 {
				return
			}
			if cl, ok := b.Link().(cidlink.Link); ok && cl.Cid.Prefix().Codec != 0x71 {
				return
			}
			seen[b.Link().String()] = true
			emit("cborblock", []string{hex.EncodeToString(b.Bytes()), what}, "block/"+what, true)
		}
		for _, d := range cw.D {
			put(d.Root(), "token")
		}
		top := cw.D[w.Inv]
		// the archive descriptor block
		if ab, err := io.ReadAll(top.Archive()); err == nil {
			if x, err := delegation.Extract(ab); err == nil {
				for blk, err := range x.Blocks() {
					if err == nil {
						put(blk, "archive")
					}
				}
			}
		}
		// message and receipts
		if msg, err := message.Build([]invocation.Invocation{top}, nil); err == nil {
			put(msg.Root(), "message")
		}
		if svc := cw.P[w.Authority].signer; svc != nil {
			tv := noNull(randTV(r, 2))
			var res result.Result[tvBuilder, tvBuilder]
			if i%2 == 0 {
				res = result.Ok[tvBuilder, tvBuilder](tvBuilder{tv})
			} else {
				res = result.Error[tvBuilder, tvBuilder](tvBuilder{tv})
			}
			var opts []receipt.Option
			if i%3 == 0 {
				opts = append(opts, receipt.WithFork(fx.FromLink(dummyLink(60+i))), receipt.WithJoin(fx.FromInvocation(top)))
			}
			if i%4 == 0 {
				opts = append(opts, receipt.WithProofs(delegation.Proofs{delegation.FromLink(dummyLink(70 + i))}))
			}
			if rc, err := receipt.Issue(svc, res, ranOf(top, i), opts...); err == nil {
				put(rc.Root(), "receipt")
				if rm, err := message.Build(nil, []receipt.AnyReceipt{rc}); err == nil {
					put(rm.Root(), "message")
				}
			}
		}
		_ = ucan.Now
	}
}

func ranOf(inv invocation.Invocation, i int) ran.Ran {
	if i%2 == 0 {
		return ran.FromInvocation(inv)
	}
	return ran.FromLink(inv.Link())
}

// canonJSON: the JSON form with map entries sorted by key (hex), recursively
func canonJSON(v any) string {
	switch x := v.(type) {
	case map[string]any:
		if a, ok := x["a"].([]any); ok {
			out := make([]string, len(a))
			for i := range a {
				out[i] = canonJSON(a[i])
			}
			return "[" + strings.Join(out, ",") + "]"
		}
		if m, ok := x["m"].([]any); ok {
			out := make([]string, len(m))
			for i := range m {
				e := m[i].([]any)
				out[i] = fmt.Sprint(e[0]) + ":" + canonJSON(e[1])
			}
			sort.Strings(out)
			return "{" + strings.Join(out, ",") + "}"
		}
	}
	return mustJSON(v)
}
