package main

// rdtree: the reader combinators capabilities are built from (schema.Or, schema.Mapped, schema.Literal)
// against the Lean model Rd.eval. A reader tree is generated, built ONCE from the library's combinators,
// and then asked to read a sequence of inputs (with repeats); the model answers each input on its own.

import (
	"encoding/json"
	"fmt"
	"math/rand"
	"strconv"
	"strings"

	"github.com/storacha/go-ucanto/core/result/failure"
	"github.com/storacha/go-ucanto/core/schema"
)

func init() {
	execs["rdtree"] = guard(execRdTree)
}

type RTree struct {
	T   string   `json:"t"` // leaf | lit | map | or
	Tbl [][2]int `json:"tbl,omitempty"`
	V   int      `json:"v"`
	R   *RTree   `json:"r,omitempty"`
	Cs  []RTree  `json:"cs,omitempty"`
	// Odd: the reader (or converter) fails with a failure that is not a schema error (model: a failure)
	Odd bool `json:"odd,omitempty"`
}

type tableReader struct {
	m   map[string]string
	odd bool
}

func (t tableReader) Read(in string) (string, failure.Failure) {
	if o, ok := t.m[in]; ok {
		return o, nil
	}
	if t.odd {
		return "", failure.FromError(fmt.Errorf("table has no entry for %q", in))
	}
	return "", schema.NewSchemaError("no entry")
}

func tblMap(tbl [][2]int) map[string]string {
	m := map[string]string{}
	for _, kv := range tbl {
		k := strconv.Itoa(kv[0])
		if _, dup := m[k]; !dup { // first entry wins, as in the model's table lookup
			m[k] = strconv.Itoa(kv[1])
		}
	}
	return m
}

func buildReader(t *RTree) schema.Reader[string, string] {
	switch t.T {
	case "leaf":
		return tableReader{tblMap(t.Tbl), t.Odd}
	case "lit":
		return schema.Literal(strconv.Itoa(t.V))
	case "map":
		m := tblMap(t.Tbl)
		odd := t.Odd
		return schema.Mapped[string, string, string](buildReader(t.R), func(s string) (string, failure.Failure) {
			if o, ok := m[s]; ok {
				return o, nil
			}
			if odd {
				return "", failure.FromError(fmt.Errorf("cannot convert %q", s))
			}
			return "", schema.NewSchemaError("cannot convert")
		})
	default:
		var cs []schema.Reader[string, string]
		for i := range t.Cs {
			cs = append(cs, buildReader(&t.Cs[i]))
		}
		return schema.Or(cs...)
	}
}

func randTbl(r *rand.Rand) [][2]int {
	n := r.Intn(4)
	tbl := [][2]int{}
	for i := 0; i < n; i++ {
		tbl = append(tbl, [2]int{r.Intn(6), r.Intn(8)})
	}
	return tbl
}

func randRTree(r *rand.Rand, depth int) RTree {
	k := r.Intn(10)
	switch {
	case depth == 0 || k < 3:
		return RTree{T: "leaf", Tbl: randTbl(r), Odd: r.Intn(3) == 0}
	case k < 4:
		return RTree{T: "lit", V: r.Intn(6)}
	case k < 6:
		sub := randRTree(r, depth-1)
		return RTree{T: "map", R: &sub, Tbl: randTbl(r), Odd: r.Intn(3) == 0}
	default:
		// at least one member: a union of no readers is outside the domain (schema.Or() cannot even render
		// its failure: errors.Join of nothing is nil); see DESIGN 6
		n := 1 + r.Intn(3)
		t := RTree{T: "or", Cs: []RTree{}}
		for i := 0; i < n; i++ {
			t.Cs = append(t.Cs, randRTree(r, depth-1))
		}
		return t
	}
}

func genRdTree(cfg Config, emit Emit, quick, thorough int) {
	n := quick
	if cfg.Thorough() {
		n = thorough
	}
	for i := 0; i < n; i++ {
		t := randRTree(cfg.Rng, 1+i%4)
		if i%3 == 0 && t.T != "or" {
			t = RTree{T: "or", Cs: []RTree{t, randRTree(cfg.Rng, 2), randRTree(cfg.Rng, 1)}}
		}
		var xs []int
		for k := 1 + cfg.Rng.Intn(12); k > 0; k-- {
			xs = append(xs, cfg.Rng.Intn(7))
		}
		emit("rdtree", []string{mustJSON(t), mustJSON(xs)}, "readers/"+t.T, true)
	}
}

func execRdTree(a []string) Result {
	var t RTree
	var xs []int
	if json.Unmarshal([]byte(a[0]), &t) != nil || json.Unmarshal([]byte(a[1]), &xs) != nil {
		return Result{Impl: "bad-args"}
	}
	rd := buildReader(&t)
	var out []string
	for _, x := range xs {
		o, err := rd.Read(strconv.Itoa(x))
		if err != nil {
			out = append(out, "-")
		} else {
			out = append(out, "o"+o)
		}
	}
	return Result{Impl: strings.Join(out, ",")}
}
