package main

// Abstract "worlds" (principals, tokens with ground-truth signing facts, resolvers, policies) and
// their concretisation into real go-ucanto objects through the public API.

import (
	"crypto/ed25519"
	stdsha "crypto/sha256"
	_ "embed"
	"encoding/json"
	"fmt"
	"github.com/storacha/go-ucanto/client"
	"github.com/storacha/go-ucanto/transport"
	pdm "github.com/storacha/go-ucanto/ucan/datamodel/payload"
	"github.com/storacha/go-ucanto/ucan/formatter"
	"net/url"
	"sort"
	"strings"
	"sync"

	"github.com/ipfs/go-cid"
	"github.com/ipld/go-ipld-prime/datamodel"
	cidlink "github.com/ipld/go-ipld-prime/linking/cid"
	"github.com/ipld/go-ipld-prime/node/basicnode"
	mh "github.com/multiformats/go-multihash"
	varint "github.com/multiformats/go-varint"
	"github.com/storacha/go-ucanto/core/dag/blockstore"
	"github.com/storacha/go-ucanto/core/delegation"
	"github.com/storacha/go-ucanto/core/ipld"
	"github.com/storacha/go-ucanto/core/ipld/block"
	"github.com/storacha/go-ucanto/core/ipld/codec/cbor"
	"github.com/storacha/go-ucanto/core/ipld/hash/sha256"
	"github.com/storacha/go-ucanto/core/result/failure"
	"github.com/storacha/go-ucanto/core/schema"
	"github.com/storacha/go-ucanto/did"
	"github.com/storacha/go-ucanto/principal"
	"github.com/storacha/go-ucanto/principal/absentee"
	edsigner "github.com/storacha/go-ucanto/principal/ed25519/signer"
	edverifier "github.com/storacha/go-ucanto/principal/ed25519/verifier"
	rsasigner "github.com/storacha/go-ucanto/principal/rsa/signer"
	rsaverifier "github.com/storacha/go-ucanto/principal/rsa/verifier"
	"github.com/storacha/go-ucanto/principal/signer"
	"github.com/storacha/go-ucanto/ucan"
	"github.com/storacha/go-ucanto/ucan/crypto/signature"
	udm "github.com/storacha/go-ucanto/ucan/datamodel/ucan"
	"github.com/storacha/go-ucanto/validator"
)

// ---------------------------------------------------------------------------------------------
// abstract world (this is what the Lean driver parses)
// ---------------------------------------------------------------------------------------------

type APrincipal struct {
	Kind  string `json:"kind"` // ed | rsa | web | mailto
	Did   string `json:"did"`
	Key   bool   `json:"key"`   // did:key
	Parse bool   `json:"parse"` // ParsePrincipal succeeds on this did:key
	// Wraps: for non-key principals holding a real key: index of the key principal whose key it is
	// (-1: absentee, no key)
	Wraps int `json:"wraps"`
}

type ACap struct {
	Can  string   `json:"can"`
	With string   `json:"with"`
	Nb   [][2]int `json:"nb"` // field id, value id; field 0 is "proof" (value = token id it links to)
}

type AToken struct {
	ID     int    `json:"id"`
	Iss    int    `json:"iss"`
	Aud    int    `json:"aud"`
	Caps   []ACap `json:"caps"`
	Prfs   []int  `json:"prfs"`
	Inline []bool `json:"inline"` // parallel to Prfs: proof embedded as blocks (else bare link)
	Exp    *int   `json:"exp"`    // absolute seconds, nil = never expires
	Nbf    int    `json:"nbf"`    // absolute seconds, 0 = unset
	Signer int    `json:"signer"` // key principal whose key signed; -1: absentee (empty non-standard signature)
	Intact bool   `json:"intact"` // false: one field was altered after signing
	Tamper string `json:"tamper,omitempty"`
	AlgOk  bool   `json:"algOk"`
	Nonce  string `json:"nnc,omitempty"`
	// ExpRel / NbfRel: offsets from the wall-clock second at which the case is executed (C03); the
	// executor turns them into absolute Exp / Nbf
	ExpRel *int `json:"expRel,omitempty"`
	NbfRel *int `json:"nbfRel,omitempty"`
	// Malform: "field:variant" edits applied to the encoded token after signing (C11)
	Malform []string `json:"malform,omitempty"`
	// PreAttach: blocks attached to the token right after it is issued, i.e. before any token citing it
	// is issued (C13)
	PreAttach int `json:"preAttach,omitempty"`
	// Bare (harness only; the model reads such a citation as link-only): the citation embeds the proof's
	// root block alone - the same token as it comes out of an archive that lacks its own proofs. Only set
	// where the same proof is also cited fully embedded by the same token, so that the blocks that travel
	// are those the model predicts.
	Bare []bool `json:"bare,omitempty"`
	// EmptyAttach: a block of no bytes (identity CID) and its hashed twin are attached to the token
	EmptyAttach bool `json:"emptyAttach,omitempty"`
}

// preBlock: the k-th block pre-attached to token tid (valid CBOR: [tid, k])
func preBlock(tid, k int) ipld.Block {
	return rawCborBlock([]byte{0x82, 0x18, byte(24 + tid%200), 0x18, byte(24 + k)})
}

func preBlockID(tid, k int) int { return 20000 + 100*tid + k }

type ADesc struct {
	Can     string `json:"can"`
	With    string `json:"with"`    // any | did
	Derives string `json:"derives"` // default | eq | le
}

type AWorld struct {
	Principals   []APrincipal `json:"principals"`
	Authority    int          `json:"authority"`
	AuthorityKey int          `json:"authorityKey"`
	Tokens       []AToken     `json:"tokens"`
	Inv          int          `json:"inv"`
	Resolver     []int        `json:"resolver"`   // token ids the proof resolver can supply
	ResolveKey   [][2]int     `json:"resolveKey"` // non-key principal -> key principal
	CanIssue     string       `json:"canIssue"`   // self | never | authorityAll | table
	Table        []ATableRow  `json:"table,omitempty"`
	Revoked      []int        `json:"revoked"`
	Desc         ADesc        `json:"desc"`
	Now          int          `json:"now"`
	// server-level cases (C08/C09): the batch of invocations sent in one request and the service
	// methods registered on the server
	Invs     []int  `json:"invs,omitempty"`
	Services []ASvc `json:"services,omitempty"`
	// BS[i]: ids of the tokens whose root block is in token i's own store (computed from the real
	// delegation objects after concretisation)
	BS [][]int `json:"bs"`
}

type ASvc struct {
	Can    string `json:"can"`
	Result string `json:"result"` // ok | okfx | err
}

type ATableRow struct {
	With string `json:"with"`
	P    int    `json:"p"`
}

// ---------------------------------------------------------------------------------------------
// principals
// ---------------------------------------------------------------------------------------------

type cPrincipal struct {
	did    did.DID
	signer principal.Signer // nil for absentee
}

var (
	edPool   []principal.Signer
	rsaPool  []principal.Signer
	poolOnce sync.Once
	poolMu   sync.Mutex
)

const edPoolSize = 24

//go:embed rsakeys.txt
var rsaKeys string

// detEd derives an Ed25519 signer deterministically from a name (stable DIDs across runs make
// recorded cases replayable).
func detEd(name string) principal.Signer {
	seed := stdsha.Sum256([]byte(name))
	priv := ed25519.NewKeyFromSeed(seed[:])
	pub := priv.Public().(ed25519.PublicKey)
	b := varint.ToUvarint(0x1300)
	b = append(b, seed[:]...)
	b = append(b, varint.ToUvarint(0xed)...)
	b = append(b, pub...)
	s, err := edsigner.Decode(b)
	if err != nil {
		panic(err)
	}
	return s
}

func pools() {
	poolOnce.Do(func() {
		for i := 0; i < edPoolSize; i++ {
			edPool = append(edPool, detEd(fmt.Sprintf("verif-ed-%d", i)))
		}
		for _, line := range strings.Fields(rsaKeys) {
			s, err := rsasigner.Parse(line)
			if err != nil {
				panic(err)
			}
			rsaPool = append(rsaPool, s)
		}
	})
}

// principal slot -> concrete principal. Slots are stable names inside a world: ed0.., rsa0.., web0.., mailto0..
func concretePrincipals(w *AWorld) []cPrincipal {
	pools()
	out := make([]cPrincipal, len(w.Principals))
	ne, nr, nw, nm := 0, 0, 0, 0
	for i := range w.Principals {
		p := &w.Principals[i]
		switch p.Kind {
		case "ed":
			s := edPool[ne%edPoolSize]
			ne++
			out[i] = cPrincipal{s.DID(), s}
		case "rsa":
			s := rsaPool[nr%len(rsaPool)]
			nr++
			out[i] = cPrincipal{s.DID(), s}
		case "web":
			d, _ := did.Parse(fmt.Sprintf("did:web:svc%d.example.com", nw))
			nw++
			out[i] = cPrincipal{did: d}
		case "mailto":
			d, _ := did.Parse(fmt.Sprintf("did:mailto:web.mail:user%d", nm))
			nm++
			out[i] = cPrincipal{did: d}
		default:
			panic("principal kind " + p.Kind)
		}
		p.Did = out[i].did.String()
		p.Key = strings.HasPrefix(p.Did, "did:key:")
	}
	for i := range w.Principals {
		p := w.Principals[i]
		if !p.Key && p.Wraps >= 0 {
			ws, err := signer.Wrap(out[p.Wraps].signer, out[i].did)
			if err != nil {
				panic(err)
			}
			out[i].signer = ws
		}
	}
	return out
}

// ---------------------------------------------------------------------------------------------
// caveats
// ---------------------------------------------------------------------------------------------

// NbMap is the typed caveat value used by the harness capability: field name -> int or link.
type NbMap struct {
	F map[string]any // int64 | ipld.Link
}

func fieldName(k int) string {
	if k == 0 {
		return "proof"
	}
	return fmt.Sprintf("f%d", k)
}

func (m NbMap) ToIPLD() (ipld.Node, error) {
	keys := make([]string, 0, len(m.F))
	for k := range m.F {
		keys = append(keys, k)
	}
	sort.Strings(keys)
	nb := basicnode.Prototype.Map.NewBuilder()
	ma, _ := nb.BeginMap(int64(len(keys)))
	for _, k := range keys {
		ma.AssembleKey().AssignString(k)
		switch v := m.F[k].(type) {
		case int64:
			switch v {
			case specialBase: // empty list
				la, _ := ma.AssembleValue().BeginList(0)
				la.Finish()
			case specialBase + 1: // empty map
				mm, _ := ma.AssembleValue().BeginMap(0)
				mm.Finish()
			case specialBase + 2:
				ma.AssembleValue().AssignString("")
			case specialBase + 3:
				ma.AssembleValue().AssignBool(false)
			case specialBase + 4, specialBase + 5, specialBase + 6:
				var ks []string
				switch v {
				case specialBase + 4:
					ks = []string{"a"}
				case specialBase + 5:
					ks = []string{"a", "b"}
				default:
					ks = []string{"b"}
				}
				mm, _ := ma.AssembleValue().BeginMap(int64(len(ks)))
				for _, kk := range ks {
					mm.AssembleKey().AssignString(kk)
					mm.AssembleValue().AssignInt(map[string]int64{"a": 1, "b": 2}[kk])
				}
				mm.Finish()
			default:
				ma.AssembleValue().AssignInt(v)
			}
		case ipld.Link:
			ma.AssembleValue().AssignLink(v)
		default:
			return nil, fmt.Errorf("bad caveat value %T", v)
		}
	}
	ma.Finish()
	return nb.Build(), nil
}

// nbReader reads any map node (or builder) into an NbMap.
type nbReader struct{}

func (nbReader) Read(input any) (NbMap, failure.Failure) {
	var node ipld.Node
	switch x := input.(type) {
	case ipld.Node:
		node = x
	case ipld.Builder:
		n, err := x.ToIPLD()
		if err != nil {
			return NbMap{}, schema.NewSchemaError(err.Error())
		}
		node = n
	case nil:
		return NbMap{F: map[string]any{}}, nil
	default:
		return NbMap{}, schema.NewSchemaError("not a node")
	}
	if node == nil || node.Kind() != datamodel.Kind_Map {
		return NbMap{}, schema.NewSchemaError("caveats are not a map")
	}
	out := NbMap{F: map[string]any{}}
	for it := node.MapIterator(); !it.Done(); {
		k, v, err := it.Next()
		if err != nil {
			return NbMap{}, schema.NewSchemaError(err.Error())
		}
		ks, _ := k.AsString()
		switch v.Kind() {
		case datamodel.Kind_Int:
			n, _ := v.AsInt()
			out.F[ks] = n
		case datamodel.Kind_Link:
			l, _ := v.AsLink()
			out.F[ks] = l
		case datamodel.Kind_List:
			if v.Length() != 0 {
				return NbMap{}, schema.NewSchemaError("unsupported caveat kind")
			}
			out.F[ks] = int64(specialBase)
		case datamodel.Kind_Map:
			_, ea := v.LookupByString("a")
			_, eb := v.LookupByString("b")
			switch {
			case v.Length() == 0:
				out.F[ks] = int64(specialBase + 1)
			case v.Length() == 1 && ea == nil:
				out.F[ks] = int64(specialBase + 4)
			case v.Length() == 2 && ea == nil && eb == nil:
				out.F[ks] = int64(specialBase + 5)
			case v.Length() == 1 && eb == nil:
				out.F[ks] = int64(specialBase + 6)
			default:
				return NbMap{}, schema.NewSchemaError("unsupported caveat kind")
			}
		case datamodel.Kind_String:
			if s, _ := v.AsString(); s != "" {
				return NbMap{}, schema.NewSchemaError("unsupported caveat kind")
			}
			out.F[ks] = int64(specialBase + 2)
		case datamodel.Kind_Bool:
			if b, _ := v.AsBool(); b {
				return NbMap{}, schema.NewSchemaError("unsupported caveat kind")
			}
			out.F[ks] = int64(specialBase + 3)
		default:
			return NbMap{}, schema.NewSchemaError("unsupported caveat kind")
		}
	}
	return out, nil
}

type strReader struct{ mode string }

func (r strReader) Read(input string) (string, failure.Failure) {
	if r.mode == "did" && !strings.HasPrefix(input, "did:") {
		return "", schema.NewSchemaError("expected a did:")
	}
	return input, nil
}

// dummy links for "proof" values that name no token of the world
func dummyLink(n int) ipld.Link {
	h, _ := mh.Sum([]byte(fmt.Sprintf("dummy-%d", n)), mh.SHA2_256, -1)
	return cidlink.Link{Cid: cid.NewCidV1(0x71, h)}
}

// ---------------------------------------------------------------------------------------------
// concretisation
// ---------------------------------------------------------------------------------------------

type CWorld struct {
	A      *AWorld
	P      []cPrincipal
	D      []delegation.Delegation // by token id
	idOf   map[string]int          // link string -> token id
	dummys map[string]int
	// Pristine: for tokens altered after signing, the genuine token the signature was made for
	Pristine []delegation.Delegation
	// phase: history played before the observed call, on the same validator / server, under another
	// environment: "" the world's own; "permissive" nothing revoked, every token resolvable;
	// "deny" everything revoked, nothing resolvable, no key resolvable. What a cache that outlives
	// the environment it was filled in gets wrong.
	phase string
	// Full: every token again, viewed over a store that holds the root block of every token of the
	// world (same links): what a sender who embeds everything transmits
	Full []delegation.Delegation
	// channel: when set, batches go to the server through this channel (e.g. the library's HTTP channel)
	channel transport.Channel
	// conns: one client connection per channel, kept across the history phases of a case
	conns  map[transport.Channel]client.Connection
	connMu sync.Mutex
	// counter: when set, every verifier the principal parser hands out counts its Verify calls here
	counter *int64
	// panicChecker: the revocation checker panics where it would report a revocation
	panicChecker bool
	// forgeReports: the request carries, next to the invocations, receipts for them signed by a stranger
	forgeReports bool
	// keepCtx: the validation context is built once and used for every Access on this world (a service
	// that keeps its context); the caller then passes the same runLog each time
	keepCtx bool
	ctx     validator.ValidationContext[NbMap]
}

// fakeSigner claims one DID and signs with another principal's key (or absentee).
type fakeSigner struct {
	id   did.DID
	with ucan.Signer
}

func (f fakeSigner) DID() did.DID                            { return f.id }
func (f fakeSigner) Sign(msg []byte) signature.SignatureView { return f.with.Sign(msg) }
func (f fakeSigner) SignatureCode() uint64                   { return f.with.SignatureCode() }
func (f fakeSigner) SignatureAlgorithm() string              { return f.with.SignatureAlgorithm() }

func (cw *CWorld) nbOf(c ACap) NbMap {
	m := NbMap{F: map[string]any{}}
	for _, kv := range c.Nb {
		if kv[0] == 0 {
			if kv[1] >= 0 && kv[1] < len(cw.D) && cw.D[kv[1]] != nil {
				m.F["proof"] = cw.D[kv[1]].Link()
			} else {
				l := dummyLink(kv[1])
				cw.dummys[l.String()] = kv[1]
				m.F["proof"] = l
			}
		} else {
			m.F[fieldName(kv[0])] = int64(kv[1])
		}
	}
	return m
}

func (cw *CWorld) capModels(caps []ACap) ([]udm.CapabilityModel, error) {
	var out []udm.CapabilityModel
	for _, c := range caps {
		nb, err := cw.nbOf(c).ToIPLD()
		if err != nil {
			return nil, err
		}
		out = append(out, udm.CapabilityModel{With: c.With, Can: c.Can, Nb: nb})
	}
	return out, nil
}

// issue builds token t for real: signs the "pre-tamper" fields, then stores the final fields.
func (cw *CWorld) issue(t *AToken) (delegation.Delegation, error) {
	bs, err := blockstore.NewBlockStore()
	if err != nil {
		return nil, err
	}
	var prfs delegation.Proofs
	for i, p := range t.Prfs {
		if p < 0 || p >= len(cw.D) || cw.D[p] == nil {
			// cites a token that does not exist in the world: a dangling link
			prfs = append(prfs, delegation.FromLink(dummyLink(1000+p)))
			continue
		}
		alsoFull := false
		for j, q := range t.Prfs {
			if q == p && j < len(t.Inline) && t.Inline[j] {
				alsoFull = true
			}
		}
		if i < len(t.Bare) && t.Bare[i] && !t.Inline[i] && alsoFull {
			if bs1, err := blockstore.NewBlockStore(blockstore.WithBlocks([]ipld.Block{cw.D[p].Root()})); err == nil {
				if bare, err := delegation.NewDelegation(cw.D[p].Root(), bs1); err == nil {
					prfs = append(prfs, delegation.FromDelegation(bare))
					continue
				}
			}
		}
		if t.Inline[i] {
			prfs = append(prfs, delegation.FromDelegation(cw.D[p]))
		} else {
			prfs = append(prfs, delegation.FromLink(cw.D[p].Link()))
		}
	}
	links, err := prfs.WriteInto(bs)
	if err != nil {
		return nil, err
	}

	var sgn ucan.Signer
	if t.Signer < 0 {
		sgn = fakeSigner{cw.P[t.Iss].did, absentee.From(cw.P[t.Iss].did)}
	} else {
		k := cw.P[t.Signer].signer
		if k == nil {
			return nil, fmt.Errorf("signer %d has no key", t.Signer)
		}
		sgn = fakeSigner{cw.P[t.Iss].did, k}
	}

	// pre-tamper fields
	aud := cw.P[t.Aud].did
	exp := t.Exp
	nbf := t.Nbf
	caps := append([]ACap(nil), t.Caps...)
	plinks := links
	if !t.Intact {
		switch t.Tamper {
		case "v": // the version field is altered after signing (nothing to prepare)
		case "aud":
			aud = cw.P[(t.Aud+1)%len(cw.P)].did
		case "exp":
			if exp == nil {
				e := cw.A.Now + 100000000
				exp = &e
			} else {
				e := *exp + 1
				exp = &e
			}
		case "with":
			if len(caps) > 0 {
				caps[0].With = caps[0].With + "x"
			} else {
				e := 1
				exp = &e
			}
		case "can":
			if len(caps) > 0 {
				caps[0].Can = caps[0].Can + "x"
			} else {
				e := 1
				exp = &e
			}
		case "nb":
			if len(caps) > 0 {
				caps[0].Nb = append(append([][2]int(nil), caps[0].Nb...), [2]int{9, 9})
			} else {
				e := 1
				exp = &e
			}
		case "prf":
			plinks = append(append([]ucan.Link(nil), links...), dummyLink(77))
		default: // "nbf"
			nbf = nbf + 1
			if nbf == 0 {
				nbf = 1
			}
		}
	}

	type capB = ucan.Capability[NbMap]
	var ccaps []capB
	for _, c := range caps {
		ccaps = append(ccaps, ucan.NewCapability(c.Can, c.With, cw.nbOf(c)))
	}
	opts := []ucan.Option{ucan.WithProof(plinks...), ucan.WithNotBefore(nbf), ucan.WithNonce(t.Nonce)}
	if exp == nil {
		opts = append(opts, ucan.WithNoExpiration())
	} else {
		opts = append(opts, ucan.WithExpiration(*exp))
	}
	view, err := ucan.Issue(sgn, aud, ccaps, opts...)
	if err != nil {
		return nil, err
	}
	model := *view.Model()
	if !t.Intact {
		// the genuine token (what was really signed), kept for history-dependent checks
		if prt, err := block.Encode(view.Model(), udm.Type(), cbor.Codec, sha256.Hasher); err == nil {
			if pbs, err := blockstore.NewBlockStore(blockstore.WithBlocksIterator(bs.Iterator())); err == nil {
				pbs.Put(prt)
				if pd, err := delegation.NewDelegation(prt, pbs); err == nil {
					cw.Pristine = append(cw.Pristine, pd)
				}
			}
		}
	}
	// final fields
	if !t.Intact && t.Tamper == "v" {
		model.V = "0.9.2"
	}
	model.Aud = cw.P[t.Aud].did.Bytes()
	model.Exp = t.Exp
	if t.Nbf != 0 {
		n := t.Nbf
		model.Nbf = &n
	} else {
		model.Nbf = nil
	}
	model.Prf = links
	att, err := cw.capModels(t.Caps)
	if err != nil {
		return nil, err
	}
	model.Att = att
	if !t.AlgOk && t.Signer >= 0 {
		// keep the raw signature, replace the algorithm code by one CodeName does not know
		raw := signature.Decode(model.S).Raw()
		model.S = signature.NewSignature(0xd0ff, raw).Bytes()
	}
	var rt ipld.Block
	rt, err = block.Encode(&model, udm.Type(), cbor.Codec, sha256.Hasher)
	if err != nil {
		return nil, err
	}
	if len(t.Malform) > 0 {
		rt, err = malformToken(&model, t.Malform)
		if err != nil {
			return nil, err
		}
		for _, e := range t.Malform {
			if e == "resign" {
				// the issuer itself wrote the malformed token: sign what VerifySignature will rebuild
				if rs, ok := resign(&model, rt, sgn); ok {
					rt = rs
				}
			}
		}
	}
	if err := bs.Put(rt); err != nil {
		return nil, err
	}
	return delegation.NewDelegation(rt, bs)
}

// Concretise builds every token (in id order: proofs have smaller ids) and fills w.BS and DIDs.
func Concretise(w *AWorld) (*CWorld, error) {
	cw := &CWorld{A: w, idOf: map[string]int{}, dummys: map[string]int{}}
	cw.P = concretePrincipals(w)
	cw.D = make([]delegation.Delegation, len(w.Tokens))
	// resources written as "@<principal index>" (optionally followed by a suffix) become DID strings
	for i := range w.Tokens {
		for j := range w.Tokens[i].Caps {
			w.Tokens[i].Caps[j].With = cw.expand(w.Tokens[i].Caps[j].With)
		}
	}
	for i := range w.Table {
		w.Table[i].With = cw.expand(w.Table[i].With)
	}
	for i := range w.Tokens {
		t := &w.Tokens[i]
		if t.ID != i {
			return nil, fmt.Errorf("token ids must be positions")
		}
		d, err := cw.issue(t)
		if err != nil {
			return nil, fmt.Errorf("issuing token %d: %w", i, err)
		}
		cw.D[i] = d
		for k := 0; k < t.PreAttach; k++ {
			if err := d.Attach(preBlock(i, k)); err != nil {
				return nil, fmt.Errorf("attaching to token %d: %w", i, err)
			}
		}
		if t.EmptyAttach {
			hi, _ := mh.Sum([]byte{}, mh.IDENTITY, -1)
			hs, _ := mh.Sum([]byte{}, mh.SHA2_256, -1)
			d.Attach(block.NewBlock(cidlink.Link{Cid: cid.NewCidV1(0x55, hi)}, []byte{}))
			d.Attach(block.NewBlock(cidlink.Link{Cid: cid.NewCidV1(0x55, hs)}, []byte{}))
		}
		if prev, dup := cw.idOf[d.Link().String()]; dup {
			return nil, fmt.Errorf("tokens %d and %d have the same link", prev, i)
		}
		cw.idOf[d.Link().String()] = i
	}
	if all, err := blockstore.NewBlockStore(); err == nil {
		for _, d := range cw.D {
			all.Put(d.Root())
		}
		cw.Full = make([]delegation.Delegation, len(cw.D))
		for i, d := range cw.D {
			if f, err := delegation.NewDelegation(d.Root(), all); err == nil {
				cw.Full[i] = f
			} else {
				cw.Full[i] = d
			}
		}
	}
	w.BS = make([][]int, len(w.Tokens))
	for i, d := range cw.D {
		seen := map[int]bool{}
		for b, err := range d.Blocks() {
			if err != nil {
				return nil, err
			}
			if id, ok := cw.idOf[b.Link().String()]; ok && !seen[id] {
				seen[id] = true
				w.BS[i] = append(w.BS[i], id)
			}
		}
		sort.Ints(w.BS[i])
	}
	return cw, nil
}

// expand "@3" -> DID of principal 3; "@3~5*" -> DID with the last 5 bytes replaced by "*" (prefix pattern)
func (cw *CWorld) expand(s string) string {
	if !strings.HasPrefix(s, "@") {
		return s
	}
	if strings.HasSuffix(s, "^") { // the same DID string with the case of its letters swapped
		return swapCase(cw.expand(strings.TrimSuffix(s, "^")))
	}
	if i := strings.Index(s, "="); strings.HasPrefix(s, "@") && i > 1 && strings.Trim(s[1:i], "0123456789") == "" { // "@3=<variant>": a hierarchical URL owned by principal 3
		n := atoi(s[1:i])
		base := fmt.Sprintf("https://Files%d.Example.com/u/a%%2Fb/", n)
		switch s[i+1:] {
		case "lower":
			return strings.ToLower(base[:30]) + base[30:]
		case "noslash":
			return strings.TrimSuffix(base, "/")
		case "unescaped":
			return strings.Replace(base, "%2F", "/", 1)
		case "star":
			return base + "*"
		case "sub":
			return base + "x/y%2Fz"
		}
		return base
	}
	if i := strings.IndexAny(s, "#/?!"); i > 0 { // "@3#frag", "@3/path", "@3?q": a DID URL; "@3!" = upper-case scheme
		if s[i] == '!' {
			d := cw.expand(s[:i])
			return "DID:" + strings.TrimPrefix(d, "did:")
		}
		return cw.expand(s[:i]) + s[i:]
	}
	rest := s[1:]
	cut := ""
	if i := strings.Index(rest, "~"); i >= 0 {
		cut = rest[i+1:]
		rest = rest[:i]
	}
	d := cw.P[atoi(rest)].did.String()
	if cut != "" {
		n := atoi(strings.TrimSuffix(cut, "*"))
		if n > len(d) {
			n = len(d)
		}
		d = d[:len(d)-n] + "*"
	}
	return d
}

// ---------------------------------------------------------------------------------------------
// running the validator
// ---------------------------------------------------------------------------------------------

type spineItem struct {
	Tok  int      `json:"tok"`
	Can  string   `json:"can"`
	With string   `json:"with"`
	Nb   [][2]int `json:"nb"`
}

type derivesCall struct {
	Claimed   [][2]int `json:"c"`
	Delegated [][2]int `json:"d"`
	CWith     string   `json:"cw"`
	DWith     string   `json:"dw"`
	OK        bool     `json:"ok"`
}

type checkerCall struct {
	Links  []int `json:"links"`
	Accept bool  `json:"accept"`
}

type runLog struct {
	unavailable int
	mu          sync.Mutex
	Derives     []derivesCall
	Checker     []checkerCall
	Resolved    []int
}

func (cw *CWorld) nbToPairs(m NbMap) [][2]int {
	var out [][2]int
	for k, v := range m.F {
		var kid int
		if k == "proof" {
			kid = 0
		} else {
			kid = atoi(strings.TrimPrefix(k, "f"))
		}
		switch x := v.(type) {
		case int64:
			out = append(out, [2]int{kid, int(x)})
		case ipld.Link:
			if id, ok := cw.idOf[x.String()]; ok {
				out = append(out, [2]int{kid, id})
			} else if id, ok := cw.dummys[x.String()]; ok {
				out = append(out, [2]int{kid, id})
			} else {
				out = append(out, [2]int{kid, -1})
			}
		}
	}
	sort.Slice(out, func(i, j int) bool { return out[i][0] < out[j][0] })
	return out
}

func nbGet(nb [][2]int, k int) (int, bool) {
	for _, kv := range nb {
		if kv[0] == k {
			return kv[1], true
		}
	}
	return 0, false
}

func (cw *CWorld) derivesFunc(log *runLog) validator.DerivesFunc[NbMap] {
	mode := cw.A.Desc.Derives
	return func(claimed, delegated ucan.Capability[NbMap]) failure.Failure {
		c, d := cw.nbToPairs(claimed.Nb()), cw.nbToPairs(delegated.Nb())
		var res failure.Failure
		if err := validator.DefaultDerives(claimed, delegated); err != nil {
			res = err
		} else {
			for _, kv := range d {
				cv, ok := nbGet(c, kv[0])
				switch mode {
				case "eq":
					if !ok || cv != kv[1] {
						res = schema.NewSchemaError(fmt.Sprintf("field %d: %v violates %d", kv[0], cv, kv[1]))
					}
				case "le":
					if !ok || cv > kv[1] {
						res = schema.NewSchemaError(fmt.Sprintf("field %d: %v exceeds %d", kv[0], cv, kv[1]))
					}
				}
			}
		}
		log.mu.Lock()
		log.Derives = append(log.Derives, derivesCall{c, d, claimed.With(), delegated.With(), res == nil})
		log.mu.Unlock()
		return res
	}
}

func (cw *CWorld) capability(log *runLog) validator.CapabilityParser[NbMap] {
	return cw.capabilityFor(cw.A.Desc.Can, log)
}

func (cw *CWorld) capabilityFor(can string, log *runLog) validator.CapabilityParser[NbMap] {
	if cw.A.Desc.With == "liburi" { // the library's URI reader, adapted to read resources
		return validator.NewCapability[NbMap](can, uriWith{schema.URI()}, nbReader{}, cw.derivesFunc(log))
	}
	if cw.A.Desc.With == "libdid" { // the library's own reader of DID resources
		return validator.NewCapability[NbMap](can, schema.DIDString(), nbReader{}, cw.derivesFunc(log))
	}
	return validator.NewCapability[NbMap](can, strReader{cw.A.Desc.With}, nbReader{}, cw.derivesFunc(log))
}

func authLinks(cw *CWorld, a validator.Authorization[any]) []int {
	var out []int
	for a != nil {
		id, ok := cw.idOf[a.Delegation().Link().String()]
		if !ok {
			id = -1
		}
		out = append(out, id)
		ps := a.Proofs()
		if len(ps) == 0 {
			break
		}
		a = ps[0]
	}
	return out
}

type revokedErr struct{ failure.Failure }

func (cw *CWorld) context(log *runLog) (canIssue validator.CanIssueFunc[any], checker validator.RevocationCheckerFunc[any], resolveProof validator.ProofResolverFunc, parse validator.PrincipalParserFunc, resolveKey validator.PrincipalResolverFunc, authority principal.Verifier) {
	w := cw.A
	canIssue = func(c ucan.Capability[any], issuer did.DID) bool {
		switch w.CanIssue {
		case "never":
			return false
		case "authorityAll":
			return issuer == cw.P[w.Authority].did || c.With() == issuer.String()
		case "table":
			for _, r := range w.Table {
				// the owner table names resources as the capability's own reader reads them
				rw := r.With
				if w.Desc.With == "liburi" {
					if x, err := (uriWith{schema.URI()}).Read(rw); err == nil {
						rw = x
					}
				}
				if rw == c.With() && cw.P[r.P].did == issuer {
					return true
				}
			}
			return false
		default:
			return validator.IsSelfIssued(c, issuer)
		}
	}
	revoked := map[int]bool{}
	for _, r := range w.Revoked {
		revoked[r] = true
	}
	checker = func(auth validator.Authorization[any]) validator.Revoked {
		links := authLinks(cw, auth)
		ok := true
		var bad int
		for _, l := range links {
			if (revoked[l] && cw.phase != "permissive") || cw.phase == "deny" {
				ok = false
				bad = l
			}
		}
		log.mu.Lock()
		log.Checker = append(log.Checker, checkerCall{links, ok})
		log.mu.Unlock()
		if !ok {
			if cw.panicChecker {
				// a checker that cannot answer for this authorization (its store is down): it accepts nothing
				panic("revocation store unavailable")
			}
			return validator.NewRevokedError(cw.D[bad])
		}
		return nil
	}
	resolvable := map[string]delegation.Delegation{}
	for _, id := range w.Resolver {
		resolvable[cw.D[id].Link().String()] = cw.D[id]
	}
	resolveProof = func(l ucan.Link) (delegation.Delegation, validator.UnavailableProof) {
		if cw.phase == "permissive" {
			if id, ok := cw.idOf[l.String()]; ok {
				return cw.D[id], nil
			}
		}
		if d, ok := resolvable[l.String()]; ok && cw.phase != "deny" {
			return d, nil
		}
		log.mu.Lock()
		log.unavailable++
		nth := log.unavailable
		log.mu.Unlock()
		if nth%2 == 1 {
			return nil, validator.NewUnavailableProofError(l, nil) // a resolver need not give a cause
		}
		return nil, validator.NewUnavailableProofError(l, fmt.Errorf("not found"))
	}
	parse = func(str string) (principal.Verifier, error) {
		for i, p := range w.Principals {
			if p.Did == str && p.Key && !p.Parse {
				return nil, fmt.Errorf("unsupported key type for principal %d", i)
			}
		}
		if v, err := edverifier.Parse(str); err == nil {
			return v, nil
		}
		return rsaverifier.Parse(str)
	}
	if cw.counter != nil {
		plain := parse
		parse = func(str string) (principal.Verifier, error) {
			v, err := plain(str)
			if err != nil {
				return nil, err
			}
			return countingVerifier{v, cw.counter}, nil
		}
	}
	rk := map[string]did.DID{}
	for _, kv := range w.ResolveKey {
		rk[cw.P[kv[0]].did.String()] = cw.P[kv[1]].did
	}
	resolveKey = func(d did.DID) (did.DID, validator.UnresolvedDID) {
		if cw.phase == "permissive" {
			// whatever key actually signed this issuer's tokens (a rotated or corrected resolver entry)
			for _, t := range w.Tokens {
				if cw.P[t.Iss].did.String() == d.String() && t.Signer >= 0 && cw.P[t.Signer].signer != nil && isKeyKind(w.Principals[t.Signer].Kind) {
					return cw.P[t.Signer].did, nil
				}
			}
		}
		if k, ok := rk[d.String()]; ok && cw.phase != "deny" {
			return k, nil
		}
		return did.Undef, validator.NewDIDKeyResolutionError(d, fmt.Errorf("no key"))
	}
	ap := cw.P[w.Authority]
	if ap.signer != nil {
		authority = ap.signer.Verifier()
	} else {
		// an authority without a key cannot sign anything; give it the key of AuthorityKey wrapped
		ws, _ := signer.Wrap(cw.P[w.AuthorityKey].signer, ap.did)
		authority = ws.Verifier()
	}
	return
}

func (cw *CWorld) spineOf(a validator.Authorization[NbMap]) []spineItem {
	var out []spineItem
	for a != nil {
		id, ok := cw.idOf[a.Delegation().Link().String()]
		if !ok {
			id = -1
		}
		c := a.Capability()
		out = append(out, spineItem{id, c.Can(), c.With(), cw.nbToPairs(c.Nb())})
		ps := a.Proofs()
		if len(ps) == 0 {
			break
		}
		a = ps[0]
	}
	return out
}

// Access runs validator.Access on the world's invocation.
func (cw *CWorld) Access(log *runLog) (outcome string, spine []spineItem, flags string) {
	var ctx validator.ValidationContext[NbMap]
	if cw.keepCtx && cw.ctx != nil {
		ctx = cw.ctx
	} else {
		canIssue, checker, resolveProof, parse, resolveKey, authority := cw.context(log)
		ctx = validator.NewValidationContext(authority, cw.capability(log), canIssue, checker, resolveProof, parse, resolveKey)
		if cw.keepCtx {
			cw.ctx = ctx
		}
	}
	// history: the genuine tokens whose signatures the altered ones carry have been seen (and accepted)
	// by this process before - what an attacker re-addressing a real token relies on
	for _, p := range cw.Pristine {
		validator.Validate(p, []delegation.Delegation{p}, ctx)
	}
	// history: the same invocation was presented before, in another environment
	if ph := historyPhase(cw.D[cw.A.Inv].Link().String()); ph != "" {
		cw.phase = ph
		kc, kd, kr := log.Checker, log.Derives, log.Resolved
		validator.Access(cw.D[cw.A.Inv], ctx)
		log.mu.Lock()
		log.Checker, log.Derives, log.Resolved = kc, kd, kr
		log.mu.Unlock()
		cw.phase = ""
	}
	auth, err := validator.Access(cw.D[cw.A.Inv], ctx)
	if err != nil {
		if err.Name() != "Unauthorized" {
			flags += "name=" + err.Name() + ";"
		}
		for _, ip := range err.InvalidProofs() {
			if _, ok := ip.(validator.Revoked); ok {
				flags += "r"
				break
			}
		}
		if len(err.FailedProofs()) > 0 {
			flags += "f"
		}
		return "fail", nil, flags
	}
	return "ok", cw.spineOf(auth), ""
}

func mustJSON(v any) string {
	b, err := json.Marshal(v)
	if err != nil {
		panic(err)
	}
	return string(b)
}

// historyPhase picks, from the invocation's link, what happened before the observed call.
func historyPhase(link string) string {
	if len(link) == 0 {
		return ""
	}
	switch link[len(link)-1] % 3 {
	case 1:
		return "permissive"
	case 2:
		return "deny"
	}
	return ""
}

// resign signs the (malformed) token the way its issuer would: over the payload VerifySignature
// rebuilds from the decoded view. Tokens the library cannot even view are left as they are.
func resign(m *udm.UCANModel, rt ipld.Block, sgn ucan.Signer) (out ipld.Block, ok bool) {
	defer func() {
		if recover() != nil {
			out, ok = nil, false
		}
	}()
	bs, err := blockstore.NewBlockStore(blockstore.WithBlocks([]ipld.Block{rt}))
	if err != nil {
		return nil, false
	}
	d, err := delegation.NewDelegation(rt, bs)
	if err != nil {
		return nil, false
	}
	v := d.Data()
	var prfstrs []string
	for _, l := range v.Proofs() {
		prfstrs = append(prfstrs, l.String())
	}
	pl := pdm.PayloadModel{Iss: v.Issuer().DID().String(), Aud: v.Audience().DID().String(), Att: v.Model().Att, Prf: prfstrs, Exp: v.Expiration(), Fct: v.Model().Fct}
	if nnc := v.Nonce(); nnc != "" {
		pl.Nnc = &nnc
	}
	if nbf := v.NotBefore(); nbf != 0 {
		pl.Nbf = &nbf
	}
	msg, err := formatter.FormatSignPayload(pl, v.Version(), sgn.SignatureAlgorithm())
	if err != nil {
		return nil, false
	}
	m.S = sgn.Sign([]byte(msg)).Bytes()
	nb, err := block.Encode(m, udm.Type(), cbor.Codec, sha256.Hasher)
	if err != nil {
		return nil, false
	}
	return nb, true
}

func swapCase(s string) string {
	b := []byte(s)
	for i, c := range b {
		switch {
		case c >= 'a' && c <= 'z':
			b[i] = c - 32
		case c >= 'A' && c <= 'Z':
			b[i] = c + 32
		}
	}
	return string(b)
}

// uriWith adapts the library's URI reader to a resource reader: the resource read is the URI printed back
type uriWith struct {
	r schema.Reader[any, url.URL]
}

func (u uriWith) Read(input string) (string, failure.Failure) {
	v, err := u.r.Read(input)
	if err != nil {
		return "", err
	}
	return v.String(), nil
}
