package main

import (
	"encoding/json"
	"fmt"
	"strings"
	"sync"
	"time"
)

func init() {
	gens["C03"] = genC03
	execs["access3"] = execAccess3
	execs["access3seq"] = execAccess3Seq
	execs["serve3seq"] = execServe3Seq
}

var c03Exp = []string{"none", "far-past", "now-1", "now", "now+1", "far", "zero", "neg", "huge", "y9999", "max"}
var c03Nbf = []string{"unset", "far-past", "now-1", "now", "now+1", "far", "max", "nearmax"}

func relOf(s string) *int {
	var v int
	switch s {
	case "none", "unset":
		return nil
	case "far-past":
		v = -farFuture
	case "now-1":
		v = -1
	case "now":
		v = 0
	case "now+1":
		v = 1
	case "now+2": // the second of the second validation of a sequence (T+2): the boundary itself
		v = 2
	case "far":
		v = farFuture
	case "huge": // centuries ahead
		v = 10_000_000_000
	}
	return &v
}

// genC03: valid worlds; at one position (invocation, a proof at any depth, an attestation) the
// expiration and not-before take every combination of the six boundary values.
func genC03(cfg Config, emit Emit) error {
	rounds := 12
	if cfg.Thorough() {
		rounds = 150
	}
	o := genOpts{maxDepth: 4, sessions: true, sessionPct: 50, caveatPct: 1}
	for round := 0; round < rounds; round++ {
		for _, e := range c03Exp {
			for _, n := range c03Nbf {
				var class string
				w := genWorld(cfg.Rng, 0, o, &class)
				normalize(w)
				// all windows relative and far, except the chosen position
				for i := range w.Tokens {
					t := &w.Tokens[i]
					if t.Exp != nil {
						far := farFuture + cfg.Rng.Intn(1000)
						t.ExpRel, t.Exp = &far, nil
					}
				}
				pos := cfg.Rng.Intn(len(w.Tokens))
				t := &w.Tokens[pos]
				t.Exp, t.ExpRel = nil, relOf(e)
				if e == "zero" || e == "neg" || e == "y9999" || e == "max" { // absolute: the epoch itself, before it, the last second of year 9999, the largest value
					abs := map[string]int{"zero": 0, "neg": -5, "y9999": 253402300799, "max": 1<<63 - 1}[e]
					t.Exp, t.ExpRel = &abs, nil
				}
				t.NbfRel = relOf(n)
				if n == "max" || n == "nearmax" { // absolute: the largest second, and 40 years before it
					t.NbfRel = nil
					t.Nbf = map[string]int{"max": 1<<63 - 1, "nearmax": 1<<63 - 1 - 40*31536000}[n]
				}
				where := "proof"
				if pos == w.Inv {
					where = "invocation"
				} else if len(t.Caps) > 0 && t.Caps[0].Can == "ucan/attest" {
					where = "attestation"
				}
				emit("access3", []string{"C03", mustJSON(w)}, fmt.Sprintf("%s/exp=%s/nbf=%s", where, e, n), true)
			}
		}
	}
	genC03Seq(cfg, emit)
	// the window options of Delegate / Invoke, in both orders, on the invocation and on a proof
	for _, e := range []string{"none", "past", "future"} {
		for _, n := range []string{"unset", "past", "future"} {
			for _, wh := range []string{"inv", "proof"} {
				for _, ord := range []string{"fwd", "rev"} {
					emit("delegwin", []string{e, n, wh, ord}, "options/"+wh, true)
				}
			}
		}
	}
	return nil
}

func execAccess3(args []string) (res Result) {
	abstract := append([]string(nil), args...)
	for attempt := 0; attempt < 8; attempt++ {
		now := time.Now()
		if now.Nanosecond() > 700_000_000 {
			time.Sleep(time.Duration(1_000_000_000-now.Nanosecond()+5_000_000) * time.Nanosecond)
			now = time.Now()
		}
		T := int(now.Unix())
		var w AWorld
		if err := json.Unmarshal([]byte(args[1]), &w); err != nil {
			return Result{Impl: "bad-world:" + err.Error()}
		}
		w.Now = T
		for i := range w.Tokens {
			t := &w.Tokens[i]
			if t.ExpRel != nil {
				e := T + *t.ExpRel
				t.Exp, t.ExpRel = &e, nil
			}
			if t.NbfRel != nil {
				t.Nbf, t.NbfRel = T+*t.NbfRel, nil
			}
		}
		r := execAccess([]string{args[0], mustJSON(&w)})
		if int(time.Now().Unix()) != T {
			continue // the second ticked while validating: the sample is discarded
		}
		r.Extra = map[string]any{"abstract_args": abstract, "validated_at": T}
		return r
	}
	return Result{Impl: "clock-unstable"}
}

// genC03Seq: the same tokens are validated twice by the same process, before and after a boundary of
// one token's window passes: valid then expired (what a cache of accepted tokens gets wrong), too
// early then valid (what a cache of refusals gets wrong). The second validation is the observed one.
func genC03Seq(cfg Config, emit Emit) {
	genSeq(cfg, emit, "C03", 24, 240, 50)
	// sessions that are needed and proper, the boundary on the attestation (or the grant it rests on)
	genSeq(cfg, emit, "C03", 18, 180, 100)
	// the window a token is issued with is the window written into it
	genIssued(cfg, emit, map[bool]int{false: 60, true: 1200}[cfg.Thorough()])
}

// genSeq: mode = property on whose behalf the cases run; attPct = how often (in %) the token whose
// window boundary passes is an attestation, when the world has one. A third of the cases go through a
// server (the same server object handles the same invocation before and after the boundary).
func genSeq(cfg Config, emit Emit, mode string, nq, nt, attPct int) {
	n := nq
	if cfg.Thorough() {
		n = nt
	}
	shapes := [][2]string{{"now+1", "unset"}, {"now+1", "far-past"}, {"far", "now+1"}, {"none", "now+1"}, {"now+2", "unset"}, {"far", "now+2"}}
	o := genOpts{minDepth: 1, maxDepth: 4, sessions: true, sessionPct: 60, caveatPct: 1}
	for i := 0; i < n; i++ {
		var class string
		oo := o
		if attPct == 100 && i%3 != 1 {
			// a session that is needed and proper: the verdict flips when its attestation's window closes / opens
			oo.properSession, oo.sessionPct = true, 100
		} else if attPct == 100 {
			// a re-delegated attestation (authority -> worker -> attests): the boundary is on the worker's grant
			oo.attVariant, oo.sessionPct = 4, 100
		} else if i%3 == 2 {
			// served twice: an otherwise valid chain, so that the verdict flips at the boundary
			oo.properSession, oo.sessionPct = true, 30
		}
		w := genWorld(cfg.Rng, 0, oo, &class)
		normalize(w)
		for i := range w.Tokens {
			t := &w.Tokens[i]
			if t.Exp != nil {
				far := farFuture + cfg.Rng.Intn(1000)
				t.ExpRel, t.Exp = &far, nil
			}
		}
		pos := cfg.Rng.Intn(len(w.Tokens))
		var atts []int
		for k, t := range w.Tokens {
			if len(t.Caps) > 0 && t.Caps[0].Can == "ucan/attest" {
				atts = append(atts, k)
			}
		}
		where := "any"
		if len(atts) > 0 && cfg.Rng.Intn(100) < attPct {
			pos = atts[cfg.Rng.Intn(len(atts))]
			where = "attestation"
			if oo.attVariant == 4 {
				for _, a := range atts {
					if len(w.Tokens[a].Prfs) > 0 { // the attestation made by the worker: take the grant it rests on
						pos, where = w.Tokens[a].Prfs[0], "attestation-grant"
					}
				}
			}
		}
		if i%3 == 2 && where == "any" && pos == w.Inv && len(w.Tokens) > 1 && i%4 != 3 {
			// served twice: the boundary mostly on a proof, the invocation itself staying inside its window
			pos = (w.Inv + 1 + cfg.Rng.Intn(len(w.Tokens)-1)) % len(w.Tokens)
			where = "proof"
		}
		sh := shapes[(i/3)%len(shapes)] // independent of i%3 (direct / served, attestation strata)
		t := &w.Tokens[pos]
		t.Exp, t.ExpRel = nil, relOf(sh[0])
		t.NbfRel = relOf(sh[1])
		if i%3 == 2 {
			w.Services = []ASvc{{Can: w.Desc.Can, Result: "ok"}}
			w.Invs = []int{w.Inv}
			emit("serve3seq", []string{mode, mustJSON(w)}, fmt.Sprintf("twice-served/%s/exp=%s/nbf=%s", where, sh[0], sh[1]), true)
		} else {
			emit("access3seq", []string{mode, mustJSON(w)}, fmt.Sprintf("twice/%s/exp=%s/nbf=%s", where, sh[0], sh[1]), true)
		}
	}
}

func stableNow() time.Time {
	now := time.Now()
	if now.Nanosecond() > 600_000_000 {
		time.Sleep(time.Duration(1_000_000_000-now.Nanosecond()+5_000_000) * time.Nanosecond)
		now = time.Now()
	}
	return now
}

func execAccess3Seq(args []string) (res Result) {
	abstract := append([]string(nil), args...)
	for attempt := 0; attempt < 4; attempt++ {
		T := int(stableNow().Unix())
		var w AWorld
		if err := json.Unmarshal([]byte(args[1]), &w); err != nil {
			return Result{Impl: "bad-world:" + err.Error()}
		}
		w.Now = T
		exact := false // a window boundary at T+2: the second validation has to happen in that very second
		for i := range w.Tokens {
			t := &w.Tokens[i]
			if t.ExpRel != nil {
				exact = exact || *t.ExpRel == 2
				e := T + *t.ExpRel
				t.Exp, t.ExpRel = &e, nil
			}
			if t.NbfRel != nil {
				exact = exact || *t.NbfRel == 2
				t.Nbf, t.NbfRel = T+*t.NbfRel, nil
			}
		}
		// one validation context serves both validations (a service that keeps its context)
		cw, err := Concretise(&w)
		if err != nil {
			return Result{Impl: "concretise-error:" + err.Error()}
		}
		cw.keepCtx = true
		log := &runLog{}
		first := accessOn(cw, &w, args[0], log)
		// let the boundary pass
		for int(time.Now().Unix()) < T+2 {
			time.Sleep(50 * time.Millisecond)
		}
		T2 := int(stableNow().Unix())
		w.Now = T2
		log.mu.Lock()
		log.Checker, log.Derives, log.Resolved, log.unavailable = nil, nil, nil, 0
		log.mu.Unlock()
		r := accessOn(cw, &w, args[0], log)
		if int(time.Now().Unix()) != T2 || (exact && T2 != T+2 && attempt < 2) {
			continue
		}
		r.Extra = map[string]any{"abstract_args": abstract, "first_validated_at": T, "first": first.Impl, "validated_at": T2}
		return r
	}
	return Result{Impl: "clock-unstable"}
}

// execServe3Seq: one server, the same batch before and after a window boundary passes; the second
// answer is the observed one.
func execServe3Seq(args []string) (res Result) {
	defer func() {
		if r := recover(); r != nil {
			res = Result{Impl: fmt.Sprintf("panic:%v", r)}
		}
	}()
	abstract := append([]string(nil), args...)
	for attempt := 0; attempt < 4; attempt++ {
		T := int(stableNow().Unix())
		var w AWorld
		if err := json.Unmarshal([]byte(args[1]), &w); err != nil {
			return Result{Impl: "bad-world:" + err.Error()}
		}
		w.Now = T
		exact := false
		for i := range w.Tokens {
			t := &w.Tokens[i]
			if t.ExpRel != nil {
				exact = exact || *t.ExpRel == 2
				e := T + *t.ExpRel
				t.Exp, t.ExpRel = &e, nil
			}
			if t.NbfRel != nil {
				exact = exact || *t.NbfRel == 2
				t.Nbf, t.NbfRel = T+*t.NbfRel, nil
			}
		}
		cw, err := Concretise(&w)
		if err != nil {
			return Result{Impl: "concretise-error:" + err.Error()}
		}
		log := &runLog{}
		var calls []handlerCall
		var mu sync.Mutex
		srv, err := cw.buildServer(log, &calls, &mu, nil)
		if err != nil {
			return Result{Impl: "server-error:" + err.Error()}
		}
		first, _ := cw.serveBatch(srv, &calls)
		for int(time.Now().Unix()) < T+2 {
			time.Sleep(50 * time.Millisecond)
		}
		T2 := int(stableNow().Unix())
		mu.Lock()
		calls = nil
		mu.Unlock()
		statuses, problems := cw.serveBatch(srv, &calls)
		if int(time.Now().Unix()) != T2 || (exact && T2 != T+2 && attempt < 2) {
			continue
		}
		w.Now = T2
		impl := serveCanon(&w, statuses, calls)
		if len(problems) > 0 {
			impl += "|problems:" + strings.Join(problems, ",")
		}
		return Result{Args: []string{args[0], mustJSON(&w)}, Impl: impl, Extra: map[string]any{"abstract_args": abstract, "first_validated_at": T, "first": strings.Join(first, ","), "validated_at": T2}}
	}
	return Result{Impl: "clock-unstable"}
}
