package main

import (
	"strings"
	"sync"

	"github.com/storacha/go-ucanto/ucan"
	"github.com/storacha/go-ucanto/validator"
)

func init() {
	gens["C16"] = genC16
	execs["c16x"] = func(a []string) Result { return Result{Impl: c16Row(atoi(a[0]), unhexTok(a[1]))} }
	execs["c16r"] = func(a []string) Result {
		return Result{Impl: string(c16Pair(string(unhexTok(a[0])), string(unhexTok(a[1]))))}
	}
}

var c16Alpha = []byte{'a', 'b', 'A', '/', '*', ':'}

func c16Pair(p, c string) byte {
	v := 0
	ra := validator.ResolveAbility(p, c)
	if ra != "" {
		v |= 1
	}
	rr := validator.ResolveResource(p, c)
	if rr != "" {
		v |= 2
	}
	// DefaultDerives(claimed, delegated): claimed resource c, delegated resource p
	if validator.DefaultDerives(ucan.NewCapability[any]("x/y", c, nil), ucan.NewCapability[any]("x/y", p, nil)) == nil {
		v |= 4
	}
	if (ra != "" && ra != c) || (rr != "" && rr != c) {
		v |= 8
	}
	return hexdigits[v]
}

var c16Enum = map[int][][]byte{}
var c16Mu sync.Mutex

func c16Row(n int, p []byte) string {
	c16Mu.Lock()
	all, ok := c16Enum[n]
	if !ok {
		all = enumUpTo(c16Alpha, n)
		c16Enum[n] = all
	}
	c16Mu.Unlock()
	var sb strings.Builder
	for _, c := range all {
		if len(c) > n-len(p) {
			break
		}
		sb.WriteByte(c16Pair(string(p), string(c)))
	}
	return sb.String()
}

func genC16(cfg Config, emit Emit) error {
	n := 7
	if cfg.Thorough() {
		n = 8
	}
	for _, p := range enumUpTo(c16Alpha, n) {
		emit("c16x", []string{itoa(n), hexTok(p)}, "exhaustive", len(p) > 0)
	}
	// random longer realistic abilities / resources
	nr := 100000
	if cfg.Thorough() {
		nr = 1000000
	}
	segs := []string{"store", "storefront", "upload", "space", "blob", "add", "remove", "list", "Store", "ucan", "attest", "*", "did:key:z6Mk", "did:web:example.com", "did:mailto:web.mail:alice", "https://example.com", "ucan:", "ü", "日本", ""}
	mk := func() string {
		k := cfg.Rng.Intn(4)
		var parts []string
		for i := 0; i <= k; i++ {
			parts = append(parts, segs[cfg.Rng.Intn(len(segs))])
		}
		seps := []string{"/", "/", "/", "", ":"}
		s := strings.Join(parts, seps[cfg.Rng.Intn(len(seps))])
		switch cfg.Rng.Intn(8) {
		case 0:
			s += "/*"
		case 1:
			s += "*"
		case 2:
			s = "ucan:*"
		}
		return s
	}
	// near the literals the rules single out: one or two edits (case change, insertion, deletion,
	// replacement, doubling, percent-escapes) of patterns and of claims derived from them
	lits := []string{"ucan:*", "*", "store/*", "store/add", "did:key:z6MkAlice", "did:key:z6Mk*", "https://example.com/a/*", "file:///alice/*", "x/y/*", "a*", "did:*"}
	extra := []string{"?", "#", "%", "%2A", "%2a", "%2F", "%3A", "%41", "%", "%zz", " ", "\t", "/", "*", ":", ".", "+", "\\", "U", "x", "?x", "#f", "//", "**", "\x00", "é"}
	edit := func(s string) string {
		if len(s) == 0 {
			return extra[cfg.Rng.Intn(len(extra))]
		}
		i := cfg.Rng.Intn(len(s) + 1)
		switch cfg.Rng.Intn(7) {
		case 0: // insert
			return s[:i] + extra[cfg.Rng.Intn(len(extra))] + s[i:]
		case 1: // delete
			if i < len(s) {
				return s[:i] + s[i+1:]
			}
			return s[:len(s)-1]
		case 2: // change case of one letter
			if i < len(s) {
				return s[:i] + strings.ToUpper(s[i:i+1]) + s[i+1:]
			}
			return strings.ToUpper(s)
		case 3: // replace a character by its percent-escape
			if i < len(s) {
				return s[:i] + "%" + strings.ToUpper(hexTok([]byte{s[i]})) + s[i+1:]
			}
			return s + "%2A"
		case 4: // double a character
			if i < len(s) {
				return s[:i] + s[i:i+1] + s[i:]
			}
			return s + s[len(s)-1:]
		case 5: // append
			return s + extra[cfg.Rng.Intn(len(extra))]
		}
		return strings.ToUpper(s)
	}
	nn := 20000
	if cfg.Thorough() {
		nn = 300000
	}
	for i := 0; i < nn; i++ {
		base := lits[cfg.Rng.Intn(len(lits))]
		p := base
		if cfg.Rng.Intn(3) != 0 {
			p = edit(p)
			if cfg.Rng.Intn(4) == 0 {
				p = edit(p)
			}
		}
		var c string
		switch cfg.Rng.Intn(5) {
		case 0:
			c = p
		case 1:
			c = strings.TrimSuffix(base, "*") + []string{"secret", "add", "", "x/y", "%2A"}[cfg.Rng.Intn(5)]
		case 2:
			c = edit(strings.TrimSuffix(p, "*") + "doc")
		case 3:
			c = edit(base)
		default:
			c = lits[cfg.Rng.Intn(len(lits))]
		}
		emit("c16r", []string{hexTok([]byte(p)), hexTok([]byte(c))}, "near-literal", true)
	}
	// end to end: the rules as the validator applies them to tokens (what the accessors hand to them)
	nw := 400
	if cfg.Thorough() {
		nw = 8000
	}
	genWorlds(cfg, nw, genOpts{maxDepth: 4, sessions: true, sessionPct: 15, caveats: true, caveatPct: 20,
		kinds: []string{"case", "case", "nearmiss", "ability", "resource", "none", "didurl", "didurl", "urlnear", "urlnear", "ucanscoped"}}, func(w *AWorld, class string) {
		emit("access", []string{"C16", mustJSON(w)}, "end-to-end/"+class, true)
	})
	genWorlds(cfg, nw/2, genOpts{maxDepth: 4, urlWorld: true, kinds: []string{"urlnear", "urlnear", "none"}}, func(w *AWorld, class string) {
		emit("access", []string{"C16", mustJSON(w)}, "end-to-end-url/"+class, true)
	})
	for i := 0; i < nr; i++ {
		p := mk()
		var c string
		switch cfg.Rng.Intn(4) {
		case 0:
			c = p
		case 1: // derive c from p so that prefix rules are exercised
			c = strings.TrimSuffix(p, "*") + segs[cfg.Rng.Intn(len(segs))]
		case 2:
			c = strings.ToUpper(p[:len(p)/2]) + p[len(p)/2:]
		default:
			c = mk()
		}
		emit("c16r", []string{hexTok([]byte(p)), hexTok([]byte(c))}, "random", p != "" && c != "")
	}
	return nil
}
