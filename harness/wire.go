package main

// Wire-format correspondence: the fields the library exposes for a token / receipt / message / archive
// descriptor go to the Lean format model (Model/Wire.lean), which must produce the root block's bytes.
import (
	"bytes"
	"encoding/hex"
	"encoding/json"
	"fmt"
	"io"
	"math/rand"
	"sort"
	"strings"

	"github.com/ipfs/go-cid"
	"github.com/ipld/go-ipld-prime/datamodel"
	cidlink "github.com/ipld/go-ipld-prime/linking/cid"
	"github.com/storacha/go-ucanto/core/car"
	"github.com/storacha/go-ucanto/core/delegation"
	"github.com/storacha/go-ucanto/core/invocation"
	"github.com/storacha/go-ucanto/core/ipld"
	"github.com/storacha/go-ucanto/core/message"
	"github.com/storacha/go-ucanto/core/receipt"
	"github.com/storacha/go-ucanto/core/receipt/fx"
	"github.com/storacha/go-ucanto/core/result"
	"github.com/storacha/go-ucanto/ucan"
)

func init() {
	execs["wire"] = guard(execWire)
}

func hx(b []byte) string { return hex.EncodeToString(b) }

func linkHex(l ipld.Link) string {
	if cl, ok := l.(cidlink.Link); ok {
		return hx(cl.Cid.Bytes())
	}
	return ""
}

// tokenFields: the token as its data model exposes it
func tokenFields(d delegation.Delegation) (map[string]any, error) {
	m := d.Data().Model()
	out := map[string]any{"v": hx([]byte(m.V)), "iss": hx(m.Iss), "aud": hx(m.Aud), "s": hx(m.S)}
	att := []any{}
	for _, c := range m.Att {
		nb, err := nodeToCJ(c.Nb)
		if err != nil {
			return nil, err
		}
		att = append(att, map[string]any{"with": hx([]byte(c.With)), "can": hx([]byte(c.Can)), "nb": nb})
	}
	out["att"] = att
	// whether an optional field is present on the wire cannot be told from the bound struct (an empty
	// list and an absent one both read as no proofs): presence is read from the block itself
	present := map[string]bool{}
	if n, err := decodeAny(d.Root().Bytes()); err == nil {
		for _, f := range []string{"prf", "fct", "nnc", "nbf"} {
			if _, err := n.LookupByString(f); err == nil {
				present[f] = true
			}
		}
	}
	if m.Prf != nil || present["prf"] {
		prf := []any{}
		for _, l := range m.Prf {
			prf = append(prf, linkHex(l))
		}
		out["prf"] = prf
	}
	if m.Exp != nil {
		out["exp"] = fmt.Sprint(*m.Exp)
	}
	if m.Fct != nil || present["fct"] {
		fct := []any{}
		for _, f := range m.Fct {
			ents := []any{}
			keys := append([]string(nil), f.Keys...)
			for _, kk := range keys {
				v, err := nodeToCJ(f.Values[kk])
				if err != nil {
					return nil, err
				}
				ents = append(ents, []any{hx([]byte(kk)), v})
			}
			fct = append(fct, ents)
		}
		out["fct"] = fct
	}
	if m.Nnc != nil {
		out["nnc"] = hx([]byte(*m.Nnc))
	}
	if m.Nbf != nil {
		out["nbf"] = fmt.Sprint(*m.Nbf)
	}
	return out, nil
}

func anyToCJ(v any) (any, error) {
	switch x := v.(type) {
	case datamodel.Node:
		return nodeToCJ(x)
	case ipld.Builder:
		n, err := x.ToIPLD()
		if err != nil {
			return nil, err
		}
		return nodeToCJ(n)
	}
	return nil, fmt.Errorf("value of type %T", v)
}

// receiptFields: through the receipt's accessors
func receiptFields(rc receipt.AnyReceipt) (map[string]any, error) {
	out := map[string]any{"ran": linkHex(rc.Ran().Link()), "sig": hx(rc.Signature().Bytes())}
	o, x := result.Unwrap(rc.Out())
	var err error
	if o != nil {
		out["ok"] = true
		out["value"], err = nodeToCJ(o)
	} else {
		out["ok"] = false
		out["value"], err = nodeToCJ(x)
	}
	if err != nil {
		return nil, err
	}
	fork := []any{}
	for _, f := range rc.Fx().Fork() {
		fork = append(fork, linkHex(f.Link()))
	}
	out["fork"] = fork
	if j := rc.Fx().Join(); j != (fx.Effect{}) {
		out["join"] = linkHex(j.Link())
	}
	meta := []any{}
	mm := rc.Meta()
	var keys []string
	for kk := range mm {
		keys = append(keys, kk)
	}
	sort.Strings(keys)
	for _, kk := range keys {
		v, err := anyToCJ(mm[kk])
		if err != nil {
			return nil, err
		}
		meta = append(meta, []any{hx([]byte(kk)), v})
	}
	out["meta"] = meta
	if p := rc.Issuer(); p != nil {
		out["iss"] = hx([]byte(p.DID().String()))
	}
	prf := []any{}
	for _, p := range rc.Proofs() {
		prf = append(prf, linkHex(p.Link()))
	}
	out["prf"] = prf
	return out, nil
}

func messageFields(msg message.AgentMessage) (map[string]any, error) {
	out := map[string]any{}
	n, err := decodeAny(msg.Root().Bytes())
	if err != nil {
		return nil, err
	}
	data, err := n.LookupByString("ucanto/message@7.0.0")
	if err != nil {
		return nil, err
	}
	if _, err := data.LookupByString("execute"); err == nil {
		ex := []any{}
		for _, l := range msg.Invocations() {
			ex = append(ex, linkHex(l))
		}
		out["execute"] = ex
	}
	if rep, err := data.LookupByString("report"); err == nil {
		ents := []any{}
		for it := rep.MapIterator(); !it.Done(); {
			kn, _, err := it.Next()
			if err != nil {
				return nil, err
			}
			ks, _ := kn.AsString()
			c, err := cid.Decode(ks)
			if err != nil {
				return nil, err
			}
			rl, ok := msg.Get(cidlink.Link{Cid: c})
			if !ok {
				return nil, fmt.Errorf("report key %s not found by Get", ks)
			}
			ents = append(ents, []any{hx([]byte(ks)), linkHex(rl)})
		}
		out["report"] = ents
	}
	return out, nil
}

// execWire: args [kind, spec]; the spec was prepared by the generator (objects are rebuilt here so the
// case is self-contained): kind "world" = every token of a world plus archive / message / receipt of
// its invocation; kind "uspec" = one token over rich IPLD values.
func execWire(a []string) Result {
	pools()
	type item struct {
		Kind   string `json:"kind"`
		Fields any    `json:"fields"`
		Root   string `json:"root"`
	}
	var items []item
	add := func(kind string, f any, err error, root []byte) {
		if err == nil {
			items = append(items, item{kind, f, hx(root)})
		}
	}
	switch a[0] {
	case "uspec":
		var s USpec
		if err := json.Unmarshal([]byte(a[1]), &s); err != nil {
			return Result{Impl: "bad-spec"}
		}
		d, err := issueUSpec(&s)
		if err != nil {
			return Result{Impl: "skip:" + err.Error()}
		}
		f, err := tokenFields(d)
		add("token", f, err, d.Root().Bytes())
		// the same token as the issuance model predicts it from the OPTIONS it was issued with (which
		// optional fields are written, which of two options of a kind holds)
		if f != nil {
			if ol, oerr := optsList(&s); oerr == nil {
				add("issued", map[string]any{"v": f["v"], "iss": f["iss"], "aud": f["aud"], "s": f["s"], "att": f["att"], "opts": ol}, nil, d.Root().Bytes())
			}
		}
		// and as it comes back from an archive
		if ab, err := io.ReadAll(d.Archive()); err == nil {
			if x, err := delegation.Extract(ab); err == nil {
				f, err := tokenFields(x)
				add("token", f, err, x.Root().Bytes())
			}
			if roots, _, err := car.Decode(bytesReader(ab)); err == nil && len(roots) == 1 {
				if x, err := delegation.Extract(ab); err == nil {
					for blk, err := range x.Blocks() {
						if err == nil && blk.Link().String() == roots[0].String() {
							add("archive", map[string]any{"root": linkHex(d.Link())}, nil, blk.Bytes())
						}
					}
				}
			}
		}
	case "recorded": // a stored archive: the token it holds, as read today, against the format model
		ab, err := hex.DecodeString(a[1])
		if err != nil {
			return Result{Impl: "bad-hex"}
		}
		x, err := delegation.Extract(ab)
		if err != nil {
			return Result{Impl: "skip:" + err.Error()}
		}
		f, err := tokenFields(x)
		add("token", f, err, x.Root().Bytes())
	case "world":
		var w AWorld
		if err := json.Unmarshal([]byte(a[1]), &w); err != nil {
			return Result{Impl: "bad-world"}
		}
		cw, err := Concretise(&w)
		if err != nil {
			return Result{Impl: "skip:" + err.Error()}
		}
		for _, d := range cw.D {
			f, err := tokenFields(d)
			add("token", f, err, d.Root().Bytes())
		}
		top := cw.D[w.Inv]
		if msg, err := message.Build([]invocation.Invocation{top}, nil); err == nil {
			f, err := messageFields(msg)
			add("message", f, err, msg.Root().Bytes())
		}
		if svc := cw.P[w.Authority].signer; svc != nil {
			seed := atoi(a[2])
			tv := noNull(randTV(randOf(seed), 2))
			var res result.Result[tvBuilder, tvBuilder]
			if seed%2 == 0 {
				res = result.Ok[tvBuilder, tvBuilder](tvBuilder{tv})
			} else {
				res = result.Error[tvBuilder, tvBuilder](tvBuilder{tv})
			}
			var opts []receipt.Option
			if seed%3 == 0 {
				opts = append(opts, receipt.WithFork(fx.FromLink(dummyLink(60+seed%7)), fx.FromInvocation(top)), receipt.WithJoin(fx.FromLink(dummyLink(9))))
			}
			if seed%4 == 0 {
				opts = append(opts, receipt.WithProofs(delegation.Proofs{delegation.FromLink(dummyLink(70 + seed%5)), delegation.FromDelegation(top)}))
			}
			if seed%5 == 0 {
				n, _ := tvInt(int64(seed)).node()
				opts = append(opts, receipt.WithMeta(map[string]any{"zz": n, "a": n}))
			}
			if rc, err := receipt.Issue(svc, res, ranOf(top, seed), opts...); err == nil {
				f, err := receiptFields(rc)
				add("receipt", f, err, rc.Root().Bytes())
				if rm, err := message.Build([]invocation.Invocation{top}, []receipt.AnyReceipt{rc}); err == nil {
					f, err := messageFields(rm)
					add("message", f, err, rm.Root().Bytes())
				}
			}
		}
		_ = ucan.Now
	}
	if len(items) == 0 {
		return Result{Impl: "skip:nothing"}
	}
	var roots []string
	for _, it := range items {
		roots = append(roots, it.Root)
	}
	return Result{Args: []string{a[0], mustJSON(items)}, Impl: fmt.Sprint(roots)}
}

func genWire(cfg Config, emit Emit, nw, nu int) {
	o := genOpts{maxDepth: 4, sessions: true, sessionPct: 40, caveats: true, caveatPct: 50, kinds: []string{"none", "dup", "decoys"}}
	genWorlds(cfg, nw, o, func(w *AWorld, class string) {
		emit("wire", []string{"world", mustJSON(w), itoa(cfg.Rng.Intn(1 << 20))}, "wire/world", true)
	})
	for i := 0; i < nu; i++ {
		s := randUSpec(cfg.Rng, i)
		s.Alter = "none"
		emit("wire", []string{"uspec", mustJSON(&s)}, "wire/uspec", true)
	}
}

func randOf(seed int) *rand.Rand { return rand.New(rand.NewSource(int64(seed))) }

func bytesReader(b []byte) io.Reader { return bytes.NewReader(b) }

// randUSpec: a token over every option and caveat / fact values of every IPLD kind (no nulls: C07/F3)
func randUSpec(r *rand.Rand, i int) USpec {
	var s USpec
	switch r.Intn(8) {
	case 0:
		s.Key = fmt.Sprintf("rsa%d", r.Intn(2))
	case 1:
		s.Key = fmt.Sprintf("wrap%s%d", []string{"", "U", "R"}[r.Intn(3)], r.Intn(6))
	default:
		s.Key = fmt.Sprintf("ed%d", r.Intn(12))
	}
	s.Aud = fmt.Sprintf("ed%d", 12+r.Intn(6))
	for c := 1 + r.Intn(3); c > 0; c-- {
		nb := noNull(tvMap(randKVs(r, 2)))
		if r.Intn(4) == 0 {
			nb = noNull(randTVWide(r, 2)) // caveats need not be a map on the wire
		}
		s.Fields.Att = append(s.Fields.Att, UCap{Can: []string{"store/add", "upload/*", "*", "x/y", ""}[r.Intn(5)], With: []string{"did:key:z6MkExample", "ucan:*", "https://example.com/a?b=c", "mailto:a@b.c", "ünï"}[r.Intn(5)], Nb: nb})
	}
	for p := r.Intn(4); p > 0; p-- {
		s.Fields.Prf = append(s.Fields.Prf, cidPool[r.Intn(len(cidPool))])
	}
	if r.Intn(3) != 0 {
		e := 1800000000 + r.Intn(100000)
		s.Fields.Exp = &e
	}
	if r.Intn(3) == 0 {
		nb := []int{1, 10, 1700000000}[r.Intn(3)]
		s.Fields.Nbf = &nb
	}
	if r.Intn(3) == 0 {
		nn := []string{"abc", "n", "ünï", strings.Repeat("9", 300)}[r.Intn(4)]
		s.Fields.Nnc = &nn
	}
	for f := r.Intn(3); f > 0; f-- {
		var kvs []KV
		for _, kv := range randKVs(r, 2) {
			kvs = append(kvs, KV{kv.K, noNull(kv.V)})
		}
		if len(kvs) == 0 {
			kvs = []KV{{"k", tvInt(1)}}
		}
		s.Fields.Fct = append(s.Fields.Fct, kvs)
	}
	if r.Intn(5) == 0 {
		s.PreOpts = [][]string{{"exp:1999999999"}, {"noexp"}, {"nbf:7", "nnc:earlier"}, {"noexp", "exp:1888888888"}}[r.Intn(4)]
	}
	_ = i
	return s
}

// issueUSpec issues the token a USpec describes
func issueUSpec(s *USpec) (delegation.Delegation, error) {
	sg, err := pickSigner(s.Key)
	if err != nil {
		return nil, err
	}
	audS, err := pickSigner(s.Aud)
	if err != nil {
		return nil, err
	}
	var caps []ucan.Capability[tvBuilder]
	for _, c := range s.Fields.Att {
		caps = append(caps, ucan.NewCapability(c.Can, c.With, tvBuilder{c.Nb}))
	}
	opts := preOpts(s.PreOpts)
	if s.Fields.Exp == nil {
		opts = append(opts, delegation.WithNoExpiration())
	} else {
		opts = append(opts, delegation.WithExpiration(*s.Fields.Exp))
	}
	if s.Fields.Nbf != nil {
		opts = append(opts, delegation.WithNotBefore(*s.Fields.Nbf))
	}
	if s.Fields.Nnc != nil {
		opts = append(opts, delegation.WithNonce(*s.Fields.Nnc))
	}
	var prfs delegation.Proofs
	for _, p := range s.Fields.Prf {
		c, err := cid.Decode(p)
		if err != nil {
			return nil, err
		}
		prfs = append(prfs, delegation.FromLink(cidlink.Link{Cid: c}))
	}
	opts = append(opts, delegation.WithProof(prfs...))
	var fb []ucan.FactBuilder
	for _, f := range s.Fields.Fct {
		fb = append(fb, factB{f})
	}
	opts = append(opts, delegation.WithFacts(fb))
	return delegation.Delegate(sg, audS, caps, opts...)
}

// optsList: the options issueUSpec applies, in the order it applies them, in the form the driver reads
func optsList(s *USpec) ([]any, error) {
	var out []any
	cidHex := func(c string) (string, error) {
		cc, err := cid.Decode(c)
		if err != nil {
			return "", err
		}
		return hx(cc.Bytes()), nil
	}
	for _, o := range s.PreOpts {
		switch {
		case o == "noexp":
			out = append(out, map[string]any{"o": "noexp"})
		case strings.HasPrefix(o, "exp:"):
			out = append(out, map[string]any{"o": "exp", "i": fmt.Sprint(atoi(o[4:]))})
		case strings.HasPrefix(o, "nbf:"):
			out = append(out, map[string]any{"o": "nbf", "i": fmt.Sprint(atoi(o[4:]))})
		case strings.HasPrefix(o, "nnc:"):
			out = append(out, map[string]any{"o": "nnc", "s": hx([]byte(o[4:]))})
		case strings.HasPrefix(o, "prf:"):
			h, err := cidHex(o[4:])
			if err == nil {
				out = append(out, map[string]any{"o": "prf", "l": []any{h}})
			}
		}
	}
	if s.Fields.Exp == nil {
		out = append(out, map[string]any{"o": "noexp"})
	} else {
		out = append(out, map[string]any{"o": "exp", "i": fmt.Sprint(*s.Fields.Exp)})
	}
	if s.Fields.Nbf != nil {
		out = append(out, map[string]any{"o": "nbf", "i": fmt.Sprint(*s.Fields.Nbf)})
	}
	if s.Fields.Nnc != nil {
		out = append(out, map[string]any{"o": "nnc", "s": hx([]byte(*s.Fields.Nnc))})
	}
	prf := []any{}
	for _, p := range s.Fields.Prf {
		h, err := cidHex(p)
		if err != nil {
			return nil, err
		}
		prf = append(prf, h)
	}
	out = append(out, map[string]any{"o": "prf", "l": prf})
	fct := []any{}
	for _, f := range s.Fields.Fct {
		ents := []any{}
		seen := map[string]bool{}
		for _, kv := range f {
			if seen[kv.K] {
				return nil, fmt.Errorf("duplicate fact key")
			}
			seen[kv.K] = true
			n, err := kv.V.node()
			if err != nil {
				return nil, err
			}
			cj, err := nodeToCJ(n)
			if err != nil {
				return nil, err
			}
			ents = append(ents, []any{hx([]byte(kv.K)), cj})
		}
		fct = append(fct, ents)
	}
	out = append(out, map[string]any{"o": "fct", "f": fct})
	return out, nil
}

// genIssued: tokens whose interest is in the options they are issued with
func genIssued(cfg Config, emit Emit, n int) {
	r := cfg.Rng
	pre := [][]string{nil, {"exp:1999999999"}, {"noexp"}, {"nbf:7", "nnc:earlier"}, {"noexp", "exp:1888888888"}, {"nbf:0"}, {"nbf:-3", "nbf:0"}, {"nnc:"}, {"nnc:x", "nnc:"},
		{"prf:" + cidPool[0]}, {"exp:5", "noexp", "exp:-5"}, {"nbf:5", "noexp", "nnc:a", "exp:77", "nbf:-9"}}
	for i := 0; i < n; i++ {
		var s USpec
		s.Key = []string{"ed0", "ed1", "rsa0", "wrap3", "wrapU1"}[i%5]
		s.Aud = fmt.Sprintf("ed%d", 12+r.Intn(6))
		s.Fields.Att = []UCap{{Can: "store/add", With: "did:key:z6MkExample", Nb: tvMap(nil)}}
		s.PreOpts = pre[r.Intn(len(pre))]
		if r.Intn(2) == 0 {
			e := []int{-5, 0, 1, 1800000000, 1 << 31, 1<<53 + 1, 1<<62 + 3}[r.Intn(7)]
			s.Fields.Exp = &e
		}
		if r.Intn(2) == 0 {
			nb := []int{0, -1, -7, 1, 1700000000, 1 << 40, -(1 << 40)}[r.Intn(7)]
			s.Fields.Nbf = &nb
		}
		if r.Intn(2) == 0 {
			nn := []string{"", "n", "ünï", "0"}[r.Intn(4)]
			s.Fields.Nnc = &nn
		}
		for p := r.Intn(3); p > 0; p-- {
			s.Fields.Prf = append(s.Fields.Prf, cidPool[r.Intn(len(cidPool))])
		}
		for f := r.Intn(3); f > 0; f-- {
			s.Fields.Fct = append(s.Fields.Fct, []KV{{"k", tvInt(int64(f))}, {"aa", tvStr("v")}}[:1+r.Intn(2)])
		}
		s.Alter = "none"
		emit("wire", []string{"uspec", mustJSON(&s)}, "wire/issued-options", true)
	}
}
