package main

// Text forms (tie of Model/Base64.lean): the signing payload string and the text of a signature
// (ucan/formatter), delegation.Format / Parse (identity CID over the archive, multibase m), signer.Format /
// Parse (multibase M).  The driver recomputes every string from the raw bytes and reads it back.

import (
	"encoding/base64"
	"fmt"
	"io"
	"math/rand"
	"strings"

	"github.com/ipfs/go-cid"
	"github.com/multiformats/go-multibase"
	mh "github.com/multiformats/go-multihash"
	"github.com/storacha/go-ucanto/core/delegation"
	edsigner "github.com/storacha/go-ucanto/principal/ed25519/signer"
	rsasigner "github.com/storacha/go-ucanto/principal/rsa/signer"
	"github.com/storacha/go-ucanto/ucan"
	"github.com/storacha/go-ucanto/ucan/crypto/signature"
	pdm "github.com/storacha/go-ucanto/ucan/datamodel/payload"
	udm "github.com/storacha/go-ucanto/ucan/datamodel/ucan"
	"github.com/storacha/go-ucanto/ucan/formatter"
)

func init() {
	execs["sigtext"] = guard(execSigText)
	execs["signtext"] = guard(execSignText)
	execs["keyfmt"] = guard(execKeyFmt)
	execs["mbdec"] = guard(execMbDec)
	execs["dlgfmt"] = guard(execDlgFmt)
	execs["cidfmt"] = guard(execCidFmt)
	execs["dlgparse"] = guard(execDlgParse)
	wrapGen("C07", genTextC07)
	wrapGen("C13", genTextC13)
	wrapGen("C14", genTextC14)
}

// wrapGen appends g to the generator of a property (after it: the cases generated before keep their
// random choices).
func wrapGen(prop string, g func(cfg Config, emit Emit) error) {
	old := gens[prop]
	gens[prop] = func(cfg Config, emit Emit) error {
		if old != nil {
			if err := old(cfg, emit); err != nil {
				return err
			}
		}
		return g(cfg, emit)
	}
}

func randBytes(r *rand.Rand, n int) []byte {
	b := make([]byte, n)
	for i := range b {
		switch r.Intn(6) {
		case 0:
			b[i] = 0
		case 1:
			b[i] = 0xff
		case 2:
			b[i] = []byte{0xfb, 0xfc, 0x3e, 0x3f, 0xbe, 0xbf, 0xef}[r.Intn(7)] // sextets 62 / 63
		default:
			b[i] = byte(r.Intn(256))
		}
	}
	return b
}

// ---- C07: text of a signature, the signing payload string

func execSigText(a []string) Result {
	raw := unhexTok(a[1])
	s := signature.NewSignature(uint64(atoi(a[0])), raw)
	t, err := formatter.FormatSignature(s)
	if err != nil {
		return Result{Impl: "err"}
	}
	return Result{Impl: hexTok([]byte(t))}
}

func textPayload(seed int64) (pdm.PayloadModel, string, string) {
	r := rand.New(rand.NewSource(seed))
	pools()
	pl := pdm.PayloadModel{Iss: edPool[r.Intn(len(edPool))].DID().String(), Aud: []string{"did:web:example.com", "did:key:z6MkExample", "did:mailto:a.b:c", "did:x:" + strings.Repeat("é", r.Intn(4))}[r.Intn(4)]}
	for c := r.Intn(3); c >= 0; c-- {
		nb, _ := tvMap(randKVs(r, 2)).node()
		pl.Att = append(pl.Att, udm.CapabilityModel{With: []string{"ucan:*", "https://example.com/a?b=c&d=~", "mailto:a@b.c", "did:key:z6Mk>>>???"}[r.Intn(4)], Can: []string{"store/add", "*", "x/*"}[r.Intn(3)], Nb: nb})
	}
	for p := r.Intn(3); p > 0; p-- {
		pl.Prf = append(pl.Prf, cidPool[r.Intn(2)])
	}
	if r.Intn(2) == 0 {
		e := r.Intn(1 << 31)
		pl.Exp = &e
	}
	if r.Intn(3) == 0 {
		n := strings.Repeat("n", r.Intn(5)) + []string{"", "?", ">", "~~", "ÿ"}[r.Intn(5)]
		pl.Nnc = &n
	}
	if r.Intn(3) == 0 {
		n := r.Intn(1 << 20)
		pl.Nbf = &n
	}
	ver := []string{"0.9.1", "0.9", "1.0.0-rc.1", ""}[r.Intn(4)]
	alg := []string{"EdDSA", "RS256", "ES256K", "?>~"}[r.Intn(4)]
	return pl, ver, alg
}

func execSignText(a []string) Result {
	pl, ver, alg := textPayload(int64(atoi(a[0])))
	h, err1 := formatter.FormatHeader(ver, alg)
	p, err2 := formatter.FormatPayload(pl)
	s, err3 := formatter.FormatSignPayload(pl, ver, alg)
	if err1 != nil || err2 != nil || err3 != nil {
		return Result{Impl: "err"}
	}
	hb, e1 := base64.RawURLEncoding.DecodeString(h)
	pb, e2 := base64.RawURLEncoding.DecodeString(p)
	if e1 != nil || e2 != nil {
		return Result{Impl: "halves-not-base64url"}
	}
	return Result{Impl: hexTok(hb) + "|" + hexTok(pb) + "|" + hexTok([]byte(s))}
}

func genTextC07(cfg Config, emit Emit) error {
	r := cfg.Rng
	n := 150
	if cfg.Thorough() {
		n = 3000
	}
	for i := 0; i < n; i++ {
		l := i % 70
		if i%10 == 9 {
			l = 200 + r.Intn(400)
		}
		emit("sigtext", []string{fmt.Sprint([]int{0xd0ed, 0xd01205, 0xd0e7, 0}[r.Intn(4)]), hexTok(randBytes(r, l))}, "sigtext", l > 0)
	}
	for i := 0; i < n; i++ {
		emit("signtext", []string{fmt.Sprint(r.Intn(1 << 30))}, "signtext", true)
	}
	return nil
}

// ---- C14: text of a private key

func execKeyFmt(a []string) Result {
	k := pickKey(a[0])
	var f string
	var err error
	if strings.HasPrefix(a[0], "rsa") {
		f, err = rsasigner.Format(k)
	} else {
		f, err = edsigner.Format(k)
	}
	if err != nil {
		return Result{Impl: "err"}
	}
	var back []byte
	if strings.HasPrefix(a[0], "rsa") {
		p, err := rsasigner.Parse(f)
		if err != nil {
			return Result{Impl: "parse-err"}
		}
		back = p.Encode()
	} else {
		p, err := edsigner.Parse(f)
		if err != nil {
			return Result{Impl: "parse-err"}
		}
		back = p.Encode()
	}
	return Result{Impl: hexTok(k.Encode()) + "|" + hexTok([]byte(f)) + "|" + hexTok(back)}
}

// execMbDec: the multibase layer of signer.Parse on arbitrary strings
func execMbDec(a []string) Result {
	s := string(unhexTok(a[0]))
	_, b, err := multibase.Decode(s)
	_, perr := edsigner.Parse(s)
	if err != nil {
		if perr == nil || !strings.HasPrefix(perr.Error(), "decoding multibase string") {
			return Result{Impl: "err", Oracle: "fail:signer.Parse accepted a string that is not multibase"}
		}
		return Result{Impl: "err"}
	}
	if perr != nil && strings.HasPrefix(perr.Error(), "decoding multibase string") {
		return Result{Impl: "err"}
	}
	return Result{Impl: "ok|" + hexTok(b)}
}

func mutateText(r *rand.Rand, s string) string {
	b := []byte(s)
	switch r.Intn(12) {
	case 0:
		if len(b) > 1 {
			i := 1 + r.Intn(len(b)-1)
			b = append(b[:i:i], append([]byte{"\n\r"[r.Intn(2)]}, b[i:]...)...)
		}
	case 1:
		b = append(b, "=\n x.-_+/A"[r.Intn(10)])
	case 2:
		if len(b) > 1 {
			b = b[:len(b)-1-r.Intn(min(3, len(b)-1))]
		}
	case 3:
		if len(b) > 0 {
			b[0] = "mMuUzfbQ"[r.Intn(8)]
		}
	case 4:
		if len(b) > 1 {
			i := 1 + r.Intn(len(b)-1)
			b[i] = "-_+/=.A9z~"[r.Intn(10)]
		}
	case 5:
		b = append(b, '=', '=')
	case 6:
		if len(b) > 2 {
			i := 1 + r.Intn(len(b)-1)
			b = append(b[:i:i], b[i+1:]...)
		}
	case 7:
		if len(b) > 3 && b[len(b)-1] == '=' {
			b = append(b[:len(b)-1], '\n', '=', '\r')
		} else {
			b = append(b, '\r', '\n')
		}
	case 8:
		b = b[:min(len(b), r.Intn(4))]
	default:
	}
	return string(b)
}

func genTextC14(cfg Config, emit Emit) error {
	r := cfg.Rng
	pools()
	for i := 0; i < 12; i++ {
		emit("keyfmt", []string{fmt.Sprintf("ed%d", i)}, "keyfmt", true)
	}
	for i := 0; i < len(rsaPool) && i < 4; i++ {
		emit("keyfmt", []string{fmt.Sprintf("rsa%d", i)}, "keyfmt", true)
	}
	// exhaustive: every string over an 8-symbol alphabet (both flavours' special characters, padding, a line
	// break, letters whose sextets leave trailing bits) up to length 4 (5 thorough), under each of the four
	// base64 multibase prefixes
	maxLen := 4
	if cfg.Thorough() {
		maxLen = 5
	}
	alpha := []byte{'A', 'B', '/', '_', '-', '+', '=', '\n'}
	var rec func(cur []byte)
	rec = func(cur []byte) {
		for _, p := range []byte("mMuU") {
			emit("mbdec", []string{hexTok(append([]byte{p}, cur...))}, "mbdec-exhaustive", len(cur) > 0)
		}
		if len(cur) == maxLen {
			return
		}
		for _, c := range alpha {
			rec(append(cur[:len(cur):len(cur)], c))
		}
	}
	rec(nil)
	n := 300
	if cfg.Thorough() {
		n = 6000
	}
	for i := 0; i < n; i++ {
		raw := randBytes(r, i%40)
		var s string
		switch r.Intn(5) {
		case 0:
			s, _ = multibase.Encode(multibase.Base64, raw)
		case 1:
			s, _ = multibase.Encode(multibase.Base64url, raw)
		case 2:
			s, _ = multibase.Encode(multibase.Base64urlPad, raw)
		default:
			s, _ = multibase.Encode(multibase.Base64pad, raw)
		}
		if r.Intn(3) > 0 {
			s = mutateText(r, s)
		}
		emit("mbdec", []string{hexTok([]byte(s))}, "mbdec", len(s) > 1)
	}
	return nil
}

// ---- C13: text of a delegation

func execDlgFmt(a []string) Result {
	d, err := delegation.Extract(unhexTok(a[0]))
	if err != nil {
		return Result{Impl: "extract-err"}
	}
	re, err := io.ReadAll(d.Archive())
	if err != nil {
		return Result{Impl: "archive-err"}
	}
	s, err := delegation.Format(d)
	if err != nil {
		return Result{Impl: "format-err"}
	}
	p, err := delegation.Parse(s)
	if err != nil {
		return Result{Impl: "parse-err"}
	}
	re2, _ := io.ReadAll(p.Archive())
	return Result{Impl: hexTok(re) + "|" + hexTok([]byte(s)) + "|" + hexTok(re2)}
}

// execCidFmt: the CID layer of Format on arbitrary bytes (same calls as delegation.Format makes)
func execCidFmt(a []string) Result {
	b := unhexTok(a[0])
	digest, err := mh.Sum(b, mh.IDENTITY, -1)
	if err != nil {
		return Result{Impl: "err"}
	}
	s, err := cid.NewCidV1(0x0202, digest).StringOfBase(multibase.Base64)
	if err != nil {
		return Result{Impl: "err"}
	}
	return Result{Impl: hexTok([]byte(s)) + "|" + parseClass(s)}
}

func parseClass(s string) string {
	_, err := delegation.Parse(s)
	switch {
	case err == nil:
		return "extract"
	case strings.HasPrefix(err.Error(), "decoding CID"):
		return "err-cid"
	case strings.HasPrefix(err.Error(), "non CAR codec"):
		return "err-codec"
	case strings.HasPrefix(err.Error(), "decoding multihash"):
		return "err-mh"
	case strings.HasPrefix(err.Error(), "non identity multihash"):
		return "err-notidentity"
	}
	return "extract"
}

func execDlgParse(a []string) Result {
	return Result{Impl: parseClass(string(unhexTok(a[0])))}
}

func textDelegation(r *rand.Rand) []byte {
	pools()
	iss := edPool[r.Intn(len(edPool))]
	aud := edPool[r.Intn(len(edPool))]
	opts := []delegation.Option{delegation.WithNonce(strings.Repeat("x", r.Intn(12))), delegation.WithExpiration(farFuture + nowUnix())}
	if r.Intn(2) == 0 {
		opts = append(opts, delegation.WithNotBefore(1+r.Intn(1000)))
	}
	if r.Intn(4) == 0 {
		opts = append(opts, delegation.WithNonce(strings.Repeat("y", 16200+r.Intn(400)))) // archive lengths across 2^14
	}
	d, err := delegation.Delegate(iss, aud, []ucan.Capability[ucan.NoCaveats]{ucan.NewCapability("store/add", iss.DID().String(), ucan.NoCaveats{})}, opts...)
	if err != nil {
		return nil
	}
	b, _ := io.ReadAll(d.Archive())
	return b
}

// textDelegationOfLen: a delegation whose archive is exactly `target` bytes long (the nonce is stretched)
func textDelegationOfLen(target int) []byte {
	pools()
	iss, aud := edPool[0], edPool[1]
	nl := target - 400
	for try := 0; try < 6 && nl > 0; try++ {
		d, err := delegation.Delegate(iss, aud, []ucan.Capability[ucan.NoCaveats]{ucan.NewCapability("store/add", iss.DID().String(), ucan.NoCaveats{})},
			delegation.WithNonce(strings.Repeat("z", nl)), delegation.WithExpiration(farFuture+nowUnix()))
		if err != nil {
			return nil
		}
		b, _ := io.ReadAll(d.Archive())
		if len(b) == target {
			return b
		}
		nl += target - len(b)
	}
	return nil
}

func genTextC13(cfg Config, emit Emit) error {
	r := cfg.Rng
	n := 60
	if cfg.Thorough() {
		n = 1500
	}
	// archive lengths on both sides of the boundaries where the varint of the digest length grows
	// (2^14), every length in a window around them
	bounds := []int{1 << 14} // 2^21 (2 MiB archives, 4 MiB of hex per field) is left out: not exercised end to end
	for _, bd := range bounds {
		for l := bd - 8; l <= bd+6; l++ {
			if b := textDelegationOfLen(l); b != nil {
				emit("dlgfmt", []string{hexTok(b)}, fmt.Sprintf("dlgfmt-len-2^%d%+d", map[int]int{1 << 14: 14, 1 << 21: 21}[bd], l-bd), true)
			}
		}
	}
	for i := 0; i < n; i++ {
		if b := textDelegation(r); b != nil {
			emit("dlgfmt", []string{hexTok(b)}, "dlgfmt", true)
		}
	}
	for i := 0; i < 3*n; i++ {
		l := i % 50
		switch i % 17 {
		case 3:
			l = 120 + r.Intn(16)
		case 7:
			l = 16378 + r.Intn(12)
		}
		emit("cidfmt", []string{hexTok(randBytes(r, l))}, "cidfmt", l > 0)
	}
	// exhaustive: every CID byte string over {00,01,02,04,12,20,80,82} up to length 5 (6 thorough) - versions,
	// the CAR codec's varint 82 04, non-minimal and unterminated varints, digest lengths against the rest,
	// trailing bytes, the CIDv0 prefix - as multibase m through delegation.Parse
	maxLen := 5
	if cfg.Thorough() {
		maxLen = 6
	}
	alpha := []byte{0x00, 0x01, 0x02, 0x04, 0x12, 0x20, 0x80, 0x82}
	var rec func(cur []byte)
	rec = func(cur []byte) {
		s, _ := multibase.Encode(multibase.Base64, cur)
		emit("dlgparse", []string{hexTok([]byte(s))}, "dlgparse-exhaustive", len(cur) > 0)
		if len(cur) == maxLen {
			return
		}
		for _, c := range alpha {
			rec(append(cur[:len(cur):len(cur)], c))
		}
	}
	rec(nil)
	for i := 0; i < 6*n; i++ {
		payload := randBytes(r, i%24)
		var c cid.Cid
		switch r.Intn(8) {
		case 0:
			d, _ := mh.Sum(payload, mh.SHA2_256, -1)
			c = cid.NewCidV1(0x0202, d)
		case 1:
			d, _ := mh.Sum(payload, mh.IDENTITY, -1)
			c = cid.NewCidV1([]uint64{0x71, 0x55, 0x0200, 0x0203, 0x02}[r.Intn(5)], d)
		case 2:
			d, _ := mh.Sum(payload, mh.SHA2_256, -1)
			c = cid.NewCidV0(d)
		default:
			d, _ := mh.Sum(payload, mh.IDENTITY, -1)
			c = cid.NewCidV1(0x0202, d)
		}
		var s string
		switch r.Intn(6) {
		case 0:
			s, _ = c.StringOfBase(multibase.Base64pad)
		case 1:
			s, _ = c.StringOfBase(multibase.Base64url)
		case 2:
			raw := append([]byte{}, c.Bytes()...)
			switch r.Intn(4) {
			case 0:
				raw = append(raw, byte(r.Intn(256)))
			case 1:
				if len(raw) > 1 {
					raw = raw[:len(raw)-1]
				}
			case 2:
				raw[0] = []byte{0, 2, 0x12, 0x81}[r.Intn(4)]
			default:
				if len(raw) > 4 {
					raw[4] ^= 0x80
				}
			}
			s, _ = multibase.Encode(multibase.Base64, raw)
		default:
			s, _ = c.StringOfBase(multibase.Base64)
		}
		if c.Version() == 0 && r.Intn(2) == 0 {
			s = c.String()
		}
		if r.Intn(3) == 0 {
			s = mutateText(r, s)
		}
		emit("dlgparse", []string{hexTok([]byte(s))}, "dlgparse", len(s) > 1)
	}
	return nil
}
