module verifharness

go 1.23.3

require (
	github.com/ipfs/go-cid v0.4.1
	github.com/ipld/go-ipld-prime v0.21.1-0.20240917223228-6148356a4c2e
	github.com/multiformats/go-multibase v0.2.0
	github.com/multiformats/go-multihash v0.2.3
	github.com/multiformats/go-varint v0.0.7
	github.com/storacha/go-ucanto v0.0.0
)

require (
	github.com/go-logr/logr v1.4.2 // indirect
	github.com/go-logr/stdr v1.2.2 // indirect
	github.com/gobwas/glob v0.2.3 // indirect
	github.com/gogo/protobuf v1.3.2 // indirect
	github.com/google/uuid v1.6.0 // indirect
	github.com/hashicorp/golang-lru v1.0.2 // indirect
	github.com/ipfs/bbloom v0.0.4 // indirect
	github.com/ipfs/go-block-format v0.2.0 // indirect
	github.com/ipfs/go-blockservice v0.5.2 // indirect
	github.com/ipfs/go-datastore v0.6.0 // indirect
	github.com/ipfs/go-ipfs-blockstore v1.3.1 // indirect
	github.com/ipfs/go-ipfs-ds-help v1.1.1 // indirect
	github.com/ipfs/go-ipfs-exchange-interface v0.2.1 // indirect
	github.com/ipfs/go-ipfs-util v0.0.3 // indirect
	github.com/ipfs/go-ipld-cbor v0.1.0 // indirect
	github.com/ipfs/go-ipld-format v0.6.0 // indirect
	github.com/ipfs/go-ipld-legacy v0.2.1 // indirect
	github.com/ipfs/go-log v1.0.5 // indirect
	github.com/ipfs/go-log/v2 v2.5.1 // indirect
	github.com/ipfs/go-merkledag v0.11.0 // indirect
	github.com/ipfs/go-metrics-interface v0.0.1 // indirect
	github.com/ipfs/go-verifcid v0.0.3 // indirect
	github.com/ipld/go-car v0.6.2 // indirect
	github.com/ipld/go-codec-dagpb v1.6.0 // indirect
	github.com/jbenet/goprocess v0.1.4 // indirect
	github.com/klauspost/cpuid/v2 v2.2.8 // indirect
	github.com/mattn/go-isatty v0.0.20 // indirect
	github.com/mr-tron/base58 v1.2.0 // indirect
	github.com/multiformats/go-base32 v0.1.0 // indirect
	github.com/multiformats/go-base36 v0.2.0 // indirect
	github.com/multiformats/go-multicodec v0.9.0 // indirect
	github.com/opentracing/opentracing-go v1.2.0 // indirect
	github.com/pkg/errors v0.9.1 // indirect
	github.com/polydawn/refmt v0.89.1-0.20231129105047-37766d95467a // indirect
	github.com/spaolacci/murmur3 v1.1.0 // indirect
	github.com/ucan-wg/go-ucan v0.0.0-20240916120445-37f52863156c // indirect
	github.com/whyrusleeping/cbor-gen v0.1.2 // indirect
	go.opentelemetry.io/otel v1.30.0 // indirect
	go.opentelemetry.io/otel/metric v1.30.0 // indirect
	go.opentelemetry.io/otel/trace v1.30.0 // indirect
	go.uber.org/atomic v1.11.0 // indirect
	go.uber.org/multierr v1.11.0 // indirect
	go.uber.org/zap v1.27.0 // indirect
	golang.org/x/crypto v0.27.0 // indirect
	golang.org/x/sys v0.25.0 // indirect
	golang.org/x/xerrors v0.0.0-20240903120638-7835f813f4da // indirect
	google.golang.org/protobuf v1.34.2 // indirect
	lukechampine.com/blake3 v1.3.0 // indirect
)

replace github.com/storacha/go-ucanto => /repo
