package main

import (
	"bytes"
	"net/http"
	"sync"

	ipldprime "github.com/ipld/go-ipld-prime"
	"github.com/ipld/go-ipld-prime/codec/dagcbor"
	"github.com/ipld/go-ipld-prime/datamodel"
	"github.com/ipld/go-ipld-prime/node/basicnode"
	ipldschema "github.com/ipld/go-ipld-prime/schema"
	rdm "github.com/storacha/go-ucanto/core/receipt/datamodel"
	"github.com/storacha/go-ucanto/transport"
	thttp "github.com/storacha/go-ucanto/transport/http"
	"github.com/storacha/go-ucanto/ucan/crypto/signature"
)

func responseOf(body []byte) transport.HTTPResponse {
	h := http.Header{}
	h.Set("Content-Type", carCT)
	return thttp.NewHTTPResponse(200, bytes.NewReader(body), h)
}

var anyUnionOnce sync.Once
var anyUnionT ipldschema.Type

// anyUnionType: the Receipt type whose Result is a keyed union over two named `any` types
func anyUnionType() ipldschema.Type {
	anyUnionOnce.Do(func() {
		t, err := rdm.NewReceiptModelType(anyResultSchema)
		if err != nil {
			panic(err)
		}
		anyUnionT = t
	})
	return anyUnionT
}

func ipldLoad(sch []byte) (*ipldschema.TypeSystem, error) { return ipldprime.LoadSchemaBytes(sch) }

func signatureOf(b []byte) signature.Signature { return signature.Decode(b) }

func newSigBytes(code uint64, raw []byte) []byte { return signature.NewSignature(code, raw).Bytes() }

func decodeAny(b []byte) (datamodel.Node, error) {
	nb := basicnode.Prototype.Any.NewBuilder()
	if err := dagcbor.Decode(nb, bytes.NewReader(b)); err != nil {
		return nil, err
	}
	return nb.Build(), nil
}

func listNode(items []datamodel.Node) datamodel.Node {
	nb := basicnode.Prototype.Any.NewBuilder()
	la, _ := nb.BeginList(int64(len(items)))
	for _, x := range items {
		la.AssembleValue().AssignNode(x)
	}
	la.Finish()
	return nb.Build()
}

func mapNode(keys []string, vals []datamodel.Node) datamodel.Node {
	nb := basicnode.Prototype.Any.NewBuilder()
	ma, _ := nb.BeginMap(int64(len(keys)))
	for i, k := range keys {
		ma.AssembleKey().AssignString(k)
		ma.AssembleValue().AssignNode(vals[i])
	}
	ma.Finish()
	return nb.Build()
}

// setPath returns a copy of the map node n with the value at path replaced (nil: removed; a missing
// last key is added)
func setPath(n datamodel.Node, path []string, v datamodel.Node) datamodel.Node {
	var keys []string
	var vals []datamodel.Node
	found := false
	for it := n.MapIterator(); !it.Done(); {
		k, x, _ := it.Next()
		ks, _ := k.AsString()
		if ks == path[0] {
			found = true
			if len(path) == 1 {
				if v == nil {
					continue
				}
				x = v
			} else {
				x = setPath(x, path[1:], v)
			}
		}
		keys = append(keys, ks)
		vals = append(vals, x)
	}
	if !found && len(path) == 1 && v != nil {
		keys = append(keys, path[0])
		vals = append(vals, v)
	}
	return mapNode(keys, vals)
}
