package main

import (
	"bytes"
	"crypto/ed25519"
	"fmt"
	"github.com/storacha/go-ucanto/core/schema"
	"strings"

	"github.com/storacha/go-ucanto/did"
	"github.com/storacha/go-ucanto/principal"
	edsigner "github.com/storacha/go-ucanto/principal/ed25519/signer"
	edverifier "github.com/storacha/go-ucanto/principal/ed25519/verifier"
	rsasigner "github.com/storacha/go-ucanto/principal/rsa/signer"
	rsaverifier "github.com/storacha/go-ucanto/principal/rsa/verifier"
	"github.com/storacha/go-ucanto/principal/signer"
	"github.com/storacha/go-ucanto/principal/verifier"
	"github.com/storacha/go-ucanto/ucan/crypto/signature"
)

func init() {
	gens["C14"] = genC14
	execs["didparse"] = guard(execDidParse)
	execs["didread"] = guard(execDidRead)
	execs["diddecode"] = guard(execDidDecode)
	execs["sigframe"] = guard(execSigFrame)
	execs["signew"] = guard(execSigNew)
	execs["edsigner"] = guard(execEdSigner)
	execs["edverifier"] = guard(execEdVerifier)
	execs["keys"] = guard(execKeys)
	execs["didundef"] = guard(func(a []string) Result {
		return Result{Impl: "str=" + hexTok([]byte(did.Undef.String())) + "|bytes=" + hexTok(did.Undef.Bytes())}
	})
}

func guard(f func(a []string) Result) func(a []string) Result {
	return func(a []string) (res Result) {
		defer func() {
			if r := recover(); r != nil {
				res = Result{Impl: "panic", Extra: map[string]any{"panic": fmt.Sprint(r)}}
			}
		}()
		return f(a)
	}
}

var byteAlpha = []byte{0x00, 0x01, 0x12, 0x20, 0x7f, 0x80, 0x9d, 0x1a, 0xa1, 0xed, 0xff}

func didCanon(d did.DID) string {
	k := 0
	if strings.HasPrefix(d.String(), "did:key:") && len(d.Bytes()) > 0 {
		// the key flag is private; it is observable through the string form
		k = 1
	}
	s := d.String()
	flags := ""
	if p, err := did.Parse(s); err == nil && p == d {
		flags += "P"
	}
	if q, err := did.Decode(d.Bytes()); err == nil && q == d {
		flags += "D"
	}
	return fmt.Sprintf("ok|%d|%s|%s|%s", k, hexTok(d.Bytes()), hexTok([]byte(s)), flags)
}

func execDidParse(a []string) Result {
	d, err := did.Parse(string(unhexTok(a[0])))
	if err != nil {
		return Result{Impl: "err"}
	}
	if !absenteeKeepsDID(string(unhexTok(a[0]))) {
		return Result{Impl: didCanon(d), Oracle: "fail:an absentee signer made for a DID reports another DID"}
	}
	return Result{Impl: didCanon(d)}
}

func execDidDecode(a []string) Result {
	d, err := did.Decode(unhexTok(a[0]))
	if err != nil {
		return Result{Impl: "err"}
	}
	return Result{Impl: didCanon(d)}
}

func sigCanon(s signature.Signature) string {
	return fmt.Sprintf("%d|%d|%s", s.Code(), s.Size(), hexTok(s.Raw()))
}

func execSigFrame(a []string) Result {
	return Result{Impl: sigCanon(signature.Decode(unhexTok(a[0])))}
}

func execSigNew(a []string) Result {
	s := signature.NewSignature(uint64(atoi(a[0])), unhexTok(a[1]))
	return Result{Impl: hexTok(s.Bytes()) + "|" + sigCanon(s)}
}

func execEdSigner(a []string) Result {
	s, err := edsigner.Decode(unhexTok(a[0]))
	if err != nil {
		return Result{Impl: "err"}
	}
	raw := s.Raw()
	pub := s.Verifier().Raw()
	return Result{Impl: "ok|" + hexTok(raw[:32]) + "|" + hexTok(pub)}
}

func execEdVerifier(a []string) Result {
	v, err := edverifier.Decode(unhexTok(a[0]))
	if err != nil {
		return Result{Impl: "err"}
	}
	return Result{Impl: "ok|" + hexTok(v.Raw())}
}

// execKeys: real keys, real cryptography. a = [kind i, kind j, message hex]; kinds "ed<n>" / "rsa<n>".
func pickKey(s string) principal.Signer {
	pools()
	if strings.HasPrefix(s, "rsa") {
		return rsaPool[atoi(s[3:])%len(rsaPool)]
	}
	return edPool[atoi(s[2:])%len(edPool)]
}

func execKeys(a []string) Result {
	ka, kb := pickKey(a[0]), pickKey(a[1])
	msg := unhexTok(a[2])
	var bad []string
	chk := func(ok bool, what string) {
		if !ok {
			bad = append(bad, what)
		}
	}
	isRSA := strings.HasPrefix(a[0], "rsa")
	// formatting and parsing, encoding and decoding give back an equal value
	var f string
	var ps, ds principal.Signer
	var err error
	if isRSA {
		f, err = rsasigner.Format(ka)
		chk(err == nil, "format")
		ps, err = rsasigner.Parse(f)
		chk(err == nil, "parse")
		ds, err = rsasigner.Decode(ka.Encode())
		chk(err == nil, "decode")
	} else {
		f, err = edsigner.Format(ka)
		chk(err == nil, "format")
		ps, err = edsigner.Parse(f)
		chk(err == nil, "parse")
		ds, err = edsigner.Decode(ka.Encode())
		chk(err == nil, "decode")
	}
	if ps != nil && ds != nil {
		chk(bytes.Equal(ps.Encode(), ka.Encode()) && bytes.Equal(ds.Encode(), ka.Encode()), "signer round trip changes the key bytes")
		chk(ps.DID() == ka.DID() && ds.DID() == ka.DID(), "signer round trip changes the DID")
	}
	// signer, its verifier and the verifier parsed from the DID string agree
	var pv principal.Verifier
	if isRSA {
		pv, err = rsaverifier.Parse(ka.DID().String())
	} else {
		pv, err = edverifier.Parse(ka.DID().String())
	}
	chk(err == nil, "verifier from DID string")
	if pv != nil {
		chk(pv.DID() == ka.DID() && ka.Verifier().DID() == ka.DID(), "DIDs disagree")
		chk(bytes.Equal(pv.Encode(), ka.Verifier().Encode()), "verifier bytes disagree")
		var dv principal.Verifier
		if isRSA {
			dv, err = rsaverifier.Decode(pv.Encode())
		} else {
			dv, err = edverifier.Decode(pv.Encode())
		}
		chk(err == nil && dv.DID() == pv.DID(), "verifier decode(encode)")
	}
	// a decoded value is a value: it does not change when the caller reuses the buffer it was read from
	scribble := func(b []byte) {
		for i := range b {
			b[i] ^= 0xa5
		}
	}
	{
		buf := append([]byte{}, ka.Encode()...)
		var s2 principal.Signer
		if isRSA {
			s2, err = rsasigner.Decode(buf)
		} else {
			s2, err = edsigner.Decode(buf)
		}
		if err == nil {
			scribble(buf)
			chk(bytes.Equal(s2.Encode(), ka.Encode()) && s2.DID() == ka.DID(), "a decoded signer changes when the buffer it was decoded from is reused")
			chk(ka.Verifier().Verify(msg, s2.Sign(msg)), "a decoded signer signs with another key after its source buffer is reused")
		}
		vb := append([]byte{}, ka.Verifier().Encode()...)
		var v2 principal.Verifier
		if isRSA {
			v2, err = rsaverifier.Decode(vb)
		} else {
			v2, err = edverifier.Decode(vb)
		}
		if err == nil {
			scribble(vb)
			chk(bytes.Equal(v2.Encode(), ka.Verifier().Encode()) && v2.DID() == ka.DID(), "a decoded verifier changes when the buffer it was decoded from is reused")
			chk(v2.Verify(msg, ka.Sign(msg)), "a decoded verifier rejects its key's signature after its source buffer is reused")
		}
		db := append([]byte{}, ka.DID().Bytes()...)
		if dd, err := did.Decode(db); err == nil {
			scribble(db)
			chk(dd == ka.DID() && dd.String() == ka.DID().String(), "a decoded DID changes when the buffer it was decoded from is reused")
		}
	}
	d2, err := did.Parse(ka.DID().String())
	chk(err == nil && d2 == ka.DID(), "did parse(string)")
	d3, err := did.Decode(ka.DID().Bytes())
	chk(err == nil && d3 == ka.DID(), "did decode(bytes)")

	sig := ka.Sign(msg)
	if pv != nil {
		chk(pv.Verify(msg, sig) && ka.Verifier().Verify(msg, sig), "own signature rejected")
		// only for the signed message
		other := append(append([]byte{}, msg...), 0x01)
		chk(!pv.Verify(other, sig), "signature accepted for a longer message")
		if len(msg) > 0 {
			flipped := append([]byte{}, msg...)
			flipped[0] ^= 1
			chk(!pv.Verify(flipped, sig), "signature accepted for a different message")
		}
		// only under its own algorithm code
		for _, code := range []uint64{signature.EdDSA, signature.RS256, signature.ES256, signature.NON_STANDARD, 0} {
			if code == sig.Code() {
				continue
			}
			sub := signature.NewSignature(code, sig.Raw())
			chk(!pv.Verify(msg, sub), fmt.Sprintf("signature accepted under algorithm code %#x", code))
		}
		// a damaged signature
		raw := append([]byte{}, sig.Raw()...)
		raw[len(raw)/2] ^= 0x40
		chk(!pv.Verify(msg, signature.NewSignature(sig.Code(), raw)), "damaged signature accepted")
		chk(!pv.Verify(msg, signature.NewSignature(sig.Code(), sig.Raw()[:len(sig.Raw())-1])), "truncated signature accepted")
		chk(!pv.Verify(msg, signature.Decode(nil)), "empty signature accepted")
	}
	// never by another key
	if a[0] != a[1] {
		chk(!kb.Verifier().Verify(msg, sig), "signature accepted by another key")
		sb := kb.Sign(msg)
		chk(!ka.Verifier().Verify(msg, sb), "another key's signature accepted")
	}
	// wrapping changes only the DID
	wdStr := []string{"did:web:wrapped.example.com", "did:web:Wrapped.Example.com:Users:Alice", "did:web:localhost%3A8080", "did:dns:UP.example"}[len(msg)%4]
	wd, _ := did.Parse(wdStr)
	if ws, err := signer.Wrap(ka, wd); err == nil {
		chk(ws.DID() == wd && ws.Verifier().DID() == wd && ws.DID().String() == wdStr, "wrap: DID")
		chk(bytes.Equal(ws.Encode(), ka.Encode()) && ws.Code() == ka.Code(), "wrap: key bytes")
		chk(ws.Verifier().Verify(msg, ws.Sign(msg)) && ka.Verifier().Verify(msg, ws.Sign(msg)), "wrap: signatures")
		chk(ws.Unwrap().DID() == ka.DID(), "unwrap")
		wv, err := verifier.Wrap(ka.Verifier(), wd)
		chk(err == nil && wv.DID() == wd && bytes.Equal(wv.Encode(), ka.Verifier().Encode()) && wv.Verify(msg, sig), "verifier wrap")
	} else {
		bad = append(bad, "wrap failed")
	}
	if !isRSA {
		// independent check of the Ed25519 signature with the standard library
		chk(ed25519.Verify(ed25519.PublicKey(ka.Verifier().Raw()), msg, sig.Raw()), "stdlib ed25519 rejects the signature")
	}
	if len(bad) > 0 {
		return Result{Impl: "fail", Oracle: "fail:" + strings.Join(bad, "; ")}
	}
	return Result{Impl: "ok", Oracle: "ok"}
}

func genC14(cfg Config, emit Emit) error {
	pools()
	n := 4
	if cfg.Thorough() {
		n = 5
	}
	for _, b := range enumUpTo(byteAlpha, n) {
		emit("diddecode", []string{hexTok(b)}, "bytes-exhaustive", len(b) > 0)
		emit("sigframe", []string{hexTok(b)}, "bytes-exhaustive", len(b) > 0)
	}
	// DID strings: exhaustive after the prefix over a small alphabet
	strAlpha := []byte("key:z1A2w")
	m := 4
	if cfg.Thorough() {
		m = 6
	}
	for _, s := range enumUpTo(strAlpha, m) {
		emit("didparse", []string{hexTok(append([]byte("did:"), s...))}, "did-exhaustive", true)
	}
	for _, s := range enumUpTo([]byte("z1A2wo0"), m-1) {
		emit("didparse", []string{hexTok(append([]byte("did:key:"), s...))}, "didkey-exhaustive", true)
	}
	real := []string{"did:web:example.com", "did:mailto:web.mail:alice", "did:", "did", "", "DID:key:z6Mk", "did:key:", "did:key:z", "did:key:m", "did:web:üñí", "did:日本:x",
		"did:web:Example.COM", "did:web:example.com:Users:Alice", "did:web:localhost%3A8080", "did:mailto:example.com:alice%2Btag", "did:web:EXAMPLE.com:path%3a", "did:dns:Alice.Example", "did:web:a.b:C%2F", "did:plc:Z72I7hdynmk6r22z27h6tvur", "did:web:%41",
		"did:key:z6MkheLzuHHrrtCVKuJVTAGUZnt48mnXRURTrb2Srrpa3ZeX", "did:key:z6MkheLzuHHrrtCVKuJVTAGUZnt48mnXRURTrb2Srrpa3Ze0", "x" + edPool[0].DID().String(), edPool[0].DID().String() + " ", "did:key:" + edPool[0].DID().String()[9:]}
	for i := 0; i < edPoolSize; i++ {
		real = append(real, edPool[i].DID().String())
	}
	for _, r := range rsaPool {
		real = append(real, r.DID().String())
	}
	for _, s := range real {
		emit("didparse", []string{hexTok([]byte(s))}, "did-realistic", s != "")
	}
	genDidRead(cfg, emit)
	for _, wh := range []string{"verifier", "signer"} {
		for n := 0; n <= 3; n++ {
			emit("rsatag", []string{wh, itoa(n)}, "rsa-tag", n > 0)
		}
	}
	for i := 0; i < 300; i++ {
		// a did:key of random bytes behind each multicodec tag
		tag := [][]byte{{0xed, 0x01}, {0x85, 0x24}, {0x9d, 0x1a}, {0x00}, {0xe7, 0x01}}[i%5]
		body := make([]byte, cfg.Rng.Intn(40))
		cfg.Rng.Read(body)
		emit("diddecode", []string{hexTok(append(append([]byte{}, tag...), body...))}, "did-random", true)
	}
	emit("didundef", []string{"-"}, "did-realistic", true)
	// signatures
	for i := 0; i < 400; i++ {
		raw := make([]byte, []int{0, 1, 64, 127, 128, 256, 300}[i%7])
		cfg.Rng.Read(raw)
		code := []int{0xd0ed, 0xd01205, 0xd000, 0, 1, 127, 128, 0xd0e7, 0xd191, 1 << 40}[i%10]
		emit("signew", []string{itoa(code), hexTok(raw)}, "signature", true)
	}
	// key byte layouts: the real encodings and their single-byte corruptions
	for i := 0; i < 6; i++ {
		enc := edPool[i].Encode()
		emit("edsigner", []string{hexTok(enc)}, "ed-layout", true)
		emit("edverifier", []string{hexTok(edPool[i].Verifier().Encode())}, "ed-layout", true)
		for pos := 0; pos < len(enc); pos += 1 + i {
			mm := append([]byte{}, enc...)
			mm[pos] ^= 0x81
			emit("edsigner", []string{hexTok(mm)}, "ed-layout", true)
		}
		emit("edsigner", []string{hexTok(enc[:67])}, "ed-layout", true)
		emit("edsigner", []string{hexTok(append(append([]byte{}, enc...), 0))}, "ed-layout", true)
		ve := edPool[i].Verifier().Encode()
		for pos := 0; pos < len(ve); pos += 1 + i {
			mm := append([]byte{}, ve...)
			mm[pos] ^= 0x81
			emit("edverifier", []string{hexTok(mm)}, "ed-layout", true)
		}
		emit("edverifier", []string{hexTok(ve[:33])}, "ed-layout", true)
	}
	// real keys: all pairs, several messages
	nk := 8
	if cfg.Thorough() {
		nk = edPoolSize
	}
	var names []string
	for i := 0; i < nk; i++ {
		names = append(names, fmt.Sprintf("ed%d", i))
	}
	names = append(names, "rsa0", "rsa1")
	msgs := [][]byte{{}, []byte("a"), []byte("the quick brown fox"), bytes.Repeat([]byte{0xff}, 300)}
	k := 0
	for _, x := range names {
		for _, y := range names {
			k++
			emit("keys", []string{x, y, hexTok(msgs[k%len(msgs)])}, "real-keys", x != y)
		}
	}
	return nil
}

// execDidRead: the library's schema reader of DID strings, optionally restricted to one method.
// args = [method or "-", hex string]
func execDidRead(a []string) Result {
	var rd schema.Reader[string, string]
	if a[0] == "-" {
		rd = schema.DIDString()
	} else {
		rd = schema.DIDString(schema.WithMethod(a[0]))
	}
	out, err := rd.Read(string(unhexTok(a[1])))
	if err != nil {
		return Result{Impl: "err"}
	}
	return Result{Impl: "ok:" + hexTok([]byte(out))}
}

// genDidRead: every string goes to a method-restricted reader first and to the unrestricted one after
// it (and the other way round): a reader must not remember what another reader said
func genDidRead(cfg Config, emit Emit) {
	pools()
	strs := []string{"did:web:example.com", "did:mailto:web.mail:alice", "did:key:", "did:key:z", "did:", "", "did:web:", "did:dns:x", "did:key:zzz", "did:WEB:x", "DID:web:x",
		"did:web:example.com#frag", "did:web:example.com/path", "did:web:example.com?q", edPool[3].DID().String() + "#k", "did:key:" + edPool[3].DID().String()[8:] + " "}
	for i := 0; i < 8; i++ {
		strs = append(strs, edPool[i].DID().String())
	}
	for _, r := range rsaPool {
		strs = append(strs, r.DID().String())
	}
	for _, s := range strs {
		for _, m := range []string{"key", "-", "web", "-", "mailto", "key"} {
			emit("didread", []string{m, hexTok([]byte(s))}, "did-reader/"+m, s != "")
		}
	}
}
