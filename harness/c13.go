package main

// C13: messages and delegation archives read back unchanged. Worlds of nested delegations (inline and
// link-only proofs, attached blocks); every token through Archive/Extract and Format/Parse; a message of
// the world's invocations and of receipts for them through the request and response codecs.

import (
	"bytes"
	"encoding/json"
	"fmt"
	"io"
	"sort"
	"strings"

	"github.com/ipfs/go-cid"
	cidlink "github.com/ipld/go-ipld-prime/linking/cid"
	mh "github.com/multiformats/go-multihash"
	"github.com/storacha/go-ucanto/core/dag/blockstore"
	"github.com/storacha/go-ucanto/core/delegation"
	"github.com/storacha/go-ucanto/core/invocation"
	"github.com/storacha/go-ucanto/core/invocation/ran"
	"github.com/storacha/go-ucanto/core/ipld"
	"github.com/storacha/go-ucanto/core/ipld/block"
	"github.com/storacha/go-ucanto/core/message"
	"github.com/storacha/go-ucanto/core/receipt"
	"github.com/storacha/go-ucanto/core/receipt/fx"
	"github.com/storacha/go-ucanto/core/result"
	"github.com/storacha/go-ucanto/transport/car/request"
	"github.com/storacha/go-ucanto/transport/car/response"
	thttp "github.com/storacha/go-ucanto/transport/http"
	"github.com/storacha/go-ucanto/ucan"
)

func init() {
	gens["C13"] = genC13
	execs["roundtrip"] = guard(execRoundtrip)
}

func genC13(cfg Config, emit Emit) error {
	n := 500
	if cfg.Thorough() {
		n = 12000
	}
	o := genOpts{maxDepth: 5, sessions: true, sessionPct: 30, caveats: true, caveatPct: 40,
		kinds: []string{"none", "decoys", "dup", "missing", "permute", "deadend", "nbf-ok", "linkmix"}}
	genWorlds(cfg, n, o, func(w *AWorld, class string) {
		r := cfg.Rng
		// more link-only proofs in the middle of proof lists
		for i := range w.Tokens {
			t := &w.Tokens[i]
			for k := range t.Inline {
				if r.Intn(5) == 0 {
					t.Inline[k] = false
				}
			}
		}
		// a batch: the invocation plus siblings sharing its proofs
		main := w.Tokens[w.Inv]
		w.Invs = []int{w.Inv}
		for k := r.Intn(3); k > 0; k-- {
			t := main
			t.Caps = append([]ACap(nil), main.Caps...)
			t.Prfs = append([]int(nil), main.Prfs...)
			t.Inline = append([]bool(nil), main.Inline...)
			t.Nonce = fmt.Sprintf("sib%d", k)
			t.ID = len(w.Tokens)
			w.Tokens = append(w.Tokens, t)
			w.Invs = append(w.Invs, t.ID)
		}
		if r.Intn(6) == 0 {
			w.Invs = []int{}
		}
		normalize(w)
		// blocks attached to proofs before the tokens citing them are issued
		if r.Intn(3) == 0 {
			for i := range w.Tokens {
				if r.Intn(3) == 0 && len(w.Tokens) < 190 {
					w.Tokens[i].PreAttach = 1 + r.Intn(2)
				}
			}
		}
		attach := r.Intn(5)
		emit("roundtrip", []string{mustJSON(w), itoa(attach), itoa(r.Intn(1 << 30))}, class, len(w.Tokens) > 1)
	})
	// the codec every block goes through, against the Lean byte-level model
	nc, nb := 400, 30
	if cfg.Thorough() {
		nc, nb = 8000, 400
	}
	genCbor(cfg, emit, nc)
	genCborBlocks(cfg, emit, nb)
	// the wire format model: root block bytes from the fields the library exposes
	nw, nu := 60, 120
	if cfg.Thorough() {
		nw, nu = 1500, 3000
	}
	genWire(cfg, emit, nw, nu)
	return nil
}

func blockIDs(cw *CWorld, it func(func(ipld.Block, error) bool), extra map[string]int) ([]int, error) {
	var out []int
	seen := map[int]bool{}
	var ierr error
	it(func(b ipld.Block, err error) bool {
		if err != nil {
			ierr = err
			return false
		}
		id, ok := cw.idOf[b.Link().String()]
		if !ok {
			id, ok = extra[b.Link().String()]
			if !ok {
				return true
			}
		}
		if !seen[id] {
			seen[id] = true
			out = append(out, id)
		}
		return true
	})
	sort.Ints(out)
	return out, ierr
}

func sameInts(a, b []int) bool {
	if len(a) != len(b) {
		return false
	}
	for i := range a {
		if a[i] != b[i] {
			return false
		}
	}
	return true
}

// sameDelegation compares every field, the signature and (recursively) every proof that a can view
func sameDelegation(a, b delegation.Delegation, depth int) string {
	if a.Link().String() != b.Link().String() {
		return "link differs"
	}
	if !bytes.Equal(a.Root().Bytes(), b.Root().Bytes()) {
		return "root bytes differ"
	}
	if a.Issuer().DID() != b.Issuer().DID() || a.Audience().DID() != b.Audience().DID() || a.Version() != b.Version() {
		return "issuer/audience/version differ"
	}
	if !bytes.Equal(a.Signature().Bytes(), b.Signature().Bytes()) {
		return "signature differs"
	}
	if (a.Expiration() == nil) != (b.Expiration() == nil) || (a.Expiration() != nil && *a.Expiration() != *b.Expiration()) || a.NotBefore() != b.NotBefore() || a.Nonce() != b.Nonce() {
		return "exp/nbf/nnc differ"
	}
	ca, cb := a.Capabilities(), b.Capabilities()
	if len(ca) != len(cb) {
		return "capability count differs"
	}
	for i := range ca {
		na, _ := ca[i].Nb().(ipld.Node)
		nb, _ := cb[i].Nb().(ipld.Node)
		if ca[i].Can() != cb[i].Can() || ca[i].With() != cb[i].With() || !bytes.Equal(nodeBytes(na), nodeBytes(nb)) {
			return "capability differs"
		}
	}
	if len(a.Facts()) != len(b.Facts()) {
		return "facts differ"
	}
	pa, pb := a.Proofs(), b.Proofs()
	if len(pa) != len(pb) {
		return "proof count differs"
	}
	bra, _ := blockstore.NewBlockReader(blockstore.WithBlocksIterator(a.Blocks()))
	brb, _ := blockstore.NewBlockReader(blockstore.WithBlocksIterator(b.Blocks()))
	va, vb := delegation.NewProofsView(pa, bra), delegation.NewProofsView(pb, brb)
	for i := range pa {
		if pa[i].String() != pb[i].String() {
			return "proof link differs"
		}
		da, oka := va[i].Delegation()
		db, okb := vb[i].Delegation()
		if oka && !okb {
			return fmt.Sprintf("embedded proof %d is no longer viewable", i)
		}
		if oka && okb && depth < 12 {
			if d := sameDelegation(da, db, depth+1); d != "" {
				return fmt.Sprintf("proof %d: %s", i, d)
			}
		}
	}
	return ""
}

func execRoundtrip(a []string) Result {
	var w AWorld
	if err := json.Unmarshal([]byte(a[0]), &w); err != nil {
		return Result{Impl: "bad-world:" + err.Error()}
	}
	cw, err := Concretise(&w)
	if err != nil {
		return Result{Impl: "concretise-error:" + err.Error()}
	}
	nattach := atoi(a[1])
	var bad []string
	chk := func(c bool, what string) {
		if !c && len(bad) < 4 {
			bad = append(bad, what)
		}
	}
	extra := map[string]int{}
	// attachments on the invocation(s) and on one proof
	var attached [][]int = make([][]int, len(w.Tokens))
	// the tokens have been stored once already, before anything is attached to them
	for _, d := range cw.D {
		io.ReadAll(d.Archive())
		delegation.Format(d)
	}
	aseed := 0
	if len(a) > 2 {
		aseed = atoi(a[2])
	}
	for k := 0; k < nattach; k++ {
		tid := w.Inv
		if k == 1 && len(w.Tokens) > 1 {
			tid = (w.Inv + len(w.Tokens) - 1) % len(w.Tokens)
		}
		var blk ipld.Block
		id := 10000 + k
		switch (aseed >> (3 * k)) % 5 {
		case 4: // a block of the caller's own type (a plain value holding a slice), not one the library made
			data := []byte{0x18, byte(100 + k)}
			h, _ := mh.Sum(data, mh.SHA2_256, -1)
			blk = valBlock{cidlink.Link{Cid: cid.NewCidV1(0x71, h)}, data}
		case 1: // a block whose CID carries its bytes (identity multihash)
			data := []byte{0x18, byte(100 + k)}
			h, _ := mh.Sum(data, mh.IDENTITY, -1)
			blk = block.NewBlock(cidlink.Link{Cid: cid.NewCidV1(0x55, h)}, data)
		case 2: // a block the token already carries: its own root, or the root of an embedded proof
			src := cw.D[tid]
			for i, p := range w.Tokens[tid].Prfs {
				if i < len(w.Tokens[tid].Inline) && w.Tokens[tid].Inline[i] {
					src = cw.D[p]
					break
				}
			}
			blk = src.Root()
			id = cw.idOf[blk.Link().String()]
		case 3: // the bytes of the previous attachment again, under another codec: another link, another block
			data := []byte{0x18, byte(100 + k - 1)}
			if k == 0 {
				data = []byte{0x18, 0x63}
			}
			h, _ := mh.Sum(data, mh.SHA2_256, -1)
			blk = block.NewBlock(cidlink.Link{Cid: cid.NewCidV1(0x55, h)}, data)
		default:
			blk = rawCborBlock([]byte{0x18, byte(100 + k)})
		}
		// the last attachment is, in a third of the cases, a block of no bytes at all (hashed, or inlined
		// in an identity CID)
		if k == nattach-1 && id >= 10000 {
			switch (aseed >> 24) % 6 {
			case 0:
				h, _ := mh.Sum([]byte{}, mh.SHA2_256, -1)
				blk = block.NewBlock(cidlink.Link{Cid: cid.NewCidV1(0x55, h)}, []byte{})
			case 1:
				h, _ := mh.Sum([]byte{}, mh.IDENTITY, -1)
				blk = block.NewBlock(cidlink.Link{Cid: cid.NewCidV1(0x55, h)}, []byte{})
			case 2: // a block addressed by a CIDv0 (sha2-256, dag-pb implied)
				data := []byte{0x0a, 0x01, byte(100 + k)}
				h, _ := mh.Sum(data, mh.SHA2_256, -1)
				blk = block.NewBlock(cidlink.Link{Cid: cid.NewCidV0(h)}, data)
			case 3: // a block addressed by a sha2-256 digest truncated to 20 bytes
				data := []byte{0x18, byte(100 + k)}
				h, _ := mh.Sum(data, mh.SHA2_256, 20)
				blk = block.NewBlock(cidlink.Link{Cid: cid.NewCidV1(0x55, h)}, data)
			}
		}
		if id >= 10000 {
			extra[blk.Link().String()] = id
		}
		if err := cw.D[tid].Attach(blk); err != nil {
			chk(false, "attach failed")
		}
		if id >= 10000 {
			attached[tid] = append(attached[tid], id)
		}
	}
	// blocks attached before citation travel with every token that embeds the proof: E(t)
	for i := range w.Tokens {
		for k := 0; k < w.Tokens[i].PreAttach; k++ {
			extra[preBlock(i, k).Link().String()] = preBlockID(i, k)
		}
	}
	expectPre := make([]map[int]bool, len(w.Tokens))
	for i := range w.Tokens { // ids are topologically ordered: proofs first
		expectPre[i] = map[int]bool{}
		for k := 0; k < w.Tokens[i].PreAttach; k++ {
			expectPre[i][preBlockID(i, k)] = true
		}
		for pi, p := range w.Tokens[i].Prfs {
			if p >= 0 && p < i && pi < len(w.Tokens[i].Inline) && w.Tokens[i].Inline[pi] {
				for id := range expectPre[p] {
					expectPre[i][id] = true
				}
			}
		}
	}
	// 1. the link of every delegation is the CID of its root block bytes
	for i, d := range cw.D {
		h, _ := mh.Sum(d.Root().Bytes(), mh.SHA2_256, -1)
		chk(cid.NewCidV1(0x71, h).String() == d.Link().String(), fmt.Sprintf("token %d: link is not the CID of its root bytes", i))
	}
	// 2. Archive/Extract and Format/Parse of every token
	for i, d := range cw.D {
		ab, err := io.ReadAll(d.Archive())
		if err != nil {
			chk(false, fmt.Sprintf("token %d: archive: %v", i, err))
			continue
		}
		x, err := delegation.Extract(ab)
		if err != nil {
			chk(false, fmt.Sprintf("token %d: extract: %v", i, err))
			continue
		}
		if df := sameDelegation(d, x, 0); df != "" {
			chk(false, fmt.Sprintf("token %d after Archive/Extract: %s", i, df))
		}
		want, _ := blockIDs(cw, d.Blocks(), extra)
		got, ierr := blockIDs(cw, x.Blocks(), extra)
		chk(ierr == nil && sameInts(want, got), fmt.Sprintf("token %d after Archive/Extract: blocks %v became %v", i, want, got))
		for id := range expectPre[i] {
			chk(hasInt(got, id), fmt.Sprintf("token %d after Archive/Extract: block %d attached to an embedded proof is gone", i, id))
		}
		// load -> attach -> store -> load: what is attached to a loaded delegation is written out with it
		late := rawCborBlock([]byte{0x18, 0xfe})
		extra[late.Link().String()] = 19999
		if x.Attach(late) == nil {
			if ab2, err := io.ReadAll(x.Archive()); err == nil {
				x2, err := delegation.Extract(ab2)
				chk(err == nil, fmt.Sprintf("token %d: re-archived delegation no longer extracts", i))
				if err == nil {
					got2, _ := blockIDs(cw, x2.Blocks(), extra)
					chk(hasInt(got2, 19999), fmt.Sprintf("token %d: a block attached after loading is not written by Archive", i))
					for _, id := range want {
						chk(hasInt(got2, id), fmt.Sprintf("token %d: block %d lost by load, attach, store, load", i, id))
					}
				}
			}
		}
		s, err := delegation.Format(d)
		if err != nil {
			chk(false, fmt.Sprintf("token %d: format: %v", i, err))
			continue
		}
		p, err := delegation.Parse(s)
		if err != nil {
			chk(false, fmt.Sprintf("token %d: parse: %v", i, err))
			continue
		}
		if df := sameDelegation(d, p, 0); df != "" {
			chk(false, fmt.Sprintf("token %d after Format/Parse: %s", i, df))
		}
	}
	// block sets as built (the model predicts them from the inline flags); attachments are reported apart
	bsOut := make([][]int, len(cw.D))
	for i, d := range cw.D {
		ids, _ := blockIDs(cw, d.Blocks(), extra)
		var own, att []int
		for _, id := range ids {
			if id >= 10000 {
				att = append(att, id)
			} else {
				own = append(own, id)
			}
		}
		bsOut[i] = own
		wantAtt := append([]int(nil), attached[i]...)
		for id := range expectPre[i] {
			wantAtt = append(wantAtt, id)
		}
		sort.Ints(wantAtt)
		sort.Ints(att)
		chk(sameInts(att, wantAtt), fmt.Sprintf("token %d: attached blocks %v iterate as %v", i, wantAtt, att))
	}
	w.BS = bsOut
	// 3. a message of the invocations through the request codec
	var invs []invocation.Invocation
	for _, id := range w.Invs {
		invs = append(invs, cw.D[id])
	}
	msg, err := message.Build(invs, nil)
	if err != nil {
		chk(false, "message.Build: "+err.Error())
	} else {
		req, _ := request.Encode(msg)
		body, _ := io.ReadAll(req.Body())
		back, err := request.Decode(thttp.NewHTTPRequest(bytes.NewReader(body), req.Headers()))
		if err != nil {
			chk(false, "request.Decode: "+err.Error())
		} else {
			chk(back.Root().Link().String() == msg.Root().Link().String(), "message root link changed")
			bi := back.Invocations()
			chk(len(bi) == len(invs), "invocation list length changed")
			br, _ := blockstore.NewBlockReader(blockstore.WithBlocksIterator(back.Blocks()))
			for k, inv := range invs {
				if k >= len(bi) {
					break
				}
				chk(bi[k].String() == inv.Link().String(), "invocation link changed")
				v, err := invocation.NewInvocationView(bi[k], br)
				if err != nil {
					chk(false, "invocation not viewable after the request codec")
					continue
				}
				if df := sameDelegation(inv, v, 0); df != "" {
					chk(false, fmt.Sprintf("invocation %d after the request codec: %s", w.Invs[k], df))
				}
				for id := range expectPre[w.Invs[k]] {
					found := false
					for b := range back.Blocks() {
						if extra[b.Link().String()] == id {
							found = true
						}
					}
					chk(found, "a block attached to an embedded proof is lost by the request codec")
				}
				for _, at := range attached[w.Invs[k]] {
					found := false
					for b := range back.Blocks() {
						if extra[b.Link().String()] == at {
							found = true
						}
					}
					chk(found, "attached block lost by the request codec")
				}
			}
		}
	}
	// 4. receipts for the invocations (embedded or bare ran, with or without effects) through the response codec
	pools()
	svc := cw.P[w.Authority].signer
	if svc != nil && len(invs) > 0 {
		var rcpts []receipt.AnyReceipt
		var roots []string
		firstFor := map[string]string{}
		for k, inv := range invs {
			var rn ran.Ran = ran.FromInvocation(inv)
			if (k+nattach)%3 == 1 {
				rn = ran.FromLink(inv.Link())
			}
			var opts []receipt.Option
			if k%2 == 0 {
				opts = append(opts, receipt.WithFork(fx.FromLink(dummyLink(50+k))), receipt.WithJoin(fx.FromInvocation(invs[0])))
			}
			rc, err := receipt.Issue(svc, result.Ok[okOut, ipld.Builder](okOut{int64(k)}), rn, opts...)
			if err != nil {
				chk(false, "receipt.Issue: "+err.Error())
				continue
			}
			rcpts = append(rcpts, rc)
			roots = append(roots, rc.Root().Link().String())
			if _, ok := firstFor[inv.Link().String()]; !ok {
				firstFor[inv.Link().String()] = rc.Root().Link().String()
			}
		}
		rm, err := message.Build(nil, rcpts)
		if err != nil {
			chk(false, "message.Build(receipts): "+err.Error())
		} else {
			hres, _ := response.Encode(rm)
			body, _ := io.ReadAll(hres.Body())
			back, err := response.Decode(responseOf(body))
			if err != nil {
				chk(false, "response.Decode: "+err.Error())
			} else {
				for _, inv := range invs {
					l, ok := back.Get(inv.Link())
					chk(ok && l.String() == firstFor[inv.Link().String()], "invocation-to-receipt mapping changed")
				}
				// a receipt that embeds the invocation it ran carries everything that invocation carries,
				// attached blocks included
				present := map[int]bool{}
				for b := range back.Blocks() {
					if id, ok := extra[b.Link().String()]; ok {
						present[id] = true
					}
				}
				for k := range invs {
					if (k+nattach)%3 == 1 || (k > 0 && invs[k].Link().String() == invs[0].Link().String()) {
						continue // ran is a bare link
					}
					for _, at := range attached[w.Invs[k]] {
						chk(present[at], fmt.Sprintf("block %d attached to invocation %d is missing from the message of its receipt", at, w.Invs[k]))
					}
					for id := range expectPre[w.Invs[k]] {
						chk(present[id], fmt.Sprintf("block %d attached to a proof of invocation %d is missing from the message of its receipt", id, w.Invs[k]))
					}
				}
				var got []string
				for _, l := range back.Receipts() {
					got = append(got, l.String())
				}
				// one entry per receipt issued, in order; a repeated key repeats the first stored root
				var want []string
				for _, inv := range invs {
					want = append(want, firstFor[inv.Link().String()])
				}
				// (the report is a map: its key order after transport is the canonical map order)
				sort.Strings(got)
				sort.Strings(want)
				chk(strings.Join(got, ",") == strings.Join(want, ","), "receipt list changed")
			}
		}
	}
	// 5. one message carrying invocations AND receipts for them, the receipts embedding an effect
	// invocation that is not itself part of the batch, with ran embedded or bare
	if svc != nil && len(invs) > 0 {
		fxInv, ferr := invocation.Invoke(svc, svc, ucan.NewCapability("effect/run", svc.DID().String(), NbMap{F: map[string]any{}}), delegation.WithNonce("fx"), delegation.WithNoExpiration())
		if ferr == nil {
			var rcpts []receipt.AnyReceipt
			for k, inv := range invs {
				var rn ran.Ran = ran.FromInvocation(inv)
				if (k+nattach)%2 == 1 {
					rn = ran.FromLink(inv.Link())
				}
				opts := []receipt.Option{receipt.WithFork(fx.FromInvocation(fxInv))}
				if k%2 == 1 {
					opts = []receipt.Option{receipt.WithJoin(fx.FromInvocation(fxInv))}
				}
				rc, err := receipt.Issue(svc, result.Ok[okOut, ipld.Builder](okOut{int64(k)}), rn, opts...)
				if err == nil {
					rcpts = append(rcpts, rc)
				}
			}
			for _, codec := range []string{"request", "response"} {
				both, err := message.Build(invs, rcpts)
				if err != nil {
					chk(false, "message.Build(invocations, receipts): "+err.Error())
					continue
				}
				var back message.AgentMessage
				if codec == "request" {
					req, _ := request.Encode(both)
					body, _ := io.ReadAll(req.Body())
					back, err = request.Decode(thttp.NewHTTPRequest(bytes.NewReader(body), req.Headers()))
				} else {
					hres, _ := response.Encode(both)
					body, _ := io.ReadAll(hres.Body())
					back, err = response.Decode(responseOf(body))
				}
				if err != nil {
					chk(false, codec+" codec: message with invocations and receipts no longer decodes: "+err.Error())
					continue
				}
				chk(len(back.Invocations()) == len(invs), codec+" codec: invocation list of a mixed message changed")
				found := false
				for b := range back.Blocks() {
					if b.Link().String() == fxInv.Link().String() {
						found = true
					}
				}
				chk(found || len(rcpts) == 0, codec+" codec: the invocation embedded as an effect of a receipt is lost when the message also lists the receipt's invocation")
				rdr, _ := receipt.NewReceiptReader[ipld.Node, ipld.Node](anyResultSchema)
				for _, inv := range invs {
					if rl, ok := back.Get(inv.Link()); ok && rdr != nil {
						if rc, err := rdr.Read(rl, back.Blocks()); err == nil {
							e := rc.Fx()
							emb := false
							for _, f := range e.Fork() {
								if _, ok := f.Invocation(); ok {
									emb = true
								}
							}
							if j := e.Join(); j != (fx.Effect{}) {
								if _, ok := j.Invocation(); ok {
									emb = true
								}
							}
							chk(emb, codec+" codec: an effect issued as an embedded invocation reads back as a bare link")
						} else {
							chk(false, codec+" codec: receipt of a mixed message unreadable: "+err.Error())
						}
					} else {
						chk(len(rcpts) < len(invs), codec+" codec: receipt of a listed invocation not found")
					}
				}
			}
		}
	}
	oracle := "ok"
	if len(bad) > 0 {
		oracle = "fail:C13 " + strings.Join(bad, "; ")
	}
	bsj, _ := json.Marshal(bsOut)
	return Result{Args: []string{mustJSON(&w), a[1], a[2]}, Impl: "bs=" + hash4(string(bsj)) + "|readback=" + map[bool]string{true: "T", false: "F"}[len(bad) == 0], Oracle: oracle}
}

func hasInt(l []int, x int) bool {
	for _, y := range l {
		if y == x {
			return true
		}
	}
	return false
}

// valBlock: an ipld.Block implemented by a plain struct value
type valBlock struct {
	l ipld.Link
	b []byte
}

func (v valBlock) Link() ipld.Link { return v.l }
func (v valBlock) Bytes() []byte   { return v.b }
