package main

import (
	"bytes"
	stdsha "crypto/sha256"
	"encoding/binary"
	"encoding/hex"
	"fmt"
	"github.com/storacha/go-ucanto/core/dag/blockstore"
	"github.com/storacha/go-ucanto/core/delegation"
	"github.com/storacha/go-ucanto/core/invocation"
	"github.com/storacha/go-ucanto/core/message"
	"github.com/storacha/go-ucanto/transport/car/request"
	"github.com/storacha/go-ucanto/transport/car/response"
	thttp "github.com/storacha/go-ucanto/transport/http"
	"github.com/storacha/go-ucanto/ucan"
	"io"
	"iter"
	"math/rand"
	"strings"

	"github.com/ipfs/go-cid"
	cidlink "github.com/ipld/go-ipld-prime/linking/cid"
	mh "github.com/multiformats/go-multihash"
	"github.com/storacha/go-ucanto/core/car"
	"github.com/storacha/go-ucanto/core/ipld"
	"github.com/storacha/go-ucanto/core/ipld/block"
)

func init() {
	gens["C12"] = genC12
	execs["carrt"] = execCarRT
	execs["cartrunc"] = execCarTrunc
	execs["carflip"] = execCarFlip
	execs["cardec"] = execCarDec
	execs["cardecx"] = execCarDec // inputs that may make a defective reader allocate without bound: run in a worker process
	isolatedOps["cardecx"] = true
}

type rawBlock struct {
	cid  []byte
	data []byte
}

func hash4(s string) string {
	h := stdsha.Sum256([]byte(s))
	return hex.EncodeToString(h[:2])
}

// decodeCanon runs car.Decode and drains the iterator up to the first error, the way every consumer
// in the library does. It returns the canonical pieces and an oracle verdict on the delivered blocks.
func decodeCanon(input []byte) (hdrErr bool, rootsStr string, blocksStr string, iterErr bool, oracle string) {
	roots, blocks, err := car.Decode(bytes.NewReader(input))
	if err != nil {
		return true, "", "", false, ""
	}
	var rs []string
	for _, r := range roots {
		rs = append(rs, hex.EncodeToString([]byte(r.Binary())))
	}
	var bs []string
	for b, err := range blocks {
		if err != nil {
			iterErr = true
			break
		}
		cb := []byte(b.Link().Binary())
		bs = append(bs, hex.EncodeToString(cb)+":"+hex.EncodeToString(b.Bytes()))
		// independent integrity oracle: the bytes must hash to the block's own CID
		_, c, cerr := cid.CidFromBytes(cb)
		if cerr != nil {
			oracle = "fail:delivered block whose link is not a CID"
		} else if sum, serr := c.Prefix().Sum(b.Bytes()); serr != nil || !sum.Equals(c) {
			oracle = fmt.Sprintf("fail:delivered block %s whose bytes do not hash to its CID", c)
		}
	}
	// what the library's consumers build from the iterator: a block reader in which every delivered
	// block is found under its own link, with its own bytes
	if !iterErr && oracle == "" {
		if _, again, err := car.Decode(bytes.NewReader(input)); err == nil {
			if br, err := blockstore.NewBlockReader(blockstore.WithBlocksIterator(again)); err == nil {
				want := map[string]string{}
				for _, e := range bs {
					p := strings.SplitN(e, ":", 2)
					if _, seen := want[p[0]]; !seen {
						want[p[0]] = p[1]
					}
				}
				n := 0
				for b, err := range br.Iterator() {
					if err != nil {
						break
					}
					n++
					k := hex.EncodeToString([]byte(b.Link().Binary()))
					if w, ok := want[k]; !ok || w != hex.EncodeToString(b.Bytes()) {
						oracle = "fail:the block reader built from the archive iterates a block the archive did not deliver under that link"
					}
				}
				if n != len(want) {
					oracle = fmt.Sprintf("fail:the block reader built from the archive holds %d blocks, the archive delivered %d distinct links", n, len(want))
				}
				_, blocks2, _ := car.Decode(bytes.NewReader(input))
				for b, err := range blocks2 {
					if err != nil {
						break
					}
					g, ok, gerr := br.Get(b.Link())
					if gerr != nil || !ok || g.Link().String() != b.Link().String() || hex.EncodeToString(g.Bytes()) != want[hex.EncodeToString([]byte(b.Link().Binary()))] {
						oracle = "fail:the block reader built from the archive answers a delivered link with another block"
					}
				}
			}
		}
	}
	if iterErr && oracle == "" {
		// the iteration ended with an error: whoever builds a block reader or store from it is told
		if _, again, err := car.Decode(bytes.NewReader(input)); err == nil {
			if _, err := blockstore.NewBlockReader(blockstore.WithBlocksIterator(again)); err == nil {
				oracle = "fail:the archive's block iteration ends with an error but NewBlockReader built from it reports none"
			}
		}
		if _, again, err := car.Decode(bytes.NewReader(input)); err == nil {
			if _, err := blockstore.NewBlockStore(blockstore.WithBlocksIterator(again)); err == nil {
				oracle = "fail:the archive's block iteration ends with an error but NewBlockStore built from it reports none"
			}
		}
	}
	end := "eof"
	if iterErr {
		end = "err"
	}
	return false, strings.Join(rs, ","), strings.Join(bs, ",") + "|" + end, iterErr, oracle
}

func carToken(input []byte) (string, bool, string) {
	hdrErr, r, b, iterErr, oracle := decodeCanon(input)
	if hdrErr {
		return "E", true, oracle
	}
	return "R" + hash4(r) + "B" + hash4(b), iterErr, oracle
}

// --- archive generation -------------------------------------------------------------------------

func mkCid(r *rand.Rand, data []byte) []byte {
	switch r.Intn(8) {
	case 0: // identity
		h, _ := mh.Sum(data, mh.IDENTITY, -1)
		return cid.NewCidV1(0x55, h).Bytes()
	case 1: // CIDv0
		h, _ := mh.Sum(data, mh.SHA2_256, -1)
		return cid.NewCidV0(h).Bytes()
	case 2: // truncated digest
		h, _ := mh.Sum(data, mh.SHA2_256, 16)
		return cid.NewCidV1(0x71, h).Bytes()
	case 3: // multi-byte codec
		h, _ := mh.Sum(data, mh.SHA2_256, -1)
		return cid.NewCidV1(0x0202, h).Bytes()
	case 4:
		h, _ := mh.Sum(data, mh.SHA2_256, -1)
		return cid.NewCidV1(0x55, h).Bytes()
	default:
		h, _ := mh.Sum(data, mh.SHA2_256, -1)
		return cid.NewCidV1(0x71, h).Bytes()
	}
}

func genArchive(r *rand.Rand, maxBlocks int) (roots [][]byte, blocks []rawBlock) {
	nb := r.Intn(maxBlocks + 1)
	for i := 0; i < nb; i++ {
		if i > 0 && r.Intn(6) == 0 { // duplicate CID
			blocks = append(blocks, blocks[r.Intn(i)])
			continue
		}
		if i > 0 && r.Intn(6) == 0 { // the same bytes under another CID (other codec, version or hash length)
			d := blocks[r.Intn(i)].data
			blocks = append(blocks, rawBlock{mkCid(r, d), d})
			continue
		}
		data := make([]byte, r.Intn(40))
		r.Read(data)
		if r.Intn(10) == 0 {
			data = make([]byte, 120+r.Intn(200)) // section length needs a two-byte varint
			r.Read(data)
		}
		blocks = append(blocks, rawBlock{mkCid(r, data), data})
	}
	nr := r.Intn(4)
	for i := 0; i < nr; i++ {
		if len(blocks) > 0 && r.Intn(3) != 0 {
			roots = append(roots, blocks[r.Intn(len(blocks))].cid)
		} else {
			roots = append(roots, mkCid(r, []byte{byte(i)}))
		}
	}
	return
}

func encodeArchive(roots [][]byte, blocks []rawBlock) ([]byte, error) {
	var links []ipld.Link
	for _, rb := range roots {
		_, c, err := cid.CidFromBytes(rb)
		if err != nil {
			return nil, err
		}
		links = append(links, cidlink.Link{Cid: c})
	}
	var blks []ipld.Block
	for _, b := range blocks {
		_, c, err := cid.CidFromBytes(b.cid)
		if err != nil {
			return nil, err
		}
		blks = append(blks, block.NewBlock(cidlink.Link{Cid: c}, b.data))
	}
	return io.ReadAll(car.Encode(links, func(yield func(ipld.Block, error) bool) {
		for _, b := range blks {
			if !yield(b, nil) {
				return
			}
		}
	}))
}

func fmtArchive(roots [][]byte, blocks []rawBlock) (string, string) {
	var rs, bs []string
	for _, r := range roots {
		rs = append(rs, hex.EncodeToString(r))
	}
	for _, b := range blocks {
		bs = append(bs, hex.EncodeToString(b.cid)+":"+hexTok(b.data))
	}
	rj, bj := strings.Join(rs, ","), strings.Join(bs, ",")
	if rj == "" {
		rj = "-"
	}
	if bj == "" {
		bj = "-"
	}
	return rj, bj
}

func parseArchive(rj, bj string) (roots [][]byte, blocks []rawBlock) {
	if rj != "-" {
		for _, s := range strings.Split(rj, ",") {
			roots = append(roots, unhexTok(s))
		}
	}
	if bj != "-" {
		for _, s := range strings.Split(bj, ",") {
			p := strings.SplitN(s, ":", 2)
			blocks = append(blocks, rawBlock{unhexTok(p[0]), unhexTok(p[1])})
		}
	}
	return
}

func genC12(cfg Config, emit Emit) error {
	na, maxb := 120, 6
	if cfg.Thorough() {
		na, maxb = 1500, 24
	}
	genCarAlign(emit, cfg.Thorough())
	for i := 0; i < na; i++ {
		roots, blocks := genArchive(cfg.Rng, maxb)
		rj, bj := fmtArchive(roots, blocks)
		class := fmt.Sprintf("blocks%d", len(blocks))
		emit("carrt", []string{rj, bj}, class, len(blocks) > 0)
		emit("cartrunc", []string{rj, bj}, class, len(blocks) > 0)
		for _, m := range []string{"01", "80", "ff"} {
			emit("carflip", []string{rj, bj, m}, class, len(blocks) > 0)
		}
	}
	// arbitrary inputs and splices
	ng := 2000
	if cfg.Thorough() {
		ng = 40000
	}
	for i := 0; i < ng; i++ {
		roots, blocks := genArchive(cfg.Rng, 3)
		a, err := encodeArchive(roots, blocks)
		if err != nil {
			return err
		}
		var in []byte
		switch cfg.Rng.Intn(5) {
		case 0:
			in = make([]byte, cfg.Rng.Intn(40))
			cfg.Rng.Read(in)
		case 1: // splice: drop a range
			if len(a) > 2 {
				i, j := cfg.Rng.Intn(len(a)), cfg.Rng.Intn(len(a))
				if i > j {
					i, j = j, i
				}
				in = append(append([]byte{}, a[:i]...), a[j:]...)
			}
		case 2: // splice: duplicate a range
			if len(a) > 2 {
				i, j := cfg.Rng.Intn(len(a)), cfg.Rng.Intn(len(a))
				if i > j {
					i, j = j, i
				}
				in = append(append(append([]byte{}, a[:j]...), a[i:j]...), a[j:]...)
			}
		case 3: // two bytes corrupted
			in = append([]byte{}, a...)
			for k := 0; k < 2 && len(in) > 0; k++ {
				in[cfg.Rng.Intn(len(in))] ^= byte(1 + cfg.Rng.Intn(255))
			}
		default: // trailing garbage
			in = append(append([]byte{}, a...), byte(cfg.Rng.Intn(256)), byte(cfg.Rng.Intn(256)))
		}
		emit("cardec", []string{hexTok(in)}, "arbitrary", len(in) > 0)
	}
	// sections whose CID announces a sha2-256 digest of another length than 32 (a truncation: valid when it is
	// the prefix of the digest; longer than the function's output: never valid), identity digests that are /
	// are not the data, functions nobody registered
	for i := 0; i < 3; i++ {
		roots, blocks := genArchive(cfg.Rng, 2)
		a, err := encodeArchive(roots, blocks)
		if err != nil {
			return err
		}
		data := []byte{0x18, byte(0x30 + i)}
		full := stdsha.Sum256(data)
		for _, n := range []int{0, 1, 16, 20, 31, 32, 33, 40, 64, 127} {
			for _, good := range []bool{true, false} {
				dg := make([]byte, n)
				copy(dg, full[:])
				if !good && n > 0 {
					dg[n-1] ^= 1
				}
				c := []byte{0x01, 0x55, 0x12}
				c = binary.AppendUvarint(c, uint64(n))
				c = append(c, dg...)
				sec := binary.AppendUvarint(nil, uint64(len(c)+len(data)))
				sec = append(append(sec, c...), data...)
				in := append(append([]byte{}, a...), sec...)
				if i == 1 { // followed by a further, good section
					gc := append([]byte{0x01, 0x55, 0x12, 0x20}, full[:]...)
					gs := binary.AppendUvarint(nil, uint64(len(gc)+len(data)))
					in = append(in, append(append(gs, gc...), data...)...)
				}
				emit("cardec", []string{hexTok(in)}, fmt.Sprintf("digest-length/%d/%v", n, good), true)
			}
		}
		for _, c := range [][]byte{append([]byte{0x01, 0x55, 0x00, 0x02}, data...), {0x01, 0x55, 0x00, 0x02, 0x18, 0x00}, {0x01, 0x55, 0x00, 0x00}, {0x01, 0x55, 0x99, 0x01, 0x02, 7, 7}} {
			sec := binary.AppendUvarint(nil, uint64(len(c)+len(data)))
			sec = append(append(sec, c...), data...)
			emit("cardec", []string{hexTok(append(append([]byte{}, a...), sec...))}, "digest-length/identity-or-unknown", true)
		}
	}
	// section (and header) lengths at and beyond every bound: the allocation limit, 2^31, 2^32, 2^62, 2^63, 2^64-1
	lens := []uint64{32 << 20, 32<<20 + 1, 1 << 31, 1<<32 - 1, 1 << 32, 1 << 40, 1 << 62, 1<<62 + 1, 1<<63 - 1, 1 << 63, 1<<64 - 1}
	for i, l := range lens {
		roots, blocks := genArchive(cfg.Rng, 2)
		a, err := encodeArchive(roots, blocks)
		if err != nil {
			return err
		}
		lv := binary.AppendUvarint(nil, l)
		tail := [][]byte{{}, {0x01}, {0x01, 0x71, 0x12, 0x20}, bytes.Repeat([]byte{7}, 40)}[i%4]
		emit("cardecx", []string{hexTok(append(append(append([]byte{}, a...), lv...), tail...))}, "huge-section", true)
		emit("cardecx", []string{hexTok(append(append([]byte{}, lv...), tail...))}, "huge-header", true)
	}
	return nil
}

// --- executors -----------------------------------------------------------------------------------

// staleHistory: before the archive is decoded, the process has held other, never verified bytes under
// the links it mentions (a block object is a value: making one must not influence a later decode)
func staleHistory(blocks []rawBlock) {
	for _, b := range blocks {
		if _, c, err := cid.CidFromBytes(b.cid); err == nil {
			block.NewBlock(cidlink.Link{Cid: c}, []byte("stale bytes never checked"))
		}
	}
}

func execCarRT(a []string) Result {
	roots, blocks := parseArchive(a[0], a[1])
	staleHistory(blocks)
	enc, err := encodeArchive(roots, blocks)
	if err != nil {
		return Result{Impl: "encode-error:" + err.Error()}
	}
	hdrErr, r, b, _, oracle := decodeCanon(enc)
	if hdrErr {
		return Result{Impl: hex.EncodeToString(enc) + "|E"}
	}
	// unmutated archive: exactly what was encoded must come back
	wr, wb := fmtArchive(roots, blocks)
	if wr == "-" {
		wr = ""
	}
	var wbs []string
	for _, bl := range blocks {
		wbs = append(wbs, hex.EncodeToString(bl.cid)+":"+hex.EncodeToString(bl.data))
	}
	if oracle == "" && (r != wr || b != strings.Join(wbs, ",")+"|eof") {
		oracle = "fail:decoding an unmodified archive does not yield the roots and blocks that were encoded"
	}
	_ = wb
	if oracle == "" {
		oracle = "ok"
	}
	return Result{Impl: hex.EncodeToString(enc) + "|" + r + "|" + b, Oracle: oracle}
}

// section boundaries of the encoding: offsets at which the archive may legitimately end
func boundaries(roots [][]byte, blocks []rawBlock) map[int]bool {
	out := map[int]bool{}
	h, _ := encodeArchive(roots, nil)
	off := len(h)
	out[off] = true
	for i := range blocks {
		e, _ := encodeArchive(roots, blocks[:i+1])
		out[len(e)] = true
	}
	return out
}

func execCarTrunc(a []string) Result {
	roots, blocks := parseArchive(a[0], a[1])
	enc, err := encodeArchive(roots, blocks)
	if err != nil {
		return Result{Impl: "encode-error:" + err.Error()}
	}
	bd := boundaries(roots, blocks)
	var toks []string
	oracle := "ok"
	for n := 0; n < len(enc); n++ {
		t, iterErr, o := carToken(enc[:n])
		toks = append(toks, t)
		if o != "" && oracle == "ok" {
			oracle = fmt.Sprintf("%s (archive truncated to %d of %d bytes)", o, n, len(enc))
		}
		if !bd[n] && t != "E" && !iterErr && oracle == "ok" {
			oracle = fmt.Sprintf("fail:archive truncated to %d of %d bytes (not a section boundary) decodes without any error", n, len(enc))
		}
	}
	return Result{Impl: strings.Join(toks, "."), Oracle: oracle, Extra: map[string]any{"archive": hex.EncodeToString(enc)}}
}

func execCarFlip(a []string) Result {
	roots, blocks := parseArchive(a[0], a[1])
	enc, err := encodeArchive(roots, blocks)
	if err != nil {
		return Result{Impl: "encode-error:" + err.Error()}
	}
	mask := unhexTok(a[2])[0]
	var toks []string
	oracle := "ok"
	for i := 0; i < len(enc); i++ {
		m := append([]byte{}, enc...)
		m[i] ^= mask
		t, _, o := carToken(m)
		toks = append(toks, t)
		if o != "" && oracle == "ok" {
			oracle = fmt.Sprintf("%s (byte %d xor %02x)", o, i, mask)
		}
	}
	return Result{Impl: strings.Join(toks, "."), Oracle: oracle, Extra: map[string]any{"archive": hex.EncodeToString(enc)}}
}

func execCarDec(a []string) Result {
	t, _, o := carToken(unhexTok(a[0]))
	if o == "" {
		o = "ok"
	}
	return Result{Impl: t, Oracle: o}
}

// ---- large archives whose section boundaries fall on round sizes, through the request and response decoders ----

func init() {
	execs["caralign"] = guard(execCarAlign)
}

func genCarAlign(emit Emit, thorough bool) {
	sizes := []int{1 << 20, 4 << 20, 8 << 20, 16 << 20}
	if thorough {
		sizes = append(sizes, 2<<20, 32<<20, 64<<20)
	}
	for _, n := range sizes {
		for _, via := range []string{"request", "response", "car"} {
			emit("caralign", []string{itoa(n), via}, "aligned-boundary/"+via, true)
		}
	}
}

// execCarAlign: a well-formed agent message whose CAR has a section boundary exactly at args[0] bytes, with
// further blocks after it, decoded through the request decoder, the response decoder or car.Decode: every block
// that was written must be delivered. Impl = "blocks=<delivered>/<written>"
func execCarAlign(a []string) Result {
	pools()
	target := atoi(a[0])
	svc, alice := edPool[0], edPool[1]
	inv, err := invocation.Invoke(alice, svc, ucan.NewCapability("test/run", alice.DID().String(), NbMap{F: map[string]any{}}), delegation.WithNoExpiration(), delegation.WithNonce("align"))
	if err != nil {
		return Result{Impl: "blocks=0/0", Args: []string{a[0], a[1], "0"}}
	}
	msg, err := message.Build([]invocation.Invocation{inv}, nil)
	if err != nil {
		return Result{Impl: "blocks=0/0", Args: []string{a[0], a[1], "0"}}
	}
	var pre []ipld.Block
	for b, err := range msg.Blocks() {
		if err == nil {
			pre = append(pre, b)
		}
	}
	roots := []ipld.Link{msg.Root().Link()}
	base := len(carOf(roots, pre))
	// pad blocks of at most 24 MiB each; the last one ends exactly at the target
	var pads []ipld.Block
	remaining := target - base
	for remaining > 24<<20+64 {
		d := make([]byte, 24<<20)
		d[0] = byte(len(pads) + 1)
		h, _ := mh.Sum(d, mh.SHA2_256, -1)
		pads = append(pads, block.NewBlock(cidlink.Link{Cid: cid.NewCidV1(0x55, h)}, d))
		remaining = target - len(carOf(roots, append(append([]ipld.Block{}, pre...), pads...)))
	}
	vl := 4
	if remaining-40 < 1<<21 {
		vl = 3
	}
	if remaining-36-vl < 1<<14 {
		return Result{Impl: "blocks=0/0", Args: []string{a[0], a[1], "0"}}
	}
	d := make([]byte, remaining-36-vl)
	h, _ := mh.Sum(d, mh.SHA2_256, -1)
	pads = append(pads, block.NewBlock(cidlink.Link{Cid: cid.NewCidV1(0x55, h)}, d))
	all := append(append([]ipld.Block{}, pre...), pads...)
	if got := len(carOf(roots, all)); got != target {
		return Result{Impl: fmt.Sprintf("misaligned:%d", got-target), Args: []string{a[0], a[1], "0"}}
	}
	all = append(all, rawCborBlock([]byte{0x18, 0x63}), rawCborBlock([]byte{0x18, 0x64}))
	body := carOf(roots, all)
	delivered := -1
	hdr := map[string][]string{"Content-Type": {carCT}, "Accept": {carCT}}
	count := func(blks iter.Seq2[ipld.Block, error]) int {
		n := 0
		for _, err := range blks {
			if err != nil {
				return -2
			}
			n++
		}
		return n
	}
	switch a[1] {
	case "request":
		m, err := request.Decode(thttp.NewHTTPRequest(bytes.NewReader(body), hdr))
		if err != nil {
			return Result{Impl: "error:" + err.Error(), Oracle: "fail:a well-formed request of " + a[0] + "+ bytes does not decode", Args: []string{a[0], a[1], itoa(len(all))}}
		}
		delivered = count(m.Blocks())
	case "response":
		m, err := response.Decode(thttp.NewHTTPResponse(200, bytes.NewReader(body), hdr))
		if err != nil {
			return Result{Impl: "error:" + err.Error(), Oracle: "fail:a well-formed response of " + a[0] + "+ bytes does not decode", Args: []string{a[0], a[1], itoa(len(all))}}
		}
		delivered = count(m.Blocks())
	default:
		_, blks, err := car.Decode(bytes.NewReader(body))
		if err != nil {
			return Result{Impl: "error:" + err.Error(), Args: []string{a[0], a[1], itoa(len(all))}}
		}
		delivered = count(blks)
	}
	oracle := "ok"
	if delivered != len(all) {
		oracle = fmt.Sprintf("fail:an archive with a section boundary at byte %d is decoded without error to %d of its %d blocks", target, delivered, len(all))
	}
	return Result{Impl: fmt.Sprintf("blocks=%d/%d", delivered, len(all)), Oracle: oracle, Args: []string{a[0], a[1], itoa(len(all))}}
}
