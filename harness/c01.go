package main

import (
	"encoding/json"
	"fmt"
	"time"
)

func nowUnix() int { return int(time.Now().Unix()) }

func init() {
	execs["access"] = execAccess

	noRevoke := without(defectKinds, "revoke")
	c01 := worldGen("C01", 2000, 40000, genOpts{maxDepth: 6, sessions: true, kinds: noRevoke})
	// a stratum for issuers verified through wrapped verifiers (did:web accounts with a resolvable key,
	// a did:web service): tokens altered after signing, tokens signed by another key
	c01w := worldGen("C01", 300, 6000, genOpts{minDepth: 1, maxDepth: 4, sessions: true, sessionPct: 100, webAccount: true, properSession: false,
		kinds: []string{"tamper-wrapped", "tamper-wrapped", "wrongkey-account", "none", "misaligned2", "misaligned2"}})
	gens["C01"] = func(cfg Config, emit Emit) error {
		if err := c01(cfg, emit); err != nil {
			return err
		}
		if err := c01w(cfg, emit); err != nil {
			return err
		}
		if err := worldGen("C01", 200, 4000, genOpts{maxDepth: 4, urlWorld: true, kinds: []string{"urlnear", "urlnear", "none", "resource"}})(cfg, emit); err != nil {
			return err
		}
		// as a server sees it: the same invocation has been received before with every proof embedded
		ns := 240
		if cfg.Thorough() {
			ns = 5000
		}
		genWorlds(cfg, ns, genOpts{minDepth: 1, maxDepth: 5, sessions: true, sessionPct: 20, kinds: []string{"missing", "missing", "none", "wrongkey", "aud"}}, func(w *AWorld, class string) {
			w.Services = []ASvc{{Can: w.Desc.Can, Result: "ok"}}
			w.Invs = []int{w.Inv}
			emit("serve", []string{"C01", mustJSON(w)}, "served/"+class, true)
		})
		// resources that resemble the proof wildcard without being it
		return worldGen("C01", 120, 2400, genOpts{minDepth: 1, maxDepth: 4, kinds: []string{"ucanscoped"}})(cfg, emit)
	}
	// C02: restricting caveats at every level, all three derivation rules, re-delegated attestations
	c02 := worldGen("C02", 2000, 40000, genOpts{maxDepth: 5, sessions: true, sessionPct: 30, caveats: true, caveatPct: 60,
		kinds: []string{"none", "none", "permute", "decoys", "resource", "ability", "dup", "nbf-ok", "twincap", "nearmiss", "urlnear"}})
	// a stratum of its own for re-delegated attestations (the `proof` caveat of the service's grant binds
	// what the worker may attest)
	c02att := worldGen("C02", 240, 5000, genOpts{minDepth: 1, maxDepth: 4, sessions: true, sessionPct: 100, attVariant: 4, caveats: true, caveatPct: 30,
		kinds: []string{"none", "none", "permute", "decoys"}})
	// and one for an unattested account token next to another account's attested one
	c02two := worldGen("C02", 160, 3000, genOpts{minDepth: 1, maxDepth: 4, sessions: true, sessionPct: 100, attVariant: 14,
		kinds: []string{"none", "none", "permute"}})
	c02url := worldGen("C02", 200, 4000, genOpts{maxDepth: 4, urlWorld: true, caveats: true, caveatPct: 30, kinds: []string{"urlnear", "urlnear", "none"}})
	gens["C02"] = func(cfg Config, emit Emit) error {
		if err := c02(cfg, emit); err != nil {
			return err
		}
		if err := c02url(cfg, emit); err != nil {
			return err
		}
		if err := c02two(cfg, emit); err != nil {
			return err
		}
		// a union of caveat readers must hand the policy what the first accepting member read, whatever it read before
		emit("reqcraft", []string{"or", "-", "-"}, "crafted/or", true)
		genRdTree(cfg, emit, 150, 3000)
		genStructRead(cfg, emit, 300, 6000)
		// an attestation whose caveats carry a field the attestation schema does not know: not a session
		if err := worldGen("C02", 60, 1200, genOpts{minDepth: 1, maxDepth: 3, sessions: true, sessionPct: 100, attVariant: 6,
			kinds: []string{"none", "none", "permute"}})(cfg, emit); err != nil {
			return err
		}
		return c02att(cfg, emit)
	}
	// C04: a non-key issuer somewhere in the chain, every attestation variant, key resolver variants
	c04 := worldGen("C04", 2000, 40000, genOpts{minDepth: 1, maxDepth: 5, sessions: true, sessionPct: 100,
		kinds: []string{"none", "none", "none", "wrongkey", "tamper", "expired", "tooearly", "aud", "decoys", "permute", "policy", "algcode", "dup"}})
	c04w := worldGen("C04", 300, 6000, genOpts{minDepth: 1, maxDepth: 4, sessions: true, sessionPct: 100, webAccount: true,
		kinds: []string{"wrongkey-account", "wrongkey-account", "none", "tamper-wrapped"}})
	gens["C04"] = func(cfg Config, emit Emit) error {
		if err := c04(cfg, emit); err != nil {
			return err
		}
		if err := c04w(cfg, emit); err != nil {
			return err
		}
		if err := worldGen("C04", 160, 3000, genOpts{minDepth: 1, maxDepth: 4, sessions: true, sessionPct: 100, attVariant: 14,
			kinds: []string{"none", "none", "permute"}})(cfg, emit); err != nil {
			return err
		}
		// an invalid attestation by the authority listed before a stranger's attestation of the same token
		if err := worldGen("C04", 80, 1600, genOpts{minDepth: 1, maxDepth: 4, sessions: true, sessionPct: 100, attVariant: 15,
			kinds: []string{"none", "none", "permute"}})(cfg, emit); err != nil {
			return err
		}
		// an attestation whose not-before lies within decades of the largest representable second
		if err := worldGen("C04", 40, 800, genOpts{minDepth: 1, maxDepth: 3, sessions: true, sessionPct: 100, attVariant: 17,
			kinds: []string{"none", "none", "permute"}})(cfg, emit); err != nil {
			return err
		}
		// a did:web service: an attestation by the service's bare key on that key's own did:key is not the authority's
		if err := worldGen("C04", 80, 1600, genOpts{minDepth: 1, maxDepth: 4, sessions: true, sessionPct: 100, attVariant: 16, webService: true,
			kinds: []string{"none", "none", "permute"}})(cfg, emit); err != nil {
			return err
		}
		// the same, as a server applies it: the server has answered the batch before, when the account's
		// DID resolved to the key that really signed (a rotated key, a corrected resolver entry)
		ns := 240
		if cfg.Thorough() {
			ns = 5000
		}
		genWorlds(cfg, ns, genOpts{minDepth: 1, maxDepth: 4, sessions: true, sessionPct: 100, webAccount: true,
			kinds: []string{"wrongkey-account", "wrongkey-account", "none"}}, func(w *AWorld, class string) {
			w.Services = []ASvc{{Can: w.Desc.Can, Result: "ok"}}
			w.Invs = []int{w.Inv}
			emit("serve", []string{"C04", mustJSON(w)}, "served/"+class, true)
		})
		// the same session validated before and after the attestation's window boundary passes
		genSeq(cfg, emit, "C04", 36, 360, 100)
		// the reader the caveats of ucan/attest are read with, at and around {proof: link}
		genStructRead(cfg, emit, 300, 6000)
		return nil
	}
	// C05: revocation of any delegation of the chain (and of decoys)
	c05 := worldGen("C05", 2000, 40000, genOpts{maxDepth: 6, sessions: true, sessionPct: 20, caveats: true,
		kinds: []string{"revoke", "revoke", "revoke", "none", "decoys", "permute", "policy", "deadend-revoke", "deadend-revoke"}})
	gens["C05"] = func(cfg Config, emit Emit) error {
		if err := c05(cfg, emit); err != nil {
			return err
		}
		// revocation as a server applies it: the same server has seen the invocation before, under
		// another revocation state (history phases), and must consult the checker again
		n := 300
		if cfg.Thorough() {
			n = 6000
		}
		genWorlds(cfg, n, genOpts{maxDepth: 5, sessions: true, sessionPct: 20, kinds: []string{"revoke", "revoke", "none"}}, func(w *AWorld, class string) {
			w.Services = []ASvc{{Can: w.Desc.Can, Result: "ok"}}
			w.Invs = []int{w.Inv}
			emit("serve", []string{"C05", mustJSON(w)}, "served/"+class, true)
		})
		// a checker that panics where it would report the revocation: the authorization must not be used
		genWorlds(cfg, 24, genOpts{maxDepth: 4, kinds: []string{"revoke"}}, func(w *AWorld, class string) {
			if len(w.Revoked) == 0 {
				return
			}
			w.Services = []ASvc{{Can: w.Desc.Can, Result: "ok"}}
			w.Invs = []int{w.Inv}
			emit("servepanic", []string{"C05", mustJSON(w)}, "checker-panics/"+class, true)
		})
		// tokens the service issued itself (session attestations) can be revoked like any other
		genWorlds(cfg, n/3, genOpts{minDepth: 1, maxDepth: 4, sessions: true, sessionPct: 100, properSession: true, kinds: []string{"revoke-att", "revoke-att", "none"}}, func(w *AWorld, class string) {
			emit("access", []string{"C05", mustJSON(w)}, "session/"+class, true)
			w2 := *w
			w2.Services = []ASvc{{Can: w.Desc.Can, Result: "ok"}}
			w2.Invs = []int{w.Inv}
			emit("serve", []string{"C05", mustJSON(&w2)}, "served-session/"+class, true)
		})
		return nil
	}
	// C06: valid chains surrounded by decoys, permutations, duplicates, link-only proofs
	c06 := worldGen("C06", 2000, 40000, genOpts{maxDepth: 6, sessions: true, sessionPct: 25, caveats: true, caveatPct: 20,
		kinds: []string{"none", "permute", "decoys", "dup", "missing", "nbf-ok", "deadend", "deadend", "permute", "expired", "wrongkey", "parsefail", "twincap", "deadend"}})
	// a capability that matches the claim but fails one level up, listed before the one that succeeds
	c06twin := worldGen("C06", 150, 3000, genOpts{minDepth: 2, maxDepth: 4, kinds: []string{"twinwide"}})
	gens["C06"] = func(cfg Config, emit Emit) error {
		if err := c06(cfg, emit); err != nil {
			return err
		}
		if err := c06twin(cfg, emit); err != nil {
			return err
		}
		// an account whose key the resolver knows, with an expired / foreign / stranger's attestation beside
		// its token: the chain is valid through the resolver all the same
		for _, av := range []int{7, 1, 2, 3} {
			if err := worldGen("C06", 60, 1200, genOpts{minDepth: 1, maxDepth: 4, sessions: true, sessionPct: 100, webAccount: true, attVariant: av,
				kinds: []string{"none", "none", "permute"}})(cfg, emit); err != nil {
				return err
			}
		}
		// the readers a capability is parsed with must not remember each other's verdicts
		genDidRead(cfg, emit)
		emit("reqcraft", []string{"or", "-", "-"}, "crafted/or", true)
		genConv(emit)
		genRdTree(cfg, emit, 150, 3000)
		// and the search as a server runs it (chains of several embedded delegations)
		ns := 200
		if cfg.Thorough() {
			ns = 4000
		}
		genWorlds(cfg, ns, genOpts{minDepth: 2, maxDepth: 6, sessions: true, sessionPct: 20, kinds: []string{"none", "none", "decoys", "permute", "deadend"}}, func(w *AWorld, class string) {
			w.Services = []ASvc{{Can: w.Desc.Can, Result: "ok"}}
			w.Invs = []int{w.Inv}
			emit("serve", []string{"C06", mustJSON(w)}, "served/"+class, true)
		})
		// a proof cited twice, the first time as a copy that lacks its own proofs; blocks of no bytes travelling
		// with a token: the chain is as valid as without them (direct and served)
		if err := worldGen("C06", 100, 2000, genOpts{minDepth: 2, maxDepth: 5, kinds: []string{"dup", "dup", "emptyattach"}})(cfg, emit); err != nil {
			return err
		}
		genWorlds(cfg, ns/2, genOpts{minDepth: 2, maxDepth: 5, kinds: []string{"dup", "emptyattach"}}, func(w *AWorld, class string) {
			w.Services = []ASvc{{Can: w.Desc.Can, Result: "ok"}}
			w.Invs = []int{w.Inv}
			emit("serve", []string{"C06", mustJSON(w)}, "served/"+class, true)
		})
		// a session whose attestation is the second capability of a token attesting two things: still valid
		return worldGen("C06", 60, 1200, genOpts{minDepth: 1, maxDepth: 4, sessions: true, sessionPct: 100, attVariant: 11,
			kinds: []string{"none", "none", "permute", "decoys"}})(cfg, emit)
	}
}

func without(l []string, x string) []string {
	var out []string
	for _, s := range l {
		if s != x {
			out = append(out, s)
		}
	}
	return out
}

func worldGen(mode string, nq, nt int, o genOpts) func(cfg Config, emit Emit) error {
	return func(cfg Config, emit Emit) error {
		n := nq
		if cfg.Thorough() {
			n = nt
			o.maxDepth += 4
		}
		genWorlds(cfg, n, o, func(w *AWorld, class string) {
			emit("access", []string{mode, mustJSON(w)}, class, len(w.Tokens) > 1)
		})
		return nil
	}
}

// execAccess: args = [mode, world-json, ...]. mode is the property on whose behalf the case runs; it
// selects what the model driver treats as the hard observable.
func execAccess(args []string) (res Result) {
	mode := args[0]
	var w AWorld
	if err := json.Unmarshal([]byte(args[1]), &w); err != nil {
		return Result{Impl: "bad-world:" + err.Error()}
	}
	defer func() {
		if r := recover(); r != nil {
			res.Impl = fmt.Sprintf("panic:%v", r)
		}
	}()
	cw, err := Concretise(&w)
	if err != nil {
		return Result{Impl: "concretise-error:" + err.Error()}
	}
	return accessOn(cw, &w, mode, &runLog{})
}

// accessOn: one observed validator.Access on a concretised world
func accessOn(cw *CWorld, w *AWorld, mode string, log *runLog) (res Result) {
	defer func() {
		if r := recover(); r != nil {
			res.Impl = fmt.Sprintf("panic:%v", r)
		}
	}()
	outcome, spine, flags := cw.Access(log)
	final := mustJSON(w)
	sp := "[]"
	if spine != nil {
		sp = mustJSON(spine)
	}
	ck, dv := "[]", "[]"
	if log.Checker != nil {
		ck = mustJSON(log.Checker)
	}
	if log.Derives != nil {
		dv = mustJSON(log.Derives)
	}
	if outcome == "fail" && flags != "" {
		outcome = "fail+" + flags
	}
	return Result{Args: []string{mode, final, sp, ck, dv}, Impl: outcome, Soft: sp}
}
