package main

import (
	"bytes"
	"encoding/binary"
	"fmt"
	"github.com/ipfs/go-cid"
	cidlink "github.com/ipld/go-ipld-prime/linking/cid"
	mh "github.com/multiformats/go-multihash"
	"github.com/storacha/go-ucanto/core/ipld/block"
	"io"
	"net/http"
	"net/http/httptest"
	"net/url"
	"strings"
	"sync"

	"github.com/storacha/go-ucanto/core/car"
	"github.com/storacha/go-ucanto/core/delegation"
	"github.com/storacha/go-ucanto/core/invocation"
	"github.com/storacha/go-ucanto/core/ipld"
	"github.com/storacha/go-ucanto/core/message"
	"github.com/storacha/go-ucanto/core/receipt/fx"
	"github.com/storacha/go-ucanto/server"
	thttp "github.com/storacha/go-ucanto/transport/http"
	"github.com/storacha/go-ucanto/ucan"
	"github.com/storacha/go-ucanto/validator"
)

func init() {
	gens["C20"] = genC20
	execs["handle"] = guard(execHandle)
	execs["channel"] = guard(execChannel)
}

const carCT = "application/vnd.ipld.car"

var c20Elems = []string{carCT, "*/*", "text/html", "application/json", carCT + ";q=0.5", "*/*;q=0.8", carCT + "x", "x" + carCT,
	" " + carCT + " ", "\t*/*", carCT + "+json", "*/*x", "APPLICATION/VND.IPLD.CAR", "*", "", ";" + carCT, carCT + " ;q=1", "text/*",
	carCT + ";q", "*/*;q", carCT + ";", carCT + ";q=0", "*/*;q=0", carCT + ";=", carCT + ";q=;v", "text/html;q", ";", ";q"}
var c20CTs = []string{"-", carCT, "application/json", carCT + "; version=1", carCT + "x", "application/car", " " + carCT}
var c20Bodies = []string{"valid", "valid0", "empty", "garbage", "nonmsg", "noroot", "missinginv", "validtrunc", "validbadhash", "validbadcid", "twocap", "zerocap", "validmh20", "validv0", "validid", "validempty"}

func genC20(cfg Config, emit Emit) error {
	var accepts []string
	accepts = append(accepts, "-")
	for _, a := range c20Elems {
		accepts = append(accepts, a)
	}
	for _, a := range c20Elems {
		for _, b := range c20Elems {
			accepts = append(accepts, a+","+b, a+", "+b)
		}
	}
	if cfg.Thorough() {
		for i := 0; i < 20000; i++ {
			n := 1 + cfg.Rng.Intn(4)
			var parts []string
			for k := 0; k < n; k++ {
				parts = append(parts, c20Elems[cfg.Rng.Intn(len(c20Elems))])
			}
			accepts = append(accepts, strings.Join(parts, []string{",", ", ", " ,", ";"}[cfg.Rng.Intn(4)]))
		}
	}
	i := 0
	for _, ct := range c20CTs {
		for ai, acc := range accepts {
			if ct != carCT && ai%9 != 0 && ai > 20 {
				continue // the Accept header is irrelevant once the content type is refused: sample it
			}
			// every accept value with two bodies (round robin), every body with the plain ones
			bodies := []string{c20Bodies[i%len(c20Bodies)], c20Bodies[(i/7+3)%len(c20Bodies)]}
			if len(acc) < 30 {
				bodies = c20Bodies
			}
			i++
			for _, b := range bodies {
				class := "ct-other"
				if ct == carCT {
					class = "ct-car"
				}
				emit("handle", []string{hexTok([]byte(strings.TrimPrefix(ct, "-"))), hexTok([]byte(strings.TrimPrefix(acc, "-"))), b}, class+"/"+b, acc != "-" && ct == carCT)
			}
		}
	}
	for _, acc := range []string{"-", carCT, "*/*", "text/html"} {
		emit("handle", []string{hexTok([]byte(carCT)), hexTok([]byte(strings.TrimPrefix(acc, "-"))), "big"}, "ct-car/big", true)
	}
	for st := 200; st <= 599; st++ {
		emit("clientexec", []string{itoa(st)}, "client-execute", st != 200)
	}
	for st := 200; st <= 599; st++ {
		for _, b := range []string{"text", "car"} {
			emit("channel", []string{itoa(st), b}, "channel", st != 200)
		}
	}
	return nil
}

type c20Fixture struct {
	srv    server.ServerView
	bodies map[string][]byte
	mu     sync.Mutex
	calls  int
}

var c20Once sync.Once
var c20Fix *c20Fixture

func c20Setup() *c20Fixture {
	c20Once.Do(func() {
		pools()
		f := &c20Fixture{bodies: map[string][]byte{}}
		svc := edPool[0]
		alice := edPool[1]
		capb := validator.NewCapability[NbMap]("test/run", strReader{"did"}, nbReader{}, nil)
		srv, err := server.NewServer(svc, server.WithServiceMethod("test/run", server.Provide(capb,
			func(cap ucan.Capability[NbMap], inv invocation.Invocation, ctx server.InvocationContext) (okOut, fx.Effects, error) {
				f.mu.Lock()
				f.calls++
				f.mu.Unlock()
				return okOut{1}, nil, nil
			})))
		if err != nil {
			panic(err)
		}
		f.srv = srv
		inv, err := invocation.Invoke(alice, svc, ucan.NewCapability("test/run", alice.DID().String(), NbMap{F: map[string]any{}}), delegation.WithNoExpiration())
		if err != nil {
			panic(err)
		}
		enc := func(roots []ipld.Link, blocks func(func(ipld.Block, error) bool)) []byte {
			b, err := io.ReadAll(car.Encode(roots, blocks))
			if err != nil {
				panic(err)
			}
			return b
		}
		msg, _ := message.Build([]invocation.Invocation{inv}, nil)
		f.bodies["valid"] = enc([]ipld.Link{msg.Root().Link()}, msg.Blocks())
		msg0, _ := message.Build(nil, nil)
		f.bodies["valid0"] = enc([]ipld.Link{msg0.Root().Link()}, msg0.Blocks())
		f.bodies["empty"] = []byte{}
		f.bodies["garbage"] = []byte("this is not a CAR file at all, just some text")
		f.bodies["nonmsg"] = enc([]ipld.Link{inv.Link()}, inv.Blocks())
		f.bodies["noroot"] = enc(nil, inv.Blocks())
		f.bodies["missinginv"] = enc([]ipld.Link{msg.Root().Link()}, func(yield func(ipld.Block, error) bool) { yield(msg.Root(), nil) })
		// a well-formed message followed by a damaged section: the request is not decodable as a whole
		valid := f.bodies["valid"]
		junk := rawCborBlock([]byte{0x18, 0x2a})
		sec := enc(nil, func(yield func(ipld.Block, error) bool) { yield(junk, nil) })
		// sec = header + one section; strip its header to get the bare section
		_, hl := binary.Uvarint(sec)
		hlen, _ := binary.Uvarint(sec)
		section := sec[hl+int(hlen):]
		f.bodies["validtrunc"] = append(append([]byte{}, valid...), section[:len(section)-1]...)
		bad := append([]byte{}, section...)
		bad[len(bad)-1] ^= 0x01
		f.bodies["validbadhash"] = append(append([]byte{}, valid...), bad...)
		f.bodies["validbadcid"] = append(append([]byte{}, valid...), 0x05, 0xff, 0xff, 0xff, 0xff, 0xff)
		// a well-formed request that is simply large: a 9 MiB block attached to the invocation
		big, _ := invocation.Invoke(alice, svc, ucan.NewCapability("test/run", alice.DID().String(), NbMap{F: map[string]any{}}), delegation.WithNoExpiration(), delegation.WithNonce("big"))
		big.Attach(rawCborBlock(append([]byte{0x5a, 0x00, 0x90, 0x00, 0x00}, make([]byte, 9437184)...)))
		bmsg, _ := message.Build([]invocation.Invocation{big}, nil)
		f.bodies["big"] = enc([]ipld.Link{bmsg.Root().Link()}, bmsg.Blocks())
		// acceptable requests whose invocation the server answers with an error receipt: 200 all the same
		for name, caps := range map[string][]ucan.Capability[NbMap]{
			"twocap":  {ucan.NewCapability("test/run", alice.DID().String(), NbMap{F: map[string]any{}}), ucan.NewCapability("test/run", alice.DID().String(), NbMap{F: map[string]any{"f1": int64(1)}})},
			"zerocap": {},
		} {
			d, err := delegation.Delegate(alice, svc, caps, delegation.WithNoExpiration(), delegation.WithNonce(name))
			if err == nil {
				m, _ := message.Build([]invocation.Invocation{d}, nil)
				f.bodies[name] = enc([]ipld.Link{m.Root().Link()}, m.Blocks())
			}
		}
		// well-formed requests that carry, beside the message, a block addressed in a less common way: a
		// sha2-256 digest truncated to 20 bytes, a CIDv0, an identity CID, a block of no bytes
		{
			data := []byte{0x18, 0x2b}
			full, _ := mh.Sum(data, mh.SHA2_256, -1)
			short, _ := mh.Sum(data, mh.SHA2_256, 20)
			idh, _ := mh.Sum(data, mh.IDENTITY, -1)
			eh, _ := mh.Sum([]byte{}, mh.SHA2_256, -1)
			extra := map[string]ipld.Block{
				"validmh20":  block.NewBlock(cidlink.Link{Cid: cid.NewCidV1(0x55, short)}, data),
				"validv0":    block.NewBlock(cidlink.Link{Cid: cid.NewCidV0(full)}, data),
				"validid":    block.NewBlock(cidlink.Link{Cid: cid.NewCidV1(0x55, idh)}, data),
				"validempty": block.NewBlock(cidlink.Link{Cid: cid.NewCidV1(0x55, eh)}, []byte{}),
			}
			for name, xb := range extra {
				xb := xb
				f.bodies[name] = enc([]ipld.Link{msg.Root().Link()}, func(yield func(ipld.Block, error) bool) {
					for b, err := range msg.Blocks() {
						if !yield(b, err) {
							return
						}
					}
					yield(xb, nil)
				})
			}
		}
		c20Fix = f
	})
	return c20Fix
}

func execHandle(a []string) (res Result) {
	f := c20Setup()
	ct, acc, body := string(unhexTok(a[0])), string(unhexTok(a[1])), a[2]
	hdr := http.Header{}
	if a[0] != "-" {
		hdr.Set("Content-Type", ct)
	}
	if a[1] != "-" {
		hdr.Set("Accept", acc)
	}
	// the handler counter is shared: serialise
	f.mu.Lock()
	f.calls = 0
	f.mu.Unlock()
	defer func() {
		if r := recover(); r != nil {
			res.Impl = fmt.Sprintf("panic:%v", r)
		}
	}()
	resp, err := f.srv.Request(thttp.NewHTTPRequest(bytes.NewReader(f.bodies[body]), hdr))
	f.mu.Lock()
	calls := f.calls
	f.mu.Unlock()
	if err != nil {
		return Result{Impl: fmt.Sprintf("error|calls=%d", calls)}
	}
	extra := ""
	if resp.Status() == 200 {
		b, _ := io.ReadAll(resp.Body())
		if resp.Headers().Get("Content-Type") != carCT {
			extra = "|bad-content-type"
		} else if _, _, derr := car.Decode(bytes.NewReader(b)); derr != nil {
			extra = "|body-not-car"
		}
	}
	return Result{Impl: fmt.Sprintf("status:%d|calls=%d%s", resp.Status(), calls, extra)}
}

func execChannel(a []string) (res Result) {
	f := c20Setup()
	st := atoi(a[0])
	ts := httptest.NewServer(http.HandlerFunc(func(w http.ResponseWriter, r *http.Request) {
		io.Copy(io.Discard, r.Body)
		if a[1] == "car" {
			w.Header().Set("Content-Type", carCT)
			w.WriteHeader(st)
			if st != 204 && st != 304 {
				w.Write(f.bodies["valid0"])
			}
		} else {
			w.WriteHeader(st)
			if st != 204 && st != 304 {
				w.Write([]byte("some text"))
			}
		}
	}))
	defer ts.Close()
	u, _ := url.Parse(ts.URL)
	ch := thttp.NewHTTPChannel(u)
	hdr := http.Header{}
	hdr.Set("Content-Type", carCT)
	resp, err := ch.Request(thttp.NewHTTPRequest(bytes.NewReader(f.bodies["valid0"]), hdr))
	if err != nil {
		if he, ok := err.(interface{ Status() int }); ok {
			return Result{Impl: fmt.Sprintf("httperror:%d", he.Status())}
		}
		return Result{Impl: "error-without-status:" + err.Error()}
	}
	return Result{Impl: fmt.Sprintf("response:%d", resp.Status())}
}
