package main

// structread: schema.Struct (the reader typed caveats are bound with, and the one the validator reads the
// caveats of ucan/attest with) against the Lean model StructRd.read, on values at and around the valid
// shape of three schemas: the library's own Attestation {proof Link}, optional-only and required+optional.

import (
	"encoding/hex"
	"encoding/json"
	"fmt"
	"math/rand"
	"strings"

	cidlink "github.com/ipld/go-ipld-prime/linking/cid"
	"github.com/storacha/go-ucanto/core/schema"
	vdm "github.com/storacha/go-ucanto/validator/datamodel"
)

func init() {
	execs["structread"] = guard(execStructRead)
}

type reqCaveats struct {
	Name  string
	Count int64
	Flag  *bool
	Data  *[]byte
}

var structSchemas = map[string][]struct {
	name, kind string
	optional   bool
}{
	"att": {{"proof", "link", false}},
	"lib": {{"size", "int", true}, {"label", "str", true}},
	"req": {{"name", "str", false}, {"count", "int", false}, {"flag", "bool", true}, {"data", "bytes", true}},
}

func validOfKind(r *rand.Rand, kind string) TV {
	switch kind {
	case "int":
		return tvInt([]int64{0, 1, -1, 42, 1 << 40, -(1 << 62)}[r.Intn(6)])
	case "str":
		return tvStr([]string{"", "x", "héllo", "proof"}[r.Intn(4)])
	case "bool":
		return tvBool(r.Intn(2) == 0)
	case "bytes":
		return tvBytes([][]byte{{}, {0}, {1, 2, 3}}[r.Intn(3)])
	default:
		return tvLink(cidPool[r.Intn(len(cidPool))])
	}
}

func genStructRead(cfg Config, emit Emit, quick, thorough int) {
	pools()
	n := quick
	if cfg.Thorough() {
		n = thorough
	}
	r := cfg.Rng
	kinds := []string{"int", "str", "bool", "bytes", "link"}
	names := []string{"att", "lib", "req"}
	for i := 0; i < n; i++ {
		sc := names[i%3]
		var kvs []KV
		for _, f := range structSchemas[sc] {
			if !f.optional || r.Intn(3) > 0 {
				kvs = append(kvs, KV{f.name, validOfKind(r, f.kind)})
			}
		}
		class := "valid"
		switch e := r.Intn(12); {
		case e == 0 && len(kvs) > 0: // a field dropped
			k := r.Intn(len(kvs))
			kvs = append(kvs[:k:k], kvs[k+1:]...)
			class = "dropped"
		case e == 1: // a field the schema does not know
			kvs = append(kvs, KV{[]string{"extra", "Proof", "proof ", "", "sizes", "nb"}[r.Intn(6)], validOfKind(r, kinds[r.Intn(5)])})
			class = "unknown-field"
		case e == 2 && len(kvs) > 0: // another kind
			k := r.Intn(len(kvs))
			kvs[k].V = validOfKind(r, kinds[r.Intn(5)])
			class = "other-kind"
		case e == 3 && len(kvs) > 0: // null / list / map in place of a scalar
			k := r.Intn(len(kvs))
			kvs[k].V = []TV{tvNull(), tvList(nil), tvMap(nil), tvList([]TV{kvs[k].V}), tvMap([]KV{{"/", kvs[k].V}})}[r.Intn(5)]
			class = "non-scalar"
		case e == 4: // not a map at all
			v := []TV{tvNull(), tvInt(3), tvStr("proof"), tvList(nil), tvBool(true), tvBytes([]byte{1}), tvLink(cidPool[0]), tvList([]TV{tvMap(kvs)})}[r.Intn(8)]
			emit("structread", []string{sc, tvCJ(v), mustJSON(v)}, "structread/not-a-map", true)
			continue
		case e == 5: // shuffled
			r.Shuffle(len(kvs), func(a, b int) { kvs[a], kvs[b] = kvs[b], kvs[a] })
			class = "shuffled"
		case e == 6: // every field and an unknown one first
			kvs = append([]KV{{"a", tvInt(1)}}, kvs...)
			class = "unknown-first"
		case e == 7: // the fields of another schema
			kvs = nil
			for _, f := range structSchemas[names[(i+1)%3]] {
				kvs = append(kvs, KV{f.name, validOfKind(r, f.kind)})
			}
			class = "other-schema"
		}
		emit("structread", []string{sc, tvCJ(tvMap(kvs)), mustJSON(tvMap(kvs))}, "structread/"+class, true)
	}
}

func tvCJ(v TV) string {
	n, err := v.node()
	if err != nil {
		return `"z"`
	}
	cj, err := nodeToCJ(n)
	if err != nil {
		return `"z"`
	}
	b, _ := json.Marshal(cj)
	return string(b)
}

func execStructRead(a []string) Result {
	pools()
	var tv TV
	if err := json.Unmarshal([]byte(a[2]), &tv); err != nil {
		return Result{Impl: "bad-args"}
	}
	n, err := tv.node()
	if err != nil {
		return Result{Impl: "bad-value:" + err.Error()}
	}
	var out []string
	switch a[0] {
	case "att":
		v, ferr := schema.Struct[vdm.AttestationModel](vdm.AttestationType(), nil).Read(n)
		if ferr != nil {
			return Result{Impl: "fail", Extra: map[string]any{"error": ferr.Error()}}
		}
		cl, ok := v.Proof.(cidlink.Link)
		if !ok {
			return Result{Impl: "ok|proof=?"}
		}
		out = append(out, "proof=l"+hex.EncodeToString(cl.Cid.Bytes()))
	case "lib":
		ts, err := ipldLoad([]byte("type LibCaveats struct {\n size optional Int\n label optional String\n}"))
		if err != nil {
			return Result{Impl: "schema-error"}
		}
		v, ferr := schema.Struct[libCaveats](ts.TypeByName("LibCaveats"), nil).Read(n)
		if ferr != nil {
			return Result{Impl: "fail", Extra: map[string]any{"error": ferr.Error()}}
		}
		if v.Size != nil {
			out = append(out, fmt.Sprintf("size=i%d", *v.Size))
		}
		if v.Label != nil {
			out = append(out, "label=s"+hex.EncodeToString([]byte(*v.Label)))
		}
	case "req":
		ts, err := ipldLoad([]byte("type ReqCaveats struct {\n name String\n count Int\n flag optional Bool\n data optional Bytes\n}"))
		if err != nil {
			return Result{Impl: "schema-error"}
		}
		v, ferr := schema.Struct[reqCaveats](ts.TypeByName("ReqCaveats"), nil).Read(n)
		if ferr != nil {
			return Result{Impl: "fail", Extra: map[string]any{"error": ferr.Error()}}
		}
		out = append(out, "name=s"+hex.EncodeToString([]byte(v.Name)), fmt.Sprintf("count=i%d", v.Count))
		if v.Flag != nil {
			out = append(out, map[bool]string{true: "flag=t", false: "flag=f"}[*v.Flag])
		}
		if v.Data != nil {
			out = append(out, "data=b"+hex.EncodeToString(*v.Data))
		}
	}
	return Result{Impl: strings.Join(append([]string{"ok"}, out...), "|")}
}
