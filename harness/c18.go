package main

// C18: stored tokens, archives and keys stay readable and valid; formats do not drift.
// corpus/c18/recorded.jsonl holds deterministic issuance programs (fixed keys, fixed times, fixed
// seeds) and the artifacts they produced when the corpus was recorded. Every run re-executes each
// program on the current tree and compares byte for byte, and reads every recorded artifact with the
// current tree and verifies it.

import (
	"bufio"
	"bytes"
	"encoding/hex"
	"encoding/json"
	"errors"
	"fmt"
	"github.com/storacha/go-ucanto/core/dag/blockstore"
	"github.com/storacha/go-ucanto/core/receipt/fx"
	"github.com/storacha/go-ucanto/core/schema"
	"github.com/storacha/go-ucanto/server"
	"github.com/storacha/go-ucanto/validator"
	"io"
	"math/rand"
	"os"
	"path/filepath"
	"sort"
	"strings"

	"github.com/ipfs/go-cid"
	cidlink "github.com/ipld/go-ipld-prime/linking/cid"
	"github.com/storacha/go-ucanto/core/delegation"
	"github.com/storacha/go-ucanto/core/invocation"
	"github.com/storacha/go-ucanto/core/invocation/ran"
	"github.com/storacha/go-ucanto/core/ipld"
	"github.com/storacha/go-ucanto/core/message"
	"github.com/storacha/go-ucanto/core/receipt"
	"github.com/storacha/go-ucanto/core/result"
	"github.com/storacha/go-ucanto/did"
	edsigner "github.com/storacha/go-ucanto/principal/ed25519/signer"
	edverifier "github.com/storacha/go-ucanto/principal/ed25519/verifier"
	rsasigner "github.com/storacha/go-ucanto/principal/rsa/signer"
	rsaverifier "github.com/storacha/go-ucanto/principal/rsa/verifier"
	"github.com/storacha/go-ucanto/transport/car/request"
	thttp "github.com/storacha/go-ucanto/transport/http"
	"github.com/storacha/go-ucanto/ucan"
)

const c18Now = 1800000000

func init() {
	gens["C18"] = genC18
	execs["c18"] = guard(execC18)
}

// Program: one deterministic issuance program
type Program struct {
	Kind  string  `json:"kind"` // token | world | receipt | key | message
	Token *USpec  `json:"token,omitempty"`
	World *AWorld `json:"world,omitempty"`
	Rcpt  *RSpec  `json:"rcpt,omitempty"`
	Key   string  `json:"key,omitempty"`
}

func c18Programs() []Program {
	r := rand.New(rand.NewSource(18))
	var ps []Program
	// tokens: every option combination x key type x caveat shapes
	for i := 0; i < 160; i++ {
		var s USpec
		s.Key = []string{"ed0", "ed1", "ed2", "rsa0", "rsa1", "wrap3"}[i%6]
		s.Aud = fmt.Sprintf("ed%d", 12+i%6)
		for c := 0; c <= i%3; c++ {
			s.Fields.Att = append(s.Fields.Att, UCap{Can: []string{"store/add", "upload/*", "*", "x/y"}[r.Intn(4)], With: []string{"did:key:z6MkExample", "ucan:*", "https://example.com/a?b=c"}[r.Intn(3)], Nb: noNull(tvMap(randKVs(r, 2)))})
		}
		if i&1 != 0 {
			s.Fields.Prf = []string{cidPool[0], cidPool[1]}[:1+i%2]
		}
		if i&2 != 0 {
			e := c18Now + 1000 + i
			s.Fields.Exp = &e
		}
		if i&4 != 0 {
			nb := 1700000000 + i
			s.Fields.Nbf = &nb
		}
		if i&8 != 0 {
			nn := fmt.Sprintf("nonce-%d-ü", i)
			s.Fields.Nnc = &nn
		}
		if i&16 != 0 {
			s.Fields.Fct = [][]KV{{{"f", noNull(randTV(r, 1))}}}
		}
		s.Alter = "none"
		ps = append(ps, Program{Kind: "token", Token: &s})
	}
	// worlds: nested delegations with inline / link-only proofs, sessions
	for i := 0; i < 60; i++ {
		var class string
		w := genWorld(r, c18Now, genOpts{maxDepth: 4, sessions: true, sessionPct: 40, caveats: true, caveatPct: 40}, &class)
		normalize(w)
		ps = append(ps, Program{Kind: "world", World: w})
	}
	// receipts
	for i := 0; i < 60; i++ {
		s := RSpec{Key: []string{"ed0", "ed4", "rsa0", "wrap2"}[i%4], OK: i%3 != 0, Value: noNull(randTV(r, 2)), RanKind: []string{"inv", "link"}[i%2], Alter: "none", Reader: "untyped"}
		if i%2 == 0 {
			s.Forks = []string{"link", "inv"}[:1+i%2]
			s.Join = []string{"", "link", "inv"}[i%3]
		}
		if i%5 == 0 {
			s.Prfs = []string{"link", "dlg"}
		}
		ps = append(ps, Program{Kind: "receipt", Rcpt: &s})
	}
	// keys and DIDs
	for i := 0; i < 12; i++ {
		ps = append(ps, Program{Kind: "key", Key: fmt.Sprintf("ed%d", i)})
	}
	ps = append(ps, Program{Kind: "key", Key: "rsa0"}, Program{Kind: "key", Key: "rsa1"}, Program{Kind: "key", Key: "wrap5"})
	// DID strings of many methods (identities users hold), and tokens issued under them
	for _, d := range []string{"did:web:example.com", "did:mailto:web.mail:alice", "did:dns:alice.example", "did:dht:abc", "did:ion:EiClkZMDxPKqC9c", "did:plc:z72i7hdynmk6r22z27h6tvur",
		"did:pkh:eip155:1:0xab16a96D359eC26a11e2C2b3d8f8B8942d5Bfcdb", "did:indy:sovrin:7Tqg6BwSSWapxgUDm9KKgg", "did:d:i", "did:i:d:", "did:web:ünï.example", "did:x:"} {
		ps = append(ps, Program{Kind: "did", Key: d})
	}
	for i, d := range []string{"did:dns:alice.example", "did:ion:abc", "did:web:up.example.com"} {
		var s USpec
		s.Key = "as:" + d + ":" + fmt.Sprint(i)
		s.Aud = "ed13"
		s.Fields.Att = []UCap{{Can: "store/add", With: d, Nb: tvMap(nil)}}
		e := c18Now + 5000
		s.Fields.Exp = &e
		s.Alter = "none"
		ps = append(ps, Program{Kind: "token", Token: &s})
	}
	// (appended after the first recording) the same proof cited more than once: tokens by link,
	// worlds with embedded proofs, receipts
	for i := 0; i < 8; i++ {
		var s USpec
		s.Key = []string{"ed0", "rsa0", "wrap3", "ed2"}[i%4]
		s.Aud = fmt.Sprintf("ed%d", 12+i%6)
		s.Fields.Att = []UCap{{Can: "store/add", With: "did:key:z6MkExample", Nb: tvMap(nil)}}
		s.Fields.Prf = [][]string{{cidPool[0], cidPool[0]}, {cidPool[0], cidPool[1], cidPool[0]}, {cidPool[1], cidPool[1], cidPool[1]}, {cidPool[0], cidPool[1], cidPool[1], cidPool[0]}}[i%4]
		if i >= 4 {
			e := c18Now + 7000 + i
			s.Fields.Exp = &e
		}
		s.Alter = "none"
		ps = append(ps, Program{Kind: "token", Token: &s})
	}
	for i := 0; i < 12; i++ {
		var class string
		w := genWorld(r, c18Now, genOpts{maxDepth: 4, sessions: true, sessionPct: 30, caveats: true, caveatPct: 30, kinds: []string{"dup"}}, &class)
		normalize(w)
		ps = append(ps, Program{Kind: "world", World: w})
	}
	for i := 0; i < 6; i++ {
		s := RSpec{Key: []string{"ed0", "rsa0", "wrap2"}[i%3], OK: i%2 == 0, Value: tvInt(int64(i)), RanKind: []string{"inv", "link"}[i%2], Alter: "none", Reader: "untyped",
			Prfs: [][]string{{"link", "dup"}, {"dlg", "dup"}, {"link", "dlg", "dup", "dup"}}[i%3]}
		ps = append(ps, Program{Kind: "receipt", Rcpt: &s})
	}
	// options given twice: the later one holds
	for i := 0; i < 8; i++ {
		var s USpec
		s.Key = []string{"ed0", "rsa0", "wrap3", "ed2"}[i%4]
		s.Aud = fmt.Sprintf("ed%d", 12+i%6)
		s.Fields.Att = []UCap{{Can: "store/add", With: "did:key:z6MkExample", Nb: tvMap(nil)}}
		s.PreOpts = [][]string{{"exp:1999999999"}, {"noexp"}, {"exp:1999999999", "noexp", "nbf:5", "nnc:first"}, {"noexp", "exp:1888888888"}}[i%4]
		if i%2 == 1 {
			e := c18Now + 9000 + i
			s.Fields.Exp = &e
		}
		if i >= 4 {
			nn := "second"
			s.Fields.Nnc = &nn
			nb := 1700000123
			s.Fields.Nbf = &nb
		}
		s.Alter = "none"
		ps = append(ps, Program{Kind: "token", Token: &s})
	}
	// options given with empty, non-nil lists
	for i := 0; i < 4; i++ {
		var s USpec
		s.Key = []string{"ed0", "rsa0"}[i%2]
		s.Aud = "ed14"
		s.Fields.Att = []UCap{{Can: "store/add", With: "did:key:z6MkExample", Nb: tvMap(nil)}}
		e := c18Now + 11000 + i
		s.Fields.Exp = &e
		s.EmptyFacts, s.EmptyProofs = i < 2 || i == 3, i >= 2
		s.Alter = "none"
		ps = append(ps, Program{Kind: "token", Token: &s})
	}
	// an option given twice (the later one replaces the earlier), and blocks attached before storing
	for i := 0; i < 6; i++ {
		var s USpec
		s.Key = []string{"ed0", "rsa0", "wrap3"}[i%3]
		s.Aud = "ed15"
		s.Fields.Att = []UCap{{Can: "store/add", With: "did:key:z6MkExample", Nb: tvMap(nil)}}
		e := c18Now + 12000 + i
		s.Fields.Exp = &e
		if i%2 == 0 {
			s.PreOpts = []string{"prf:" + cidPool[0]}
			s.Fields.Prf = []string{cidPool[1]}
		}
		if i >= 2 {
			s.Attach = 1 + i%3
			s.Fields.Prf = append(s.Fields.Prf, cidPool[0])
		}
		s.Alter = "none"
		ps = append(ps, Program{Kind: "token", Token: &s})
	}
	// receipts with effects and proofs (repeated ones included), assembled the way the server does
	for i := 0; i < 6; i++ {
		s := RSpec{Key: []string{"ed0", "rsa0", "wrap2"}[i%3], OK: i%2 == 0, Value: tvInt(int64(40 + i)), RanKind: []string{"inv", "link"}[i%2], Alter: "none", Reader: "untyped", Effects: true,
			Forks: [][]string{{"link"}, {"link", "link", "dup"}, {"link", "dup", "link", "dup"}}[i%3], Join: []string{"", "link"}[i%2],
			Prfs: [][]string{nil, {"link", "dup"}}[i%2]}
		ps = append(ps, Program{Kind: "receipt", Rcpt: &s})
	}
	// tokens issued through delegation.Delegate / invocation.Invoke that EMBED their proofs (archives hold
	// several tokens; their order is part of the stored bytes)
	for _, k := range []string{"chain3", "mixed", "twoproofs", "rsa-chain"} {
		ps = append(ps, Program{Kind: "nested", Key: k})
	}
	// time bounds at and below zero, and beyond 2^31 / 2^53
	for i, tb := range [][2]int{{-5, -7}, {0, -1}, {1 << 31, -(1 << 40)}, {1<<53 + 1, 1 << 31}, {1<<62 + 3, 0}, {-1, 1}} {
		var s USpec
		s.Key = []string{"ed0", "rsa0", "wrap3"}[i%3]
		s.Aud = "ed16"
		s.Fields.Att = []UCap{{Can: "store/add", With: "did:key:z6MkExample", Nb: tvMap(nil)}}
		e, nb := tb[0], tb[1]
		s.Fields.Exp = &e
		if nb != 0 {
			s.Fields.Nbf = &nb
		}
		s.Alter = "none"
		ps = append(ps, Program{Kind: "token", Token: &s})
	}
	// receipts the server issues itself for requests it cannot run (no stack traces in these), and error
	// receipts built from plain, named, wrapped and self-describing errors
	for _, k := range []string{"notfound", "twocap", "handlererr", "handlernamed"} {
		ps = append(ps, Program{Kind: "srvrcpt", Key: k})
	}
	for _, k := range []string{"plain", "named", "wrapped-named", "wrapped-stack", "wrapped-convertible", "convertible", "joined"} {
		ps = append(ps, Program{Kind: "failure", Key: k})
	}
	return ps
}

// errors of the shapes callers hand to result.NewFailure
type c18Named struct{ msg string }

func (e c18Named) Error() string { return e.msg }
func (e c18Named) Name() string  { return "C18Named" }

type c18Stack struct{ c18Named }

func (e c18Stack) Stack() string { return "at c18 (fixed)" }

type c18Conv struct{ c18Named }

func (e c18Conv) ToIPLD() (ipld.Node, error) {
	return tvBuilder{tvMap([]KV{{"custom", tvInt(7)}, {"message", tvStr(e.msg)}})}.ToIPLD()
}

func c18Error(k string) error {
	switch k {
	case "plain":
		return fmt.Errorf("plain trouble")
	case "named":
		return c18Named{"named trouble"}
	case "wrapped-named":
		return fmt.Errorf("while storing: %w", c18Named{"named trouble"})
	case "wrapped-stack":
		return fmt.Errorf("while storing: %w", c18Stack{c18Named{"stack trouble"}})
	case "wrapped-convertible":
		return fmt.Errorf("while storing: %w", c18Conv{c18Named{"custom trouble"}})
	case "convertible":
		return c18Conv{c18Named{"custom trouble"}}
	case "joined":
		return errors.Join(fmt.Errorf("first"), c18Named{"second"})
	}
	return fmt.Errorf("unknown")
}

// artifacts produced by a program: name -> hex bytes / string
type Artifacts map[string]string

func runProgram(p Program) (Artifacts, error) {
	out := Artifacts{}
	pools()
	switch p.Kind {
	case "token":
		s := *p.Token
		sg, err := pickSigner(s.Key)
		if err != nil {
			return nil, err
		}
		audS, _ := pickSigner(s.Aud)
		var caps []ucan.Capability[tvBuilder]
		for _, c := range s.Fields.Att {
			caps = append(caps, ucan.NewCapability(c.Can, c.With, tvBuilder{c.Nb}))
		}
		opts := preOpts(s.PreOpts)
		if s.Fields.Exp == nil {
			opts = append(opts, delegation.WithNoExpiration())
		} else {
			opts = append(opts, delegation.WithExpiration(*s.Fields.Exp))
		}
		if s.Fields.Nbf != nil {
			opts = append(opts, delegation.WithNotBefore(*s.Fields.Nbf))
		}
		if s.Fields.Nnc != nil {
			opts = append(opts, delegation.WithNonce(*s.Fields.Nnc))
		}
		var prfs delegation.Proofs
		for _, pl := range s.Fields.Prf {
			c, _ := cid.Decode(pl)
			prfs = append(prfs, delegation.FromLink(cidlink.Link{Cid: c}))
		}
		opts = append(opts, delegation.WithProof(prfs...))
		var fb []ucan.FactBuilder
		for _, f := range s.Fields.Fct {
			fb = append(fb, factB{f})
		}
		if s.EmptyFacts && fb == nil {
			fb = []ucan.FactBuilder{}
		}
		if s.EmptyProofs && prfs == nil {
			opts = append(opts, delegation.WithProof(delegation.Proofs{}...))
		}
		opts = append(opts, delegation.WithFacts(fb))
		d, err := delegation.Delegate(sg, audS, caps, opts...)
		if err != nil {
			return nil, err
		}
		for k := 0; k < s.Attach; k++ {
			if err := d.Attach(rawCborBlock([]byte{0x18, byte(100 + k)})); err != nil {
				return nil, err
			}
		}
		out["link"] = d.Link().String()
		out["root"] = hex.EncodeToString(d.Root().Bytes())
		out["sig"] = hex.EncodeToString(d.Signature().Bytes())
		ab, _ := io.ReadAll(d.Archive())
		out["archive"] = hex.EncodeToString(ab)
		f, _ := delegation.Format(d)
		out["format"] = f
		out["issuer"] = sg.DID().String()
	case "world":
		w := *p.World
		wj, _ := json.Marshal(&w)
		var w2 AWorld
		json.Unmarshal(wj, &w2)
		cw, err := Concretise(&w2)
		if err != nil {
			return nil, err
		}
		for i, d := range cw.D {
			out[fmt.Sprintf("link%d", i)] = d.Link().String()
		}
		top := cw.D[w2.Inv]
		ab, _ := io.ReadAll(top.Archive())
		out["archive"] = hex.EncodeToString(ab)
		f, _ := delegation.Format(top)
		out["format"] = f
		msg, err := message.Build([]invocation.Invocation{top}, nil)
		if err != nil {
			return nil, err
		}
		req, _ := request.Encode(msg)
		rb, _ := io.ReadAll(req.Body())
		out["request"] = hex.EncodeToString(rb)
		out["message"] = msg.Root().Link().String()
		out["content-type"] = req.Headers().Get("Content-Type")
	case "receipt":
		s := *p.Rcpt
		sg, err := pickSigner(s.Key)
		if err != nil {
			return nil, err
		}
		alice := edPool[20]
		inv, err := invocation.Invoke(alice, sg, ucan.NewCapability("test/run", alice.DID().String(), NbMap{F: map[string]any{}}), delegation.WithNonce("ran"), delegation.WithNoExpiration())
		if err != nil {
			return nil, err
		}
		var rn ran.Ran = ran.FromInvocation(inv)
		if s.RanKind == "link" {
			rn = ran.FromLink(inv.Link())
		}
		var res result.Result[tvBuilder, tvBuilder]
		if s.OK {
			res = result.Ok[tvBuilder, tvBuilder](tvBuilder{s.Value})
		} else {
			res = result.Error[tvBuilder, tvBuilder](tvBuilder{s.Value})
		}
		var ropts []receipt.Option
		if s.Effects {
			var fos []fx.Option
			var forks []fx.Effect
			for i, f := range s.Forks {
				if f == "dup" && len(forks) > 0 {
					forks = append(forks, forks[len(forks)-1])
				} else {
					forks = append(forks, fx.FromLink(dummyLink(100+i)))
				}
			}
			if len(forks) > 0 {
				fos = append(fos, fx.WithFork(forks...))
			}
			if s.Join == "link" {
				fos = append(fos, fx.WithJoin(fx.FromLink(dummyLink(200))))
			}
			eff := fx.NewEffects(fos...)
			if len(eff.Fork()) > 0 {
				ropts = append(ropts, receipt.WithFork(eff.Fork()...))
			}
			if eff.Join() != (fx.Effect{}) {
				ropts = append(ropts, receipt.WithJoin(eff.Join()))
			}
			var prfs delegation.Proofs
			for i, pk := range s.Prfs {
				if pk == "dup" && len(prfs) > 0 {
					prfs = append(prfs, prfs[len(prfs)-1])
				} else {
					prfs = append(prfs, delegation.FromLink(dummyLink(300+i)))
				}
			}
			if len(prfs) > 0 {
				ropts = append(ropts, receipt.WithProofs(prfs))
			}
			out["nforks"] = itoa(len(forks))
		}
		rc, err := receipt.Issue(sg, res, rn, ropts...)
		if err != nil {
			return nil, err
		}
		out["link"] = rc.Root().Link().String()
		out["root"] = hex.EncodeToString(rc.Root().Bytes())
		m, err := message.Build(nil, []receipt.AnyReceipt{rc})
		if err != nil {
			return nil, err
		}
		out["message"] = m.Root().Link().String()
		out["message-root"] = hex.EncodeToString(m.Root().Bytes())
	case "nested":
		a, b, c, svc := ucan.Signer(edPool[1]), ucan.Signer(edPool[2]), ucan.Signer(edPool[3]), edPool[0]
		if p.Key == "rsa-chain" {
			a = rsaPool[0]
		}
		res := a.DID().String()
		mk := func(iss ucan.Signer, aud ucan.Principal, nonce string, prf ...delegation.Proof) (delegation.Delegation, error) {
			return delegation.Delegate(iss, aud, []ucan.Capability[NbMap]{ucan.NewCapability("store/add", res, NbMap{F: map[string]any{}})},
				delegation.WithExpiration(c18Now+50000), delegation.WithNonce(nonce), delegation.WithProof(prf...))
		}
		d1, err := mk(a, b, "d1")
		if err != nil {
			return nil, err
		}
		d1b, err := mk(a, b, "d1b")
		if err != nil {
			return nil, err
		}
		var d2 delegation.Delegation
		switch p.Key {
		case "mixed":
			d2, err = mk(b, c, "d2", delegation.FromLink(d1b.Link()), delegation.FromDelegation(d1))
		case "twoproofs":
			d2, err = mk(b, c, "d2", delegation.FromDelegation(d1), delegation.FromDelegation(d1b))
		default:
			d2, err = mk(b, c, "d2", delegation.FromDelegation(d1))
		}
		if err != nil {
			return nil, err
		}
		inv, err := invocation.Invoke(c, svc, ucan.NewCapability("store/add", res, NbMap{F: map[string]any{}}),
			delegation.WithExpiration(c18Now+60000), delegation.WithNonce("inv"), delegation.WithProof(delegation.FromDelegation(d2)))
		if err != nil {
			return nil, err
		}
		for name, d := range map[string]delegation.Delegation{"d1": d1, "d2": d2, "inv": inv} {
			out["link-"+name] = d.Link().String()
			ab, _ := io.ReadAll(d.Archive())
			out["archive-"+name] = hex.EncodeToString(ab)
			f, _ := delegation.Format(d)
			out["format-"+name] = f
		}
		msg, err := message.Build([]invocation.Invocation{inv}, nil)
		if err != nil {
			return nil, err
		}
		req, _ := request.Encode(msg)
		rb, _ := io.ReadAll(req.Body())
		out["request"] = hex.EncodeToString(rb)
	case "srvrcpt", "failure":
		svc, alice := edPool[0], edPool[20]
		caps := []ucan.Capability[NbMap]{ucan.NewCapability("test/fail", alice.DID().String(), NbMap{F: map[string]any{}})}
		switch p.Key {
		case "notfound":
			caps[0] = ucan.NewCapability("test/none", alice.DID().String(), NbMap{F: map[string]any{}})
		case "twocap":
			caps = append(caps, ucan.NewCapability("test/other", "did:key:z6MkExample", NbMap{F: map[string]any{}}))
		}
		d, err := delegation.Delegate(alice, svc, caps, delegation.WithNonce("ran"), delegation.WithNoExpiration())
		if err != nil {
			return nil, err
		}
		var rc receipt.AnyReceipt
		if p.Kind == "failure" {
			rc, err = receipt.Issue(svc, result.NewFailure(c18Error(p.Key)), ran.FromInvocation(d))
		} else {
			var srv server.ServerView
			srv, err = server.NewServer(svc, server.WithErrorHandler(func(server.HandlerExecutionError[any]) {}),
				server.WithServiceMethod("test/fail", server.Provide(validator.NewCapability[NbMap]("test/fail", schema.DIDString(), nbReader{}, nil),
					func(cap ucan.Capability[NbMap], inv invocation.Invocation, ctx server.InvocationContext) (okOut, fx.Effects, error) {
						if p.Key == "handlernamed" {
							return okOut{}, nil, c18Named{"named trouble"}
						}
						return okOut{}, nil, fmt.Errorf("plain trouble")
					})))
			if err != nil {
				return nil, err
			}
			rc, err = server.Run(srv, d)
		}
		if err != nil {
			return nil, err
		}
		out["link"] = rc.Root().Link().String()
		out["root"] = hex.EncodeToString(rc.Root().Bytes())
	case "did":
		d, err := did.Parse(p.Key)
		if err != nil {
			return nil, err
		}
		out["did"] = d.String()
		out["did-bytes"] = hex.EncodeToString(d.Bytes())
		d2, err := did.Decode(d.Bytes())
		if err != nil {
			return nil, err
		}
		out["decoded"] = d2.String()
	case "key":
		sg, err := pickSigner(p.Key)
		if err != nil {
			return nil, err
		}
		out["did"] = sg.DID().String()
		out["did-bytes"] = hex.EncodeToString(sg.DID().Bytes())
		out["signer"] = hex.EncodeToString(sg.Encode())
		out["verifier"] = hex.EncodeToString(sg.Verifier().Encode())
		if strings.HasPrefix(p.Key, "rsa") {
			f, _ := rsasigner.Format(sg)
			out["signer-string"] = f
		} else if strings.HasPrefix(p.Key, "ed") {
			f, _ := edsigner.Format(sg)
			out["signer-string"] = f
		}
		out["signature"] = hex.EncodeToString(sg.Sign([]byte("the quick brown fox")).Bytes())
		out["alg"] = sg.SignatureAlgorithm()
	}
	return out, nil
}

// readRecorded checks that the recorded artifacts are still readable and valid with the current tree
func readRecorded(p Program, rec Artifacts) []string {
	var bad []string
	chk := func(c bool, what string) {
		if !c {
			bad = append(bad, what)
		}
	}
	pools()
	unhex := func(k string) []byte { b, _ := hex.DecodeString(rec[k]); return b }
	switch p.Kind {
	case "token", "world":
		d, err := delegation.Extract(unhex("archive"))
		chk(err == nil, "recorded archive no longer extracts")
		if err == nil {
			want := rec["link"]
			if p.Kind == "world" {
				want = rec[fmt.Sprintf("link%d", p.World.Inv)]
			}
			chk(d.Link().String() == want, "recorded archive extracts to another link")
			if p.Kind == "token" {
				chk(hex.EncodeToString(d.Signature().Bytes()) == rec["sig"], "signature bytes differ")
				chk(bytes.Equal(d.Root().Bytes(), unhex("root")), "root bytes differ")
				sg, _ := pickSigner(p.Token.Key)
				ok, verr := ucan.VerifySignature(d.Data(), sg.Verifier())
				chk(ok && verr == nil, "recorded token no longer verifies")
				iss, perr := did.Parse(rec["issuer"])
				chk(perr == nil && iss == d.Issuer().DID(), "recorded issuer DID parses to another value")
			}
		}
		d2, err := delegation.Parse(rec["format"])
		chk(err == nil, "recorded delegation string no longer parses")
		if err == nil && d != nil {
			chk(d2.Link().String() == d.Link().String(), "string and archive disagree")
		}
		// store -> load -> store: what was read back is written out again as it was stored
		if d != nil {
			ab, aerr := io.ReadAll(d.Archive())
			chk(aerr == nil && bytes.Equal(ab, unhex("archive")), "a loaded archive is written back with other bytes")
		}
		if err == nil && d2 != nil {
			f2, ferr := delegation.Format(d2)
			chk(ferr == nil && f2 == rec["format"], "a parsed delegation string is formatted back to another string")
		}
		if p.Kind == "world" {
			msg, err := request.Decode(thttp.NewHTTPRequest(bytes.NewReader(unhex("request")), map[string][]string{"Content-Type": {rec["content-type"]}}))
			chk(err == nil, "recorded request no longer decodes")
			if err == nil {
				chk(msg.Root().Link().String() == rec["message"], "recorded request decodes to another message")
				chk(len(msg.Invocations()) == 1 && msg.Invocations()[0].String() == rec[fmt.Sprintf("link%d", p.World.Inv)], "recorded request lists another invocation")
			}
			chk(rec["content-type"] == "application/vnd.ipld.car", "media type")
		}
	case "nested":
		for _, name := range []string{"d1", "d2", "inv"} {
			d, err := delegation.Extract(unhex("archive-" + name))
			chk(err == nil && d.Link().String() == rec["link-"+name], "recorded archive of "+name+" no longer extracts to its link")
			if err == nil {
				ab, aerr := io.ReadAll(d.Archive())
				chk(aerr == nil && bytes.Equal(ab, unhex("archive-"+name)), "a loaded archive ("+name+") is written back with other bytes")
			}
			d2, err := delegation.Parse(rec["format-"+name])
			chk(err == nil && d2.Link().String() == rec["link-"+name], "recorded delegation string of "+name+" no longer parses to its link")
		}
	case "receipt", "srvrcpt", "failure":
		rootN, err := decodeAny(unhex("root"))
		chk(err == nil, "recorded receipt root no longer decodes")
		if err == nil {
			ocm, e1 := rootN.LookupByString("ocm")
			sig, e2 := rootN.LookupByString("sig")
			chk(e1 == nil && e2 == nil, "recorded receipt has another shape")
			if e1 == nil && e2 == nil {
				sb, _ := sig.AsBytes()
				key := "ed0"
				if p.Rcpt != nil {
					key = p.Rcpt.Key
				}
				sg, _ := pickSigner(key)
				chk(sg.Verifier().Verify(nodeBytes(ocm), signatureOf(sb)), "recorded receipt no longer verifies")
			}
		}
		if nf, ok := rec["nforks"]; ok {
			// the stored receipt, read through the library's receipt view: every effect it was issued with
			rb := rawCborBlock(unhex("root"))
			if br, err := blockstore.NewBlockReader(blockstore.WithBlocks([]ipld.Block{rb})); err == nil {
				rc, err := receipt.NewReceipt[ipld.Node, ipld.Node](rb.Link(), br, anyUnionType())
				chk(err == nil, "recorded receipt can no longer be read")
				if err == nil {
					chk(itoa(len(rc.Fx().Fork())) == nf, "a stored receipt reads back with another number of fork effects")
				}
			}
		}
	case "did":
		d, err := did.Parse(p.Key)
		chk(err == nil && d.String() == p.Key && rec["did"] == p.Key && hex.EncodeToString(d.Bytes()) == rec["did-bytes"], "DID string no longer parses to the same identity")
	case "key":
		d, err := did.Parse(rec["did"])
		chk(err == nil && hex.EncodeToString(d.Bytes()) == rec["did-bytes"] && d.String() == rec["did"], "recorded DID no longer round trips")
		if strings.HasPrefix(p.Key, "ed") {
			s, err := edsigner.Parse(rec["signer-string"])
			chk(err == nil && hex.EncodeToString(s.Encode()) == rec["signer"] && s.DID().String() == rec["did"], "recorded Ed25519 key string no longer parses to the same key")
			v, err := edverifier.Parse(rec["did"])
			chk(err == nil && v.Verify([]byte("the quick brown fox"), signatureOf(unhex("signature"))), "recorded signature no longer verifies")
		} else if strings.HasPrefix(p.Key, "rsa") {
			s, err := rsasigner.Parse(rec["signer-string"])
			chk(err == nil && hex.EncodeToString(s.Encode()) == rec["signer"] && s.DID().String() == rec["did"], "recorded RSA key string no longer parses to the same key")
			v, err := rsaverifier.Parse(rec["did"])
			chk(err == nil && v.Verify([]byte("the quick brown fox"), signatureOf(unhex("signature"))), "recorded signature no longer verifies")
		}
	}
	return bad
}

func c18Path() string {
	root := os.Getenv("VERIF_ROOT")
	if root == "" {
		root = ".."
	}
	return filepath.Join(root, "corpus", "c18", "recorded.jsonl")
}

type recordedLine struct {
	Program   Program   `json:"program"`
	Artifacts Artifacts `json:"artifacts"`
}

// recordC18 writes the corpus (run once; the file is committed)
func recordC18(path string) error {
	if err := os.MkdirAll(filepath.Dir(path), 0o755); err != nil {
		return err
	}
	f, err := os.Create(path)
	if err != nil {
		return err
	}
	defer f.Close()
	w := bufio.NewWriter(f)
	for _, p := range c18Programs() {
		a, err := runProgram(p)
		if err != nil {
			return err
		}
		b, _ := json.Marshal(recordedLine{p, a})
		w.Write(b)
		w.WriteByte('\n')
	}
	return w.Flush()
}

func genC18(cfg Config, emit Emit) error {
	f, err := os.Open(c18Path())
	if err != nil {
		return fmt.Errorf("recorded corpus missing: %w", err)
	}
	defer f.Close()
	sc := bufio.NewScanner(f)
	sc.Buffer(make([]byte, 1<<20), 64<<20)
	n := 0
	for sc.Scan() {
		n++
		emit("c18", []string{sc.Text()}, "recorded", true)
		// every recorded root block is also read and re-written by the Lean DAG-CBOR model
		var rl recordedLine
		if json.Unmarshal(sc.Bytes(), &rl) == nil {
			if ar, ok := rl.Artifacts["archive"]; ok && ar != "" && rl.Program.Kind == "token" {
				emit("wire", []string{"recorded", ar}, "recorded-wire/token", true)
			}
			for _, k := range []string{"root", "message-root"} {
				if h, ok := rl.Artifacts[k]; ok && h != "" {
					emit("cborblock", []string{h, "recorded-" + rl.Program.Kind}, "recorded-block/"+rl.Program.Kind, true)
				}
			}
		}
	}
	if n == 0 {
		return fmt.Errorf("recorded corpus is empty")
	}
	// which optional fields a token is written with, and which of two options of a kind holds, against
	// the issuance model
	genIssued(cfg, emit, map[bool]int{false: 80, true: 1600}[cfg.Thorough()])
	return nil
}

func execC18(a []string) Result {
	var rl recordedLine
	if err := json.Unmarshal([]byte(a[0]), &rl); err != nil {
		return Result{Impl: "bad-line:" + err.Error()}
	}
	now, err := runProgram(rl.Program)
	if err != nil {
		return Result{Impl: "program-error:" + err.Error(), Oracle: "fail:C18 program no longer runs: " + err.Error()}
	}
	var drift []string
	for k, v := range rl.Artifacts {
		if now[k] != v {
			drift = append(drift, k)
		}
	}
	for k := range now {
		if _, ok := rl.Artifacts[k]; !ok {
			drift = append(drift, "+"+k)
		}
	}
	sort.Strings(drift)
	bad := readRecorded(rl.Program, rl.Artifacts)
	oracle := "ok"
	impl := "same"
	if len(drift) > 0 {
		impl = "drift:" + strings.Join(drift, ",")
		oracle = "fail:C18 re-issuing from the same key and fields no longer reproduces the recorded " + strings.Join(drift, ", ")
	}
	if len(bad) > 0 {
		impl += "|unreadable"
		oracle = "fail:C18 " + strings.Join(bad, "; ")
	}
	// what the Lean format model can check on the recorded artifacts themselves
	extra := []string{rl.Program.Kind}
	switch rl.Program.Kind {
	case "did":
		extra = append(extra, hexTok([]byte(rl.Artifacts["did"])), rl.Artifacts["did-bytes"])
	case "key":
		extra = append(extra, hexTok([]byte(rl.Artifacts["did"])), rl.Artifacts["did-bytes"], rl.Artifacts["signer"], rl.Artifacts["verifier"], rl.Artifacts["signature"])
		if s, ok := rl.Artifacts["signer-string"]; ok {
			extra = append(extra, hexTok([]byte(s))) // the stored key text, read by the text-form model
		}
	case "token", "world":
		extra = append(extra, rl.Artifacts["archive"])
		if s, ok := rl.Artifacts["format"]; ok {
			extra = append(extra, hexTok([]byte(s))) // the stored delegation text
		}
	}
	return Result{Args: append([]string{a[0]}, extra...), Impl: impl, Oracle: oracle}
}

var _ ipld.Link
