package main

// C17: a block store shared between goroutines. k goroutines run Put / Get / Iterator op lists
// derived from the seed; the harness is built with -race and the case runs in a crash-isolating
// worker with GORACE=halt_on_error=1, so a data race (or "concurrent map writes") kills the worker on
// the offending schedule. Afterwards contents and order are checked against the sequential spec.

import (
	"bytes"
	"fmt"
	"github.com/storacha/go-ucanto/core/car"
	"github.com/storacha/go-ucanto/core/ipld/codec/cbor"
	"github.com/storacha/go-ucanto/core/ipld/hash/sha256"
	mdm "github.com/storacha/go-ucanto/core/message/datamodel"
	"io"
	"math/rand"
	"runtime"
	"strings"
	"sync"

	"github.com/storacha/go-ucanto/core/dag/blockstore"
	"github.com/storacha/go-ucanto/core/delegation"
	"github.com/storacha/go-ucanto/core/ipld"
	"github.com/storacha/go-ucanto/core/ipld/block"
	"github.com/storacha/go-ucanto/ucan"
)

func init() {
	gens["C17"] = genC17
	execs["bsconc"] = execBsConc
	isolatedOps["bsconc"] = true
	execs["bsfresh"] = execBsConc
	isolatedOps["bsfresh"] = true
	freshOps["bsfresh"] = true
}

func genC17(cfg Config, emit Emit) error {
	n := 120
	if cfg.Thorough() {
		n = 4000
	}
	for i := 0; i < n; i++ {
		g := []int{2, 3, 4, 8}[i%4]
		ops := []int{5, 20, 60, 200}[(i/4)%4]
		procs := []int{1, 2, 4, 16}[(i/16)%4]
		via := []string{"store", "attach", "store", "attachseq"}[i%4]
		emit("bsconc", []string{itoa(cfg.Rng.Intn(1 << 30)), itoa(g), itoa(ops), itoa(procs), via}, fmt.Sprintf("g%d/ops%d/procs%d/%s", g, ops, procs, via), true)
	}
	// a delegation shared between goroutines that attach to it, iterate it and archive it, as the first
	// thing their process does with the library
	nf := 8
	if cfg.Thorough() {
		nf = 40
	}
	for i := 0; i < nf; i++ {
		g := []int{2, 4, 8}[i%3]
		procs := []int{2, 4, 16}[(i/3)%3]
		via := []string{"archive", "attach"}[i%4/3]
		emit("bsfresh", []string{itoa(cfg.Rng.Intn(1 << 30)), itoa(g), "20", itoa(procs), via}, fmt.Sprintf("fresh-process/g%d/procs%d/%s", g, procs, via), true)
	}
	for i := 0; i < n/8; i++ {
		emit("bsconc", []string{itoa(cfg.Rng.Intn(1 << 30)), itoa(2 + i%5), itoa([]int{5, 20, 60}[i%3]), itoa([]int{1, 2, 4, 16}[i%4]), "archive"}, "archive", true)
	}
	return nil
}

type bsOp struct {
	kind byte // p g i
	link int
}

func bsPrograms(seed int64, g, nops int) ([][]bsOp, int) {
	r := rand.New(rand.NewSource(seed))
	nlinks := 4 + r.Intn(2*nops+1)
	progs := make([][]bsOp, g)
	for t := range progs {
		for k := 0; k < nops; k++ {
			switch x := r.Intn(10); {
			case x < 6:
				progs[t] = append(progs[t], bsOp{'p', r.Intn(nlinks)})
			case x < 9:
				progs[t] = append(progs[t], bsOp{'g', r.Intn(nlinks)})
			default:
				progs[t] = append(progs[t], bsOp{'i', 0})
			}
		}
	}
	return progs, nlinks
}

// orderConsistent: is `order` the first-put order of some interleaving of the programs?
func orderConsistent(progs [][]bsOp, order []int) bool {
	pc := make([]int, len(progs))
	in := map[int]bool{}
	advance := func() {
		for t := range progs {
			for pc[t] < len(progs[t]) {
				op := progs[t][pc[t]]
				if op.kind == 'p' && !in[op.link] {
					break
				}
				pc[t]++
			}
		}
	}
	for _, l := range order {
		advance()
		ok := false
		for t := range progs {
			if pc[t] < len(progs[t]) && progs[t][pc[t]].kind == 'p' && progs[t][pc[t]].link == l {
				ok = true
			}
		}
		if !ok {
			return false
		}
		in[l] = true
	}
	advance()
	for t := range progs {
		if pc[t] != len(progs[t]) {
			return false
		}
	}
	return true
}

func execBsConc(a []string) (res Result) {
	seed, g, nops, procs, via := int64(atoi(a[0])), atoi(a[1]), atoi(a[2]), atoi(a[3]), a[4]
	defer func() {
		if r := recover(); r != nil {
			res = Result{Impl: "panic", Oracle: fmt.Sprintf("fail:panic: %v", r)}
		}
	}()
	old := runtime.GOMAXPROCS(procs)
	defer runtime.GOMAXPROCS(old)
	progs, nlinks := bsPrograms(seed, g, nops)
	blocks := make([]ipld.Block, nlinks)
	idOf := map[string]int{}
	for i := range blocks {
		if (int(seed)+i)%2 == 0 {
			// a block fresh from the encoder, whose link nobody has asked for yet when the goroutines
			// start sharing it (its identity is taken from a twin encoded from the same value)
			mk := func() ipld.Block {
				m := mdm.AgentMessageModel{UcantoMessage7: &mdm.DataModel{Execute: []ipld.Link{dummyLink(i)}}}
				b, err := block.Encode(&m, mdm.Type(), cbor.Codec, sha256.Hasher)
				if err != nil {
					panic(err)
				}
				return b
			}
			idOf[mk().Link().String()] = i
			blocks[i] = mk()
			continue
		}
		if via == "archive" {
			// archives are read back by a decoder that checks every block against its link
			blocks[i] = rawCborBlock([]byte{0x19, byte(i >> 8), byte(i)})
			idOf[blocks[i].Link().String()] = i
			continue
		}
		blocks[i] = block.NewBlock(dummyLink(i), []byte{byte(i), byte(i >> 8)})
		idOf[blocks[i].Link().String()] = i
	}
	// the store is used either directly or through a delegation's Attach / Blocks (the path the
	// property's anchors name)
	var put func(b ipld.Block) error
	var get func(l ipld.Link) (ipld.Block, bool, error)
	var iterate func() []int
	nOwn := 0
	if via == "attach" || via == "attachseq" || via == "archive" {
		pools()
		d, err := delegation.Delegate(edPool[0], edPool[1], []ucan.Capability[NbMap]{ucan.NewCapability("x/y", edPool[0].DID().String(), NbMap{F: map[string]any{}})})
		if err != nil {
			return Result{Impl: "setup-error:" + err.Error()}
		}
		for range d.Blocks() {
			nOwn++
		}
		put = d.Attach
		get = nil
		// "attachseq": every goroutine ranges over ONE sequence value obtained before they start
		shared := d.Blocks()
		iterate = func() []int {
			var out []int
			if via == "archive" {
				// iteration through the archive writer: the attached blocks in the order the archive lists them
				ab, err := io.ReadAll(d.Archive())
				if err != nil {
					return []int{-1}
				}
				_, blks, err := car.Decode(bytes.NewReader(ab))
				if err != nil {
					return []int{-1}
				}
				for b, err := range blks {
					if err != nil {
						return append(out, -1)
					}
					if id, ok := idOf[b.Link().String()]; ok {
						out = append(out, id)
					}
				}
				return out
			}
			k := 0
			seq := d.Blocks()
			if via == "attachseq" {
				seq = shared
			}
			for b, err := range seq {
				if err != nil {
					out = append(out, -1)
					continue
				}
				k++
				if k <= nOwn {
					continue
				}
				out = append(out, idOf[b.Link().String()])
			}
			return out
		}
	} else {
		bs, err := blockstore.NewBlockStore()
		if err != nil {
			return Result{Impl: "setup-error:" + err.Error()}
		}
		put, get = bs.Put, bs.Get
		iterate = func() []int {
			var out []int
			for b, err := range bs.Iterator() {
				if err != nil {
					out = append(out, -1)
					continue
				}
				out = append(out, idOf[b.Link().String()])
			}
			return out
		}
	}
	var wg sync.WaitGroup
	start := make(chan struct{})
	var bad []string
	var bmu sync.Mutex
	for t := range progs {
		wg.Add(1)
		go func(t int) {
			defer wg.Done()
			<-start
			for _, op := range progs[t] {
				switch op.kind {
				case 'p':
					if err := put(blocks[op.link]); err != nil {
						bmu.Lock()
						bad = append(bad, "put error: "+err.Error())
						bmu.Unlock()
					}
				case 'g':
					if get != nil {
						b, ok, err := get(blocks[op.link].Link())
						if err != nil || (ok && b.Link().String() != blocks[op.link].Link().String()) {
							bmu.Lock()
							bad = append(bad, "get returned a wrong block")
							bmu.Unlock()
						}
					}
				default:
					seen := map[int]bool{}
					for _, id := range iterate() {
						if id < 0 || seen[id] {
							bmu.Lock()
							bad = append(bad, "iteration during concurrent use yields an error or a duplicate")
							bmu.Unlock()
							break
						}
						seen[id] = true
					}
				}
			}
		}(t)
	}
	close(start)
	wg.Wait()
	order := iterate()
	putSet := map[int]bool{}
	for _, p := range progs {
		for _, op := range p {
			if op.kind == 'p' {
				putSet[op.link] = true
			}
		}
	}
	seen := map[int]bool{}
	for _, id := range order {
		if id < 0 {
			bad = append(bad, "iteration yields an error")
		} else if seen[id] {
			bad = append(bad, fmt.Sprintf("block %d appears twice in iteration", id))
		} else if !putSet[id] {
			bad = append(bad, fmt.Sprintf("block %d iterated but never put", id))
		}
		seen[id] = true
	}
	for id := range putSet {
		if !seen[id] {
			bad = append(bad, fmt.Sprintf("block %d was put but is not iterated", id))
		}
		if get != nil {
			if _, ok, _ := get(blocks[id].Link()); !ok {
				bad = append(bad, fmt.Sprintf("block %d was put but is not retrievable", id))
			}
		}
	}
	if len(bad) == 0 && !orderConsistent(progs, order) {
		bad = append(bad, "iteration order is not the first-put order of any interleaving of the goroutines' programs")
	}
	if len(bad) > 0 {
		return Result{Impl: "inconsistent", Oracle: "fail:" + strings.Join(bad[:1], "; ")}
	}
	return Result{Impl: fmt.Sprintf("consistent:%d", len(order)), Oracle: "ok"}
}
