package main

import (
	"bytes"
	"encoding/json"
	"fmt"
	"github.com/storacha/go-ucanto/client"
	"github.com/storacha/go-ucanto/core/car"
	"github.com/storacha/go-ucanto/core/delegation"
	"github.com/storacha/go-ucanto/core/receipt"
	"github.com/storacha/go-ucanto/core/result"
	"github.com/storacha/go-ucanto/server"
	"github.com/storacha/go-ucanto/ucan"
	"io"
	"math/rand"
	"strings"
	"sync"

	"github.com/ipfs/go-cid"
	"github.com/ipld/go-ipld-prime/datamodel"
	cidlink "github.com/ipld/go-ipld-prime/linking/cid"
	"github.com/ipld/go-ipld-prime/node/basicnode"
	mh "github.com/multiformats/go-multihash"
	"github.com/storacha/go-ucanto/core/invocation"
	"github.com/storacha/go-ucanto/core/ipld"
	"github.com/storacha/go-ucanto/core/ipld/block"
	"github.com/storacha/go-ucanto/core/ipld/codec/cbor"
	"github.com/storacha/go-ucanto/core/ipld/hash/sha256"
	"github.com/storacha/go-ucanto/core/message"
	"github.com/storacha/go-ucanto/transport/car/request"
	"github.com/storacha/go-ucanto/transport/car/response"
	thttp "github.com/storacha/go-ucanto/transport/http"
	udm "github.com/storacha/go-ucanto/ucan/datamodel/ucan"
)

func init() {
	gens["C11"] = genC11
	execs["req"] = execReq
	execs["reqcraft"] = execReqCraft
	isolatedOps["reqcraft"] = true
	execs["reqmut"] = execReqMut
	isolatedOps["req"] = true
	isolatedOps["reqmut"] = true
}

var malformKinds = []string{
	"iss:empty", "iss:one", "iss:trunc", "iss:big", "iss:garbage", "iss:long", "iss:short1", "iss:prefixonly",
	"aud:empty", "aud:one", "aud:trunc", "aud:big", "aud:long", "aud:prefixonly",
	"sig:empty", "sig:codeonly", "sig:trunc", "sig:big", "sig:zerosize", "sig:nonstandard",
	"att:empty", "att:emptycan", "att:emptywith", "att:nbint", "att:nbbytes", "att:nblist", "att:nbnull", "att:nbdeep", "att:many",
	"prf:dup", "prf:dangling", "prf:many",
	"exp:neg", "exp:zero", "exp:max", "nbf:neg", "nbf:max",
	"v:empty", "v:other", "fct:nested", "nnc:big",
	"block:int", "block:map", "block:trunc",
}

func anyNode(build func(na datamodel.NodeAssembler)) datamodel.Node {
	nb := basicnode.Prototype.Any.NewBuilder()
	build(nb)
	return nb.Build()
}

func rawCborBlock(b []byte) ipld.Block {
	h, _ := mh.Sum(b, mh.SHA2_256, -1)
	return block.NewBlock(cidlink.Link{Cid: cid.NewCidV1(0x71, h)}, b)
}

// malformToken applies the edits to the (already signed) model and encodes it; "block:*" variants
// replace the whole root block.
func malformToken(m *udm.UCANModel, edits []string) (ipld.Block, error) {
	blockVariant := ""
	for _, e := range edits {
		p := strings.SplitN(e, ":", 2)
		if len(p) < 2 {
			continue // "resign" is applied by the caller
		}
		f, v := p[0], p[1]
		switch f {
		case "iss", "aud":
			cur := m.Iss
			if f == "aud" {
				cur = m.Aud
			}
			var nv []byte
			switch v {
			case "empty":
				nv = []byte{}
			case "one":
				nv = []byte{0x01}
			case "trunc":
				nv = cur[:len(cur)/2]
			case "big":
				nv = bytes.Repeat([]byte{0xed}, 2000)
			case "garbage":
				nv = append([]byte{0x9d, 0x1a}, bytes.Repeat([]byte{0xff, 0x00}, 20)...)
			case "long": // a well-formed principal followed by one to three more bytes
				nv = append(append([]byte{}, cur...), []byte{0x01, 0x02, 0x03}[:1+len(cur)%3]...)
			case "short1": // one byte missing at the end
				if len(cur) > 0 {
					nv = cur[:len(cur)-1]
				}
			case "prefixonly": // just the multicodec prefix of the principal kind
				if len(cur) >= 2 {
					nv = cur[:2]
				}
			}
			if f == "iss" {
				m.Iss = nv
			} else {
				m.Aud = nv
			}
		case "sig":
			switch v {
			case "empty":
				m.S = []byte{}
			case "codeonly":
				m.S = []byte{0xed, 0xa1, 0x03}
			case "trunc":
				m.S = m.S[:len(m.S)/2]
			case "big":
				m.S = append(append([]byte{}, m.S...), bytes.Repeat([]byte{7}, 5000)...)
			case "zerosize":
				m.S = []byte{0xed, 0xa1, 0x03, 0x00}
			case "nonstandard":
				m.S = []byte{0x80, 0xa0, 0x03, 0x00}
			}
		case "att":
			switch v {
			case "empty":
				m.Att = []udm.CapabilityModel{}
			case "emptycan":
				if len(m.Att) > 0 {
					m.Att[0].Can = ""
				}
			case "emptywith":
				if len(m.Att) > 0 {
					m.Att[0].With = ""
				}
			case "nbint":
				if len(m.Att) > 0 {
					m.Att[0].Nb = anyNode(func(na datamodel.NodeAssembler) { na.AssignInt(7) })
				}
			case "nbbytes":
				if len(m.Att) > 0 {
					m.Att[0].Nb = anyNode(func(na datamodel.NodeAssembler) { na.AssignBytes([]byte{1, 2, 3}) })
				}
			case "nblist":
				if len(m.Att) > 0 {
					m.Att[0].Nb = anyNode(func(na datamodel.NodeAssembler) {
						la, _ := na.BeginList(1)
						la.AssembleValue().AssignInt(1)
						la.Finish()
					})
				}
			case "nbnull":
				if len(m.Att) > 0 {
					m.Att[0].Nb = anyNode(func(na datamodel.NodeAssembler) { na.AssignNull() })
				}
			case "nbdeep":
				if len(m.Att) > 0 {
					var mk func(d int) datamodel.Node
					mk = func(d int) datamodel.Node {
						return anyNode(func(na datamodel.NodeAssembler) {
							ma, _ := na.BeginMap(1)
							ma.AssembleKey().AssignString("proof")
							if d == 0 {
								ma.AssembleValue().AssignInt(1)
							} else {
								ma.AssembleValue().AssignNode(mk(d - 1))
							}
							ma.Finish()
						})
					}
					m.Att[0].Nb = mk(60)
				}
			case "many":
				if len(m.Att) > 0 {
					for i := 0; i < 200; i++ {
						m.Att = append(m.Att, m.Att[0])
					}
				}
			}
		case "prf":
			switch v {
			case "dup":
				if len(m.Prf) > 0 {
					m.Prf = append(m.Prf, m.Prf...)
				}
			case "dangling":
				m.Prf = append(m.Prf, dummyLink(31337))
			case "many":
				for i := 0; i < 300; i++ {
					m.Prf = append(m.Prf, dummyLink(40000+i))
				}
			}
		case "exp":
			var e int
			switch v {
			case "neg":
				e = -5
			case "zero":
				e = 0
			case "max":
				e = 1 << 62
			}
			m.Exp = &e
		case "nbf":
			e := -5
			if v == "max" {
				e = 1 << 62
			}
			m.Nbf = &e
		case "v":
			if v == "empty" {
				m.V = ""
			} else {
				m.V = "9.9.9-rc1"
			}
		case "fct":
			m.Fct = []udm.FactModel{{Keys: []string{"a"}, Values: map[string]datamodel.Node{"a": anyNode(func(na datamodel.NodeAssembler) {
				la, _ := na.BeginList(2)
				la.AssembleValue().AssignNull()
				la.AssembleValue().AssignBytes(bytes.Repeat([]byte{1}, 100))
				la.Finish()
			})}}}
		case "nnc":
			s := strings.Repeat("n", 4000)
			m.Nnc = &s
		case "block":
			blockVariant = v
		}
	}
	rt, err := block.Encode(m, udm.Type(), cbor.Codec, sha256.Hasher)
	if err != nil {
		return nil, err
	}
	switch blockVariant {
	case "int":
		return rawCborBlock([]byte{0x18, 0x2a}), nil
	case "map":
		return rawCborBlock([]byte{0xa1, 0x61, 0x76, 0x65, 0x30, 0x2e, 0x39, 0x2e, 0x31}), nil // {"v":"0.9.1"}
	case "trunc":
		b := rt.Bytes()
		return rawCborBlock(b[:len(b)/2]), nil
	}
	return rt, nil
}

func genC11(cfg Config, emit Emit) error {
	pools()
	// (i) byte level sites
	emit("didundef", []string{"-"}, "bytes", true)
	nb := 3
	if cfg.Thorough() {
		nb = 5
	}
	for _, b := range enumUpTo(byteAlpha, nb) {
		emit("diddecode", []string{hexTok(b)}, "bytes", len(b) > 0)
		emit("sigframe", []string{hexTok(b)}, "bytes", len(b) > 0)
	}
	// (i') arbitrary header values on a well-formed request (the C20 fixture's handler and model)
	pieces := []string{";", "q", "=", ",", " ", "*/*", carCT, "\t", "0", "/", "*", "0.5", "text/html", "\x00", "é"}
	nh := 400
	if cfg.Thorough() {
		nh = 8000
	}
	for _, e := range c20Elems {
		emit("handle", []string{hexTok([]byte(carCT)), hexTok([]byte(e)), "valid"}, "headers/accept", true)
		emit("handle", []string{hexTok([]byte(e)), hexTok([]byte(carCT)), "valid"}, "headers/content-type", true)
	}
	for i := 0; i < nh; i++ {
		var sb strings.Builder
		for k := 1 + cfg.Rng.Intn(5); k > 0; k-- {
			sb.WriteString(pieces[cfg.Rng.Intn(len(pieces))])
		}
		if i%4 == 0 {
			emit("handle", []string{hexTok([]byte(sb.String())), hexTok([]byte(carCT)), "valid"}, "headers/content-type", true)
		} else {
			emit("handle", []string{hexTok([]byte(carCT)), hexTok([]byte(sb.String())), []string{"valid", "garbage"}[i%2]}, "headers/accept", true)
		}
	}
	genC11Crafted(cfg, emit)
	// (ii) structured malformation at every position, singly and in pairs
	n := 1500
	if cfg.Thorough() {
		n = 40000
	}
	o := genOpts{maxDepth: 4, sessions: true, sessionPct: 40, caveats: true, caveatPct: 20, kinds: []string{"none", "none", "decoys", "permute", "dup"}}
	i := 0
	genWorlds(cfg, n, o, func(w *AWorld, class string) {
		r := cfg.Rng
		w.Services = []ASvc{{Can: w.Desc.Can, Result: "ok"}}
		// a clean, self-issued second invocation travels in the same request
		clean := AToken{ID: len(w.Tokens), Iss: 1, Aud: w.Authority, Signer: 1, Intact: true, AlgOk: true,
			Caps: []ACap{{Can: w.Desc.Can, With: "@1", Nb: [][2]int{}}}, Nonce: "clean"}
		w.Tokens = append(w.Tokens, clean)
		w.Invs = []int{w.Inv, clean.ID}
		if r.Intn(2) == 0 {
			w.Invs = []int{clean.ID, w.Inv}
		}
		pos := r.Intn(len(w.Tokens) - 1)
		k1 := malformKinds[i%len(malformKinds)]
		i++
		w.Tokens[pos].Malform = []string{k1}
		cls := "single/" + k1
		if r.Intn(3) == 0 {
			k2 := malformKinds[r.Intn(len(malformKinds))]
			if r.Intn(2) == 0 {
				w.Tokens[pos].Malform = append(w.Tokens[pos].Malform, k2)
			} else {
				p2 := r.Intn(len(w.Tokens) - 1)
				w.Tokens[p2].Malform = append(w.Tokens[p2].Malform, k2)
			}
			cls = "pair/" + k1 + "+" + k2
		}
		// half of the time the issuer itself wrote the malformed token, so its signature is good
		if r.Intn(2) == 0 {
			for ti := range w.Tokens {
				ok := len(w.Tokens[ti].Malform) > 0
				for _, e := range w.Tokens[ti].Malform {
					if strings.HasPrefix(e, "iss:") || strings.HasPrefix(e, "sig:") || strings.HasPrefix(e, "block:") {
						ok = false
					}
				}
				if ok {
					w.Tokens[ti].Malform = append(w.Tokens[ti].Malform, "resign")
					cls += "+signed"
				}
			}
		}
		where := "proof"
		if pos == w.Inv {
			where = "invocation"
		}
		emit("req", []string{mustJSON(w)}, where+"/"+cls, true)
	})
	// adversarial structures
	for k := 0; k < 12; k++ {
		emit("req", []string{mustJSON(selfAttestWorld(k))}, "special/self-attest", true)
		emit("req", []string{mustJSON(zeroCapSiblingWorld(k))}, "special/zero-cap-sibling", true)
	}
	// (iii) raw byte mutation of valid requests
	nm := 1500
	if cfg.Thorough() {
		nm = 60000
	}
	genWorlds(cfg, nm, genOpts{maxDepth: 3, sessions: true, kinds: []string{"none"}}, func(w *AWorld, class string) {
		w.Services = []ASvc{{Can: w.Desc.Can, Result: "ok"}}
		w.Invs = []int{w.Inv}
		emit("reqmut", []string{mustJSON(w), itoa(cfg.Rng.Intn(1 << 30)), itoa(1 + cfg.Rng.Intn(4))}, "mutate", true)
	})
	return nil
}

// a proof issued by a did:web principal whose only capability is ucan/attest: on the pinned tree it is
// offered to itself as candidate attestation
func selfAttestWorld(k int) *AWorld {
	w := &AWorld{Now: nowUnix(), CanIssue: "self", Revoked: []int{}, Resolver: []int{}, ResolveKey: [][2]int{}, Desc: ADesc{Can: "store/add", With: "any", Derives: "default"}}
	for i := 0; i < 3; i++ {
		w.Principals = append(w.Principals, APrincipal{Kind: "ed", Parse: true, Wraps: -1})
	}
	w.Principals = append(w.Principals, APrincipal{Kind: "web", Parse: true, Wraps: -1})
	w.Authority, w.AuthorityKey = 0, 0
	att := AToken{ID: 0, Iss: 3, Aud: 1, Signer: -1, Intact: true, AlgOk: false, Caps: []ACap{{Can: "ucan/attest", With: "@0", Nb: [][2]int{{0, 900 + k}}}}}
	inv := AToken{ID: 1, Iss: 1, Aud: 0, Signer: 1, Intact: true, AlgOk: true, Prfs: []int{0}, Inline: []bool{true}, Caps: []ACap{{Can: "store/add", With: "@2", Nb: [][2]int{}}}}
	if k%2 == 1 {
		// two of them next to each other
		att2 := att
		att2.ID, att2.Nonce = 1, "second"
		inv.ID, inv.Prfs, inv.Inline = 2, []int{0, 1}, []bool{true, true}
		w.Tokens = []AToken{att, att2, inv}
		w.Inv = 2
	} else {
		w.Tokens = []AToken{att, inv}
		w.Inv = 1
	}
	w.Invs = []int{w.Inv}
	w.Services = []ASvc{{Can: "store/add", Result: "ok"}}
	return w
}

// a proof without capabilities next to a proof issued by a did:web principal
func zeroCapSiblingWorld(k int) *AWorld {
	w := selfAttestWorld(0)
	w.Tokens[0].Caps = []ACap{{Can: "store/add", With: "@2", Nb: [][2]int{}}}
	empty := AToken{ID: 1, Iss: 2, Aud: 1, Signer: 2, Intact: true, AlgOk: true, Caps: []ACap{}, Nonce: fmt.Sprintf("z%d", k)}
	inv := w.Tokens[1]
	inv.ID, inv.Prfs, inv.Inline = 2, []int{0, 1}, []bool{true, true}
	if k%2 == 1 {
		inv.Prfs = []int{1, 0}
	}
	w.Tokens = []AToken{w.Tokens[0], empty, inv}
	w.Inv, w.Invs = 2, []int{2}
	return w
}

func reqOutcome(cw *CWorld, body []byte, hdr map[string]string) (string, string) {
	log := &runLog{}
	var calls []handlerCall
	var mu sync.Mutex
	srv, err := cw.buildServer(log, &calls, &mu, nil)
	if err != nil {
		return "server-error:" + err.Error(), ""
	}
	h := map[string][]string{}
	for k, v := range hdr {
		h[k] = []string{v}
	}
	// the same request at a deployment of the same methods that configures nothing else (every option at
	// its default): whatever it answers, it answers
	if dsrv, derr := server.NewServer(cw.P[cw.A.Authority].signer, append(cw.methodOptions(&runLog{}, &[]handlerCall{}, &sync.Mutex{}, nil),
		server.WithErrorHandler(func(server.HandlerExecutionError[any]) {}))...); derr == nil {
		if dresp, derr := dsrv.Request(thttp.NewHTTPRequest(bytes.NewReader(body), h)); derr == nil && dresp.Body() != nil {
			io.Copy(io.Discard, dresp.Body())
		}
	}
	resp, err := srv.Request(thttp.NewHTTPRequest(bytes.NewReader(body), h))
	if err != nil {
		return "error", "ok"
	}
	if resp.Status() != 200 {
		io.Copy(io.Discard, resp.Body())
		return fmt.Sprintf("status:%d", resp.Status()), "ok"
	}
	// a response message was produced: every invocation of the request must have its receipt
	reqMsg, derr := request.Decode(thttp.NewHTTPRequest(bytes.NewReader(body), h))
	out, rerr := response.Decode(resp)
	if rerr != nil {
		return "status:200|undecodable-response", "fail:the 200 response is not a decodable agent message: " + rerr.Error()
	}
	if derr != nil {
		return "status:200|request-undecodable", "fail:200 for a request the codec cannot decode"
	}
	have := 0
	invs := reqMsg.Invocations()
	for _, l := range invs {
		if _, ok := out.Get(l); ok {
			have++
		}
	}
	oracle := "ok"
	if have != len(invs) {
		oracle = fmt.Sprintf("fail:response produced but only %d of %d invocations of the request have a receipt", have, len(invs))
	}
	return fmt.Sprintf("status:200|receipts=%d/%d", have, len(invs)), oracle
}

func encodeRequest(cw *CWorld) ([]byte, error) {
	var invs []invocation.Invocation
	for _, id := range cw.A.Invs {
		invs = append(invs, cw.D[id])
	}
	msg, err := message.Build(invs, nil)
	if err != nil {
		return nil, err
	}
	req, err := request.Encode(msg)
	if err != nil {
		return nil, err
	}
	return io.ReadAll(req.Body())
}

var carHdr = map[string]string{"Content-Type": carCT, "Accept": carCT}

func execReq(a []string) (res Result) {
	var w AWorld
	if err := json.Unmarshal([]byte(a[0]), &w); err != nil {
		return Result{Impl: "bad-world:" + err.Error()}
	}
	defer func() {
		if r := recover(); r != nil {
			res = Result{Impl: "panic", Oracle: fmt.Sprintf("fail:panic: %v at %s", r, panicSite())}
		}
	}()
	cw, err := Concretise(&w)
	if err != nil {
		return Result{Impl: "skip:" + err.Error(), Oracle: "ok"}
	}
	body, err := encodeRequest(cw)
	if err != nil {
		return Result{Impl: "skip:" + err.Error(), Oracle: "ok"}
	}
	impl, oracle := reqOutcome(cw, body, carHdr)
	return Result{Impl: impl, Oracle: oracle}
}

func execReqMut(a []string) (res Result) {
	var w AWorld
	if err := json.Unmarshal([]byte(a[0]), &w); err != nil {
		return Result{Impl: "bad-world:" + err.Error()}
	}
	defer func() {
		if r := recover(); r != nil {
			res = Result{Impl: "panic", Oracle: fmt.Sprintf("fail:panic: %v at %s", r, panicSite())}
		}
	}()
	cw, err := Concretise(&w)
	if err != nil {
		return Result{Impl: "skip:" + err.Error(), Oracle: "ok"}
	}
	body, err := encodeRequest(cw)
	if err != nil {
		return Result{Impl: "skip:" + err.Error(), Oracle: "ok"}
	}
	r := rand.New(rand.NewSource(int64(atoi(a[1]))))
	for k := atoi(a[2]); k > 0 && len(body) > 0; k-- {
		i := r.Intn(len(body))
		switch r.Intn(5) {
		case 0:
			body[i] ^= byte(1 << r.Intn(8))
		case 1:
			body[i] = byte(r.Intn(256))
		case 2:
			body = append(body[:i], body[i+1:]...)
		case 3:
			body = append(body[:i], append([]byte{byte(r.Intn(256))}, body[i:]...)...)
		default:
			body = body[:i]
		}
	}
	impl, oracle := reqOutcome(cw, body, carHdr)
	return Result{Impl: impl, Oracle: oracle}
}

// ---- crafted requests: resources at the boundary of what the library's DID reader accepts, and a token
// filed under an identity CID that it cites itself -------------------------------------------------

func genC11Crafted(cfg Config, emit Emit) {
	pools()
	valid := edPool[1].DID().String()
	withs := []string{"", "did", "did:", "did:key", "did:key:", "did:key:z", "did:key:m", "did:key:z6", "did:web:", "did:web:x", "did::", "did:key:" + strings.Repeat("1", 80),
		valid[:len(valid)-1], valid[:12], valid + "x", strings.ToUpper(valid), "did:key:z" + valid[9:] + "\x00", "did:KEY:" + valid[8:], "ucan:*", "did:key:\u65e5\u672c"}
	for _, can := range []string{"lib/did", "lib/key"} {
		for _, w := range withs {
			emit("reqcraft", []string{"with", can, hexTok([]byte(w))}, "crafted/with", true)
		}
	}
	for k := 0; k < 6; k++ {
		emit("reqcraft", []string{"identity-self", itoa(k), "-"}, "crafted/identity-self", true)
	}
	// a union of caveat readers: the first member that accepts wins, whatever was read before
	emit("reqcraft", []string{"or", "-", "-"}, "crafted/or", true)
	// a resource reader restricted to one URI scheme, given resources shorter than / other than the scheme
	for _, w := range []string{"x", "", "h", "https", "https:", "https://a.example/x", "http://a.example/x", "HTTPS://a.example", "did:key:z6Mk", ":", "%", "https://%zz"} {
		emit("reqcraft", []string{"with", "lib/uri", hexTok([]byte(w))}, "crafted/uri-with", true)
	}
	genConv(emit)
	// a well-formed request followed by a damaged, cut or empty trailing section
	for k := 0; k < 10; k++ {
		emit("reqcraft", []string{"trailing", itoa(k), "-"}, "crafted/trailing-section", true)
	}
	// a method that reports the validator's typed errors itself: expired / not yet valid / fine invocations
	for k := 0; k < 6; k++ {
		emit("reqcraft", []string{"precheck", itoa(k), "-"}, "crafted/precheck", true)
	}
	// caveats of every IPLD kind and shape at a capability whose caveats the library's struct reader binds
	nbs := []TV{tvInt(7), tvStr("x"), tvBytes([]byte{1, 2}), tvBool(true), tvList(nil), tvList([]TV{tvInt(1)}), tvMap(nil),
		tvMap([]KV{{"size", tvInt(3)}}), tvMap([]KV{{"size", tvStr("3")}}), tvMap([]KV{{"unknown", tvInt(1)}}), tvMap([]KV{{"size", tvInt(3)}, {"zz", tvList([]TV{tvMap(nil)})}}),
		tvMap([]KV{{"label", tvMap([]KV{{"deep", tvList([]TV{tvBytes(nil)})}})}}), tvLink(cidPool[0]), tvMap([]KV{{"", tvInt(1)}})}
	for _, nb := range nbs {
		emit("reqcraft", []string{"nb", "lib/struct", mustJSON(nb)}, "crafted/nb-"+nb.T, true)
	}
}

func execReqCraft(a []string) (res Result) {
	defer func() {
		if r := recover(); r != nil {
			res = Result{Impl: "panic", Oracle: fmt.Sprintf("fail:panic: %v at %s", r, panicSite())}
		}
	}()
	pools()
	// a plain world provides the server (its own method plus the library-reader methods)
	w := &AWorld{CanIssue: "self", Revoked: []int{}, Resolver: []int{}, ResolveKey: [][2]int{}, Desc: ADesc{Can: "store/add", With: "any", Derives: "default"},
		Principals: []APrincipal{{Kind: "ed", Parse: true, Wraps: -1}, {Kind: "ed", Parse: true, Wraps: -1}},
		Tokens:     []AToken{{ID: 0, Iss: 1, Aud: 0, Signer: 1, Intact: true, AlgOk: true, Caps: []ACap{{Can: "store/add", With: "@1", Nb: [][2]int{}}}}},
		Inv:        0, Invs: []int{0}, Services: []ASvc{{Can: "store/add", Result: "ok"}}}
	cw, err := Concretise(w)
	if err != nil {
		return Result{Impl: "skip:" + err.Error(), Oracle: "ok"}
	}
	svc, alice := cw.P[0].signer, cw.P[1].signer
	var body []byte
	switch a[0] {
	case "with":
		inv, err := invocation.Invoke(alice, svc, ucan.NewCapability(a[1], string(unhexTok(a[2])), NbMap{F: map[string]any{}}), delegation.WithNoExpiration())
		if err != nil {
			return Result{Impl: "skip:" + err.Error(), Oracle: "ok"}
		}
		msg, err := message.Build([]invocation.Invocation{inv, cw.D[0]}, nil)
		if err != nil {
			return Result{Impl: "skip:" + err.Error(), Oracle: "ok"}
		}
		body, _ = io.ReadAll(car.Encode([]ipld.Link{msg.Root().Link()}, msg.Blocks()))
	case "or":
		// two requests to one server: first caveats only the lenient member accepts (a list), then proper
		// ones; the handler must be handed the proper ones as the strict member reads them
		log := &runLog{}
		var calls []handlerCall
		var mu sync.Mutex
		srv, err := cw.buildServer(log, &calls, &mu, nil)
		if err != nil {
			return Result{Impl: "server-error"}
		}
		send := func(nb ucan.CaveatBuilder) {
			inv, err := invocation.Invoke(alice, svc, ucan.NewCapability("lib/or", alice.DID().String(), nb), delegation.WithNoExpiration())
			if err != nil {
				return
			}
			if conn, err := client.NewConnection(svc.DID(), srv); err == nil {
				client.Execute([]invocation.Invocation{inv}, conn)
			}
		}
		send(tvBuilder{tvList([]TV{tvInt(1)})})
		send(NbMap{F: map[string]any{"f1": int64(42)}})
		mu.Lock()
		defer mu.Unlock()
		var got []string
		for _, c := range calls {
			got = append(got, callStr(c))
		}
		impl := strings.Join(got, ";")
		oracle := "ok"
		if len(calls) != 2 || len(calls[0].Nb) != 1 || calls[0].Nb[0] != [2]int{9, 9} || len(calls[1].Nb) != 1 || calls[1].Nb[0] != [2]int{1, 42} {
			oracle = "fail:a union of caveat readers handed the handler " + impl + " (expected the lenient reading {f9:9} for the list, then the strict reading {f1:42})"
		}
		return Result{Impl: "status:200|or", Oracle: oracle, Extra: map[string]any{"calls": impl}}
	case "trailing":
		k := atoi(a[1])
		inv, err := invocation.Invoke(alice, svc, ucan.NewCapability("store/add", alice.DID().String(), NbMap{F: map[string]any{}}), delegation.WithNoExpiration(), delegation.WithNonce("trailing"))
		if err != nil {
			return Result{Impl: "skip:" + err.Error(), Oracle: "ok"}
		}
		msg, err := message.Build([]invocation.Invocation{inv}, nil)
		if err != nil {
			return Result{Impl: "skip:" + err.Error(), Oracle: "ok"}
		}
		body, _ = io.ReadAll(car.Encode([]ipld.Link{msg.Root().Link()}, msg.Blocks()))
		junk := rawCborBlock([]byte{0x18, 0x2a})
		cb := junk.Link().(cidlink.Link).Cid.Bytes()
		section := appendUvarint(nil, uint64(len(cb)+len(junk.Bytes())))
		section = append(append(section, cb...), junk.Bytes()...)
		switch k {
		case 0:
			body = append(body, section[:len(section)-1]...)
		case 1:
			body = append(body, section[:len(section)/2]...)
		case 2:
			body = append(body, section[:1]...)
		case 3:
			bad := append([]byte{}, section...)
			bad[len(bad)-1] ^= 1
			body = append(body, bad...)
		case 4:
			body = append(body, 0x05, 0xff, 0xff, 0xff, 0xff, 0xff)
		case 5:
			body = append(body, 0x00)
		case 6:
			body = append(append(body, 0x00), section...)
		case 7:
			body = append(body, 0xff, 0xff, 0xff, 0xff, 0x0f)
		case 8:
			body = append(append(body, section...), section[:3]...)
		case 9:
			body = append(body, section[:len(section)-len(junk.Bytes())]...)
		}
	case "precheck":
		k := atoi(a[1])
		mk := func(o ...delegation.Option) invocation.Invocation {
			inv, _ := invocation.Invoke(alice, svc, ucan.NewCapability("lib/precheck", alice.DID().String(), NbMap{F: map[string]any{}}), o...)
			return inv
		}
		now := int(ucan.Now())
		all := []invocation.Invocation{mk(delegation.WithNoExpiration()), mk(delegation.WithExpiration(now - 60)), mk(delegation.WithNoExpiration(), delegation.WithNotBefore(now+600)), mk(delegation.WithExpiration(now + 600))}
		var invs []invocation.Invocation
		for i, inv := range all {
			if inv != nil && (k == 0 || (k+i)%2 == 0 || i == k-1) {
				invs = append(invs, inv)
			}
		}
		msg, err := message.Build(invs, nil)
		if err != nil {
			return Result{Impl: "skip:" + err.Error(), Oracle: "ok"}
		}
		body, _ = io.ReadAll(car.Encode([]ipld.Link{msg.Root().Link()}, msg.Blocks()))
	case "conv":
		// lib/conv invoked by its owner, or by bob under alice's delegation (with or without the caveat in
		// the delegation): a complete, valid chain, so the receipt must be the handler's ok
		k := atoi(a[1])
		mallory := edPool[7].DID().String()
		nbOf := func(on bool) NbMap {
			if on {
				return NbMap{F: map[string]any{"consumer": mallory}}
			}
			return NbMap{F: map[string]any{}}
		}
		var inv invocation.Invocation
		var err error
		if k == 0 {
			inv, err = invocation.Invoke(alice, svc, ucan.NewCapability("lib/conv", alice.DID().String(), nbOf(true)), delegation.WithNoExpiration())
		} else {
			bob := edPool[5]
			var prf delegation.Delegation
			prf, err = delegation.Delegate(alice, bob, []ucan.Capability[NbMap]{ucan.NewCapability("lib/conv", alice.DID().String(), nbOf(k == 2))}, delegation.WithNoExpiration())
			if err == nil {
				inv, err = invocation.Invoke(bob, svc, ucan.NewCapability("lib/conv", alice.DID().String(), nbOf(k != 3)), delegation.WithNoExpiration(), delegation.WithProof(delegation.FromDelegation(prf)))
			}
		}
		if err != nil {
			return Result{Impl: "skip:" + err.Error(), Oracle: "ok"}
		}
		log := &runLog{}
		var calls []handlerCall
		var mu sync.Mutex
		srv, err := cw.buildServer(log, &calls, &mu, nil)
		if err != nil {
			return Result{Impl: "server-error"}
		}
		conn, err := client.NewConnection(svc.DID(), srv)
		if err != nil {
			return Result{Impl: "skip:" + err.Error(), Oracle: "ok"}
		}
		resp, err := client.Execute([]invocation.Invocation{inv}, conn)
		if err != nil {
			return Result{Impl: "status:200|conv", Oracle: "fail:a valid invocation of a capability with converter-bound caveats is not answered: " + err.Error()}
		}
		st := "missing"
		if rl, ok := resp.Get(inv.Link()); ok {
			rdr, _ := receipt.NewReceiptReader[ipld.Node, ipld.Node](anyResultSchema)
			if rc, err := rdr.Read(rl, resp.Blocks()); err == nil {
				o, x := result.Unwrap(rc.Out())
				if o != nil {
					st = "ok"
				} else {
					st = "error:" + failureName(x)
				}
			}
		}
		oracle := "ok"
		if st != "ok" {
			oracle = "fail:a complete valid chain for a capability whose caveats bind a DID through a converter option is answered with " + st
		}
		return Result{Impl: "status:200|conv", Oracle: oracle, Extra: map[string]any{"receipt": st}}
	case "nb":
		var tv TV
		json.Unmarshal([]byte(a[2]), &tv)
		for pos := 0; pos < 2; pos++ { // as the invocation's own caveats, and in a proof it cites
			var inv invocation.Invocation
			var err error
			if pos == 0 {
				inv, err = invocation.Invoke(alice, svc, ucan.NewCapability(a[1], alice.DID().String(), tvBuilder{tv}), delegation.WithNoExpiration())
			} else {
				bob := edPool[5]
				var prf delegation.Delegation
				prf, err = delegation.Delegate(alice, bob, []ucan.Capability[tvBuilder]{ucan.NewCapability(a[1], alice.DID().String(), tvBuilder{tv})}, delegation.WithNoExpiration())
				if err == nil {
					inv, err = invocation.Invoke(bob, svc, ucan.NewCapability(a[1], alice.DID().String(), NbMap{F: map[string]any{}}), delegation.WithNoExpiration(), delegation.WithProof(delegation.FromDelegation(prf)))
				}
			}
			if err != nil {
				continue
			}
			msg, err := message.Build([]invocation.Invocation{inv, cw.D[0]}, nil)
			if err != nil {
				continue
			}
			b, _ := io.ReadAll(car.Encode([]ipld.Link{msg.Root().Link()}, msg.Blocks()))
			impl, oracle := reqOutcome(cw, b, carHdr)
			if pos == 1 || strings.HasPrefix(oracle, "fail") {
				return Result{Impl: impl, Oracle: oracle}
			}
		}
		return Result{Impl: "skip:nothing", Oracle: "ok"}
	case "identity-self":
		// token T cites the identity CID I of other bytes; the archive files T's bytes under I
		k := atoi(a[1])
		h, _ := mh.Sum([]byte{byte(k), 1, 2}, mh.IDENTITY, -1)
		idl := cidlink.Link{Cid: cid.NewCidV1(0x71, h)}
		aud := []ucan.Principal{alice, svc}[k%2]
		t, err := invocation.Invoke(alice, aud, ucan.NewCapability("store/add", edPool[2+k].DID().String(), NbMap{F: map[string]any{}}), delegation.WithNoExpiration(), delegation.WithProof(delegation.FromLink(idl)))
		if err != nil {
			return Result{Impl: "skip:" + err.Error(), Oracle: "ok"}
		}
		filed := block.NewBlock(idl, t.Root().Bytes())
		execute := []ipld.Link{idl}
		if k >= 2 { // or: the genuine invocation is sent, and its proof link resolves to the token itself
			execute = []ipld.Link{t.Link()}
		}
		rt := encodeMsgRoot(execute, nil)
		body = carOf([]ipld.Link{rt.Link()}, []ipld.Block{rt, filed, t.Root(), cw.D[0].Root()})
	}
	impl, oracle := reqOutcome(cw, body, carHdr)
	return Result{Impl: impl, Oracle: oracle}
}

func genConv(emit Emit) {
	for k := 0; k < 4; k++ {
		emit("reqcraft", []string{"conv", itoa(k), "-"}, "crafted/conv", true)
	}
}
