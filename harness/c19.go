package main

// C19: validation work is bounded by the size of the proof set. A counting verifier handed out by
// the principal parser (and as the authority) observes every call of Verifier.Verify.

import (
	"encoding/json"
	"fmt"
	"strings"
	"sync"
	"sync/atomic"
	"time"

	"github.com/storacha/go-ucanto/did"
	"github.com/storacha/go-ucanto/principal"
	"github.com/storacha/go-ucanto/ucan/crypto/signature"
	"github.com/storacha/go-ucanto/validator"
)

func init() {
	gens["C19"] = genC19
	execs["cost"] = execCost
	execs["servetime"] = execServeTime
	execs["servecost"] = execServeCost
	isolatedOps["servecost"] = true
	isolatedOps["servetime"] = true
}

type countingVerifier struct {
	principal.Verifier
	n *int64
}

func (c countingVerifier) Verify(msg []byte, sig signature.Signature) bool {
	atomic.AddInt64(c.n, 1)
	return c.Verifier.Verify(msg, sig)
}

func (c countingVerifier) DID() did.DID { return c.Verifier.DID() }

// shape worlds ------------------------------------------------------------------------------------

func shapeBase(np int) *AWorld {
	w := &AWorld{Now: nowUnix(), CanIssue: "self", Revoked: []int{}, Resolver: []int{}, ResolveKey: [][2]int{}, Desc: ADesc{Can: "store/add", With: "any", Derives: "default"}}
	for i := 0; i < np; i++ {
		w.Principals = append(w.Principals, APrincipal{Kind: "ed", Parse: true, Wraps: -1})
	}
	w.Authority, w.AuthorityKey = 0, 0
	return w
}

// layered: `width` tokens per layer, `depth` layers of delegations below the invocation; every token of
// a layer cites every token of the next. Layer k is issued by principal k+2 to principal k+1; the
// invocation is issued by principal 1. The deepest layer is issued by the owner (succeeding roots) or
// by somebody else (failing roots).
func layeredWorld(width, depth int, failing bool, caps int) *AWorld {
	w := shapeBase(depth + 4)
	owner := depth + 1
	res := fmt.Sprintf("@%d", owner)
	if failing {
		res = fmt.Sprintf("@%d", depth+3) // nobody in the chain owns it
	}
	var prev []int // ids of the layer below (deeper)
	for layer := depth; layer >= 1; layer-- {
		var cur []int
		for k := 0; k < width; k++ {
			t := AToken{ID: len(w.Tokens), Iss: layer + 1, Aud: layer, Signer: layer + 1, Intact: true, AlgOk: true, Nonce: fmt.Sprintf("L%dK%d", layer, k)}
			for c := 0; c < caps; c++ {
				t.Caps = append(t.Caps, ACap{Can: []string{"store/add", "store/*", "*"}[c%3], With: res, Nb: [][2]int{}})
			}
			t.Prfs = append([]int(nil), prev...)
			t.Inline = make([]bool, len(prev))
			for i := range t.Inline {
				t.Inline[i] = true
			}
			w.Tokens = append(w.Tokens, t)
			cur = append(cur, t.ID)
		}
		prev = cur
	}
	inv := AToken{ID: len(w.Tokens), Iss: 1, Aud: 0, Signer: 1, Intact: true, AlgOk: true, Caps: []ACap{{Can: "store/add", With: res, Nb: [][2]int{}}}, Prfs: prev}
	inv.Inline = make([]bool, len(prev))
	for i := range inv.Inline {
		inv.Inline[i] = true
	}
	w.Tokens = append(w.Tokens, inv)
	w.Inv = inv.ID
	return w
}

// tree: every token cites `branch` fresh proofs (no sharing)
func treeWorld(branch, depth int, failing bool) *AWorld {
	w := shapeBase(depth + 4)
	owner := depth + 1
	res := fmt.Sprintf("@%d", owner)
	if failing {
		res = fmt.Sprintf("@%d", depth+3)
	}
	var build func(layer int) int
	ctr := 0
	build = func(layer int) int {
		var prfs []int
		if layer < depth {
			for b := 0; b < branch; b++ {
				prfs = append(prfs, build(layer+1))
			}
		}
		ctr++
		t := AToken{ID: len(w.Tokens), Iss: layer + 1, Aud: layer, Signer: layer + 1, Intact: true, AlgOk: true, Nonce: fmt.Sprintf("T%d", ctr),
			Caps: []ACap{{Can: "store/add", With: res, Nb: [][2]int{}}}, Prfs: prfs}
		t.Inline = make([]bool, len(prfs))
		for i := range t.Inline {
			t.Inline[i] = true
		}
		w.Tokens = append(w.Tokens, t)
		return t.ID
	}
	var top []int
	for b := 0; b < branch; b++ {
		top = append(top, build(1))
	}
	inv := AToken{ID: len(w.Tokens), Iss: 1, Aud: 0, Signer: 1, Intact: true, AlgOk: true, Caps: []ACap{{Can: "store/add", With: res, Nb: [][2]int{}}}, Prfs: top}
	inv.Inline = make([]bool, len(top))
	for i := range inv.Inline {
		inv.Inline[i] = true
	}
	w.Tokens = append(w.Tokens, inv)
	w.Inv = inv.ID
	return w
}

// sessionWildWorld: an account (no key) hands the agent k wildcard delegations, each attested by the
// authority; the invocation cites all 2k proofs. Session lookups must only look at attestations.
func sessionWildWorld(k int, wild string) *AWorld {
	w := shapeBase(3)
	w.Principals = append(w.Principals, APrincipal{Kind: "mailto", Parse: true, Wraps: -1})
	acct := 3
	res := fmt.Sprintf("@%d", acct)
	var prfs []int
	for i := 0; i < k; i++ {
		d := AToken{ID: len(w.Tokens), Iss: acct, Aud: 1, Signer: -1, Intact: true, AlgOk: false, Nonce: fmt.Sprintf("login%d", i),
			Caps: []ACap{{Can: wild, With: res, Nb: [][2]int{}}}}
		w.Tokens = append(w.Tokens, d)
		a := AToken{ID: len(w.Tokens), Iss: 0, Aud: 1, Signer: 0, Intact: true, AlgOk: true,
			Caps: []ACap{{Can: "ucan/attest", With: "@0", Nb: [][2]int{{0, d.ID}}}}}
		w.Tokens = append(w.Tokens, a)
		prfs = append(prfs, d.ID, a.ID)
	}
	inv := AToken{ID: len(w.Tokens), Iss: 1, Aud: 0, Signer: 1, Intact: true, AlgOk: true, Caps: []ACap{{Can: "store/add", With: res, Nb: [][2]int{}}}, Prfs: prfs}
	inv.Inline = make([]bool, len(prfs))
	for i := range inv.Inline {
		inv.Inline[i] = true
	}
	w.Tokens = append(w.Tokens, inv)
	w.Inv = inv.ID
	return w
}

func genC19(cfg Config, emit Emit) error {
	for k := 1; k <= 6; k++ {
		for _, wild := range []string{"*", "ucan/*", "store/*", "store/add"} {
			emit("cost", []string{mustJSON(sessionWildWorld(k, wild))}, "session-wild", true)
		}
	}
	// a few kilobytes of request must not keep a server busy: chains of up to 40 delegations, valid and
	// failing, through the server (which renders the failure into the receipt), each within seconds
	for _, d := range []int{8, 16, 24, 32, 40} {
		for _, failing := range []bool{true, false} {
			w := layeredWorld(1, d, failing, 1)
			w.Services = []ASvc{{Can: w.Desc.Can, Result: "ok"}}
			w.Invs = []int{w.Inv}
			emit("servetime", []string{mustJSON(w)}, fmt.Sprintf("served-chain/%v", failing), true)
		}
	}
	// the same count through a server (one validation per invocation, whatever its outcome), and shared
	// proof DAGs that succeed answered promptly
	for _, failing := range []bool{true, false} {
		for d := 1; d <= 8; d++ {
			for _, wd := range []int{1, 2} {
				w := layeredWorld(wd, d, failing, 1)
				w.Services = []ASvc{{Can: w.Desc.Can, Result: "ok"}}
				w.Invs = []int{w.Inv}
				emit("servecost", []string{mustJSON(w)}, fmt.Sprintf("served-cost/w%d/%v", wd, failing), true)
			}
		}
	}
	for _, wd := range []int{2, 3, 4} {
		for _, d := range []int{6, 8, 10} {
			w := layeredWorld(wd, d, false, 1)
			w.Services = []ASvc{{Can: w.Desc.Can, Result: "ok"}}
			w.Invs = []int{w.Inv}
			emit("servetime", []string{mustJSON(w)}, "served-dag/ok", true)
		}
	}
	maxD := 9
	if cfg.Thorough() {
		maxD = 12
	}
	for _, failing := range []bool{true, false} {
		f := "ok"
		if failing {
			f = "failing"
		}
		for d := 0; d <= 16; d++ { // chains
			emit("cost", []string{mustJSON(layeredWorld(1, d, failing, 1))}, "chain/"+f, d > 0)
		}
		for d := 1; d <= maxD; d++ { // layered DAGs, width 2
			emit("cost", []string{mustJSON(layeredWorld(2, d, failing, 1))}, "layered2/"+f, true)
		}
		for d := 1; d <= 5; d++ {
			emit("cost", []string{mustJSON(layeredWorld(3, d, failing, 1))}, "layered3/"+f, true)
			emit("cost", []string{mustJSON(treeWorld(2, d, failing))}, "tree2/"+f, true)
			emit("cost", []string{mustJSON(layeredWorld(2, d, failing, 2))}, "layered2-multicap/"+f, true)
		}
		for d := 1; d <= 3; d++ {
			emit("cost", []string{mustJSON(treeWorld(3, d, failing))}, "tree3/"+f, true)
		}
	}
	// shared proof DAGs made of wildcard grants ("full access" delegations) that succeed
	for _, wd := range []int{2, 3, 4} {
		for d := 1; d <= 6; d++ {
			for vi, pat := range []string{"*", "store/*"} {
				w := layeredWorld(wd, d, false, 1)
				for i := range w.Tokens {
					if i != w.Inv {
						w.Tokens[i].Caps[0].Can = pat
						if vi == 1 && i%2 == 0 {
							w.Tokens[i].Caps[0].Can = "*"
						}
					}
				}
				emit("cost", []string{mustJSON(w)}, "layered-wildcard/ok", true)
			}
		}
	}
	// random DAG-ish worlds from the common generator (sessions included: attestation claims are work too)
	n := 300
	if cfg.Thorough() {
		n = 5000
	}
	genWorlds(cfg, n, genOpts{maxDepth: 5, sessions: true, sessionPct: 30, caveats: true, caveatPct: 20,
		kinds: []string{"none", "decoys", "dup", "wrongkey", "nonowner", "permute", "algcode", "expired"}}, func(w *AWorld, class string) {
		emit("cost", []string{mustJSON(w)}, "random", len(w.Tokens) > 1)
	})
	return nil
}

func execCost(a []string) (res Result) {
	var w AWorld
	if err := json.Unmarshal([]byte(a[0]), &w); err != nil {
		return Result{Impl: "bad-world:" + err.Error()}
	}
	defer func() {
		if r := recover(); r != nil {
			res = Result{Impl: fmt.Sprintf("panic:%v", r)}
		}
	}()
	cw, err := Concretise(&w)
	if err != nil {
		return Result{Impl: "concretise-error:" + err.Error()}
	}
	log := &runLog{}
	canIssue, checker, resolveProof, parse, resolveKey, authority := cw.context(log)
	var n int64
	cparse := func(s string) (principal.Verifier, error) {
		v, err := parse(s)
		if err != nil {
			return nil, err
		}
		return countingVerifier{v, &n}, nil
	}
	ctx := validator.NewValidationContext(countingVerifier{authority, &n}, cw.capability(log), canIssue, checker, resolveProof, cparse, resolveKey)
	t0 := time.Now()
	_, aerr := validator.Access(cw.D[cw.A.Inv], ctx)
	el := time.Since(t0)
	out := "ok"
	if aerr != nil {
		out = "fail"
	}
	return Result{Args: []string{mustJSON(&w)}, Impl: fmt.Sprintf("%s:%d", out, n), Extra: map[string]any{"tokens": len(w.Tokens), "millis": el.Milliseconds()}}
}

// execServeTime: the world's batch through a server; answers "done" when the server replied within 15 s
func execServeTime(a []string) (res Result) {
	var w AWorld
	if err := json.Unmarshal([]byte(a[0]), &w); err != nil {
		return Result{Impl: "bad-world"}
	}
	cw, err := Concretise(&w)
	if err != nil {
		return Result{Impl: "concretise-error:" + err.Error()}
	}
	log := &runLog{}
	var calls []handlerCall
	var mu sync.Mutex
	srv, err := cw.buildServer(log, &calls, &mu, nil)
	if err != nil {
		return Result{Impl: "server-error:" + err.Error()}
	}
	done := make(chan string, 1)
	t0 := time.Now()
	go func() {
		defer func() {
			if r := recover(); r != nil {
				done <- fmt.Sprintf("panic:%v", r)
			}
		}()
		st, _ := cw.serveBatch(srv, &calls)
		done <- strings.Join(st, ",")
	}()
	select {
	case <-done:
		return Result{Impl: "done", Extra: map[string]any{"ms": time.Since(t0).Milliseconds()}}
	case <-time.After(15 * time.Second):
		return Result{Impl: "slow", Oracle: fmt.Sprintf("fail:C19-time a request carrying %d delegations kept the server busy for more than 15 s", len(w.Tokens))}
	}
}

// execServeCost: signature verifications when the invocation is served rather than validated directly
func execServeCost(a []string) (res Result) {
	var w AWorld
	if err := json.Unmarshal([]byte(a[0]), &w); err != nil {
		return Result{Impl: "bad-world"}
	}
	cw, err := Concretise(&w)
	if err != nil {
		return Result{Impl: "concretise-error:" + err.Error()}
	}
	var n int64
	cw.counter = &n
	log := &runLog{}
	var calls []handlerCall
	var mu sync.Mutex
	srv, err := cw.buildServer(log, &calls, &mu, nil)
	if err != nil {
		return Result{Impl: "server-error:" + err.Error()}
	}
	st, _ := cw.serveBatch(srv, &calls)
	out := "fail"
	if len(st) > 0 && strings.HasPrefix(st[0], "ok") {
		out = "ok"
	}
	return Result{Args: []string{mustJSON(&w)}, Impl: fmt.Sprintf("%s:%d", out, n)}
}
