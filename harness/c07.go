package main

// C07: issued tokens verify; any change to a signed token is detected. Real keys, real tokens.

import (
	"encoding/hex"
	"encoding/json"
	"fmt"
	"io"
	"math/rand"
	"strings"

	"github.com/ipfs/go-cid"
	"github.com/ipld/go-ipld-prime/datamodel"
	cidlink "github.com/ipld/go-ipld-prime/linking/cid"
	"github.com/ipld/go-ipld-prime/node/basicnode"
	"github.com/storacha/go-ucanto/core/dag/blockstore"
	"github.com/storacha/go-ucanto/core/delegation"
	"github.com/storacha/go-ucanto/core/ipld"
	"github.com/storacha/go-ucanto/core/ipld/block"
	"github.com/storacha/go-ucanto/core/ipld/codec/cbor"
	"github.com/storacha/go-ucanto/core/ipld/hash/sha256"
	"github.com/storacha/go-ucanto/did"
	"github.com/storacha/go-ucanto/principal"
	"github.com/storacha/go-ucanto/principal/signer"
	"github.com/storacha/go-ucanto/ucan"
	"github.com/storacha/go-ucanto/ucan/crypto/signature"
	udm "github.com/storacha/go-ucanto/ucan/datamodel/ucan"
)

func init() {
	gens["C07"] = genC07
	execs["ucan"] = guard(execUcan)
}

// typed IPLD value as JSON: {"t": kind, "v": value}
type TV struct {
	T string          `json:"t"`
	V json.RawMessage `json:"v,omitempty"`
}

func tvNull() TV          { return TV{T: "null"} }
func tvBool(b bool) TV    { v, _ := json.Marshal(b); return TV{"bool", v} }
func tvInt(i int64) TV    { v, _ := json.Marshal(i); return TV{"int", v} }
func tvStr(s string) TV   { v, _ := json.Marshal(s); return TV{"str", v} }
func tvBytes(b []byte) TV { v, _ := json.Marshal(hex.EncodeToString(b)); return TV{"bytes", v} }
func tvLink(c string) TV  { v, _ := json.Marshal(c); return TV{"link", v} }
func tvList(l []TV) TV    { v, _ := json.Marshal(l); return TV{"list", v} }

type KV struct {
	K string `json:"k"`
	V TV     `json:"v"`
}

func tvMap(m []KV) TV { v, _ := json.Marshal(m); return TV{"map", v} }

func (t TV) build(na datamodel.NodeAssembler) error {
	switch t.T {
	case "null":
		return na.AssignNull()
	case "bool":
		var b bool
		json.Unmarshal(t.V, &b)
		return na.AssignBool(b)
	case "int":
		var i int64
		json.Unmarshal(t.V, &i)
		return na.AssignInt(i)
	case "str":
		var s string
		json.Unmarshal(t.V, &s)
		return na.AssignString(s)
	case "bytes":
		var s string
		json.Unmarshal(t.V, &s)
		b, _ := hex.DecodeString(s)
		return na.AssignBytes(b)
	case "link":
		var s string
		json.Unmarshal(t.V, &s)
		c, err := cid.Decode(s)
		if err != nil {
			return err
		}
		return na.AssignLink(cidlink.Link{Cid: c})
	case "list":
		var l []TV
		json.Unmarshal(t.V, &l)
		la, err := na.BeginList(int64(len(l)))
		if err != nil {
			return err
		}
		for _, x := range l {
			if err := x.build(la.AssembleValue()); err != nil {
				return err
			}
		}
		return la.Finish()
	case "map":
		var m []KV
		json.Unmarshal(t.V, &m)
		ma, err := na.BeginMap(int64(len(m)))
		if err != nil {
			return err
		}
		for _, kv := range m {
			if err := ma.AssembleKey().AssignString(kv.K); err != nil {
				return err
			}
			if err := kv.V.build(ma.AssembleValue()); err != nil {
				return err
			}
		}
		return ma.Finish()
	}
	return fmt.Errorf("kind %q", t.T)
}

func (t TV) node() (datamodel.Node, error) {
	nb := basicnode.Prototype.Any.NewBuilder()
	if err := t.build(nb); err != nil {
		return nil, err
	}
	return nb.Build(), nil
}

type tvBuilder struct{ tv TV }

func (b tvBuilder) ToIPLD() (ipld.Node, error) { return b.tv.node() }

type factB struct{ m []KV }

func (f factB) ToIPLD() (map[string]datamodel.Node, error) {
	out := map[string]datamodel.Node{}
	for _, kv := range f.m {
		n, err := kv.V.node()
		if err != nil {
			return nil, err
		}
		out[kv.K] = n
	}
	return out, nil
}

type UCap struct {
	Can  string `json:"can"`
	With string `json:"with"`
	Nb   TV     `json:"nb"`
}

// UFields: the token's fields as the model sees them
type UFields struct {
	V   string   `json:"v"`
	Iss string   `json:"iss"` // DID string
	Aud string   `json:"aud"`
	Att []UCap   `json:"att"`
	Prf []string `json:"prf"`
	Exp *int     `json:"exp"`
	Fct [][]KV   `json:"fct"`
	Nnc *string  `json:"nnc"`
	Nbf *int     `json:"nbf"`
}

type USpec struct {
	Key    string  `json:"key"` // ed<n> | rsa<n> | wrap<n> (ed key n under a did:web)
	Aud    string  `json:"audKey"`
	Fields UFields `json:"fields"` // what is issued (iss/aud filled by the executor)
	// Alter: kind of single-field alteration; Altered: the fields after it (filled by the executor for
	// alterations that are expressed on fields)
	Alter   string   `json:"alter"`
	Altered *UFields `json:"altered,omitempty"`
	AlgName string   `json:"alg"`
	// PreOpts: options given before the ones derived from Fields ("exp:<n>", "noexp", "nbf:<n>",
	// "nnc:<s>"): a later option replaces an earlier one
	PreOpts []string `json:"preOpts,omitempty"`
	// EmptyFacts / EmptyProofs: the option is given with an empty, non-nil list
	EmptyFacts  bool `json:"emptyFacts,omitempty"`
	EmptyProofs bool `json:"emptyProofs,omitempty"`
	// Attach: blocks attached to the freshly issued token before it is stored
	Attach int `json:"attach,omitempty"`
}

func preOpts(l []string) []delegation.Option {
	var out []delegation.Option
	for _, o := range l {
		switch {
		case o == "noexp":
			out = append(out, delegation.WithNoExpiration())
		case strings.HasPrefix(o, "exp:"):
			out = append(out, delegation.WithExpiration(atoi(o[4:])))
		case strings.HasPrefix(o, "nbf:"):
			out = append(out, delegation.WithNotBefore(atoi(o[4:])))
		case strings.HasPrefix(o, "nnc:"):
			out = append(out, delegation.WithNonce(o[4:]))
		case strings.HasPrefix(o, "prf:"):
			if c, err := cid.Decode(o[4:]); err == nil {
				out = append(out, delegation.WithProof(delegation.FromLink(cidlink.Link{Cid: c})))
			}
		}
	}
	return out
}

var cidPool = []string{
	"bafkreiem4twkqzsq2aj4shbycd4yvoj2cx72vezicletlhi7dijjciqpui",
	"bafyreib4pff766vhpbxbhjbqqnsh5emeznvujayjj4z2iu533cprgbz23m",
	"bafkqaaa",
}

func randTV(r *rand.Rand, depth int) TV {
	k := r.Intn(9)
	if depth <= 0 && k >= 7 {
		k = r.Intn(7)
	}
	switch k {
	case 0:
		return tvNull()
	case 1:
		return tvBool(r.Intn(2) == 0)
	case 2:
		return tvInt([]int64{0, 1, -1, 23, 24, 255, 256, 65535, 65536, -24, -25, 1<<31 - 1, 1 << 32, 1<<63 - 1, -(1 << 62)}[r.Intn(15)])
	case 3:
		return tvStr([]string{"", "a", "hello", "ünïcödé", "日本語", "with \"quotes\" and \\ slashes", "line\nbreak", "/", strings.Repeat("x", 30)}[r.Intn(9)])
	case 4:
		b := make([]byte, r.Intn(20))
		r.Read(b)
		return tvBytes(b)
	case 5, 6:
		return tvLink(cidPool[r.Intn(len(cidPool))])
	case 7:
		n := r.Intn(4)
		var l []TV
		for i := 0; i < n; i++ {
			l = append(l, randTV(r, depth-1))
		}
		return tvList(l)
	default:
		return tvMap(randKVs(r, depth-1))
	}
}

func randKVs(r *rand.Rand, depth int) []KV {
	keys := []string{"a", "b", "aa", "ab", "zz", "link", "root", "size", "x", "longer-key", "é"}
	r.Shuffle(len(keys), func(i, j int) { keys[i], keys[j] = keys[j], keys[i] })
	n := r.Intn(4)
	var m []KV
	for i := 0; i < n; i++ {
		m = append(m, KV{keys[i], randTV(r, depth)})
	}
	return m
}

var alterKinds = []string{"none", "aud", "iss", "with", "can", "nb-value", "nb-add", "cap-add", "cap-drop", "prf-add", "prf-drop", "prf-reorder", "exp", "exp-none", "nbf", "nnc", "fct-add", "fct-change", "version",
	"sig-flip", "sig-code", "sig-trunc", "sig-append", "sig-grow", "other-key", "other-did", "nb-link-to-slashmap", "nb-bytes-to-slashmap", "fct-link-to-slashmap"}

func genC07(cfg Config, emit Emit) error {
	genIssueAlias(emit)
	n := 1200
	if cfg.Thorough() {
		n = 30000
	}
	r := cfg.Rng
	for i := 0; i < n; i++ {
		var s USpec
		switch r.Intn(8) {
		case 0:
			s.Key = fmt.Sprintf("rsa%d", r.Intn(2))
		case 1:
			s.Key = fmt.Sprintf("wrap%s%d", []string{"", "U", "R"}[r.Intn(3)], r.Intn(6))
		default:
			s.Key = fmt.Sprintf("ed%d", r.Intn(12))
		}
		s.Aud = fmt.Sprintf("ed%d", 12+r.Intn(6))
		nc := 1 + r.Intn(3)
		for c := 0; c < nc; c++ {
			nb := tvMap(randKVs(r, 2))
			s.Fields.Att = append(s.Fields.Att, UCap{Can: []string{"store/add", "upload/*", "*", "x/y"}[r.Intn(4)], With: []string{"did:key:z6MkExample", "ucan:*", "https://example.com/a?b=c", "mailto:a@b.c"}[r.Intn(4)], Nb: nb})
		}
		for p := r.Intn(3); p > 0; p-- {
			s.Fields.Prf = append(s.Fields.Prf, cidPool[r.Intn(2)])
		}
		switch r.Intn(3) {
		case 0: // no expiration
		case 1:
			e := nowUnix() + farFuture + r.Intn(1000)
			s.Fields.Exp = &e
		default:
			e := -1 // default (now+30), resolved by the executor
			s.Fields.Exp = &e
		}
		if r.Intn(3) == 0 {
			nb := []int{1, 10, 1700000000}[r.Intn(3)]
			s.Fields.Nbf = &nb
		}
		if r.Intn(3) == 0 {
			nn := []string{"abc", "n", "ünï", strings.Repeat("9", 40)}[r.Intn(4)]
			s.Fields.Nnc = &nn
		}
		for f := r.Intn(3); f > 0; f-- {
			kv := randKVs(r, 2)
			if len(kv) == 0 {
				kv = []KV{{"k", tvInt(1)}}
			}
			s.Fields.Fct = append(s.Fields.Fct, kv[:1]) // one key per fact: the key order of Issue's fact model comes from a Go map
		}
		if r.Intn(5) == 0 { // an earlier, contradicting option: the later one holds
			s.PreOpts = [][]string{{"exp:1999999999"}, {"noexp"}, {"nbf:7", "nnc:earlier"}, {"noexp", "exp:1888888888"}}[r.Intn(4)]
		}
		s.Alter = alterKinds[i%len(alterKinds)]
		// the three collision alterations need a link / bytes caveat to exist
		switch s.Alter {
		case "nb-link-to-slashmap":
			s.Fields.Att[0].Nb = tvMap([]KV{{"x", tvLink(cidPool[r.Intn(3)])}, {"n", tvInt(1)}})
		case "nb-bytes-to-slashmap":
			s.Fields.Att[0].Nb = tvMap([]KV{{"b", tvBytes([]byte{1, 2, 3, byte(r.Intn(256))})}})
		case "fct-link-to-slashmap":
			s.Fields.Fct = [][]KV{{{"proof", tvLink(cidPool[r.Intn(3)])}}}
		}
		emit("ucan", []string{mustJSON(&s)}, s.Alter+"/"+s.Key[:2], s.Alter != "none")
	}
	// every field is in the root block: the wire format model writes the block from the fields
	nu := 150
	if cfg.Thorough() {
		nu = 4000
	}
	genWire(cfg, emit, 0, nu)
	genIssued(cfg, emit, map[bool]int{false: 80, true: 1600}[cfg.Thorough()])
	for k := 0; k < 2; k++ {
		emit("rsastrip", []string{itoa(k)}, "sig-strip-leading-zero/rs", true)
	}
	return nil
}

func pickSigner(name string) (principal.Signer, error) {
	pools()
	switch {
	case strings.HasPrefix(name, "as:"):
		// an Ed25519 key acting under an arbitrary DID: "as:<did>:<key index>"
		i := strings.LastIndex(name, ":")
		k := edPool[atoi(name[i+1:])%edPoolSize]
		d, err := did.Parse(name[3:i])
		if err != nil {
			return nil, err
		}
		return signer.Wrap(k, d)
	case strings.HasPrefix(name, "rsa"):
		return rsaPool[atoi(name[3:])%len(rsaPool)], nil
	case strings.HasPrefix(name, "wrap"):
		// "wrap<n>": Ed25519 key n under a did:web; "wrapU<n>": under a did:web with upper-case letters
		// (identifiers are case sensitive); "wrapR<n>": an RSA key under a did:dns
		rest := name[4:]
		var k principal.Signer
		var ds string
		switch {
		case strings.HasPrefix(rest, "U"):
			k = edPool[atoi(rest[1:])%edPoolSize]
			ds = fmt.Sprintf("did:web:W%s.Example.COM:user:Alice", rest[1:])
		case strings.HasPrefix(rest, "R"):
			k = rsaPool[atoi(rest[1:])%len(rsaPool)]
			ds = fmt.Sprintf("did:dns:r%s.example", rest[1:])
		default:
			k = edPool[atoi(rest)%edPoolSize]
			ds = fmt.Sprintf("did:web:w%s.example.com", rest)
		}
		d, _ := did.Parse(ds)
		return signer.Wrap(k, d)
	default:
		return edPool[atoi(name[2:])%edPoolSize], nil
	}
}

func capModels(att []UCap) ([]udm.CapabilityModel, error) {
	var out []udm.CapabilityModel
	for _, c := range att {
		n, err := c.Nb.node()
		if err != nil {
			return nil, err
		}
		out = append(out, udm.CapabilityModel{With: c.With, Can: c.Can, Nb: n})
	}
	return out, nil
}

func slashMapOf(kv []KV, key string) []KV {
	out := append([]KV(nil), kv...)
	for i := range out {
		if out[i].K == key {
			switch out[i].V.T {
			case "link":
				var s string
				json.Unmarshal(out[i].V.V, &s)
				out[i].V = tvMap([]KV{{"/", tvStr(s)}})
			case "bytes":
				var s string
				json.Unmarshal(out[i].V.V, &s)
				b, _ := hex.DecodeString(s)
				// dag-json writes bytes as unpadded standard base64
				out[i].V = tvMap([]KV{{"/", tvMap([]KV{{"bytes", tvStr(b64std(b))}})}})
			}
		}
	}
	return out
}

func execUcan(a []string) Result {
	var s USpec
	if err := json.Unmarshal([]byte(a[0]), &s); err != nil {
		return Result{Impl: "bad-spec:" + err.Error()}
	}
	sg, err := pickSigner(s.Key)
	if err != nil {
		return Result{Impl: "key-error:" + err.Error()}
	}
	audS, _ := pickSigner(s.Aud)
	var caps []ucan.Capability[tvBuilder]
	for _, c := range s.Fields.Att {
		caps = append(caps, ucan.NewCapability(c.Can, c.With, tvBuilder{c.Nb}))
	}
	opts := preOpts(s.PreOpts)
	if s.Fields.Exp == nil {
		opts = append(opts, delegation.WithNoExpiration())
	} else if *s.Fields.Exp >= 0 {
		opts = append(opts, delegation.WithExpiration(*s.Fields.Exp))
	}
	if s.Fields.Nbf != nil {
		opts = append(opts, delegation.WithNotBefore(*s.Fields.Nbf))
	}
	if s.Fields.Nnc != nil {
		opts = append(opts, delegation.WithNonce(*s.Fields.Nnc))
	}
	var prfs delegation.Proofs
	for _, p := range s.Fields.Prf {
		c, _ := cid.Decode(p)
		prfs = append(prfs, delegation.FromLink(cidlink.Link{Cid: c}))
	}
	opts = append(opts, delegation.WithProof(prfs...))
	var fb []ucan.FactBuilder
	for _, f := range s.Fields.Fct {
		fb = append(fb, factB{f})
	}
	opts = append(opts, delegation.WithFacts(fb))
	d, err := delegation.Delegate(sg, audS, caps, opts...)
	if err != nil {
		return Result{Impl: "issue-error:" + err.Error()}
	}
	// fill what the model needs to know
	s.Fields.V = d.Version()
	s.Fields.Iss, s.Fields.Aud = sg.DID().String(), audS.DID().String()
	s.Fields.Exp = d.Expiration()
	if len(s.PreOpts) > 0 { // what an earlier option left in place
		if nb := d.NotBefore(); nb != 0 && s.Fields.Nbf == nil {
			s.Fields.Nbf = &nb
		}
		if nn := d.Nonce(); nn != "" && s.Fields.Nnc == nil {
			s.Fields.Nnc = &nn
		}
	}
	s.AlgName = sg.SignatureAlgorithm()
	vfr := sg.Verifier()

	issued, verr := ucan.VerifySignature(d.Data(), vfr)
	// transport: archive -> extract
	ab, _ := io.ReadAll(d.Archive())
	transported := false
	sameLink := false
	if x, err := delegation.Extract(ab); err == nil {
		transported, _ = ucan.VerifySignature(x.Data(), vfr)
		sameLink = x.Link().String() == d.Link().String()
	}
	if !issued {
		// nothing sensible can be altered on a token the library cannot even read back
		alt := s.Fields
		s.Altered = &alt
		return Result{Args: []string{mustJSON(&s)}, Impl: "issued=F|transported=F|altered=F", Oracle: "fail:C07-unverified a freshly issued token does not verify against its issuer"}
	}
	// the alteration
	m := *d.Data().Model()
	alt := s.Fields
	alt.Att = append([]UCap(nil), s.Fields.Att...)
	alt.Prf = append([]string(nil), s.Fields.Prf...)
	alt.Fct = append([][]KV(nil), s.Fields.Fct...)
	useVfr := vfr
	fieldAlter := true
	// a principal that is neither the issuer nor the audience (an "alteration" to the same DID is none)
	oi := (atoi(strings.TrimLeft(s.Key, "edrsawpUR")) + 7) % edPoolSize
	for edPool[oi].DID().String() == audS.DID().String() || edPool[oi].DID().String() == sg.DID().String() {
		oi = (oi + 1) % edPoolSize
	}
	other := edPool[oi]
	switch s.Alter {
	case "none":
	case "aud":
		alt.Aud = other.DID().String()
		m.Aud = other.DID().Bytes()
	case "iss":
		alt.Iss = other.DID().String()
		m.Iss = other.DID().Bytes()
	case "with":
		alt.Att[0].With += "/x"
	case "can":
		alt.Att[0].Can = "store/remove"
	case "nb-value":
		alt.Att[0].Nb = tvMap(append([]KV{{"altered", tvInt(1)}}, mustKVs(alt.Att[0].Nb)...))
		if len(mustKVs(s.Fields.Att[0].Nb)) > 0 {
			kvs := mustKVs(s.Fields.Att[0].Nb)
			kvs[0].V = tvStr("altered-value")
			alt.Att[0].Nb = tvMap(kvs)
		}
	case "nb-add":
		alt.Att[0].Nb = tvMap(append(mustKVs(alt.Att[0].Nb), KV{"zzz-added", tvBool(true)}))
	case "cap-add":
		alt.Att = append(alt.Att, UCap{"x/added", "did:key:z6MkExample", tvMap(nil)})
	case "cap-drop":
		if len(alt.Att) > 1 {
			alt.Att = alt.Att[1:]
		} else {
			alt.Att[0].Can += "x"
		}
	case "prf-add":
		alt.Prf = append(alt.Prf, cidPool[2])
	case "prf-drop":
		if len(alt.Prf) > 0 {
			alt.Prf = alt.Prf[1:]
		} else {
			alt.Prf = []string{cidPool[2]}
		}
	case "prf-reorder":
		if len(alt.Prf) > 1 && alt.Prf[0] != alt.Prf[1] {
			alt.Prf[0], alt.Prf[1] = alt.Prf[1], alt.Prf[0]
		} else {
			alt.Prf = append(alt.Prf, cidPool[2])
		}
	case "exp":
		e := 12345
		if alt.Exp != nil {
			e = *alt.Exp + 1
		}
		alt.Exp = &e
	case "exp-none":
		if alt.Exp == nil {
			e := 99
			alt.Exp = &e
		} else {
			alt.Exp = nil
		}
	case "nbf":
		nb := 5
		if alt.Nbf != nil {
			nb = *alt.Nbf + 1
		}
		alt.Nbf = &nb
	case "nnc":
		nn := "altered"
		if alt.Nnc != nil {
			nn = *alt.Nnc + "x"
		}
		alt.Nnc = &nn
	case "fct-add":
		alt.Fct = append(alt.Fct, []KV{{"added", tvInt(1)}})
	case "fct-change":
		if len(alt.Fct) > 0 {
			alt.Fct[0] = []KV{{alt.Fct[0][0].K, tvStr("changed")}}
		} else {
			alt.Fct = [][]KV{{{"added", tvInt(2)}}}
		}
	case "version":
		alt.V = "0.9.2"
	case "nb-link-to-slashmap":
		alt.Att[0].Nb = tvMap(slashMapOf(mustKVs(alt.Att[0].Nb), "x"))
	case "nb-bytes-to-slashmap":
		alt.Att[0].Nb = tvMap(slashMapOf(mustKVs(alt.Att[0].Nb), "b"))
	case "fct-link-to-slashmap":
		alt.Fct[0] = slashMapOf(alt.Fct[0], "proof")
	case "sig-flip":
		fieldAlter = false
		m.S = append([]byte{}, m.S...)
		m.S[len(m.S)/2] ^= 0x10
	case "sig-code":
		fieldAlter = false
		raw := signature.Decode(m.S).Raw()
		code := uint64(signature.RS256)
		if signature.Decode(m.S).Code() == signature.RS256 {
			code = signature.EdDSA
		}
		m.S = signature.NewSignature(code, raw).Bytes()
	case "sig-trunc":
		fieldAlter = false
		m.S = m.S[:len(m.S)-1]
	case "sig-append": // bytes after the signature, declared size unchanged
		fieldAlter = false
		m.S = append(append([]byte{}, m.S...), 0x00, 0x2a)
	case "sig-grow": // one more signature byte, declared size adjusted
		fieldAlter = false
		sv := signature.Decode(m.S)
		m.S = signature.NewSignature(sv.Code(), append(append([]byte{}, sv.Raw()...), 0x00)).Bytes()
	case "other-key":
		fieldAlter = false
		useVfr = other.Verifier()
	case "other-did":
		fieldAlter = false
		// the right key under another DID
		if ks, ok := sg.(signer.WrappedSigner); ok {
			useVfr = ks.Unwrap().Verifier()
		} else if ws, err := signer.Wrap(sg, mustDID("did:web:other.example.com")); err == nil {
			useVfr = ws.Verifier()
		}
	}
	if fieldAlter && s.Alter != "none" {
		m.V = alt.V
		att, err := capModels(alt.Att)
		if err != nil {
			return Result{Impl: "alter-error:" + err.Error()}
		}
		m.Att = att
		m.Prf = nil
		for _, p := range alt.Prf {
			c, _ := cid.Decode(p)
			m.Prf = append(m.Prf, cidlink.Link{Cid: c})
		}
		m.Exp, m.Nbf, m.Nnc = alt.Exp, alt.Nbf, alt.Nnc
		m.Fct = nil
		for _, f := range alt.Fct {
			vals, _ := factB{f}.ToIPLD()
			var keys []string
			for _, kv := range f {
				keys = append(keys, kv.K)
			}
			m.Fct = append(m.Fct, udm.FactModel{Keys: keys, Values: vals})
		}
	}
	s.Altered = &alt
	// the altered token goes through a block round trip like any received token
	rt, err := block.Encode(&m, udm.Type(), cbor.Codec, sha256.Hasher)
	if err != nil {
		return Result{Impl: "alter-encode-error:" + err.Error()}
	}
	bs, _ := blockstore.NewBlockStore(blockstore.WithBlocks([]ipld.Block{rt}))
	ad, _ := delegation.NewDelegation(rt, bs)
	altered, _ := ucan.VerifySignature(ad.Data(), useVfr)
	cidChanged := rt.Link().String() != d.Link().String()
	// the altered bytes presented under the ORIGINAL link (a store or resolver that does not re-hash):
	// what is verified is what the bytes say, not what was seen under that link before
	sameLinkVerifies := false
	if cidChanged {
		func() {
			defer func() { recover() }()
			blk := block.NewBlock(d.Link(), rt.Bytes())
			if bs2, err := blockstore.NewBlockStore(blockstore.WithBlocks([]ipld.Block{blk})); err == nil {
				if ad2, err := delegation.NewDelegation(blk, bs2); err == nil {
					sameLinkVerifies, _ = ucan.VerifySignature(ad2.Data(), useVfr)
				}
			}
		}()
	}

	tf := func(b bool) string {
		if b {
			return "T"
		}
		return "F"
	}
	oracle := "ok"
	if !issued || verr != nil {
		oracle = "fail:C07-unverified a freshly issued token does not verify against its issuer"
	} else if !transported || !sameLink {
		oracle = "fail:C07-unverified the token does not verify (or changes its link) after archive/extract"
	} else if s.Alter != "none" && altered && (cidChanged || !fieldAlter) {
		oracle = "fail:C07-undetected kind=" + s.Alter + " the altered token still verifies"
	} else if s.Alter != "none" && sameLinkVerifies && !strings.Contains(s.Alter, "slashmap") {
		oracle = "fail:C07-undetected kind=" + s.Alter + " the altered token verifies when it is presented under the original token's link"
	}
	return Result{Args: []string{mustJSON(&s)}, Impl: fmt.Sprintf("issued=%s|transported=%s|altered=%s", tf(issued), tf(transported && sameLink), tf(altered)), Oracle: oracle,
		Extra: map[string]any{"cid_changed": cidChanged}}
}

func mustKVs(t TV) []KV {
	var m []KV
	if t.T == "map" {
		json.Unmarshal(t.V, &m)
	}
	return m
}

func mustDID(s string) did.DID { d, _ := did.Parse(s); return d }

func b64std(b []byte) string {
	const tbl = "ABCDEFGHIJKLMNOPQRSTUVWXYZabcdefghijklmnopqrstuvwxyz0123456789+/"
	var sb strings.Builder
	for i := 0; i < len(b); i += 3 {
		var n uint32
		k := 0
		for j := 0; j < 3; j++ {
			n <<= 8
			if i+j < len(b) {
				n |= uint32(b[i+j])
				k++
			}
		}
		for j := 0; j <= k; j++ {
			sb.WriteByte(tbl[(n>>(18-6*uint(j)))&63])
		}
	}
	return sb.String()
}
