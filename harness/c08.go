package main

import (
	"encoding/json"
	"fmt"
	"github.com/ipld/go-ipld-prime/node/bindnode"
	ipldschema "github.com/ipld/go-ipld-prime/schema"
	"github.com/storacha/go-ucanto/core/delegation"
	"github.com/storacha/go-ucanto/core/invocation/ran"
	"github.com/storacha/go-ucanto/core/message"
	"github.com/storacha/go-ucanto/core/result/failure"
	"github.com/storacha/go-ucanto/core/schema/options"
	"github.com/storacha/go-ucanto/server/transaction"
	"github.com/storacha/go-ucanto/transport"
	"github.com/storacha/go-ucanto/transport/car/request"
	"github.com/storacha/go-ucanto/transport/car/response"
	thttp "github.com/storacha/go-ucanto/transport/http"
	"io"
	"iter"
	"net/http"
	"net/http/httptest"
	"net/url"
	"sort"
	"strings"
	"sync"
	"time"

	"github.com/ipld/go-ipld-prime/datamodel"
	"github.com/storacha/go-ucanto/client"
	"github.com/storacha/go-ucanto/core/invocation"
	"github.com/storacha/go-ucanto/core/ipld"
	"github.com/storacha/go-ucanto/core/receipt"
	"github.com/storacha/go-ucanto/core/receipt/fx"
	"github.com/storacha/go-ucanto/core/result"
	"github.com/storacha/go-ucanto/core/schema"
	"github.com/storacha/go-ucanto/did"
	"github.com/storacha/go-ucanto/server"
	"github.com/storacha/go-ucanto/ucan"
	"github.com/storacha/go-ucanto/validator"
)

func init() {
	gens["C08"] = genC08
	execs["serve"] = execServe
	execs["servepanic"] = execServePanic
	execs["srvrun"] = guard(execSrvRun)
	isolatedOps["servepanic"] = true
	freshOps["servepanic"] = true
	crashOKOps["servepanic"] = true
}

type okOut struct{ N int64 }

func (o okOut) ToIPLD() (ipld.Node, error) {
	return NbMap{F: map[string]any{"f1": o.N}}.ToIPLD()
}

type handlerCall struct {
	Inv  int      `json:"inv"`
	Can  string   `json:"can"`
	With string   `json:"with"`
	Nb   [][2]int `json:"nb"`
}

// genC08: worlds of every authorization outcome × batch composition × handler result.
func genC08(cfg Config, emit Emit) error {
	n := 1500
	if cfg.Thorough() {
		n = 30000
	}
	o := genOpts{maxDepth: 4, sessions: true, sessionPct: 25, caveats: true, caveatPct: 30,
		kinds: []string{"none", "none", "wrongkey", "tamper", "aud", "resource", "ability", "expired", "revoke", "policy", "decoys", "permute", "missing", "nonowner", "case", "nearmiss", "didurl", "urlnear"}}
	// the handler is handed the caveats as the capability's reader (here a union of readers) reads them
	emit("reqcraft", []string{"or", "-", "-"}, "crafted/or", true)
	genRdTree(cfg, emit, 150, 3000)
	// the library's Run entry point called directly (not through a request): same rule
	for _, k := range []string{"onecap", "twocap", "twocap-same", "zerocap", "unknown"} {
		for _, via := range []string{"func", "method"} {
			emit("srvrun", []string{k, via}, "server.Run/"+k, true)
		}
	}
	genWorlds(cfg, n, o, func(w *AWorld, class string) {
		r := cfg.Rng
		res := []string{"ok", "okfx", "err", "okjoin"}
		w.Services = []ASvc{{Can: w.Desc.Can, Result: res[r.Intn(4)]}}
		if r.Intn(2) == 0 {
			w.Services = append(w.Services, ASvc{Can: "other/thing", Result: res[r.Intn(4)]})
		}
		if r.Intn(8) == 0 {
			w.Services = w.Services[1:] // nobody handles the main ability
		}
		main := w.Tokens[w.Inv]
		w.Invs = []int{w.Inv}
		extra := r.Intn(4)
		for k := 0; k < extra; k++ {
			t := main
			t.Caps = append([]ACap(nil), main.Caps...)
			t.Prfs = append([]int(nil), main.Prfs...)
			t.Inline = append([]bool(nil), main.Inline...)
			t.Nonce = fmt.Sprintf("b%d", k)
			switch r.Intn(7) {
			case 0: // ability nobody handles: an unknown one, or the handled one in other letter case
				if r.Intn(2) == 0 {
					t.Caps = []ACap{{Can: swapCase(main.Caps[0].Can[:1]) + main.Caps[0].Can[1:], With: main.Caps[0].With, Nb: main.Caps[0].Nb}}
				} else {
					t.Caps = []ACap{{Can: "nope/run", With: main.Caps[0].With, Nb: [][2]int{}}}
				}
			case 1: // zero capabilities
				t.Caps = []ACap{}
			case 2: // two capabilities: another one, or the very same one twice
				if r.Intn(2) == 0 {
					t.Caps = append(t.Caps, t.Caps[0])
				} else {
					t.Caps = append(t.Caps, ACap{Can: "other/thing", With: main.Caps[0].With, Nb: [][2]int{}})
				}
			case 3: // same chain, other resource
				t.Caps = []ACap{{Can: main.Caps[0].Can, With: fmt.Sprintf("@%d", r.Intn(len(w.Principals))), Nb: main.Caps[0].Nb}}
			case 4: // a stranger without proofs
				s := r.Intn(len(w.Principals))
				if w.Principals[s].Kind == "ed" {
					t.Iss, t.Signer, t.Prfs, t.Inline = s, s, nil, nil
				}
			case 5: // the second service's ability through the same proofs
				t.Caps = []ACap{{Can: "other/thing", With: main.Caps[0].With, Nb: [][2]int{}}}
			default: // an identical second invocation (different nonce)
			}
			t.ID = len(w.Tokens)
			w.Tokens = append(w.Tokens, t)
			w.Invs = append(w.Invs, t.ID)
		}
		r.Shuffle(len(w.Invs), func(i, j int) { w.Invs[i], w.Invs[j] = w.Invs[j], w.Invs[i] })
		normalize(w)
		emit("serve", []string{"C08", mustJSON(w)}, fmt.Sprintf("%s/batch%d", class, len(w.Invs)), true)
	})
	return nil
}

// untyped reader: a keyed union over two named `any` types (a union over `Any` twice is rejected by
// bindnode, and a struct cannot decode error results: the Go field is `Err`, the schema field `error`)
var anyResultSchema = []byte("type Result union {\n | O \"ok\"\n | X \"error\"\n} representation keyed\ntype O any\ntype X any")

// buildServer makes a real server for the world; handlers record their calls.
func (cw *CWorld) buildServer(log *runLog, calls *[]handlerCall, mu *sync.Mutex, perturb func()) (server.ServerView, error) {
	return cw.buildServerWith(log, cw.methodOptions(log, calls, mu, perturb), false)
}

// methodOptions: the service methods of the world as server options. The same option values (and so the
// same `Provide` values) can be mounted on more than one server.
func (cw *CWorld) methodOptions(log *runLog, calls *[]handlerCall, mu *sync.Mutex, perturb func()) []server.Option {
	w := cw.A
	var opts []server.Option
	for _, svc := range w.Services {
		svc := svc
		capParser := cw.capabilityFor(svc.Can, log)
		opts = append(opts, server.WithServiceMethod(svc.Can, server.Provide(capParser,
			func(cap ucan.Capability[NbMap], inv invocation.Invocation, ctx server.InvocationContext) (okOut, fx.Effects, error) {
				if perturb != nil {
					perturb()
				}
				id, ok := cw.idOf[inv.Link().String()]
				if !ok {
					id = -1
				}
				mu.Lock()
				*calls = append(*calls, handlerCall{id, cap.Can(), cap.With(), cw.nbToPairs(cap.Nb())})
				mu.Unlock()
				switch svc.Result {
				case "err":
					return okOut{}, nil, fmt.Errorf("handler failed")
				case "okfx":
					return okOut{7}, fx.NewEffects(fx.WithFork(fx.FromLink(dummyLink(4242)))), nil
				case "okjoin":
					return okOut{7}, fx.NewEffects(fx.WithJoin(fx.FromLink(dummyLink(4243)))), nil
				}
				return okOut{7}, nil, nil
			})))
	}
	// two methods whose capabilities use the library's own readers for the resource (nobody in the
	// generated worlds invokes them; C11 sends boundary values at them)
	for _, lm := range []struct {
		can string
		rd  schema.Reader[string, string]
	}{{"lib/did", schema.DIDString()}, {"lib/key", schema.DIDString(schema.WithMethod("key"))}} {
		opts = append(opts, server.WithServiceMethod(lm.can, server.Provide(validator.NewCapability[NbMap](lm.can, lm.rd, nbReader{}, nil),
			func(cap ucan.Capability[NbMap], inv invocation.Invocation, ctx server.InvocationContext) (okOut, fx.Effects, error) {
				return okOut{1}, nil, nil
			})))
	}
	// a method whose caveats are read by a union of readers (schema.Or): a strict one first, then a lenient
	// legacy one that accepts anything and reports {f9: 9}; nested in another union whose first member
	// always fails. The handler records what it was handed.
	strict := nbReader{}
	lenient := schema.Mapped[any, NbMap, NbMap](anyReader{}, func(NbMap) (NbMap, failure.Failure) {
		return NbMap{F: map[string]any{"f9": int64(9)}}, nil
	})
	never := schema.Or[any, NbMap](rejectReader{}, rejectReader{})
	orRd := schema.Or[any, NbMap](never, schema.Or[any, NbMap](strict, lenient))
	opts = append(opts, server.WithServiceMethod("lib/or", server.Provide(validator.NewCapability[NbMap]("lib/or", schema.DIDString(), orRd, nil),
		func(cap ucan.Capability[NbMap], inv invocation.Invocation, ctx server.InvocationContext) (okOut, fx.Effects, error) {
			mu.Lock()
			*calls = append(*calls, handlerCall{-2, cap.Can(), cap.With(), cw.nbToPairs(cap.Nb())})
			mu.Unlock()
			return okOut{3}, nil, nil
		})))
	// a method whose resource is read by the library's URI reader restricted to one scheme
	opts = append(opts, server.WithServiceMethod("lib/uri", server.Provide(validator.NewCapability[NbMap]("lib/uri", uriWith{schema.URI(schema.WithProtocol("https:"))}, nbReader{}, nil),
		func(cap ucan.Capability[NbMap], inv invocation.Invocation, ctx server.InvocationContext) (okOut, fx.Effects, error) {
			return okOut{4}, nil, nil
		})))
	// a method whose caveats bind a DID-typed field through a bindnode converter option
	if ts, err := ipldLoad([]byte("type ConvCaveats struct {\n consumer optional DID\n}\ntype DID string")); err == nil {
		convType = ts.TypeByName("ConvCaveats")
		capb := validator.NewCapability[convCaveats]("lib/conv", schema.DIDString(), schema.Struct[convCaveats](convType, nil, convOpts...), nil)
		opts = append(opts, server.WithServiceMethod("lib/conv", server.Provide(capb,
			func(cap ucan.Capability[convCaveats], inv invocation.Invocation, ctx server.InvocationContext) (okOut, fx.Effects, error) {
				return okOut{5}, nil, nil
			})))
	}
	// a method that checks the invocation's time bounds and signature itself first and reports the
	// validator's own typed error as the receipt's error
	precheck := validator.NewCapability[NbMap]("lib/precheck", schema.DIDString(), nbReader{}, nil)
	opts = append(opts, server.WithServiceMethod("lib/precheck", func(inv invocation.Invocation, ctx server.InvocationContext) (transaction.Transaction[ipld.Builder, ipld.Builder], error) {
		vctx := validator.NewValidationContext(ctx.ID().Verifier(), precheck, ctx.CanIssue, ctx.ValidateAuthorization, ctx.ResolveProof, ctx.ParsePrincipal, ctx.ResolveDIDKey)
		if _, verr := validator.Validate(inv, nil, vctx); verr != nil {
			return transaction.NewTransaction(result.NewFailure(verr)), nil
		}
		if _, aerr := validator.Access(inv, vctx); aerr != nil {
			return transaction.NewTransaction(result.NewFailure(aerr)), nil
		}
		return transaction.NewTransaction(result.Ok[ipld.Builder, ipld.Builder](okOut{6})), nil
	}))
	// and one whose caveats are read by the library's struct reader
	if ts, err := ipldLoad([]byte("type LibCaveats struct {\n size optional Int\n label optional String\n}")); err == nil {
		capb := validator.NewCapability[libCaveats]("lib/struct", schema.DIDString(), schema.Struct[libCaveats](ts.TypeByName("LibCaveats"), nil), nil)
		opts = append(opts, server.WithServiceMethod("lib/struct", server.Provide(capb,
			func(cap ucan.Capability[libCaveats], inv invocation.Invocation, ctx server.InvocationContext) (okOut, fx.Effects, error) {
				return okOut{2}, nil, nil
			})))
	}
	return opts
}

type libCaveats struct {
	Size  *int64
	Label *string
}

func (c libCaveats) ToIPLD() (ipld.Node, error) {
	return NbMap{F: map[string]any{}}.ToIPLD()
}

// buildServerWith makes a real server for the world with the given service methods; `lax` = another
// deployment of the same methods that lets everybody issue everything and revokes nothing.
func (cw *CWorld) buildServerWith(log *runLog, methods []server.Option, lax bool) (server.ServerView, error) {
	canIssue, checker, resolveProof, parse, resolveKey, _ := cw.context(log)
	w := cw.A
	id := cw.P[w.Authority].signer
	if id == nil {
		return nil, fmt.Errorf("authority without key")
	}
	if lax {
		canIssue = func(c ucan.Capability[any], issuer did.DID) bool { return true }
		checker = func(auth validator.Authorization[any]) validator.Revoked { return nil }
	}
	opts := []server.Option{
		server.WithCanIssue(canIssue), server.WithRevocationChecker(checker), server.WithProofResolver(resolveProof),
		server.WithPrincipalParser(parse), server.WithPrincipalResolver(resolveKey),
		server.WithErrorHandler(func(err server.HandlerExecutionError[any]) {}),
	}
	opts = append(opts, methods...)
	return server.NewServer(id, opts...)
}

func failureName(n ipld.Node) string {
	if n == nil || n.Kind() != datamodel.Kind_Map {
		return "error-not-a-map"
	}
	nn, err := n.LookupByString("name")
	if err != nil {
		return "error-without-name"
	}
	s, _ := nn.AsString()
	return s
}

// serveBatch sends the world's batch through client.Execute to an in-process server and returns one
// status per invocation (in batch order) plus the handler call log.
func (cw *CWorld) serveBatch(srv server.ServerView, calls *[]handlerCall) (statuses []string, problems []string) {
	w := cw.A
	var ch transport.Channel = srv
	if cw.channel != nil {
		ch = cw.channel
	}
	cw.connMu.Lock()
	if cw.conns == nil {
		cw.conns = map[transport.Channel]client.Connection{}
	}
	conn, have := cw.conns[ch]
	if !have {
		var err error
		conn, err = client.NewConnection(cw.P[w.Authority].did, ch)
		if err != nil {
			cw.connMu.Unlock()
			return nil, []string{"connection:" + err.Error()}
		}
		cw.conns[ch] = conn
	}
	cw.connMu.Unlock()
	var invs []invocation.Invocation
	for _, id := range w.Invs {
		if cw.phase == "permissive" && cw.Full != nil {
			// history: the same invocation (same link) sent with every proof embedded
			invs = append(invs, cw.Full[id])
		} else {
			invs = append(invs, cw.D[id])
		}
	}
	var resp interface {
		Get(ipld.Link) (ipld.Link, bool)
		Blocks() iter.Seq2[ipld.Block, error]
	}
	var err error
	if cw.forgeReports && cw.phase == "" && len(invs) > 0 {
		// the request itself already "reports" a receipt for every invocation it asks to execute (signed by
		// a stranger, claiming success): the server must run them all the same and answer with its own
		pools()
		var forged []receipt.AnyReceipt
		for _, inv := range invs {
			if rc, ferr := receipt.Issue(edPool[9], result.Ok[okOut, okOut](okOut{99}), ran.FromInvocation(inv)); ferr == nil {
				forged = append(forged, rc)
			}
		}
		msg, berr := message.Build(invs, forged)
		if berr != nil {
			return nil, []string{"build:" + berr.Error()}
		}
		req, eerr := request.Encode(msg)
		if eerr != nil {
			return nil, []string{"encode:" + eerr.Error()}
		}
		hres, rerr := ch.Request(req)
		if rerr != nil {
			return nil, []string{"execute:" + rerr.Error()}
		}
		resp, err = response.Decode(hres)
	} else {
		resp, err = client.Execute(invs, conn)
	}
	if err != nil {
		return nil, []string{"execute:" + err.Error()}
	}
	rdr, err := receipt.NewReceiptReader[ipld.Node, ipld.Node](anyResultSchema)
	if err != nil {
		return nil, []string{"reader:" + err.Error()}
	}
	for _, id := range w.Invs {
		l, ok := resp.Get(cw.D[id].Link())
		if !ok {
			statuses = append(statuses, "missing-receipt")
			continue
		}
		rc, err := rdr.Read(l, resp.Blocks())
		if err != nil {
			statuses = append(statuses, "unreadable-receipt")
			problems = append(problems, "read:"+err.Error())
			continue
		}
		if rc.Ran().Link().String() != cw.D[id].Link().String() {
			problems = append(problems, fmt.Sprintf("receipt for %d has ran=%s", id, rc.Ran().Link()))
		}
		if rc.Issuer() == nil || rc.Issuer().DID() != cw.P[w.Authority].did {
			problems = append(problems, fmt.Sprintf("receipt for %d not issued by the server", id))
		}
		st := result.MatchResultR1(rc.Out(), func(o ipld.Node) string { return "ok" }, func(x ipld.Node) string { return failureName(x) })
		// the effects the receipt reports: those the handler returned on success, none otherwise
		nf, nj := len(rc.Fx().Fork()), 0
		if rc.Fx().Join() != (fx.Effect{}) {
			nj = 1
		}
		if st == "ok" {
			st += fmt.Sprintf("+f%dj%d", nf, nj)
		} else if nf+nj > 0 {
			st += fmt.Sprintf("+stray-effects-f%dj%d", nf, nj)
		}
		statuses = append(statuses, st)
	}
	return statuses, problems
}

func callStr(c handlerCall) string {
	var nb []string
	for _, kv := range c.Nb {
		nb = append(nb, fmt.Sprintf("%d=%d", kv[0], kv[1]))
	}
	return fmt.Sprintf("%s,%s,[%s]", c.Can, c.With, strings.Join(nb, " "))
}

// canonical line: for each invocation of the batch "<id>:<status>:<calls joined by &>" joined by ";"
func serveCanon(w *AWorld, statuses []string, calls []handlerCall) string {
	by := map[int][]string{}
	for _, c := range calls {
		by[c.Inv] = append(by[c.Inv], callStr(c))
	}
	var parts []string
	for i, id := range w.Invs {
		cs := by[id]
		sort.Strings(cs)
		st := "?"
		if i < len(statuses) {
			st = statuses[i]
		}
		parts = append(parts, fmt.Sprintf("%d:%s:%s", id, st, strings.Join(cs, "&")))
	}
	for id, cs := range by {
		found := false
		for _, x := range w.Invs {
			if x == id {
				found = true
			}
		}
		if !found {
			parts = append(parts, fmt.Sprintf("stray-call:%d:%s", id, strings.Join(cs, "&")))
		}
	}
	return strings.Join(parts, ";")
}

func execServe(args []string) (res Result) {
	mode := args[0]
	var w AWorld
	if err := json.Unmarshal([]byte(args[1]), &w); err != nil {
		return Result{Impl: "bad-world:" + err.Error()}
	}
	defer func() {
		if r := recover(); r != nil {
			res.Impl = fmt.Sprintf("panic:%v", r)
		}
	}()
	cw, err := Concretise(&w)
	if err != nil {
		return Result{Impl: "concretise-error:" + err.Error()}
	}
	log := &runLog{}
	var calls []handlerCall
	var mu sync.Mutex
	if len(w.Invs) > 0 {
		l := cw.D[w.Invs[0]].Link().String()
		cw.forgeReports = l[len(l)-2]%4 == 0
	}
	methods := cw.methodOptions(log, &calls, &mu, nil)
	srv, err := cw.buildServerWith(log, methods, false)
	if err != nil {
		return Result{Impl: "server-error:" + err.Error()}
	}
	// history: the same service methods are also deployed on another, laxer server, which saw the batch first
	if ph := historyPhase(cw.D[w.Invs[0]].Link().String()); ph == "permissive" {
		if other, err := cw.buildServerWith(log, methods, true); err == nil {
			cw.phase = ph
			cw.serveBatch(other, &calls)
			cw.phase = ""
			mu.Lock()
			calls = nil
			mu.Unlock()
			log.mu.Lock()
			log.Checker, log.Derives, log.Resolved = nil, nil, nil
			log.mu.Unlock()
		}
	}
	// history: the same batch was sent to the same server before, in another environment
	if ph := historyPhase(cw.D[w.Invs[0]].Link().String()); ph != "" {
		cw.phase = ph
		cw.serveBatch(srv, &calls)
		mu.Lock()
		calls = nil
		mu.Unlock()
		log.mu.Lock()
		log.Checker, log.Derives, log.Resolved = nil, nil, nil
		log.mu.Unlock()
		cw.phase = ""
	}
	statuses, problems := cw.serveBatch(srv, &calls)
	impl := serveCanon(&w, statuses, calls)
	if len(problems) > 0 {
		impl += "|problems:" + strings.Join(problems, ",")
	}
	return Result{Args: []string{mode, mustJSON(&w)}, Impl: impl}
}

// httpFront puts a real HTTP server in front of srv and returns the library's HTTP channel to it
func httpFront(srv server.ServerView) (transport.Channel, func()) {
	ts := httptest.NewServer(http.HandlerFunc(func(w http.ResponseWriter, r *http.Request) {
		resp, err := srv.Request(thttp.NewHTTPRequest(r.Body, r.Header))
		if err != nil {
			http.Error(w, err.Error(), 500)
			return
		}
		for k, v := range resp.Headers() {
			for _, x := range v {
				w.Header().Add(k, x)
			}
		}
		w.WriteHeader(resp.Status())
		if b := resp.Body(); b != nil {
			io.Copy(w, b)
		}
	}))
	u, _ := url.Parse(ts.URL)
	return thttp.NewHTTPChannel(u), ts.Close
}

// anyReader accepts whatever it is given (a legacy, lenient caveat reader)
type anyReader struct{}

func (anyReader) Read(input any) (NbMap, failure.Failure) { return NbMap{F: map[string]any{}}, nil }

// rejectReader accepts nothing
type rejectReader struct{}

func (rejectReader) Read(input any) (NbMap, failure.Failure) {
	return NbMap{}, schema.NewSchemaError("never")
}

// convCaveats: typed caveats whose `consumer` string is bound to a did.DID by a converter option
type convCaveats struct {
	Consumer *did.DID
}

var convType ipldschema.Type

var convOpts = []bindnode.Option{
	options.NamedStringConverter("DID", did.Parse, func(d did.DID) (string, error) { return d.String(), nil }),
}

func (c convCaveats) ToIPLD() (ipld.Node, error) {
	return ipld.WrapWithRecovery(&c, convType, convOpts...)
}

// execServePanic: a world whose chain holds a revoked delegation, served by a server whose revocation checker
// PANICS where it would report the revocation (its store is down). The process may die with it; what must not
// happen is that the authorization is used although the checker never accepted it. args = [mode, world]
func execServePanic(args []string) (res Result) {
	var w AWorld
	if err := json.Unmarshal([]byte(args[1]), &w); err != nil {
		return Result{Impl: "bad-world:" + err.Error()}
	}
	defer func() {
		if r := recover(); r != nil {
			res = Result{Impl: "crashed-or-refused", Oracle: "ok"}
		}
	}()
	cw, err := Concretise(&w)
	if err != nil {
		return Result{Impl: "concretise-error:" + err.Error()}
	}
	cw.panicChecker = true
	log := &runLog{}
	var calls []handlerCall
	var mu sync.Mutex
	srv, err := cw.buildServer(log, &calls, &mu, nil)
	if err != nil {
		return Result{Impl: "server-error:" + err.Error()}
	}
	statuses, problems := cw.serveBatch(srv, &calls)
	// a panic on one of the server's goroutines runs that goroutine's deferred calls (releasing whoever
	// waits for it) before the runtime ends the process: give a dying process the time to die before
	// anything is reported about what it answered
	time.Sleep(400 * time.Millisecond)
	mu.Lock()
	defer mu.Unlock()
	if len(problems) > 0 && statuses == nil {
		return Result{Impl: "crashed-or-refused", Oracle: "ok"}
	}
	// the process lived: then the checker was never shown a revoked authorization, and the outcome is the
	// stateless model's (an authorization through delegations none of which is revoked, or a refusal)
	return Result{Args: []string{args[0], mustJSON(&w)}, Impl: serveCanon(&w, statuses, calls)}
}

// execSrvRun: server.Run / ServerView.Run called directly with an invocation of one, two or no capabilities.
// args = [kind, via]. Impl = "<receipt status>|calls=<n>"
func execSrvRun(a []string) Result {
	pools()
	svc, alice := edPool[0], edPool[1]
	calls := 0
	var mu sync.Mutex
	capb := validator.NewCapability[NbMap]("test/run", schema.DIDString(), nbReader{}, nil)
	srv, err := server.NewServer(svc, server.WithErrorHandler(func(server.HandlerExecutionError[any]) {}),
		server.WithServiceMethod("test/run", server.Provide(capb, func(cap ucan.Capability[NbMap], inv invocation.Invocation, ctx server.InvocationContext) (okOut, fx.Effects, error) {
			mu.Lock()
			calls++
			mu.Unlock()
			return okOut{1}, nil, nil
		})))
	if err != nil {
		return Result{Impl: "server-error"}
	}
	self := alice.DID().String()
	caps := map[string][]ucan.Capability[NbMap]{
		"onecap":      {ucan.NewCapability("test/run", self, NbMap{F: map[string]any{}})},
		"twocap":      {ucan.NewCapability("test/run", self, NbMap{F: map[string]any{}}), ucan.NewCapability("test/run", self, NbMap{F: map[string]any{"f1": int64(1)}})},
		"twocap-same": {ucan.NewCapability("test/run", self, NbMap{F: map[string]any{}}), ucan.NewCapability("test/run", self, NbMap{F: map[string]any{}})},
		"zerocap":     {},
		"unknown":     {ucan.NewCapability("test/none", self, NbMap{F: map[string]any{}})},
	}[a[0]]
	inv, err := delegation.Delegate(alice, svc, caps, delegation.WithNoExpiration(), delegation.WithNonce("run-"+a[0]))
	if err != nil {
		return Result{Impl: "skip:" + err.Error()}
	}
	var rc receipt.AnyReceipt
	if a[1] == "method" {
		rc, err = srv.Run(inv)
	} else {
		rc, err = server.Run(srv, inv)
	}
	if err != nil {
		return Result{Impl: "error"}
	}
	st := result.MatchResultR1(rc.Out(), func(o ipld.Node) string { return "ok" }, func(x ipld.Node) string { return failureName(x) })
	mu.Lock()
	defer mu.Unlock()
	return Result{Impl: fmt.Sprintf("%s|calls=%d", st, calls)}
}
