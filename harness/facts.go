package main

// Fact extractor: reads the locking discipline of the block store (and of server.Execute's receipt
// append) from /repo's *current source* with go/ast and writes it as Lean definitions. The C17
// theorems take these definitions as premises, so they are re-checked against what the code says now.

import (
	"fmt"
	"go/ast"
	"go/parser"
	"go/token"
	"os"
	"path/filepath"
	"strings"
)

type lockFacts struct {
	mode          map[string]string // method -> none|read|write (lock held over the whole method body)
	touchesShared map[string]bool   // method -> body reads/writes keys/blks
	mutates       map[string]bool
	// iterator: does the returned closure touch shared fields while no lock is held inside it?
	iterOutside bool
	iterMode    string // lock taken inside the closure around the accesses
	notes       []string
}

func recvName(fd *ast.FuncDecl) (string, string) {
	if fd.Recv == nil || len(fd.Recv.List) == 0 {
		return "", ""
	}
	t := fd.Recv.List[0].Type
	if st, ok := t.(*ast.StarExpr); ok {
		t = st.X
	}
	id, ok := t.(*ast.Ident)
	if !ok {
		return "", ""
	}
	name := ""
	if len(fd.Recv.List[0].Names) > 0 {
		name = fd.Recv.List[0].Names[0].Name
	}
	return id.Name, name
}

// lockCall: is e a call recv.<method>() ?
func lockCall(e ast.Expr, recv string) string {
	c, ok := e.(*ast.CallExpr)
	if !ok {
		return ""
	}
	s, ok := c.Fun.(*ast.SelectorExpr)
	if !ok {
		return ""
	}
	id, ok := s.X.(*ast.Ident)
	if !ok || id.Name != recv {
		return ""
	}
	switch s.Sel.Name {
	case "Lock", "Unlock", "RLock", "RUnlock":
		return s.Sel.Name
	}
	return ""
}

var sharedFields = map[string]bool{"keys": true, "blks": true, "blockreader": true}

// touches reports whether n mentions recv.keys / recv.blks / recv.blockreader, and whether it assigns
// to them (or appends / indexes on the left-hand side).
func touches(n ast.Node, recv string) (reads bool, writes bool) {
	ast.Inspect(n, func(x ast.Node) bool {
		switch v := x.(type) {
		case *ast.FuncLit:
			return false // closures are analysed separately
		case *ast.AssignStmt:
			for _, l := range v.Lhs {
				ast.Inspect(l, func(y ast.Node) bool {
					if s, ok := y.(*ast.SelectorExpr); ok {
						if id, ok := s.X.(*ast.Ident); ok && id.Name == recv && sharedFields[s.Sel.Name] {
							writes = true
						}
					}
					return true
				})
			}
		case *ast.SelectorExpr:
			if id, ok := v.X.(*ast.Ident); ok && id.Name == recv && sharedFields[v.Sel.Name] {
				reads = true
			}
		}
		return true
	})
	return
}

// walkLocked walks a statement list tracking which lock is held; it reports the weakest lock state
// under which shared fields are touched ("none" < "read" < "write"), and whether they are mutated.
func walkLocked(stmts []ast.Stmt, recv string, held string) (weakest string, touched bool, mutated bool) {
	weakest = "write"
	rank := map[string]int{"none": 0, "read": 1, "write": 2}
	note := func(h string) {
		touched = true
		if rank[h] < rank[weakest] {
			weakest = h
		}
	}
	deferred := ""
	for _, st := range stmts {
		switch v := st.(type) {
		case *ast.ExprStmt:
			switch lockCall(v.X, recv) {
			case "Lock":
				held = "write"
				continue
			case "RLock":
				held = "read"
				continue
			case "Unlock", "RUnlock":
				held = "none"
				continue
			}
		case *ast.DeferStmt:
			if k := lockCall(v.Call, recv); k == "Unlock" || k == "RUnlock" {
				deferred = k
				continue
			}
		}
		r, w := touches(st, recv)
		if r || w {
			note(held)
		}
		if w {
			mutated = true
		}
	}
	_ = deferred
	if !touched {
		weakest = held
	}
	return
}

func extractLockFacts(repo string) (*lockFacts, error) {
	f := &lockFacts{mode: map[string]string{}, touchesShared: map[string]bool{}, mutates: map[string]bool{}}
	path := filepath.Join(repo, "core/dag/blockstore/blockstore.go")
	fset := token.NewFileSet()
	file, err := parser.ParseFile(fset, path, nil, 0)
	if err != nil {
		return nil, err
	}
	found := map[string]bool{}
	for _, d := range file.Decls {
		fd, ok := d.(*ast.FuncDecl)
		if !ok || fd.Body == nil {
			continue
		}
		typ, recv := recvName(fd)
		if typ != "blockstore" {
			continue
		}
		found[fd.Name.Name] = true
		switch fd.Name.Name {
		case "Put", "Get":
			weakest, touched, mutated := walkLocked(fd.Body.List, recv, "none")
			f.mode[fd.Name.Name] = weakest
			f.touchesShared[fd.Name.Name] = touched
			f.mutates[fd.Name.Name] = mutated
		case "Iterator":
			// the method returns a closure; what matters is what the closure does when it runs
			var lit *ast.FuncLit
			ast.Inspect(fd.Body, func(x ast.Node) bool {
				if l, ok := x.(*ast.FuncLit); ok && lit == nil {
					lit = l
					return false
				}
				return true
			})
			if lit == nil {
				// no closure: the body itself does the work
				weakest, _, _ := walkLocked(fd.Body.List, recv, "none")
				f.iterMode = weakest
				f.iterOutside = weakest == "none"
				break
			}
			weakest, touched, _ := walkLocked(lit.Body.List, recv, "none")
			// nested statements (for/if bodies) inherit the state at their position: handled by
			// touches() on the whole statement above
			if !touched {
				f.iterMode, f.iterOutside = "read", false
				f.notes = append(f.notes, "iterator closure does not touch shared fields")
			} else {
				f.iterMode = weakest
				f.iterOutside = weakest == "none"
			}
		}
	}
	for _, m := range []string{"Put", "Get", "Iterator"} {
		if !found[m] {
			return nil, fmt.Errorf("method blockstore.%s not found in %s", m, path)
		}
	}
	return f, nil
}

// execAppendInsideLock: in server.Execute, is `rcpts = append(rcpts, …)` between lock.Lock() and
// lock.Unlock() of the same statement list?
func extractExecFact(repo string) (bool, error) {
	path := filepath.Join(repo, "server/server.go")
	fset := token.NewFileSet()
	file, err := parser.ParseFile(fset, path, nil, 0)
	if err != nil {
		return false, err
	}
	result, seen := true, false
	ast.Inspect(file, func(n ast.Node) bool {
		fd, ok := n.(*ast.FuncDecl)
		if !ok || fd.Name.Name != "Execute" || fd.Body == nil {
			return true
		}
		ast.Inspect(fd.Body, func(x ast.Node) bool {
			bl, ok := x.(*ast.BlockStmt)
			if !ok {
				return true
			}
			held := false
			for _, st := range bl.List {
				if es, ok := st.(*ast.ExprStmt); ok {
					if c, ok := es.X.(*ast.CallExpr); ok {
						if s, ok := c.Fun.(*ast.SelectorExpr); ok {
							if s.Sel.Name == "Lock" {
								held = true
							}
							if s.Sel.Name == "Unlock" {
								held = false
							}
						}
					}
				}
				if ds, ok := st.(*ast.DeferStmt); ok {
					if s, ok := ds.Call.Fun.(*ast.SelectorExpr); ok && s.Sel.Name == "Unlock" {
						// stays held to the end of the block
					}
				}
				if as, ok := st.(*ast.AssignStmt); ok && len(as.Lhs) == 1 {
					if id, ok := as.Lhs[0].(*ast.Ident); ok && id.Name == "rcpts" {
						if c, ok := as.Rhs[0].(*ast.CallExpr); ok {
							if fn, ok := c.Fun.(*ast.Ident); ok && fn.Name == "append" {
								seen = true
								if !held {
									result = false
								}
							}
						}
					}
				}
			}
			return true
		})
		return false
	})
	if !seen {
		return false, fmt.Errorf("no append to rcpts found in server.Execute")
	}
	return result, nil
}

func writeFacts(out string) error {
	repo := os.Getenv("VERIF_REPO")
	if repo == "" {
		repo = "/repo"
	}
	lf, err := extractLockFacts(repo)
	if err != nil {
		return err
	}
	ex, err := extractExecFact(repo)
	if err != nil {
		return err
	}
	var sb strings.Builder
	sb.WriteString("import UcantoModel.Model.Lock\n")
	sb.WriteString("/-! GENERATED on every run by `vharness -facts` from /repo's current source (go/ast). Do not edit. -/\n")
	sb.WriteString("namespace Generated\nopen Lock\n\n")
	fmt.Fprintf(&sb, "/-- lock held by `blockstore.Put` while it reads and writes `keys` / `blks` -/\ndef putLock : Mode := .%s\n", lf.mode["Put"])
	fmt.Fprintf(&sb, "def putMutates : Bool := %v\n", lf.mutates["Put"])
	fmt.Fprintf(&sb, "/-- lock held by `blockstore.Get` while it reads -/\ndef getLock : Mode := .%s\n", lf.mode["Get"])
	fmt.Fprintf(&sb, "/-- lock held by the iterator closure around its accesses to the shared fields -/\ndef iterLock : Mode := .%s\n", lf.iterMode)
	fmt.Fprintf(&sb, "/-- the iterator closure touches `keys` / `blks` while holding no lock -/\ndef iterTouchesSharedOutsideLock : Bool := %v\n", lf.iterOutside)
	fmt.Fprintf(&sb, "/-- `server.Execute` appends to the shared receipt slice between Lock and Unlock -/\ndef execAppendInsideLock : Bool := %v\n", ex)
	sb.WriteString("\ndef facts : Facts := ⟨putLock, getLock, iterLock, iterTouchesSharedOutsideLock⟩\n\nend Generated\n")
	if err := os.MkdirAll(filepath.Dir(out), 0o755); err != nil {
		return err
	}
	if err := writeConsts(filepath.Join(filepath.Dir(out), "Consts.lean")); err != nil {
		return err
	}
	// only rewrite when the content changes (keeps lake's incremental build quiet)
	if old, err := os.ReadFile(out); err == nil && string(old) == sb.String() {
		return nil
	}
	if err := os.WriteFile(out, []byte(sb.String()), 0o644); err != nil {
		return err
	}
	return nil
}

// ---- wire constants (C18) -----------------------------------------------------------------------

// constValue finds `const <name> = <literal>` (or inside a const block) in a Go file
func constValue(path, name string) (string, error) {
	fset := token.NewFileSet()
	file, err := parser.ParseFile(fset, path, nil, 0)
	if err != nil {
		return "", err
	}
	for _, d := range file.Decls {
		gd, ok := d.(*ast.GenDecl)
		if !ok || gd.Tok != token.CONST {
			continue
		}
		for _, sp := range gd.Specs {
			vs := sp.(*ast.ValueSpec)
			for i, n := range vs.Names {
				if n.Name == name && i < len(vs.Values) {
					if bl, ok := vs.Values[i].(*ast.BasicLit); ok {
						return bl.Value, nil
					}
				}
			}
		}
	}
	return "", fmt.Errorf("constant %s not found in %s", name, path)
}

func quotedIn(path, marker string) (string, error) {
	b, err := os.ReadFile(path)
	if err != nil {
		return "", err
	}
	for _, line := range strings.Split(string(b), "\n") {
		if strings.Contains(line, marker) && !strings.HasPrefix(strings.TrimSpace(line), "#") {
			i := strings.Index(line, "\"")
			j := strings.LastIndex(line, "\"")
			if i >= 0 && j > i {
				return line[i+1 : j], nil
			}
		}
	}
	return "", fmt.Errorf("no quoted string on a line containing %q in %s", marker, path)
}

func writeConsts(out string) error {
	repo := os.Getenv("VERIF_REPO")
	if repo == "" {
		repo = "/repo"
	}
	type nc struct{ lean, file, name string }
	nums := []nc{
		{"didCore", "did/did.go", "DIDCore"}, {"didEd25519", "did/did.go", "Ed25519"}, {"didRSA", "did/did.go", "RSA"},
		{"edSignerCode", "principal/ed25519/signer/signer.go", "Code"}, {"edVerifierCode", "principal/ed25519/verifier/verifier.go", "Code"},
		{"rsaSignerCode", "principal/rsa/signer/signer.go", "Code"}, {"rsaVerifierCode", "principal/rsa/verifier/verifier.go", "Code"},
		{"sigEdDSA", "ucan/crypto/signature/signature.go", "EdDSA"}, {"sigRS256", "ucan/crypto/signature/signature.go", "RS256"},
		{"sigNonStandard", "ucan/crypto/signature/signature.go", "NON_STANDARD"}, {"sigES256K", "ucan/crypto/signature/signature.go", "ES256K"},
		{"sigES256", "ucan/crypto/signature/signature.go", "ES256"}, {"sigEIP191", "ucan/crypto/signature/signature.go", "EIP191"},
	}
	var sb strings.Builder
	sb.WriteString("/-! GENERATED on every run by `vharness -consts` from /repo's current source. Do not edit. -/\nnamespace Generated\n\n")
	for _, c := range nums {
		v, err := constValue(filepath.Join(repo, c.file), c.name)
		if err != nil {
			return err
		}
		fmt.Fprintf(&sb, "def %s : Nat := %s\n", c.lean, v)
	}
	strs := []nc{{"ucanVersion", "ucan/lib.go", "version"}, {"carContentType", "core/car/car.go", "ContentType"},
		{"edAlgName", "principal/ed25519/verifier/verifier.go", "SignatureAlgorithm"}, {"rsaAlgName", "principal/rsa/verifier/verifier.go", "SignatureAlgorithm"}}
	for _, c := range strs {
		v, err := constValue(filepath.Join(repo, c.file), c.name)
		if err != nil {
			return err
		}
		fmt.Fprintf(&sb, "def %s : String := %s\n", c.lean, v)
	}
	arch, err := quotedIn(filepath.Join(repo, "core/delegation/datamodel/archive.ipldsch"), "rename")
	if err != nil {
		return err
	}
	msg, err := quotedIn(filepath.Join(repo, "core/message/datamodel/agentmessage.ipldsch"), "| Data")
	if err != nil {
		return err
	}
	typ, err := quotedIn(filepath.Join(repo, "ucan/formatter/formatter.go"), "Typ:")
	if err != nil {
		return err
	}
	fmt.Fprintf(&sb, "def archiveKey : String := %q\ndef messageKey : String := %q\ndef headerTyp : String := %q\n", arch, msg, typ)
	sb.WriteString("\nend Generated\n")
	if old, err := os.ReadFile(out); err == nil && string(old) == sb.String() {
		return nil
	}
	return os.WriteFile(out, []byte(sb.String()), 0o644)
}
