package main

// Generators of abstract worlds. Stratified: every (shape class × defect kind) receives cases by
// construction; the remainder is free random. All random choices come from one PRNG.

import (
	"fmt"
	"math/rand"
	"strings"
)

const farFuture = 100000000

type genOpts struct {
	maxDepth int
	minDepth int
	sessions bool
	// sessionPct: percentage of worlds (with depth >= 1) in which one chain principal is an account
	sessionPct int
	caveats    bool
	// caveatPct: percentage of delegations that carry restricting caveats
	caveatPct int
	kinds     []string
	// properSession: the account has no key of its own and its attestation is a proper one
	properSession bool
	// attVariant: force this attestation variant (see attestations), 0 = any
	attVariant int
	// webService: the authority is always a did:web identity wrapping the key of principal 0
	webService bool
	// webAccount: the account is a did:web whose key the principal resolver knows
	webAccount bool
	// rsaServicePct: how often (%) the service's own key is an RSA key
	rsaServicePct int
	// urlWorld: resources are hierarchical URLs read by the library's URI reader (otherwise one world in six)
	urlWorld bool
}

type wb struct {
	r *rand.Rand
	w *AWorld
	// attFirst: cite the tokens returned by attestations() before the token they stand next to
	attFirst bool
}

func (b *wb) addPrincipal(kind string, wraps int) int {
	b.w.Principals = append(b.w.Principals, APrincipal{Kind: kind, Parse: true, Wraps: wraps})
	return len(b.w.Principals) - 1
}

func (b *wb) addToken(t AToken) int {
	t.ID = len(b.w.Tokens)
	if t.Inline == nil {
		t.Inline = make([]bool, len(t.Prfs))
		for i := range t.Inline {
			t.Inline[i] = true
		}
	}
	b.w.Tokens = append(b.w.Tokens, t)
	return t.ID
}

func (b *wb) exp() *int {
	switch b.r.Intn(4) {
	case 0:
		return nil
	default:
		e := b.w.Now + farFuture + b.r.Intn(1000)
		return &e
	}
}

func (b *wb) keyPrincipal(except ...int) int {
	var c []int
	for i, p := range b.w.Principals {
		if p.Kind == "ed" || p.Kind == "rsa" {
			ok := true
			for _, e := range except {
				if e == i {
					ok = false
				}
			}
			if ok {
				c = append(c, i)
			}
		}
	}
	return c[b.r.Intn(len(c))]
}

var abilityNS = []string{"store", "upload", "space"}
var abilityVerb = []string{"add", "remove", "list"}

// pattern that grants ability `can` ("ns/verb")
func (b *wb) grantPattern(can string) string {
	switch b.r.Intn(6) {
	case 0:
		return "*"
	case 1: // the widest namespace wildcard
		for i := 0; i < len(can); i++ {
			if can[i] == '/' {
				return can[:i] + "/*"
			}
		}
	case 2: // the narrowest one (differs for abilities of three segments)
		for i := len(can) - 1; i >= 0; i-- {
			if can[i] == '/' {
				return can[:i] + "/*"
			}
		}
	}
	return can
}

func (b *wb) otherCap() ACap {
	can := abilityNS[b.r.Intn(len(abilityNS))] + "/" + abilityVerb[b.r.Intn(len(abilityVerb))]
	if b.r.Intn(3) == 0 {
		can = "other/thing"
	}
	return ACap{Can: can, With: fmt.Sprintf("@%d", b.r.Intn(len(b.w.Principals))), Nb: [][2]int{}}
}

func (b *wb) randNb(n int) [][2]int {
	nb := [][2]int{}
	for k := 1; k <= 3; k++ {
		if b.r.Intn(3) < n {
			nb = append(nb, [2]int{k, b.r.Intn(4)})
		}
	}
	return nb
}

// genWorld builds a world around one main chain owner -> ... -> invoker, then decorates it.
func genWorld(r *rand.Rand, now int, o genOpts, class *string) *AWorld {
	w := &AWorld{Now: now, CanIssue: "self", Revoked: []int{}, Resolver: []int{}, ResolveKey: [][2]int{}}
	b := &wb{r: r, w: w}
	// principals: 0 = service
	nEd := 4 + r.Intn(3)
	for i := 0; i < nEd; i++ {
		b.addPrincipal("ed", -1)
	}
	if r.Intn(4) == 0 {
		b.addPrincipal("rsa", -1)
	}
	if o.rsaServicePct > 0 && r.Intn(100) < o.rsaServicePct {
		w.Principals[0].Kind = "rsa"
	}
	w.Authority, w.AuthorityKey = 0, 0
	if r.Intn(5) == 0 || o.webService { // service identified by did:web, holding the key of principal 0
		w.Authority = b.addPrincipal("web", 0)
	}
	ns, verb := abilityNS[r.Intn(3)], abilityVerb[r.Intn(3)]
	can := ns + "/" + verb
	if r.Intn(6) == 0 { // abilities of three segments: `ns/*` still covers them
		can = ns + "/" + []string{"blob", "index"}[r.Intn(2)] + "/" + verb
	}
	w.Desc = ADesc{Can: can, With: []string{"any", "did", "libdid"}[r.Intn(3)], Derives: "default"}
	urlWorld := r.Intn(6) == 0 || o.urlWorld // resources are hierarchical URLs read by the library's URI reader; an owner table says who may issue them
	if urlWorld {
		w.Desc.With = "liburi"
	}
	if o.caveats {
		w.Desc.Derives = []string{"default", "eq", "le"}[r.Intn(3)]
	}

	depth := o.minDepth + r.Intn(o.maxDepth-o.minDepth+1)
	owner := b.keyPrincipal(w.AuthorityKey)
	resource := fmt.Sprintf("@%d", owner)
	if urlWorld {
		resource = fmt.Sprintf("@%d=", owner)
		if r.Intn(3) == 0 {
			resource = fmt.Sprintf("@%d=sub", owner)
		}
		w.CanIssue = "table"
	}
	chain := []int{owner}
	for i := 0; i < depth; i++ {
		chain = append(chain, b.keyPrincipal(w.AuthorityKey))
	}
	claimNb := [][2]int{}
	if o.caveats {
		claimNb = b.randNb(2)
		if r.Intn(8) == 0 { // a map-valued caveat: {a:1, b:2}; delegations may write {a:1}, {a:1,b:2} or {b:2}
			claimNb = append(claimNb, [2]int{4, specialBase + 5})
		}
	}
	*class = fmt.Sprintf("depth%d", depth)

	// session: one of the chain principals (not the invoker) becomes an absentee account
	sessionAt := -1
	if o.sessions && depth >= 1 && r.Intn(100) < o.sessionPct {
		sessionAt = r.Intn(depth) // chain[sessionAt] issues token sessionAt+1
		kind := "mailto"
		acct := b.addPrincipal(kind, -1)
		if o.webAccount {
			w.Principals[acct].Kind = "web"
			w.Principals[acct].Wraps = b.keyPrincipal()
			w.ResolveKey = append(w.ResolveKey, [2]int{acct, w.Principals[acct].Wraps})
		} else if r.Intn(4) == 0 && !o.properSession { // an account that also has a resolvable key
			w.Principals[acct].Kind = "web"
			w.Principals[acct].Wraps = b.keyPrincipal()
			if r.Intn(2) == 0 {
				w.ResolveKey = append(w.ResolveKey, [2]int{acct, w.Principals[acct].Wraps})
			}
		}
		chain[sessionAt] = acct
		if sessionAt == 0 {
			owner = acct
			resource = fmt.Sprintf("@%d", owner)
		}
		*class += "-session"
	}

	var prev = -1 // token id of the previous delegation
	var pendingAtt []int
	for i := 1; i <= depth; i++ {
		iss, aud := chain[i-1], chain[i]
		caps := []ACap{}
		for k := r.Intn(2); k > 0; k-- {
			caps = append(caps, b.otherCap())
		}
		with := resource
		if urlWorld {
			switch r.Intn(5) {
			case 0:
				with = "ucan:*"
			case 1:
				with = fmt.Sprintf("@%d=star", owner)
			}
		} else if i > 1 || true {
			switch r.Intn(6) {
			case 0:
				with = "ucan:*"
			case 1:
				if w.Desc.With == "any" || true {
					with = fmt.Sprintf("@%d~%d*", owner, 1+r.Intn(6))
				}
			}
		}
		if with == "ucan:*" && i == 1 {
			// the root grants its own resource through ucan:* — fine, resolved to the claimed one
		}
		nb := [][2]int{}
		if o.caveats && r.Intn(100) < o.caveatPct {
			// restricting caveats, mostly compatible with the claim
			for _, kv := range claimNb {
				if r.Intn(2) == 0 {
					v := kv[1]
					if r.Intn(4) == 0 {
						v = v + 1 - r.Intn(3)
						if v < 0 {
							v = 0
						}
					}
					if r.Intn(12) == 0 {
						v = specialBase + r.Intn(4) // written as an empty list / map / string or false
					}
					if kv[1] >= specialBase+4 && r.Intn(2) == 0 {
						v = specialBase + 4 + r.Intn(3) // another map value: a part of the claimed one, or all of it
					}
					nb = append(nb, [2]int{kv[0], v})
				}
			}
			if r.Intn(5) == 0 {
				nb = append(nb, [2]int{3, r.Intn(4)})
			}
		}
		caps = append(caps, ACap{Can: b.grantPattern(can), With: with, Nb: nb})
		for k := r.Intn(2); k > 0; k-- {
			caps = append(caps, b.otherCap())
		}
		t := AToken{Iss: iss, Aud: aud, Caps: caps, Exp: b.exp(), Signer: iss, Intact: true, AlgOk: true}
		if w.Principals[iss].Kind == "web" && w.Principals[iss].Wraps >= 0 {
			t.Signer = w.Principals[iss].Wraps
		} else if !isKeyKind(w.Principals[iss].Kind) {
			t.Signer = -1
			t.AlgOk = false
		}
		if prev >= 0 {
			t.Prfs = []int{prev}
			t.Prfs = append(t.Prfs, pendingAtt...)
			if b.attFirst {
				t.Prfs = append(append([]int{}, pendingAtt...), prev)
				b.attFirst = false
			}
			pendingAtt = nil
			t.Inline = make([]bool, len(t.Prfs))
			for k := range t.Inline {
				t.Inline[k] = true
			}
			if r.Intn(5) == 0 {
				t.Inline[0] = false
				if r.Intn(4) != 0 {
					w.Resolver = append(w.Resolver, prev)
				}
			}
		}
		id := b.addToken(t)
		if i-1 == sessionAt {
			// attestation(s) for token id, to be cited next to it
			if o.properSession {
				pendingAtt = []int{b.addToken(AToken{Iss: w.Authority, Aud: aud, Caps: []ACap{{Can: "ucan/attest", With: fmt.Sprintf("@%d", w.Authority), Nb: [][2]int{{0, id}}}}, Exp: b.exp(), Signer: w.AuthorityKey, Intact: true, AlgOk: true})}
			} else {
				pendingAtt = b.attestations(id, aud, o.attVariant)
			}
		}
		prev = id
	}
	// the invocation
	invIss := chain[depth]
	inv := AToken{Iss: invIss, Aud: w.Authority, Caps: []ACap{{Can: can, With: resource, Nb: claimNb}}, Exp: b.exp(), Signer: invIss, Intact: true, AlgOk: true}
	if !isKeyKind(w.Principals[invIss].Kind) {
		if w.Principals[invIss].Wraps >= 0 {
			inv.Signer = w.Principals[invIss].Wraps
		} else {
			inv.Signer = -1
			inv.AlgOk = false
		}
	}
	if prev >= 0 {
		inv.Prfs = []int{prev}
		inv.Prfs = append(inv.Prfs, pendingAtt...)
		if b.attFirst {
			inv.Prfs = append(append([]int{}, pendingAtt...), prev)
			b.attFirst = false
		}
		inv.Inline = make([]bool, len(inv.Prfs))
		for k := range inv.Inline {
			inv.Inline[k] = true
		}
		if r.Intn(6) == 0 {
			inv.Inline[0] = false
			if r.Intn(4) != 0 {
				w.Resolver = append(w.Resolver, prev)
			}
		}
	}
	w.Inv = b.addToken(inv)
	if urlWorld {
		// who owns the URL resources: the root issuer, for every spelling the chain uses that the root could grant
		w.Table = []ATableRow{{With: fmt.Sprintf("@%d=", owner), P: owner}, {With: fmt.Sprintf("@%d=sub", owner), P: owner}}
		if strings.HasPrefix(resource, "@") && !strings.HasSuffix(resource, "=") && !strings.HasSuffix(resource, "=sub") {
			w.Table = append(w.Table, ATableRow{With: resource, P: owner})
		}
	}
	return w
}

func isKeyKind(k string) bool { return k == "ed" || k == "rsa" }

// attestations for token `id` presented by `holder`: returns token ids to cite as siblings.
func (b *wb) attestations(id int, holder int, force int) []int {
	w, r := b.w, b.r
	authDid := fmt.Sprintf("@%d", w.Authority)
	mk := func(iss, signer, aud int, with string, nb [][2]int, prfs []int) int {
		return b.addToken(AToken{Iss: iss, Aud: aud, Caps: []ACap{{Can: "ucan/attest", With: with, Nb: nb}}, Prfs: prfs, Exp: b.exp(), Signer: signer, Intact: true, AlgOk: true})
	}
	var out []int
	variant := r.Intn(16)
	if force > 0 {
		variant = force
	} else if variant == 15 {
		variant = 8 // variant 15 is produced only when asked for (dedicated strata); drawn at random it is a proper attestation, as before
	}
	switch variant {
	case 10: // proper, but addressed to somebody else (it is not the citing token's own proof)
		out = append(out, mk(w.Authority, w.AuthorityKey, b.keyPrincipal(holder), authDid, [][2]int{{0, id}}, nil))
	case 11: // one token attesting two things; the relevant capability is not the first
		a := mk(w.Authority, w.AuthorityKey, holder, authDid, [][2]int{{0, 900 + r.Intn(5)}}, nil)
		w.Tokens[a].Caps = append(w.Tokens[a].Caps, ACap{Can: "ucan/attest", With: authDid, Nb: [][2]int{{0, id}}})
		out = append(out, a)
	case 12: // the attestation is the second capability after something else: not a session proof
		a := mk(w.Authority, w.AuthorityKey, holder, authDid, [][2]int{{0, id}}, nil)
		w.Tokens[a].Caps = append([]ACap{{Can: "other/thing", With: authDid, Nb: [][2]int{}}}, w.Tokens[a].Caps...)
		out = append(out, a)
	case 14: // no attestation for this token, but a properly attested delegation of ANOTHER account next to it,
		// listed first: its attestation must not vouch for this one
		acct2 := b.addPrincipal("mailto", -1)
		d1 := b.addToken(AToken{Iss: acct2, Aud: holder, Caps: []ACap{{Can: "other/thing", With: fmt.Sprintf("@%d", acct2), Nb: [][2]int{}}}, Exp: b.exp(), Signer: -1, Intact: true, AlgOk: false})
		out = append(out, d1, mk(w.Authority, w.AuthorityKey, holder, authDid, [][2]int{{0, d1}}, nil))
		b.attFirst = true
	case 17: // a proper attestation that is never valid yet: not-before within a few years of the largest value
		a := mk(w.Authority, w.AuthorityKey, holder, authDid, [][2]int{{0, id}}, nil)
		w.Tokens[a].Nbf = 1<<63 - 1 - r.Intn(3)*31536000*40
		w.Tokens[a].Exp = nil
		out = append(out, a)
	case 16: // issued by the service's bare key, on that key's did:key: for a did:web service another principal and another resource
		out = append(out, mk(w.AuthorityKey, w.AuthorityKey, holder, fmt.Sprintf("@%d", w.AuthorityKey), [][2]int{{0, id}}, nil))
	case 15: // an expired attestation by the authority first, then a stranger's attestation of this very token
		a := mk(w.Authority, w.AuthorityKey, holder, authDid, [][2]int{{0, id}}, nil)
		e := w.Now - farFuture
		w.Tokens[a].Exp = &e
		s := b.keyPrincipal(w.AuthorityKey)
		out = append(out, a, mk(s, s, holder, authDid, [][2]int{{0, id}}, nil))
		b.attFirst = true
	case 13: // the authority's DID in other letter case: another string, not the authority
		out = append(out, mk(w.Authority, w.AuthorityKey, holder, authDid+"^", [][2]int{{0, id}}, nil))
	case 0: // none
	case 1: // for another token
		out = append(out, mk(w.Authority, w.AuthorityKey, holder, authDid, [][2]int{{0, 900 + r.Intn(5)}}, nil))
	case 2: // from a stranger
		s := b.keyPrincipal(w.AuthorityKey)
		out = append(out, mk(s, s, holder, authDid, [][2]int{{0, id}}, nil))
	case 3: // on another resource
		o := b.keyPrincipal()
		out = append(out, mk(w.Authority, w.AuthorityKey, holder, fmt.Sprintf("@%d", o), [][2]int{{0, id}}, nil))
	case 4: // re-delegated: authority -> worker (any proof) -> attests
		wk := b.keyPrincipal(w.AuthorityKey)
		var pnb [][2]int
		pick := r.Intn(3)
		if force == 4 {
			pick = r.Intn(2) // when the variant is asked for, the worker's grant covers this proof
		}
		switch pick {
		case 0:
			pnb = [][2]int{}
		case 1:
			pnb = [][2]int{{0, id}}
		default:
			pnb = [][2]int{{0, 900 + r.Intn(5)}} // worker may only attest something else
		}
		root := mk(w.Authority, w.AuthorityKey, wk, authDid, pnb, nil)
		out = append(out, mk(wk, wk, holder, authDid, [][2]int{{0, id}}, []int{root}))
	case 5: // wrong one next to the right one
		out = append(out, mk(w.Authority, w.AuthorityKey, holder, authDid, [][2]int{{0, 900}}, nil))
		out = append(out, mk(w.Authority, w.AuthorityKey, holder, authDid, [][2]int{{0, id}}, nil))
	case 6: // malformed caveats
		out = append(out, mk(w.Authority, w.AuthorityKey, holder, authDid, [][2]int{{0, id}, {1, 1}}, nil))
	case 7: // expired attestation
		a := mk(w.Authority, w.AuthorityKey, holder, authDid, [][2]int{{0, id}}, nil)
		e := w.Now - farFuture
		w.Tokens[a].Exp = &e
		out = append(out, a)
	default: // proper
		out = append(out, mk(w.Authority, w.AuthorityKey, holder, authDid, [][2]int{{0, id}}, nil))
	}
	return out
}

// ---- defects and decorations ------------------------------------------------------------------

const specialBase = 1000 // caveat values 1000.. are written as empty list, empty map, empty string, false, {a:1}, {a:1,b:2}, {b:2}

var defectKinds = []string{"nearmiss", "twincap", "tamper-wrapped", "didurl", "case", "misaligned2", "urlnear", "none", "wrongkey", "tamper", "aud", "resource", "ability", "nonowner", "expired", "tooearly", "algcode", "revoke", "missing", "policy", "decoys", "permute", "nbf-ok", "dup", "parsefail", "deadend"}

func applyDefect(r *rand.Rand, w *AWorld, kind string) {
	n := len(w.Tokens)
	ti := r.Intn(n)
	t := &w.Tokens[ti]
	b := &wb{r: r, w: w}
	switch kind {
	case "wrongkey":
		t.Signer = b.keyPrincipal(t.Signer)
	case "tamper":
		t.Intact = false
		t.Tamper = []string{"aud", "exp", "with", "can", "nb", "prf", "nbf", "v"}[r.Intn(8)]
	case "tamper-wrapped":
		// alter, after signing, a token whose issuer is verified through a wrapped verifier: an account
		// with a resolvable key, or the service (its attestations)
		var cands []int
		for i, x := range w.Tokens {
			if (!isKeyKind(w.Principals[x.Iss].Kind) && x.Signer >= 0) || x.Iss == w.Authority {
				cands = append(cands, i)
			}
		}
		if len(cands) > 0 {
			x := &w.Tokens[cands[r.Intn(len(cands))]]
			x.Intact = false
			x.Tamper = []string{"aud", "exp", "with", "can", "nb", "v"}[r.Intn(6)]
		}
	case "wrongkey-account":
		// the account's token is signed by another key than the one the resolver names
		for i := range w.Tokens {
			x := &w.Tokens[i]
			if !isKeyKind(w.Principals[x.Iss].Kind) && x.Signer >= 0 {
				x.Signer = b.keyPrincipal(x.Signer)
				break
			}
		}
	case "aud":
		t.Aud = r.Intn(len(w.Principals))
	case "resource":
		if len(t.Caps) > 0 {
			c := &t.Caps[r.Intn(len(t.Caps))]
			c.With = fmt.Sprintf("@%d", r.Intn(len(w.Principals)))
		}
	case "ucanscoped":
		// a resource that merely resembles the proof wildcard `ucan:*`
		if len(t.Caps) > 0 {
			c := &t.Caps[r.Intn(len(t.Caps))]
			c.With = []string{"ucan:./*", "ucan://x/*", "ucan:abc*", "ucan:*/", "ucan:**", "ucan:", "UCAN:*", "ucan:*x", "ucan:/*", "xucan:*"}[r.Intn(10)]
		}
	case "urlnear":
		// a URL that differs from the granted / claimed one only in host case, a trailing slash or an escape
		if len(t.Caps) > 0 {
			c := &t.Caps[r.Intn(len(t.Caps))]
			if strings.HasPrefix(c.With, "@") && strings.HasSuffix(c.With, "=") {
				c.With += []string{"lower", "noslash", "unescaped"}[r.Intn(3)]
			}
		}
	case "didurl":
		if w.Desc.With == "liburi" {
			break
		}
		// the same DID followed by a fragment, path or query, or with its scheme in upper case: other resources
		if len(t.Caps) > 0 {
			c := &t.Caps[r.Intn(len(t.Caps))]
			if len(c.With) > 1 && c.With[0] == '@' && !strings.ContainsAny(c.With, "~^#/?!") {
				c.With += []string{"#key-1", "/private", "?x=1", "#", "!", "/"}[r.Intn(6)]
			}
		}
	case "ability":
		if len(t.Caps) > 0 {
			c := &t.Caps[r.Intn(len(t.Caps))]
			c.Can = []string{"store/add", "store/*", "storefront/add", "upload/*", "*", "Store/add", "store/ad", "space/list"}[r.Intn(8)]
		}
	case "case":
		// the same ability or resource in other letter case is another ability / resource
		if len(t.Caps) > 0 {
			c := &t.Caps[r.Intn(len(t.Caps))]
			if r.Intn(2) == 0 && len(c.Can) > 0 {
				c.Can = swapCase(c.Can[:1]) + c.Can[1:]
				if r.Intn(2) == 0 {
					c.Can = swapCase(c.Can)
				}
			} else if len(c.With) > 0 && c.With[0] == '@' && c.With[len(c.With)-1] != '*' && w.Desc.With != "liburi" && !strings.Contains(c.With, "=") {
				c.With += "^"
			}
		}
	case "nearmiss":
		// a wildcard over a namespace that is a proper prefix of the claimed one: `sto/*` for `store/add`
		if len(t.Caps) > 0 {
			claimed := w.Tokens[w.Inv].Caps[0].Can
			k := 0
			for k < len(claimed) && claimed[k] != '/' {
				k++
			}
			if k > 1 {
				c := &t.Caps[r.Intn(len(t.Caps))]
				c.Can = claimed[:1+r.Intn(k-1)] + "/*"
			}
		}
	case "twincap":
		// before a capability, a twin with the same ability and resource whose caveats do not fit the claim
		inv := &w.Tokens[w.Inv]
		if len(inv.Caps) > 0 && len(t.Caps) > 0 && ti != w.Inv {
			v := 2
			if x, ok := nbGet(inv.Caps[0].Nb, 1); ok {
				v = x
			} else {
				inv.Caps[0].Nb = append(inv.Caps[0].Nb, [2]int{1, v})
			}
			w.Desc.Derives = "eq"
			k := r.Intn(len(t.Caps))
			twin := ACap{Can: t.Caps[k].Can, With: t.Caps[k].With, Nb: [][2]int{{1, v + 5}}}
			t.Caps = append(t.Caps[:k], append([]ACap{twin}, t.Caps[k:]...)...)
		}
	case "twinwide":
		// before a capability of an intermediate token, a twin that covers the claim just as well (ability `*`,
		// same resource and caveats) but asks its own proofs for more than they grant: the branch through the
		// twin fails one level up, the search has to go on with the next capability of the same token
		// (every intermediate token gets one, in front of all its capabilities, on the claimed resource: the
		// twins form a chain of their own that ends at the root, which does not grant `*`)
		if inv := w.Tokens[w.Inv]; len(inv.Caps) > 0 {
			for i := range w.Tokens {
				x := &w.Tokens[i]
				if i != w.Inv && len(x.Prfs) > 0 && len(x.Caps) > 0 && x.Caps[0].Can != "ucan/attest" {
					twin := ACap{Can: "*", With: inv.Caps[0].With, Nb: append([][2]int(nil), inv.Caps[0].Nb...)}
					x.Caps = append([]ACap{twin}, x.Caps...)
				}
			}
		}
	case "nonowner":
		// the root of the chain is issued by somebody who does not own the resource
		for i := range w.Tokens {
			if len(w.Tokens[i].Prfs) == 0 && i != w.Inv {
				k := b.keyPrincipal(w.Tokens[i].Iss)
				w.Tokens[i].Iss, w.Tokens[i].Signer = k, k
				break
			}
		}
	case "expired":
		e := w.Now - farFuture
		if r.Intn(4) == 0 {
			e = 0 // the epoch itself
		}
		t.Exp = &e
	case "tooearly":
		t.Nbf = w.Now + farFuture
	case "nbf-ok":
		t.Nbf = w.Now - farFuture
		t.Nonce = fmt.Sprintf("n%d", r.Intn(100))
	case "algcode":
		t.AlgOk = false
	case "revoke":
		w.Revoked = append(w.Revoked, ti)
	case "revoke-att":
		// the attestation of a session (issued by the service itself) is revoked
		for i, x := range w.Tokens {
			if len(x.Caps) > 0 && x.Caps[0].Can == "ucan/attest" {
				w.Revoked = append(w.Revoked, i)
				break
			}
		}
	case "missing":
		if len(t.Prfs) > 0 {
			k := r.Intn(len(t.Prfs))
			t.Inline[k] = false
			// and make sure the resolver does not know it
			var keep []int
			for _, x := range w.Resolver {
				if x != t.Prfs[k] {
					keep = append(keep, x)
				}
			}
			w.Resolver = keep
			if w.Resolver == nil {
				w.Resolver = []int{}
			}
		}
	case "policy":
		switch r.Intn(3) {
		case 0:
			w.CanIssue = "never"
		case 1:
			w.CanIssue = "authorityAll"
		default:
			w.CanIssue = "table"
			w.Table = []ATableRow{{With: w.Tokens[w.Inv].Caps[0].With, P: r.Intn(len(w.Principals))}}
		}
	case "parsefail":
		p := t.Iss
		if w.Principals[p].Key {
			w.Principals[p].Parse = false
		}
	case "dup":
		if len(t.Prfs) > 0 {
			k := r.Intn(len(t.Prfs))
			t.Prfs = append(t.Prfs, t.Prfs[k])
			t.Inline = append(t.Inline, t.Inline[k])
			if r.Intn(2) == 0 && t.Inline[k] {
				// the first citation by link only, the later one embedded
				t.Inline[k] = false
				if t.Prfs[k] >= 0 && t.Prfs[k] < len(w.Tokens) && len(w.Tokens[t.Prfs[k]].Prfs) > 0 {
					// ... or rather: as a copy that carries its root block but none of its own proofs
					t.Bare = make([]bool, len(t.Prfs))
					t.Bare[k] = true
				}
			}
		}
	case "permute":
		for i := range w.Tokens {
			tt := &w.Tokens[i]
			r.Shuffle(len(tt.Prfs), func(a, b int) {
				tt.Prfs[a], tt.Prfs[b] = tt.Prfs[b], tt.Prfs[a]
				tt.Inline[a], tt.Inline[b] = tt.Inline[b], tt.Inline[a]
			})
			if i != w.Inv {
				r.Shuffle(len(tt.Caps), func(a, b int) { tt.Caps[a], tt.Caps[b] = tt.Caps[b], tt.Caps[a] })
			}
		}
	case "emptyattach":
		// blocks of no bytes travel with one of the tokens (the invocation, a proof or a decoy)
		addDecoys(r, w)
		w.Tokens[r.Intn(len(w.Tokens))].EmptyAttach = true
	case "decoys":
		addDecoys(r, w)
	case "deadend":
		addDeadEnd(r, w)
	case "misaligned2":
		// two (or three) copies of a real proof addressed to somebody else, cited next to it: none of them
		// may stand in for a proof delegated to the citing token's issuer
		var hosts []int
		for i := range w.Tokens {
			if len(w.Tokens[i].Prfs) > 0 {
				hosts = append(hosts, i)
			}
		}
		if len(hosts) > 0 {
			h := hosts[r.Intn(len(hosts))]
			real := w.Tokens[h].Prfs[r.Intn(len(w.Tokens[h].Prfs))]
			if real >= 0 && real < len(w.Tokens) {
				// the real proof itself becomes misaddressed in half of the cases: then no chain exists
				if r.Intn(2) == 0 {
					w.Tokens[real].Aud = b.keyPrincipal(w.Tokens[real].Aud, w.Tokens[h].Iss)
				}
				for k := 2 + r.Intn(2); k > 0; k-- {
					c := w.Tokens[real]
					c.Caps = append([]ACap(nil), c.Caps...)
					c.Prfs = append([]int(nil), c.Prfs...)
					c.Inline = append([]bool(nil), c.Inline...)
					c.Aud = b.keyPrincipal(w.Tokens[h].Iss)
					c.Nonce = fmt.Sprintf("mis%d", k)
					id := b.addToken(c)
					ht := &w.Tokens[h]
					ht.Prfs = append(ht.Prfs, id)
					ht.Inline = append(ht.Inline, true)
				}
				renumber(w)
			}
		}
	case "deadend-revoke":
		// a dead end in front of a proof, and something of the world revoked (often the proof behind it)
		addDeadEnd(r, w)
		w.Revoked = append(w.Revoked, r.Intn(len(w.Tokens)))
	}
}

// addDeadEnd puts, in front of a real proof of some token, a perfectly valid delegation of the same
// capability that leads nowhere: its issuer does not own the resource and either has no proofs or only
// an expired one. The search must go on to the next proof after this branch fails one level deeper.
func addDeadEnd(r *rand.Rand, w *AWorld) {
	var hosts []int
	for i := range w.Tokens {
		for _, p := range w.Tokens[i].Prfs {
			if p >= 0 && p < len(w.Tokens) && len(w.Tokens[p].Caps) > 0 && w.Tokens[p].Caps[0].Can != "ucan/attest" {
				hosts = append(hosts, i)
				break
			}
		}
	}
	if len(hosts) == 0 {
		return
	}
	b := &wb{r: r, w: w}
	h := hosts[r.Intn(len(hosts))]
	var real []int
	for _, p := range w.Tokens[h].Prfs {
		if p >= 0 && p < len(w.Tokens) && len(w.Tokens[p].Caps) > 0 && w.Tokens[p].Caps[0].Can != "ucan/attest" {
			real = append(real, p)
		}
	}
	src := w.Tokens[real[r.Intn(len(real))]]
	x := b.keyPrincipal(src.Iss, w.Tokens[h].Iss)
	if len(src.Prfs) > 0 && isKeyKind(w.Principals[src.Iss].Kind) && r.Intn(3) == 0 {
		// the same issuer grants the same capability twice; the first grant has nothing behind it
		x = src.Iss
	}
	d := AToken{Iss: x, Aud: w.Tokens[h].Iss, Signer: x, Intact: true, AlgOk: true, Caps: append([]ACap(nil), src.Caps...), Exp: b.exp(), Nonce: fmt.Sprintf("deadend%d", r.Intn(1000))}
	if r.Intn(2) == 0 {
		// one level more: the dead end cites an expired grant
		e := w.Now - farFuture
		y := b.keyPrincipal(x)
		deeper := AToken{Iss: y, Aud: x, Signer: y, Intact: true, AlgOk: true, Caps: append([]ACap(nil), src.Caps...), Exp: &e, Nonce: "deeper"}
		did := b.addToken(deeper)
		d.Prfs, d.Inline = []int{did}, []bool{true}
	}
	id := b.addToken(d)
	ht := &w.Tokens[h]
	pos := 0
	if r.Intn(4) == 0 {
		pos = r.Intn(len(ht.Prfs) + 1)
	}
	ht.Prfs = append(ht.Prfs[:pos], append([]int{id}, ht.Prfs[pos:]...)...)
	ht.Inline = append(ht.Inline[:pos], append([]bool{true}, ht.Inline[pos:]...)...)
	renumber(w)
}

// renumber restores "proofs have smaller ids than the token citing them" after tokens were appended out
// of order, rewriting every reference to a token id.
func renumber(w *AWorld) {
	n := len(w.Tokens)
	newID := make([]int, n)
	for i := range newID {
		newID[i] = -1
	}
	next := 0
	var visit func(i int)
	visit = func(i int) {
		if newID[i] >= 0 || newID[i] == -2 {
			return
		}
		newID[i] = -2
		for _, p := range w.Tokens[i].Prfs {
			if p >= 0 && p < n {
				visit(p)
			}
		}
		// attestation caveats name the token they attest: keep those before as well when possible
		newID[i] = next
		next++
	}
	// the invocation(s) last
	last := map[int]bool{w.Inv: true}
	for _, i := range w.Invs {
		last[i] = true
	}
	for i := 0; i < n; i++ {
		if !last[i] {
			visit(i)
		}
	}
	for i := 0; i < n; i++ {
		visit(i)
	}
	mp := func(x int) int {
		if x >= 0 && x < n {
			return newID[x]
		}
		return x
	}
	out := make([]AToken, n)
	for i, t := range w.Tokens {
		t.ID = newID[i]
		t.Prfs = append([]int(nil), t.Prfs...)
		for k := range t.Prfs {
			t.Prfs[k] = mp(t.Prfs[k])
		}
		t.Caps = append([]ACap(nil), t.Caps...)
		for c := range t.Caps {
			nb := append([][2]int(nil), t.Caps[c].Nb...)
			for k := range nb {
				if nb[k][0] == 0 {
					nb[k][1] = mp(nb[k][1])
				}
			}
			t.Caps[c].Nb = nb
		}
		out[newID[i]] = t
	}
	w.Tokens = out
	w.Inv = mp(w.Inv)
	for k := range w.Invs {
		w.Invs[k] = mp(w.Invs[k])
	}
	for k := range w.Resolver {
		w.Resolver[k] = mp(w.Resolver[k])
	}
	for k := range w.Revoked {
		w.Revoked[k] = mp(w.Revoked[k])
	}
}

// addDecoys inserts, before the invocation, sibling proofs that must not disturb a valid chain:
// expired / badly signed / misaligned / unknown-ability copies of real proofs and dangling links.
// Token ids must stay topologically ordered, so decoys are appended and the invocation is moved to
// the end.
func addDecoys(r *rand.Rand, w *AWorld) {
	inv := w.Tokens[w.Inv]
	w.Tokens = w.Tokens[:w.Inv] // invocation was last
	b := &wb{r: r, w: w}
	host := &inv
	nd := 1 + r.Intn(3)
	for k := 0; k < nd; k++ {
		var src AToken
		var real []int
		for _, p := range host.Prfs {
			if p >= 0 && p < len(w.Tokens) {
				real = append(real, p)
			}
		}
		if len(real) > 0 {
			src = w.Tokens[real[r.Intn(len(real))]]
		} else {
			src = AToken{Iss: b.keyPrincipal(), Aud: host.Iss, Caps: []ACap{b.otherCap()}, Signer: 0, Intact: true, AlgOk: true}
			src.Signer = src.Iss
		}
		d := src
		d.Caps = append([]ACap(nil), src.Caps...)
		d.Prfs = append([]int(nil), src.Prfs...)
		d.Inline = append([]bool(nil), src.Inline...)
		d.Nonce = fmt.Sprintf("decoy%d", k)
		switch r.Intn(5) {
		case 0:
			e := w.Now - farFuture
			d.Exp = &e
		case 1:
			d.Signer = b.keyPrincipal(d.Signer)
		case 2:
			d.Aud = b.keyPrincipal(d.Aud)
		case 3:
			for i := range d.Caps {
				d.Caps[i].Can = "other/thing"
			}
		case 4:
			// a second, equally valid copy (different nonce => different link)
		}
		id := b.addToken(d)
		pos := r.Intn(len(host.Prfs) + 1)
		host.Prfs = append(host.Prfs[:pos], append([]int{id}, host.Prfs[pos:]...)...)
		host.Inline = append(host.Inline[:pos], append([]bool{r.Intn(4) != 0}, host.Inline[pos:]...)...)
		if !host.Inline[pos] && r.Intn(2) == 0 {
			w.Resolver = append(w.Resolver, id)
		}
	}
	if r.Intn(3) == 0 { // a dangling link
		host.Prfs = append(host.Prfs, 5000+r.Intn(10))
		host.Inline = append(host.Inline, false)
	}
	inv.ID = len(w.Tokens)
	w.Tokens = append(w.Tokens, inv)
	w.Inv = inv.ID
}

// genWorlds emits n worlds, stratified over defect kind (o.kinds, round robin) and random depth.
func genWorlds(cfg Config, n int, o genOpts, emit func(w *AWorld, class string)) {
	kinds := o.kinds
	if kinds == nil {
		kinds = defectKinds
	}
	if o.sessionPct == 0 {
		o.sessionPct = 40
	}
	if o.caveatPct == 0 {
		o.caveatPct = 33
	}
	for i := 0; i < n; i++ {
		var class string
		w := genWorld(cfg.Rng, nowUnix(), o, &class)
		kind := kinds[i%len(kinds)]
		applyDefect(cfg.Rng, w, kind)
		if cfg.Rng.Intn(4) == 0 {
			k2 := kinds[cfg.Rng.Intn(len(kinds))]
			applyDefect(cfg.Rng, w, k2)
			kind += "+" + k2
		}
		normalize(w)
		emit(w, class+"/"+kind)
	}
}

// normalize makes the abstract world well-formed as an *input*: caveat maps have unique, sorted
// keys; no two tokens are byte-identical (they would be one and the same link).
func normalize(w *AWorld) {
	seen := map[string]bool{}
	for i := range w.Tokens {
		t := &w.Tokens[i]
		for j := range t.Caps {
			m := map[int]int{}
			for _, kv := range t.Caps[j].Nb {
				m[kv[0]] = kv[1]
			}
			nb := [][2]int{}
			for k := 0; k < 16; k++ {
				if v, ok := m[k]; ok {
					nb = append(nb, [2]int{k, v})
				}
			}
			t.Caps[j].Nb = nb
		}
		// what decides a token's link: its fields, not what is attached to it or how it embeds its proofs
		id, ea, pa, il, br := t.ID, t.EmptyAttach, t.PreAttach, t.Inline, t.Bare
		t.ID, t.EmptyAttach, t.PreAttach, t.Inline, t.Bare = 0, false, 0, nil, nil
		key := mustJSON(t)
		t.ID, t.EmptyAttach, t.PreAttach, t.Inline, t.Bare = id, ea, pa, il, br
		if seen[key] {
			t.Nonce = fmt.Sprintf("u%d", id)
		}
		seen[key] = true
	}
}
