package main

// issuealias: an issued token is a value. What the issuer does afterwards with the maps and slices it
// handed to delegation.Delegate / invocation.Invoke (facts, proofs, capabilities) must not change what
// the token reports, nor whether its signature verifies.
// args = [key, how: delegate|invoke]

import (
	"bytes"
	"fmt"
	"io"
	"sort"

	"github.com/ipld/go-ipld-prime/datamodel"
	"github.com/ipld/go-ipld-prime/node/basicnode"
	"github.com/storacha/go-ucanto/core/delegation"
	"github.com/storacha/go-ucanto/core/invocation"
	"github.com/storacha/go-ucanto/ucan"
)

func init() {
	execs["issuealias"] = guard(execIssueAlias)
}

// heldFacts hands out the very map the caller keeps
type heldFacts struct{ m map[string]datamodel.Node }

func (h heldFacts) ToIPLD() (map[string]datamodel.Node, error) { return h.m, nil }

func genIssueAlias(emit Emit) {
	for _, k := range []string{"ed0", "ed3", "rsa0", "wrap2", "wrapU1", "wrapR1"} {
		for _, how := range []string{"delegate", "invoke"} {
			emit("issuealias", []string{k, how}, "issuer-reuses-its-inputs/"+how, true)
		}
	}
}

func factsString(fs []ucan.Fact) string {
	var out []string
	for _, f := range fs {
		var ks []string
		for k, v := range f {
			s := fmt.Sprintf("%v", v)
			if n, ok := v.(datamodel.Node); ok {
				s = fmt.Sprintf("%x", nodeBytes(n))
			}
			ks = append(ks, k+"="+s)
		}
		sort.Strings(ks)
		out = append(out, fmt.Sprint(ks))
	}
	return fmt.Sprint(out)
}

func execIssueAlias(a []string) Result {
	pools()
	sg, err := pickSigner(a[0])
	if err != nil {
		return Result{Impl: "skip:key"}
	}
	aud := edPool[13]
	f1 := map[string]datamodel.Node{"origin": basicnode.NewString("a"), "link": basicnode.NewInt(1)}
	f2 := map[string]datamodel.Node{"z": basicnode.NewBool(true)}
	facts := []ucan.FactBuilder{heldFacts{f1}, heldFacts{f2}}
	prfs := delegation.Proofs{delegation.FromLink(dummyLink(1)), delegation.FromLink(dummyLink(2))}
	caps := []ucan.Capability[NbMap]{
		ucan.NewCapability("store/add", sg.DID().String(), NbMap{F: map[string]any{"f1": int64(1)}}),
		ucan.NewCapability("store/list", sg.DID().String(), NbMap{F: map[string]any{}}),
	}
	opts := []delegation.Option{delegation.WithFacts(facts), delegation.WithProof(prfs...), delegation.WithNoExpiration(), delegation.WithNonce("alias")}
	var d delegation.Delegation
	if a[1] == "invoke" {
		d, err = invocation.Invoke(sg, aud, caps[0], opts...)
	} else {
		d, err = delegation.Delegate(sg, aud, caps, opts...)
	}
	if err != nil {
		return Result{Impl: "skip:" + err.Error()}
	}
	describe := func(x delegation.Delegation) (out string) {
		defer func() {
			if r := recover(); r != nil {
				out = fmt.Sprintf("unreadable (%v)", r)
			}
		}()
		var pl, cs []string
		for _, l := range x.Proofs() {
			pl = append(pl, l.String())
		}
		for _, c := range x.Capabilities() {
			nb, _ := c.Nb().(datamodel.Node)
			cs = append(cs, fmt.Sprintf("%s %s %x", c.Can(), c.With(), nodeBytes(nb)))
		}
		return fmt.Sprint(factsString(x.Facts()), pl, cs, x.Nonce())
	}
	before := describe(d)
	ar1, _ := io.ReadAll(d.Archive())
	// the issuer goes on using its own data
	delete(f1, "origin")
	f1["link"] = basicnode.NewInt(2)
	f1["added"] = basicnode.NewString("later")
	f2["z"] = basicnode.NewBool(false)
	facts[0], facts[1] = facts[1], heldFacts{map[string]datamodel.Node{}}
	prfs[0], prfs[1] = delegation.FromLink(dummyLink(7)), delegation.FromLink(dummyLink(8))
	caps[0] = ucan.NewCapability("other/thing", "did:key:z6MkExample", NbMap{F: map[string]any{}})
	caps[1] = caps[0]
	var bad []string
	func() {
		defer func() {
			if r := recover(); r != nil {
				bad = append(bad, fmt.Sprintf("verifying the token panics after its issuer changed the maps it had passed as facts (%v)", r))
			}
		}()
		if ok, verr := ucan.VerifySignature(d.Data(), sg.Verifier()); !ok || verr != nil {
			bad = append(bad, "the token no longer verifies after its issuer changed the maps it had passed as facts")
		}
	}()
	if after := describe(d); after != before {
		bad = append(bad, "the token reports other facts / proofs / capabilities after its issuer changed the values it had passed: "+after+" (issued: "+before+")")
	}
	if ar2, _ := io.ReadAll(d.Archive()); !bytes.Equal(ar1, ar2) {
		bad = append(bad, "the token archives to other bytes")
	}
	if x, err := delegation.Extract(ar1); err != nil || describe(x) != before {
		bad = append(bad, "the archive written at issuance reads back as another token than the one issued")
	}
	if len(bad) > 0 {
		return Result{Impl: "changed", Oracle: "fail:" + bad[0]}
	}
	return Result{Impl: "same", Oracle: "ok"}
}
