"""Known-findings matcher.  known_findings.json is committed and never written at run time.
An entry {property, id, status: known|fixed, signature, what}: only status == "known" entries can
match; the signature is interpreted by the per-property function below and has to match the specific
failing case, so that any *other* violation of the same property is still reported."""


def match(prop, case, why, findings):
    for f in findings:
        if f.get("property") != prop or f.get("status") != "known":
            continue
        fn = MATCHERS.get(f["id"])
        if fn and fn(case, why, f):
            return f["id"]
    return None


MATCHERS = {}
