"""Known-findings matcher.  known_findings.json is committed and never written at run time.
An entry {property, id, status: known|fixed, signature, what}: only status == "known" entries can
match; the signature is interpreted by the per-property function below and has to match the specific
failing case, so that any *other* violation of the same property is still reported."""


def match(prop, case, why, findings):
    for f in findings:
        if f.get("property") != prop or f.get("status") != "known":
            continue
        fn = MATCHERS.get(f["id"])
        if fn and fn(case, why, f):
            return f["id"]
    return None


import re


def _c19_f1(case, why, f):
    """C19/F1: the documented un-memoised enumeration: the implementation performs exactly as many
    signature verifications as the model's exhaustive search (count == model count) and that number
    exceeds n^2. More verifications than the model's count is a different violation (C19-excess)."""
    m = re.search(r"C19-bound impl=(\d+) model=(\d+) n=(\d+)", why)
    return bool(m) and m.group(1) == m.group(2)


def _c07_f2(case, why, f):
    """C07/F2: the alteration is exactly Link <-> {"/": cid} or Bytes <-> {"/": {"bytes": ...}} (DAG-JSON
    cannot tell them apart); any other undetected alteration is a new violation."""
    m = re.search(r"C07-undetected kind=(\S+)", why)
    return bool(m) and m.group(1) in ("nb-link-to-slashmap", "nb-bytes-to-slashmap", "fct-link-to-slashmap")


def _c07_f3(case, why, f):
    """C07/F3: a freshly issued token that does not verify AND carries a null among its caveat / fact
    values (go-ipld-prime's bindnode cannot decode null into an `Any` field)."""
    return "C07-unverified" in why and any('"t":"null"' in a for a in case.get("args", []))


import json

MATCHERS = {"C19/F1": _c19_f1, "C07/F2": _c07_f2, "C07/F3": _c07_f3}
