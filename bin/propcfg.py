"""Per-property configuration of bin/check: proof obligations (theorem names that must be present,
sorry-free and axiom-clean), how a model/implementation mismatch is to be read, evidence texts."""

_H = (" History: the model is stateless, the implementation a long-lived process - every case is preceded, in the same process and on the same"
      " validator / server objects, by history derived from the case (the genuine tokens behind tampered ones; the same invocation or batch under a"
      " permissive or an all-denying environment, with every proof embedded, on a second laxer server sharing the service methods; for time windows"
      " the same tokens validated or served before and after a boundary passes), so that caches and memos that outlive their environment disagree"
      " with the model. Worlds also run with the library's own readers (schema.DIDString, schema.Struct) where the harness has its own.")
_R = (" Reader combinators: schema.Or / Mapped / Literal are modelled as functions (Model/Readers.lean) with theorems or_first (first accepting member wins),"
      " or_none_iff, or_some_mem, or_nested_any (a nested union reads like the flat one: a failing nested union is not a verdict) and evalSeq_get (no memory"
      " between reads); generated reader trees are built once from the library's combinators and read input sequences with repeats (op rdtree). Served worlds"
      " mount methods built from schema.Or, schema.URI, schema.Struct with converter options and a hand-written ServiceMethod; URL-resource worlds read"
      " resources through schema.URI.")
HISTORY_NOTE = {k: _H for k in ("C01", "C02", "C03", "C04", "C05", "C06", "C08", "C09", "C16", "C19")}
for _k in ("C02", "C06", "C08"):
    HISTORY_NOTE[_k] += _R
_S = (" Struct reader: schema.Struct (core/schema/struct.go) is modelled as StructRd.read over flat struct schemas with theorems attestation_exact (the caveats of"
      " ucan/attest are accepted exactly when they are the one-entry map {proof: link}), read_unknown_fails / read_missing_fails / read_wrong_kind_fails / read_not_map"
      " (fails closed); values at and around the valid shape of three schemas (the library's Attestation, optional-only, required+optional) are read by the"
      " library's reader and by the model (op structread).")
HISTORY_NOTE["C04"] += _S
HISTORY_NOTE["C02"] += _S
_I = (" Issuance model (Model/Issue.lean): the options of delegation.Delegate / invocation.Invoke fold into a configuration (a later option of a kind replaces"
      " the earlier; WithExpiration and WithNoExpiration replace each other) that decides which optional fields are written: theorems last_noexp / last_exp, fold_swap"
      " (options of different kinds commute), apply_replace, nbf_written_iff (written iff not 0, negative values included), default_exp, issued_window (the validator"
      " model's window predicates on the issued fields), issued_readback / issued_bytes_window (options -> bytes -> decoded fields: the window read from the root block is the"
      " window the options describe). Tie: for tokens issued with option lists (given twice, in both orders, bounds at 0 / negative / beyond 2^53)"
      " the bytes the model writes from the OPTIONS equal the root block (op wire, item kind issued).")
HISTORY_NOTE["C03"] += _I
HISTORY_NOTE["C18"] = _I
HISTORY_NOTE["C09"] += (" Fresh-process batches (batchfresh): a worker process is started for the case alone, so that the concurrent validations are the first"
                        " use of the library in the process (lazily initialised package state), under the race detector.")
HISTORY_NOTE["C17"] = (" Fresh-process cases (bsfresh): a worker process is started for the case alone; goroutines attach to, iterate and archive one shared"
                       " delegation as the first thing the process does with the library, under the race detector.")

COMMON_TRUSTED = [
    "Lean 4.33.0 kernel; axioms allowed: propext, Classical.choice, Quot.sound (checked with #print axioms per theorem)",
    "the correspondence check itself: Go harness (generators, concretisers, canonicalisation), Lean driver, bin/check diff; sampled unless 'exhaustive' is true",
    "Go toolchain and runtime",
]


def ob(module, *names):
    return [{"module": module, "name": n} for n in names]


NOT_CLAIMED = {}

VALIDATOR_NOTE = ("trusted: Lean kernel (axioms propext, Quot.sound, Classical.choice only); the hand-written model of validator/{lib,capability,authorization}.go; "
                  "ideal signatures (ground truth from the harness, which really signs and tampers); the correspondence is sampled (thousands of generated worlds per run, "
                  "stratified by defect kind) - a change to the code that agrees with the model on every generated world is not seen")

VALIDATOR_TRUSTED = [
    "hand-written Lean model of validator/lib.go, capability.go, authorization.go (Model/Validator.lean); tie = model and implementation run on the same generated worlds (real keys, real tokens through the public API) and compared on the property's hard observables",
    "signatures are ideal in the model: ground truth (which key signed, whether a field was altered after signing) is supplied by the harness, which really signs / tampers",
    "caller-supplied functions (can-issue policy, revocation checker, resolvers, Derives, schema readers) are arbitrary in the theorems and specific named rules in the correspondence",
]

WORLD_RULE = ("worlds = principals (Ed25519, RSA, did:web, did:mailto) + a main delegation chain of random depth with multi-capability tokens, "
              "wildcard abilities/resources, inline or link-only proofs (+resolver), optional session attestations, then defects by kind (round robin over the "
              "property's list, 25%% get a second one). non-trivial: the world has at least one delegation besides the invocation. distinct: hash of the concrete world")

PROPS = {
    "C01": {
        "manifest": {"text": "checkAuth_sound: the oracle that judges the chain the implementation returns is itself proved to imply the specification (an accepted spine is a ClaimOk chain); Examples.*: a concrete world meets the hypotheses (non-vacuity). Theorem C01_sound (all worlds,  all DAG shapes, all policies, any Derives, any fuel): whenever the model's Access returns an authorization, it is rooted in the invocation and is a complete valid chain (ClaimOk: every token in window and authentic - issuer's key / authority key / valid session / resolved key -, every proof cited, available and delegated to the citing issuer, ability/resource resolved by the C16-proved pattern functions, Derives accepted, root entitled by the can-issue policy). The model is tied to validator.Access by running both on generated worlds built from real keys and tokens; every authorization the implementation returns is re-checked by an executable chain checker against ground-truth signatures.", "design_ref": '5.1', "note": VALIDATOR_NOTE},
        "obligations": ob("UcantoModel.Props.C01", "V.sound_all", "V.C01_sound", "V.C01_no_chain", "V.verifySig_ok")
                       + ob("UcantoModel.Props.Termination", "V.C01_unauthorized", "V.access_terminates")
                       + ob("UcantoModel.Props.OracleSound", "V.checkAuth_sound", "V.checkRest_sound")
                       + ob("UcantoModel.Props.Examples", "Examples.good_authorized", "Examples.good_has_chain", "Examples.good_wf", "Examples.bad_refused"),
        "rule": WORLD_RULE, "trusted_base": VALIDATOR_TRUSTED,
        "assumptions": ["hard observable for C01: an authorization returned by the implementation must also be returned by the model (refusals are C06's subject) and its spine must pass the executable chain checker"],
    },
    "C02": {
        "manifest": {"text": "Theorems C02_binds / resolveCap_nb / overlay_get_set / overlay_get_unset: at every step of every returned authorization the capability shown to Derives as 'delegated' carries the overlay of the caveats written in that delegation over the claimed ones (set fields shown, unset inherited) and Derives accepted it; C02_attest: a re-delegated ucan/attest{proof:X} can only attest X. Correspondence on worlds where 60% of delegations carry restricting caveats under three derivation rules; the implementation's returned capabilities (incl. caveats) at each level are re-derived by the chain checker.", "design_ref": '5.2', "note": VALIDATOR_NOTE},
        "obligations": ob("UcantoModel.Props.C02", "V.C02_binds", "V.rest_binds", "V.resolveCap_nb", "V.overlay_get_set", "V.overlay_get_unset", "V.attest_chain_proof", "V.C02_attest")
                       + ob("UcantoModel.Props.Readers", "Rd.or_first", "Rd.or_none_iff", "Rd.or_some_mem", "Rd.or_nested_any", "Rd.evalSeq_get")
                       + ob("UcantoModel.Props.StructRd", "StructRd.attestation_exact", "StructRd.attestation_accepts", "StructRd.read_unknown_fails", "StructRd.read_missing_fails", "StructRd.read_wrong_kind_fails", "StructRd.read_not_map"),
        "rule": WORLD_RULE + "; 60% of delegations carry restricting caveats, derivation rules default/eq/le", "trusted_base": VALIDATOR_TRUSTED,
    },
    "C03": {
        "manifest": {"text": "Theorems isExpired_spec / isTooEarly_spec (exactly exp <= now, resp. nbf set and now <= nbf), C03_noexp, C03_inside (strictly inside the window is never rejected for time reasons, by either predicate), C03_no_spurious (validate never answers expired/too-early for an in-window token), C03_window (every delegation of a returned authorization, at any depth, is inside its window at the validation second) and C03_attestation_window (so is every delegation of an accepted session attestation); over time: C03_expired_mono, C03_tooEarly_anti, C03_window_convex (the seconds at which a token is in its window form an interval) and C03_window_exact (exactly nbf < now < exp). Correspondence without a clock hook: each case fixes one position (invocation, proof at any depth, attestation) to one of the 6x6 boundary combinations relative to the wall-clock second T read just before validation; the sample is kept only if the clock still reads T afterwards; the model is evaluated with now = T.", "design_ref": "5.3", "note": VALIDATOR_NOTE + "; wall clock: a sample is discarded when the second ticks during validation"},
        "obligations": ob("UcantoModel.Props.C03", "V.isExpired_spec", "V.isTooEarly_spec", "V.C03_noexp", "V.C03_inside", "V.C03_no_spurious", "V.C03_window", "V.C03_attestation_window",
                          "V.C03_expired_mono", "V.C03_tooEarly_anti", "V.C03_window_convex", "V.C03_window_exact")
                       + ob("UcantoModel.Props.Issue", "Issue.last_noexp", "Issue.last_exp", "Issue.fold_swap", "Issue.apply_replace", "Issue.nbf_written_iff", "Issue.default_exp", "Issue.issued_window") + ob("UcantoModel.Props.IssueReadback", "Issue.issued_readback", "Issue.issued_bytes_window", "Issue.sample_wf"),
        "rule": "valid worlds (depth 0-4, half with a session); one position x expiration in {none, far past, T-1, T, T+1, far} x not-before in {unset, far past, T-1, T, T+1, far}, T = wall-clock second of validation (bracketed). every case is non-trivial; distinct: hash of the concrete world", "trusted_base": VALIDATOR_TRUSTED,
    },
    "C04": {
        "manifest": {"text": "Theorems C04_accept / C04_attestation_shape / C04_other_link: a token whose issuer is neither did:key nor the authority validates only through a sibling attestation (not itself, first capability ucan/attest, `with` the authority DID, proof = exactly this token's link, in window, own chain valid, not revoked) or, when the session claim failed without failed proof chains, through the resolved key's signature. Correspondence (both directions) on worlds that all contain a non-key issuer with ten attestation variants and key-resolver variants.", "design_ref": '5.4', "note": VALIDATOR_NOTE},
        "obligations": ob("UcantoModel.Props.C04", "V.C04_accept", "V.C04_attestation_shape", "V.C04_other_link", "V.parseCap_attDesc")
                       + ob("UcantoModel.Props.StructRd", "StructRd.attestation_exact", "StructRd.attestation_accepts", "StructRd.read_unknown_fails", "StructRd.read_missing_fails", "StructRd.read_wrong_kind_fails", "StructRd.read_not_map"),
        "rule": WORLD_RULE + "; every world has a non-key issuer in the chain with one of ten attestation variants", "trusted_base": VALIDATOR_TRUSTED,
    },
    "C05": {
        "manifest": {"text": "Theorems C05_checked (an authorization is returned only if the checker accepted that same authorization), C05_exposes (the links reachable through Proofs() are exactly the spine), C05_none_revoked, C05_all_rejected. Correspondence: the harness's checker logs every authorization it is shown (walking Proofs() recursively) and rejects revoked ids; the oracle demands that the last accepted authorization is the returned one link for link and that an all-rejected search reports the revocation.", "design_ref": '5.5', "note": VALIDATOR_NOTE},
        "obligations": ob("UcantoModel.Props.C05", "V.C05_checked", "V.C05_exposes", "V.C05_none_revoked", "V.C05_all_rejected"),
        "rule": WORLD_RULE + "; 3/7 of the worlds revoke a random delegation", "trusted_base": VALIDATOR_TRUSTED,
    },
    "C06": {
        "manifest": {"text": "Theorems C06_complete (a valid chain exists and nothing is revoked => for every fuel the result is never Unauthorized), access_terminates (on well-founded worlds - proofs are older than the token citing them, as content addressing guarantees - the search finishes within fuelBound), C06_found (hence Access returns an authorization, and it is a valid chain rooted in the invocation), C06_fuel_independent / stable (the answer does not depend on fuel). The specification ClaimOk speaks of membership only, so order of proofs, duplicates, decoys, further capabilities and inline-vs-resolver supply cannot matter. Correspondence: worlds with valid chains under permutation, decoy, duplicate, link-only and unresolvable-proof decorations; hard observable: a refusal by the implementation must be a refusal by the model.", "design_ref": "5.6", "note": VALIDATOR_NOTE + "; goroutines in ResolveMatch are outside the model (each match has one source, so the search order is deterministic)"},
        "obligations": ob("UcantoModel.Props.C06", "V.C06_complete", "V.C06_never_refused", "V.C06_valid", "V.C06_fuel_independent", "V.complete_all")
                       + ob("UcantoModel.Lemmas.Stable", "V.stable", "V.claim_deterministic")
                       + ob("UcantoModel.Props.Termination", "V.terminates_all", "V.access_terminates", "V.C06_found")
                       + ob("UcantoModel.Props.Examples", "Examples.good_authorized", "Examples.good_has_chain", "Examples.good_wf", "Examples.good_fuel")
                       + ob("UcantoModel.Props.Readers", "Rd.or_first", "Rd.or_none_iff", "Rd.or_some_mem", "Rd.or_nested_any", "Rd.evalSeq_get"),
        "rule": WORLD_RULE, "trusted_base": VALIDATOR_TRUSTED,
    },
    "C07": {
        "manifest": {"text": "Field-level theorems for any signature scheme S (serialisation of the signed record a parameter): verifyRec_issue + C07_issue_verifies (for EVERY option combination - expiration or none, not-before, nonce, facts, proofs, several capabilities, any caveats - the record VerifySignature rebuilds from an issued token is the record Issue signed, so it verifies), C07_tamper (Ideal S, Binding S, injective serialisation: a token carrying an issued token's signature verifies only if its rebuilt record equals the signed one, only under the same key and only for a verifier whose DID is its issuer), verifyRec_covers (the record determines version, issuer, audience, capabilities, proofs, expiration, facts, nonce, not-before: every field is covered), C07_other_principal, C07_pinned_counterexample (record of the repaired nnc/nbf omission). The full-strength claim is false and kept visible: C07_dagjson_collision(_bytes) (known finding C07/F2). Correspondence with real Ed25519 / RSA / wrapped keys: tokens over every option combination and caveat / fact values of every IPLD kind, verified directly and after archive/extract, then one of 26 single alterations (each field, signature flip / code swap / truncation, other key, other DID, the three collision rewrites) re-encoded through a block round trip; the model predicts each boolean from the rebuilt records.", "design_ref": "5.7", "note": "trusted: Lean kernel; Payload.lean / Ipld.lean (hand-written, field level: DAG-JSON at tree level, byte serialisation assumed injective on trees); Ed25519/RSA idealised in theorems, real in the harness; known findings C07/F2 (link/bytes vs {\"/\":...} collision) and C07/F3 (null values cannot be decoded by bindnode)"},
        "obligations": ob("UcantoModel.Props.C07", "Payload.verifyRec_issue", "Payload.C07_issue_verifies", "Payload.C07_tamper", "Payload.verifyRec_covers", "Payload.C07_other_principal",
                          "Payload.C07_pinned_counterexample", "Payload.C07_dagjson_collision", "Payload.C07_dagjson_collision_bytes", "Payload.toy_binding")
                       + ob("UcantoModel.Props.WireReadback", "Wire.fieldsOf_tokenVal", "Wire.token_readback", "Wire.tokenBytes_injective", "Wire.sampleToken_wf")
                       + ob("UcantoModel.Props.Base64", "Base64.C07_payload_join_injective", "Base64.C07_sig_text_injective", "Base64.rawUrl_roundtrip"),
        "rule": "tokens: key in {12 Ed25519, 2 RSA, 6 wrapped}, 1-3 capabilities with random nested caveats over all IPLD kinds, 0-2 proof links, expiration {none, explicit, default}, optional not-before, nonce, 0-2 facts; alteration kind round robin over 27 kinds. non-trivial: an alteration is applied. distinct: hash of the spec",
        "trusted_base": ["Model/Payload.lean, Model/Ipld.lean (hand-written)"],
    },
    "C08": {
        "manifest": {"text": "Theorems on the model of server.Run + Provide: C08_iff (the handler runs iff the invocation has exactly one capability, a method is registered for its ability and Access authorizes it; it receives the authorized capability), C08_at_most_once, C08_args (that capability is the invocation's own capability as parsed by the method's descriptor), C08_unauthorized, C08_capability_count, C08_not_found (the three refusal receipts, nothing runs), C08_only_authorized (behind every call there is a complete valid chain, by C01). Correspondence through the real server: client.Execute of batches of 1-4 invocations (shared proofs, unhandled abilities, zero/two capabilities, strangers) against recording handlers returning ok / ok+effects / error, with can-issue policy, revocation checker, proof and key resolvers set through the server options; compared: receipt outcome per invocation and the exact handler call log.", "design_ref": "5.8", "note": VALIDATOR_NOTE},
        "obligations": ob("UcantoModel.Props.C08", "Srv.C08_iff", "Srv.C08_at_most_once", "Srv.C08_args", "Srv.C08_unauthorized", "Srv.C08_capability_count", "Srv.C08_not_found", "Srv.C08_only_authorized")
                       + ob("UcantoModel.Props.Examples", "Examples.good_handler_runs")
                       + ob("UcantoModel.Props.Readers", "Rd.or_first", "Rd.or_none_iff", "Rd.or_some_mem", "Rd.or_nested_any", "Rd.evalSeq_get"),
        "mismatch_is_violation": True,
        "rule": WORLD_RULE + "; each world becomes a request of 1-4 invocations against a server with 1-2 recording service methods", "trusted_base": VALIDATOR_TRUSTED,
        "assumptions": ["a model/implementation difference in receipt outcome or handler call log is itself a failing input: the model's run is proved to satisfy the property's iff"],
    },
    "C17": {
        "manifest": {"text": "Theorems on a step semantics of any number of threads running Put / Get / iteration under a read-write mutex, where the lock each method takes is a parameter read from /repo's blockstore.go by a go/ast fact extractor on every run (Generated/Facts.lean): C17_mutex (under a good discipline - Put under the write lock, Get and iteration under at least the read lock, no shared field touched outside - no reachable state of any program under any schedule has two threads in their critical sections while one mutates), generated_facts_good + C17_mutex_current (the discipline of the code as it is now is good: `by decide` on the regenerated facts, so a changed lock breaks this obligation), C17_linearizable (the store under any schedule is the sequential application of the operations in critical-section entry order), C17_contents and C17_seq (every put link retrievable, iteration duplicate free, first-put order), C17_pinned_race (machine-checked record: Put under the read lock reaches two concurrent writers). Partial: Go's memory model and map internals are outside the model. Validation: 2-8 goroutines x 5-200 operations on a real store (directly and through delegation.Attach/Blocks) under the race detector in crash-isolating workers, GOMAXPROCS in {1,2,4,16}; final contents and order checked against the sequential spec (order must be the first-put order of some interleaving).", "design_ref": "5.17", "note": "trusted: Lean kernel; the go/ast fact extractor (harness/facts.go) - a refactoring it cannot read makes the obligation fail rather than pass; atomicity of a critical section given mutual exclusion (Go memory model); schedules on the implementation are sampled"},
        "obligations": ob("UcantoModel.Props.C17", "Lock.C17_mutex", "Lock.C17_linearizable", "Lock.C17_contents", "Lock.C17_seq", "Lock.C17_pinned_race", "Lock.reach_inv")
                       + ob("UcantoModel.Props.C17Facts", "Lock.generated_facts_good", "Lock.C17_mutex_current", "Lock.exec_append_locked"),
        "facts": True, "race": True, "mismatch_is_violation": True,
        "rule": "goroutines in {2,3,4,8} x operations per goroutine in {5,20,60,200} x GOMAXPROCS in {1,2,4,16} x {store, delegation.Attach}; programs (60% Put over a small link pool so that duplicates collide, 30% Get, 10% full iteration) derived from the seed. every case non-trivial; distinct: hash of (op,args)",
        "trusted_base": ["Model/Lock.lean (hand-written semantics of sync.RWMutex and of the three methods' critical sections)", "harness/facts.go (go/ast extractor)"],
    },
    "C18": {
        "thorough_rounds": 1,
        "level": "translation_validation",
        "manifest": {"text": "Translation validation of the format the stored artifacts were written under, plus proof that the format reads what it writes. (1) A committed corpus (corpus/c18/recorded.jsonl: 336 deterministic issuance programs - tokens over every option combination x Ed25519 / RSA / wrapped keys x caveat shapes, nested delegation worlds with inline and link-only proofs and sessions, receipts, key and DID strings - with the bytes, CIDs, signatures, archives, delegation strings and requests they produced; identical to what the pinned tree produces wherever the pinned tree can run the program) is re-executed on the current tree and compared byte for byte, and every recorded artifact is parsed, extracted, decoded and verified with the current tree. (2) The recorded artifacts are also read by the Lean format model (DID strings/bytes, signature framing, Ed25519 key layout, CAR archives with SHA-256), which must agree. (3) Theorems: wire_constants_unchanged (the multicodec tags, version strings, schema keys, media type and header constants extracted from the Go source on this run by go/ast are the UCAN 0.9.1 / ucanto ones: `by decide` on regenerated definitions), model_constants, readable (signature framing, key layout, varints round trip; only blocks hashing to their link leave an archive).", "design_ref": "5.18", "note": "that today's Go equals the recorded past is an empirical byte comparison over the corpus, not a theorem; Lean kernel; constants extractor harness/facts.go; DAG-CBOR / DAG-JSON encoders are compared through their outputs only", "technique": "recorded-corpus byte comparison + Lean format model reading the recorded artifacts + kernel-checked constants table regenerated from source"},
        "obligations": ob("UcantoModel.Props.C18", "C18.wire_constants_unchanged", "C18.model_constants", "C18.readable")
                       + ob("UcantoModel.Props.Issue", "Issue.last_noexp", "Issue.last_exp", "Issue.fold_swap", "Issue.apply_replace", "Issue.nbf_written_iff", "Issue.default_exp", "Issue.issued_window") + ob("UcantoModel.Props.IssueReadback", "Issue.issued_readback", "Issue.issued_bytes_window", "Issue.sample_wf")
                       + ob("UcantoModel.Lemmas.CborRoundtrip", "Cbor.decodeTop_encode", "Cbor.encode_injective")
                       + ob("UcantoModel.Props.C13Archive", "Archive.C13_archive_roundtrip")
                       + ob("UcantoModel.Props.WireReadback", "Wire.fieldsOf_tokenVal", "Wire.token_readback", "Wire.tokenBytes_injective", "Wire.sampleToken_wf"),
        "facts": True, "mismatch_is_violation": True,
        "rule": "every program of the recorded corpus: re-executed and compared on every artifact, recorded artifacts re-read and verified, recorded artifacts read by the Lean model. every case non-trivial; distinct: hash of the recorded line",
        "trusted_base": ["corpus/c18/recorded.jsonl (captured once, committed)", "harness/facts.go constant extractor", "Lean format model Did.lean / Car.lean / Varint.lean"],
    },
    "C19": {
        "manifest": {"text": "cost_refines / accessC_fst: the instrumented cost model returns exactly the verdict of the validator model (the one proved sound, complete and terminating). The full statement (at most quadratically many signature verifications for every proof-DAG shape) is FALSE of the code and is kept visible with its negation machine-checked: C19_not_quadratic (the kernel evaluates the instrumented model on a 15-delegation layered DAG: 255 verifications > 15^2, and C19_all_fail: all of it ends in Unauthorized), count_small (2^(d+1)-1 for d<=4). This is recorded as known finding C19/F1 (not a small safe repair). What the check decides on every run: the implementation's count, observed by a counting verifier handed out through the principal parser and as the authority, is compared with the instrumented model (accessC) on chains (depth 0-16), trees, layered DAGs of width 2 and 3 (with multi-capability tokens), failing and succeeding roots, and random worlds with sessions. The property is an upper bound, so fewer verifications than the model's exhaustive search never alarm; MORE verifications than it is a violation (C19-excess); exceeding n^2 while equal to the model's count is printed as KNOWN-FINDING C19/F1.", "design_ref": "5.19", "note": "trusted: Lean kernel (decide +kernel, no extra axioms); instrumented model Cost.lean (hand-written, compared count for count with the implementation); a general polynomial bound for sharing-free DAGs is not proved (pending)"},
        "obligations": ob("UcantoModel.Props.C19", "C19.C19_not_quadratic", "C19.C19_all_fail", "C19.count_small")
                       + ob("UcantoModel.Props.C19Refine", "V.cost_refines", "V.accessC_fst", "V.firstOkC_fst")
                       + ob("UcantoModel.Props.C19Chain", "V.C19_chain_linear", "V.authorizeC_chain", "V.authBodyC_chain", "V.example_chain")
                       + ob("UcantoModel.Props.C19Paths", "V.C19_paths_bound", "V.authorizeC_paths", "V.authBodyC_paths", "V.C19_paths_tight"),
        "rule": "shapes: chains depth 0-16, layered width 2 depth 1-9 (12 thorough), layered width 3 and trees depth 1-5, multi-capability layered, x {failing, succeeding roots}; plus 300 (5000) random worlds. non-trivial: at least one delegation besides the invocation. distinct: hash of the world",
        "trusted_base": ["Model/Cost.lean (instrumented copy of the validator model)"],
    },
    "C20": {
        "manifest": {"text": "Theorems on the model of carInbound.Accept + server.Handle + channel.Request: admits_spec (the negotiation admits a header iff it is empty or one of its comma separated media ranges, parameters and blanks aside, is the CAR type or */*), C20_415 / C20_406 / C20_400 / C20_200 (each status is answered exactly in its case), C20_nothing_runs (a 415/406/400 is decided before Execute is reached), C20_client (non-200 <=> error carrying the status); the pinned substring negotiation is kept with three machine-checked counterexamples. Correspondence: Server.Request on 7 content types x (18 media-range elements, all ordered pairs with two separators) x 7 body kinds (valid message, empty batch, empty, garbage, CAR whose root is not a message, CAR without roots, message with a missing invocation block) with a recording handler; the HTTP channel against a loopback server replying every status 200-599 with text and CAR bodies.", "design_ref": "5.20", "note": "trusted: Lean kernel; hand-written 30-line model of Accept/Handle/channel; net/http and the CAR/message decoders are outside the model (a body is classified by how it was built); header pairs are enumerated over a fixed element list, not all strings"},
        "obligations": ob("UcantoModel.Props.C20", "Http.admits_spec", "Http.C20_415", "Http.C20_406", "Http.C20_400", "Http.C20_200", "Http.C20_nothing_runs", "Http.C20_client",
                          "Http.C20_pinned_counterexample_1", "Http.C20_pinned_counterexample_2", "Http.C20_pinned_counterexample_3"),
        "mismatch_is_violation": True,
        "rule": "Content-Type in 7 values x Accept in {absent, 18 elements, all ordered pairs x 2 separators} x 7 body kinds; channel: every status 200..599 x {text, CAR} body. non-trivial: CAR content type with an Accept header present / non-200 status. distinct: hash of (op,args)",
        "trusted_base": ["model Http.lean mirrors carInbound.Accept, server.Handle and channel.Request by hand"],
    },
    "C09": {
        "thorough_rounds": 2,
        "manifest": {"text": "Theorems on the model of server.Execute + message.Build/Get: C09_one (for EVERY completion order of the per-invocation goroutines - any permutation of the receipts - each invocation of the request has a receipt retrievable by its link, whose ran is that invocation and whose issuer is the server), C09_only_run (nothing is reported for links that were not run), get_build (first stored receipt wins for a repeated link, so exactly one entry per distinct invocation). Partial: the Go memory model, real goroutine interleavings and the unsynchronised first-error variable are runtime behaviour the model cannot exhibit; they are exercised, not proved: batches of 0..64 invocations with mixed outcomes (authorized, unauthorized, unknown ability, zero/two capabilities, duplicates of one link) against a real server whose handlers, checker and resolvers yield/sleep from the seed, GOMAXPROCS in {1,2,4,16}, 1-4 concurrent identical requests to one server, all under the race detector in crash-isolating workers (a data race or a crash on a goroutine is attributed to the batch that caused it).", "design_ref": "5.9", "note": VALIDATOR_NOTE + "; schedules are sampled by perturbation, not enumerated; the atomic-append abstraction of Execute (lock around the append) is read from the code by hand"},
        "obligations": ob("UcantoModel.Props.C09", "Msg.C09_one", "Msg.C09_only_run", "Msg.get_build", "Msg.values_of_fold", "Msg.C09_isolated"),
        "race": True, "mismatch_is_violation": True,
        "rule": WORLD_RULE + "; batch sizes {0,1,2,3,5,8,13,21,34,64} round robin, GOMAXPROCS in {1,2,4,16}, 25% with 2-4 concurrent requests. non-trivial: batch of at least 2. distinct: hash of (op,args)", "trusted_base": VALIDATOR_TRUSTED,
    },
    "C10": {
        "manifest": {"text": "Byte level: Model/Cbor.lean is a DAG-CBOR encoder/decoder model; Cbor.decodeTop_encode (every IPLD value of any nesting, sizes < 2^64, reads back exactly) and Cbor.encode_injective are proved, and C10_same_cbor / C10_verifies_cbor / C10_tamper_cbor instantiate the statements below with it - no codec hypothesis left. The model is tied to go-ipld-prime on every run (ops cbor: generated values of every kind, bytes equal to dagcbor.Encode; cborblock: every real receipt / token / message root block decoded and re-encoded by the model to the same bytes). Theorems over an abstract canonical codec (round trip + injectivity as hypotheses, satisfiable: idCodec) and any signature scheme: C10_same (the transported receipt is the issued one: result value and side, ran, effects, metadata, issuer, proofs), C10_verifies (its signature over the canonical encoding of the outcome verifies after transport), C10_tamper (Ideal, Binding: a receipt carrying an issued signature verifies only with exactly the issued outcome and only under the issuer's key), C10_sig_code (no other algorithm code). Partial: the bindnode layer between OutcomeModel structs and IPLD maps is compared on outputs, not modelled. Correspondence with real Ed25519 / RSA / wrapped signers: receipts over ok / error results of every IPLD kind (typed, untyped and Rebind readers), link and embedded fork / join effects, metadata, link and embedded proofs, embedded or bare ran; carried in an agent message through the CAR response codec; every accessor compared with what was issued; the signature re-verified from the transported root block decoded as a plain IPLD node and re-encoded with dag-cbor; then one of 13 single alterations of the outcome or signature, re-encoded and re-decoded, must not verify.", "design_ref": "5.10", "note": "trusted: Lean kernel; the Codec hypotheses stand for go-ipld-prime's dag-cbor (canonical map ordering) - validated, not proved; Ed25519/RSA idealised in theorems, real in the harness; null values are excluded (C07/F3)"},
        "obligations": ob("UcantoModel.Props.C10", "Rcpt.C10_same", "Rcpt.C10_verifies", "Rcpt.C10_tamper", "Rcpt.C10_sig_code")
                       + ob("UcantoModel.Props.C10Cbor", "Rcpt.C10_same_cbor", "Rcpt.C10_verifies_cbor", "Rcpt.C10_tamper_cbor", "Rcpt.cborCodec_injective", "Rcpt.sampleOutcome_wf")
                       + ob("UcantoModel.Lemmas.CborRoundtrip", "Cbor.decodeTop_encode", "Cbor.encode_injective", "Cbor.decode_encode")
                       + ob("UcantoModel.Props.WireReadback", "Wire.outcomeOf_outcomeVal", "Wire.outcomeBytes_injective")
                       + ob("UcantoModel.Lemmas.CanonOrder", "Cbor.sortKV_perm", "Cbor.canon_map_perm", "Cbor.encodeCanon_map_perm", "Cbor.canon_idem", "Cbor.encodeCanon_canon"),
        "mismatch_is_violation": True,
        "rule": "receipts: signer in {12 Ed25519, 2 RSA, 6 wrapped} x ok/error x value (random nested IPLD for the untyped reader, a {n,status} struct for typed / Rebind) x 0-2 forks (link/embedded) x join {none, link, embedded} x meta x 0-2 proofs (link/embedded) x ran {embedded, bare}; alteration round robin over 14 kinds. non-trivial: an alteration is applied. distinct: hash of the spec",
        "trusted_base": ["Props/C10.lean Codec hypotheses", "harness re-verification through go-ipld-prime dag-cbor"],
    },
    "C11": {
        "thorough_rounds": 2,
        "manifest": {"text": "Theorems (the part that is this repository's own logic): C11_terminates (on well-founded proof DAGs the mutually recursive Claim/Validate/VerifySession/Authorize search finishes within an explicit fuel bound), attCandidates_safe (the token under verification and capability-less siblings are never candidate attestations), C11_pinned_divergence (machine-checked record: with the pinned candidate filter a lone non-key-issued ucan/attest token runs out of every fuel - the stack overflow), C11_did_string_total / C11_sig_total (no slicing past short DID / signature bytes, with the pinned panics recorded), C11_handle_total, C11_receipts_kept. Partial: third-party decoders (go-car header CBOR, bindnode, dag-cbor/json) are not modelled. Exploration in crash-isolating worker processes (a goroutine panic, stack overflow or fatal error kills only the worker and is attributed to the request): every one of 39 field malformations (issuer, audience, signature, capabilities, caveats, proofs, times, version, facts, nonce, whole block replaced or bit-flipped) at every chain position, singly and in pairs, inside otherwise valid CAR requests that also carry a clean invocation; self-attesting and capability-less adversarial tokens; random byte edits of valid requests; the byte-level DID and signature functions exhaustively. Oracle: outcome is a status or an error value, and a 200 response holds a receipt for every invocation of the request.", "design_ref": "5.11", "note": "trusted: Lean kernel; the model makes the repository's own index/slice/nil/recursion sites explicit - a site the model does not name is covered only by the exploration; third-party decoding is outside the model"},
        "obligations": ob("UcantoModel.Props.C11", "C11.C11_terminates", "C11.attCandidates_safe", "C11.C11_pinned_divergence", "C11.C11_fixed_no_self", "C11.C11_did_string_total",
                          "C11.C11_did_string_pinned_panics", "C11.C11_sig_total", "C11.C11_handle_total", "C11.C11_receipts_kept")
                       + ob("UcantoModel.Props.Termination", "V.terminates_all"),
        "mismatch_is_violation": True,
        "rule": "structured: world (depth 0-4, sessions, decoys) + one clean invocation; malformation kind round robin over 39 kinds at a random token position, 1/3 with a second malformation on the same or another token; 24 adversarial special worlds; random byte edits (1-4) of valid request bytes; exhaustive byte strings (length <=3 quick, <=5 thorough) through did.Decode / signature Code/Size/Raw. every case non-trivial except the empty byte string. distinct: hash of (op,args)",
        "trusted_base": ["Model/Validator.lean, Did.lean, Http.lean, Message.lean (hand-written); crash-isolating workers observe the real process"],
    },
    "C15": {
        "manifest": {"text": "Theorems on the message model: C15_get_no_report / C15_empty_batch (a message without a report - the reply to an empty batch - answers every Get with not-found and lists no receipts), C15_get_sound, C15_pinned_panics (record of the pinned nil dereference). Partial: third-party decoders are not modelled. Exploration in crash-isolating workers: client.Execute over a channel that answers with a chosen status and one of 20 body kinds (empty batch, empty / foreign-keyed report, receipts with bare ran, missing receipt or invocation blocks, a non-receipt block as receipt, absent / malformed issuer, empty signature, effects+meta+proofs, report naming keys it has no value for, CAR whose root is not a message, no roots, two roots, garbage, empty, truncated, bit-flipped), then every lookup a caller can make: Get for present and absent links, Blocks, Receipts, ReceiptReader.Read and every accessor of every receipt, and message.Build with it. Oracle: error or values, never a panic.", "design_ref": "5.15", "note": "trusted: Lean kernel; hand-written message model; bindnode / dag-cbor / go-car decoding of response bytes is outside the model and only explored"},
        "obligations": ob("UcantoModel.Props.C09", "Msg.C15_get_no_report", "Msg.C15_empty_batch", "Msg.C15_pinned_panics", "Msg.C15_get_sound", "Msg.get_build"),
        "mismatch_is_violation": True,
        "rule": "20 response kinds x random status from {200,201,204,301,400,404,500,503} x seed; every case non-trivial; distinct: hash of (op,args)",
        "trusted_base": ["Model/Message.lean (hand-written)"],
    },
    "C12": {
        "thorough_rounds": 1,
        "manifest": {"text": "C12_roundtrip (any roots and any sequence of well-formed blocks - duplicates, CIDv0/v1, identity or hashed - decode to exactly those roots and blocks with a clean end), C12_version, C12_truncated (a cut inside any section yields exactly the complete sections before it and then an error, never a clean shorter archive), C12_truncated_header, C12_cut_at_boundary. Theorems over all byte strings and any hash table H: C12_integrity / C12_integrity_decode (every block the decoder delivers - from valid, corrupted, truncated, spliced or arbitrary input - parses as a CID with nothing after it whose own multihash matches the block's bytes), C12_mismatch_is_error (a section whose bytes do not match its CID yields an error item, never a block), next_none_iff (the archive can only end cleanly on a section boundary), parseCid_split, and the varint round trips readStd_encode / readMf_encode (all n below 2^64 / 2^63). Correspondence at byte level: the Lean model re-encodes every generated archive (bytes must equal car.Encode's) and decodes every truncation point and every single-byte corruption (xor 01, 80, ff at every position) of it, plus splices and arbitrary inputs; go-car's CBOR header parser is modelled for the canonical header form only (elsewhere the model abstains on the header and still predicts the blocks). Independent oracle in the harness: every delivered block is re-hashed against its own CID, a truncation off a section boundary must produce an error.", "design_ref": "5.12", "note": "trusted: Lean kernel; hand-written model of car.Decode/Encode, LdRead/ReadNode, CidFromReader, Prefix.Sum (Model/Car.lean, Model/Varint.lean); SHA-256 is executable Lean validated against Go on every archive, other registered hash functions are known to the model only by their code (a placeholder digest), go-car's header CBOR decoder is modelled for the canonical form only"},
        "obligations": ob("UcantoModel.Props.C12", "Car.C12_integrity", "Car.C12_integrity_decode", "Car.C12_mismatch_is_error", "Car.next_none_iff", "Car.parseCid_split", "Car.next_block_valid")
                       + ob("UcantoModel.Props.C12Roundtrip", "Car.C12_roundtrip", "Car.C12_version", "Car.next_section", "Car.blocks_sections", "Car.decodeHeader_encodeHeader", "Car.readCborHead_cborHead")
                       + ob("UcantoModel.Props.C12Trunc", "Car.C12_truncated", "Car.C12_cut_at_boundary", "Car.C12_truncated_header", "Car.next_truncated", "Car.blocks_truncated", "Car.readStd_trunc", "Car.C12_oversize_is_error", "Car.C12_blocks_stop_at_oversize", "Car.C12_zero_section_is_error", "Car.C12_blocks_stop_at_zero")
                       + ob("UcantoModel.Props.C12Digest", "Car.overlong_digest_mismatch", "Car.truncated_digest_iff", "Car.identity_digest_iff", "Car.unknown_function_mismatch")
                       + ob("UcantoModel.Lemmas.VarintLemmas", "Varint.readStd_encode", "Varint.readMf_encode", "Varint.readMf_suffix", "Varint.readStd_suffix"),
        "mismatch_is_violation": False,
        "rule": "archives: 0-3 roots, 0-6 blocks (quick; 0-24 thorough) of 0-320 bytes with CIDv1 raw/dag-cbor/multi-byte codec, CIDv0, identity, truncated digests, duplicate CIDs; per archive one round-trip case, one case holding the decode outcome at every truncation point, three cases holding the outcome of every single-byte corruption; plus splices / double corruptions / garbage. non-trivial: archive with at least one block / non-empty input. distinct: hash of (op,args)",
        "trusted_base": ["hand-written model Car.lean / Varint.lean / Sha256.lean; tie = byte-level comparison of encode output and of the decode outcome at every truncation and corruption position"],
        "assumptions": ["mutated archives are judged by self-consistency (delivered blocks re-hash to their own CID; off-boundary truncation errors), not by equality with the original: a flipped codec byte gives a different but self-consistent block"],
    },
    "C13": {
        "manifest": {"text": "Byte level: C13_archive_roundtrip (CAR model composed with the DAG-CBOR model: an archive of any number of DAG-CBOR blocks, each under the CIDv1/dag-cbor/sha2-256 link of its own bytes, decodes to exactly those blocks and every block decodes to the value that was encoded; blockOf_injective: link and bytes determine the value), on Cbor.decodeTop_encode / encode_injective and C12_roundtrip; ops cbor / cborblock tie the codec model to go-ipld-prime on generated values and on every real block. Theorems for the bookkeeping the property rests on: storeOf_self / storeOf_embedded / storeOf_nodup (a delegation carries its own root and, transitively to any depth, every block carried by each proof that was embedded when it was issued, each once), C13_invocations / C13_mapping (a message lists exactly the invocation links given and maps each invocation to the first receipt issued for it), with Lock.C17_seq (stores keep each block once in first-write order) and Car.C12_integrity (every block read back hashes to its link). Partial: the byte-level DAG-CBOR round trip is not modelled. Correspondence and read-back checks on worlds of nested delegations (depth 0-5, inline and link-only proofs mixed in every position, decoys, duplicates, attached blocks): the model predicts the exact block set of every delegation from which proofs were embedded; every token goes through Archive/Extract and Format/Parse and is compared field by field, signature bytes, root bytes, link = CID of root bytes, recursively through every viewable proof, and block sets; a message of 0-3 invocations sharing proofs goes through the request codec (links, viewability of every embedded chain, attached blocks) and receipts (embedded or bare ran, with and without effects) through the response codec (invocation-to-receipt mapping, receipt list).", "design_ref": "5.13", "note": "trusted: Lean kernel; Model/Message.lean (hand-written); go-ipld-prime codecs outside the model - read-back equality is observed by the harness on generated worlds, not proved"},
        "obligations": ob("UcantoModel.Props.C13", "Msg.storeOf_self", "Msg.storeOf_embedded", "Msg.storeOf_nodup", "Msg.C13_invocations", "Msg.C13_mapping", "Msg.mem_dedup", "Msg.dedup_nodup")
                       + ob("UcantoModel.Props.C12", "Car.C12_integrity") + ob("UcantoModel.Props.C17", "Lock.C17_seq")
                       + ob("UcantoModel.Props.C13Archive", "Archive.C13_archive_roundtrip", "Archive.blockOf_wf", "Archive.blockOf_injective", "Archive.parseCid_cidOf")
                       + ob("UcantoModel.Props.WireMessage", "Wire.message_mapping", "Wire.message_execute")
                       + ob("UcantoModel.Lemmas.CanonOrder", "Cbor.sortKV_perm", "Cbor.canon_map_perm")
                       + ob("UcantoModel.Lemmas.CborRoundtrip", "Cbor.decodeTop_encode", "Cbor.encode_injective")
                       + ob("UcantoModel.Props.WireReadback", "Wire.fieldsOf_tokenVal", "Wire.token_readback", "Wire.tokenBytes_injective", "Wire.sampleToken_wf")
                       + ob("UcantoModel.Props.Base64", "Base64.C13_format_parse", "Base64.C13_format_injective", "Base64.castParse_payload_checked", "Base64.rawStd_roundtrip"),
        "mismatch_is_violation": True,
        "rule": WORLD_RULE + "; every proof additionally link-only with probability 1/5; 0-2 attached blocks; batch of 0-3 invocations sharing proofs", "trusted_base": VALIDATOR_TRUSTED,
    },
    "C14": {
        "thorough_rounds": 2,
        "manifest": {"text": "did_key_string_roundtrip (Parse(String(d)) = d for every key DID) on Base58.decode_encode (base58btc round trip for every non-empty byte string, leading zeros included). Theorems: sig_frame (Code/Size/Raw recover what NewSignature framed, all codes and lengths below 2^63), sigRaw_suffix (Size/Raw are total on arbitrary bytes), did_decode_bytes, did_parse_string_nonkey (every non-key `did:` string, empty and non-ASCII ids included, parses, prints back to itself and re-parses to the same value), edSigner_decode_encode (key byte layout round trip), C14_own_code / C14_accept_only / C14_sign_verify (a verifier consults its primitive only under its own algorithm code; with ideal signatures it accepts only what the matching key produced for exactly that message; a produced signature verifies under its code and under no other), varint round trips. Correspondence: did.Parse/Decode/String/Bytes, signature Code/Size/Raw, Ed25519 signer/verifier Decode compared with the model on every byte string over an 11-symbol alphabet up to length 4 (5 thorough), every `did:` string over a 9-symbol alphabet up to length 4 (6), realistic and corrupted values; real Ed25519 and RSA keys (deterministic pool, all ordered pairs): Format/Parse/Encode/Decode equality, verifier-from-DID agreement, Wrap changes only the DID, cross-key / other-message / other-algorithm-code / damaged-signature rejection, checked with the standard library's ed25519 as well.", "design_ref": "5.14", "note": "trusted: Lean kernel; hand-written model Did.lean/Base58.lean/Varint.lean; Ed25519/RSA/PKCS#1 are outside the model (SigScheme parameter, Ideal as a hypothesis with a satisfying toy instance) and only sampled with real keys; base58btc round trip (did:key strings) is tied by exhaustive/realistic correspondence, its Lean proof is pending"},
        "obligations": ob("UcantoModel.Props.C14", "DidM.sig_frame", "DidM.sigRaw_suffix", "DidM.sig_pinned_panics", "DidM.did_decode_bytes", "DidM.did_parse_string_nonkey",
                          "DidM.edSigner_decode_encode", "DidM.C14_own_code", "DidM.C14_accept_only", "DidM.C14_sign_verify")
                       + ob("UcantoModel.Model.SigScheme", "SigScheme.toy_ideal")
                       + ob("UcantoModel.Props.C14Key", "DidM.did_key_string_roundtrip", "DidM.did_key_string_shape")
                       + ob("UcantoModel.Lemmas.Base58Lemmas", "Base58.decode_encode", "Base58.ofDigits_digits", "Base58.digits_ofDigits'")
                       + ob("UcantoModel.Lemmas.VarintLemmas", "Varint.readMf_encode")
                       + ob("UcantoModel.Props.Base64", "Base64.C18_key_format_parse", "Base64.C18_key_format_injective", "Base64.std_roundtrip"),
        "mismatch_is_violation": True, "exhaustive": True,
        "rule": "exhaustive: all byte strings over {00,01,12,20,7f,80,9d,1a,a1,ed,ff} up to length 4 (5 thorough) through did.Decode and signature Code/Size/Raw; all strings `did:`+w, w over {k,e,y,:,z,1,A,2,w} up to length 4 (6); did:key strings over a base58 subset; realistic DIDs of both key types, web, mailto, unicode, malformed; signature framings; Ed25519 key layouts and corruptions; real-key property checks over all ordered key pairs. non-trivial: non-empty input / distinct keys. distinct: hash of (op,args)",
        "trusted_base": ["hand-written model Did.lean (did.go, signature.go framing, ed25519 key layout), Base58.lean"],
    },
    "C16": {
        "thorough_rounds": 1,
        "manifest": {"text": "Lean theorems over all byte strings: resolveAbility/resolveResource/defaultDerives of the model equal the property's three grant relations (resolveAbility_spec, resolveResource_spec, defaultDerives_spec, plus no_partial_segment / only_three_forms); the model is tied to the Go functions by exhaustive enumeration of all string pairs over {a,b,A,/,*,:} up to total length 7 (quick) / 8 (thorough) plus random realistic strings, so any divergence of the code from the proved specification inside that space is a concrete failing pair.",
                     "design_ref": "5.16",
                     "note": "trusted: Lean kernel (axioms propext, Quot.sound, Classical.choice only); hand-written model of three 5-line functions; the correspondence is exhaustive to the length bound and sampled beyond it.",
                     "technique": "Lean 4 theorem (all inputs) + exhaustive model/implementation correspondence"},
        "obligations": ob("UcantoModel.Props.C16",
                          "C16.resolveAbility_spec", "C16.resolveAbility_range", "C16.resolveAbility_empty",
                          "C16.resolveResource_spec", "C16.resolveResource_range", "C16.defaultDerives_spec",
                          "C16.no_partial_segment", "C16.only_three_forms", "C16.resource_only_two_forms"),
        "mismatch_is_violation": True,
        "exhaustive": True,
        "rule": "exhaustive: every pattern p over {a,b,A,/,*,:} with every c such that |p|+|c| <= N (N=7 quick, 8 thorough), one case per p holding the verdicts of ResolveAbility/ResolveResource/DefaultDerives for all its c; plus random realistic abilities/URIs. non-trivial: pattern non-empty (exhaustive rows) / both strings non-empty (random). distinct: hash of (op,args)",
        "trusted_base": ["model Patterns.lean mirrors validator.ResolveAbility/ResolveResource/DefaultDerives by hand; tie = exhaustive enumeration to the length bound + random longer strings"],
        "assumptions": ["the theorems quantify over all byte strings; the empty claimed ability/resource is the excluded point covered by resolveAbility_empty"],
    },
}


def _enum_upto(alpha, n):
    out = []
    def exact(k):
        if k == 0: return [b""]
        sub = exact(k - 1)
        return [bytes([a]) + s for a in alpha for s in sub]
    for k in range(n + 1): out += exact(k)
    return out


def refine(prop, case):
    """turn a failing row case into the specific failing input (for the replay file)"""
    if case.get("op") == "c16x":
        n = int(case["args"][0]); p = b"" if case["args"][1] == "-" else bytes.fromhex(case["args"][1])
        cs = _enum_upto(b"abA/*:", n - len(p))
        for i, (a, b) in enumerate(zip(case["impl"], case.get("model", ""))):
            if a != b:
                return {"pattern": p.decode("latin1"), "claimed": cs[i].decode("latin1"),
                        "impl_bits": a, "model_bits": b,
                        "bits": "1=ResolveAbility grants, 2=ResolveResource resolves, 4=DefaultDerives(claimed.with=claimed, delegated.with=pattern) accepts, 8=result outside {claimed,\"\"}"}
    return None
