"""Per-property configuration of bin/check: proof obligations (theorem names that must be present,
sorry-free and axiom-clean), how a model/implementation mismatch is to be read, evidence texts."""

COMMON_TRUSTED = [
    "Lean 4.33.0 kernel; axioms allowed: propext, Classical.choice, Quot.sound (checked with #print axioms per theorem)",
    "the correspondence check itself: Go harness (generators, concretisers, canonicalisation), Lean driver, bin/check diff; sampled unless 'exhaustive' is true",
    "Go toolchain and runtime",
]


def ob(module, *names):
    return [{"module": module, "name": n} for n in names]


PROPS = {
    "C16": {
        "obligations": ob("UcantoModel.Props.C16",
                          "C16.resolveAbility_spec", "C16.resolveAbility_range", "C16.resolveAbility_empty",
                          "C16.resolveResource_spec", "C16.resolveResource_range", "C16.defaultDerives_spec",
                          "C16.no_partial_segment", "C16.only_three_forms", "C16.resource_only_two_forms"),
        "mismatch_is_violation": True,
        "exhaustive": True,
        "rule": "exhaustive: every pattern p over {a,b,A,/,*,:} with every c such that |p|+|c| <= N (N=7 quick, 8 thorough), one case per p holding the verdicts of ResolveAbility/ResolveResource/DefaultDerives for all its c; plus random realistic abilities/URIs. non-trivial: pattern non-empty (exhaustive rows) / both strings non-empty (random). distinct: hash of (op,args)",
        "trusted_base": ["model Patterns.lean mirrors validator.ResolveAbility/ResolveResource/DefaultDerives by hand; tie = exhaustive enumeration to the length bound + random longer strings"],
        "assumptions": ["the theorems quantify over all byte strings; the empty claimed ability/resource is the excluded point covered by resolveAbility_empty"],
    },
}


def _enum_upto(alpha, n):
    out = []
    def exact(k):
        if k == 0: return [b""]
        sub = exact(k - 1)
        return [bytes([a]) + s for a in alpha for s in sub]
    for k in range(n + 1): out += exact(k)
    return out


def refine(prop, case):
    """turn a failing row case into the specific failing input (for the replay file)"""
    if case.get("op") == "c16x":
        n = int(case["args"][0]); p = b"" if case["args"][1] == "-" else bytes.fromhex(case["args"][1])
        cs = _enum_upto(b"abA/*:", n - len(p))
        for i, (a, b) in enumerate(zip(case["impl"], case.get("model", ""))):
            if a != b:
                return {"pattern": p.decode("latin1"), "claimed": cs[i].decode("latin1"),
                        "impl_bits": a, "model_bits": b,
                        "bits": "1=ResolveAbility grants, 2=ResolveResource resolves, 4=DefaultDerives(claimed.with=claimed, delegated.with=pattern) accepts, 8=result outside {claimed,\"\"}"}
    return None
