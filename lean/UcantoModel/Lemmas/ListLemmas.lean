/-! Small list lemmas used by several property files. -/

namespace ListLemmas

theorem take_pred_append1 {α} (q : List α) (a : α) :
    (q ++ [a]).take ((q ++ [a]).length - 1) = q := by
  rw [← List.dropLast_eq_take]; simp

theorem take_pred_append2 {α} (q : List α) (a b : α) :
    (q ++ [a, b]).take ((q ++ [a, b]).length - 1) = q ++ [a] := by
  have : q ++ [a, b] = (q ++ [a]) ++ [b] := by simp
  rw [this, take_pred_append1]

end ListLemmas
