import UcantoModel.Model.Cbor
/-!
# The canonical map order does not depend on the order the entries were given in
`sortKV` is an insertion sort by the RFC 7049 key order; for maps with distinct keys its result is
a function of the *set* of entries (`sortKV_perm`): Go map iteration order, struct field order or
builder order cannot influence the bytes that are hashed and signed.
-/
namespace Cbor

theorem lexLe_total : ∀ a b : Bytes, lexLe a b = true ∨ lexLe b a = true
  | [], _ => Or.inl rfl
  | _ :: _, [] => Or.inr rfl
  | a :: as, b :: bs => by
    simp only [lexLe]
    by_cases h1 : a.toNat < b.toNat
    · simp [h1]
    · by_cases h2 : b.toNat < a.toNat
      · simp [h1, h2]
      · simp only [h1, h2, if_false]
        exact lexLe_total as bs

theorem lexLe_antisymm : ∀ a b : Bytes, lexLe a b = true → lexLe b a = true → a = b
  | [], [], _, _ => rfl
  | [], _ :: _, _, h => by simp [lexLe] at h
  | _ :: _, [], h, _ => by simp [lexLe] at h
  | a :: as, b :: bs, h1, h2 => by
    simp only [lexLe] at h1 h2
    by_cases c1 : a.toNat < b.toNat
    · have : ¬ b.toNat < a.toNat := by omega
      simp [c1, this] at h2
    · by_cases c2 : b.toNat < a.toNat
      · simp [c1, c2] at h1
      · simp only [c1, c2, if_false] at h1 h2
        have hab : a = b := UInt8.toNat_inj.mp (by omega)
        rw [hab, lexLe_antisymm as bs h1 h2]

theorem lexLe_trans : ∀ a b c : Bytes, lexLe a b = true → lexLe b c = true → lexLe a c = true
  | [], _, _, _, _ => rfl
  | _ :: _, [], _, h, _ => by simp [lexLe] at h
  | _ :: _, _ :: _, [], _, h => by simp [lexLe] at h
  | a :: as, b :: bs, c :: cs, h1, h2 => by
    simp only [lexLe] at h1 h2 ⊢
    by_cases ab : a.toNat < b.toNat
    · by_cases bc : b.toNat < c.toNat
      · have : a.toNat < c.toNat := by omega
        simp [this]
      · by_cases cb : c.toNat < b.toNat
        · simp [bc, cb] at h2
        · have : a.toNat < c.toNat := by omega
          simp [this]
    · by_cases ba : b.toNat < a.toNat
      · simp [ab, ba] at h1
      · simp only [ab, ba, if_false] at h1
        by_cases bc : b.toNat < c.toNat
        · have : a.toNat < c.toNat := by omega
          simp [this]
        · by_cases cb : c.toNat < b.toNat
          · simp [bc, cb] at h2
          · simp only [bc, cb, if_false] at h2
            have e1 : ¬ a.toNat < c.toNat := by omega
            have e2 : ¬ c.toNat < a.toNat := by omega
            simp only [e1, e2, if_false]
            exact lexLe_trans as bs cs h1 h2

theorem keyLe_total (a b : Bytes) : keyLe a b = true ∨ keyLe b a = true := by
  unfold keyLe
  by_cases h1 : a.length < b.length
  · simp [h1]
  · by_cases h2 : b.length < a.length
    · simp [h1, h2]
    · simp only [h1, h2, if_false]
      exact lexLe_total a b

theorem keyLe_antisymm (a b : Bytes) (h1 : keyLe a b = true) (h2 : keyLe b a = true) : a = b := by
  unfold keyLe at h1 h2
  by_cases c1 : a.length < b.length
  · have : ¬ b.length < a.length := by omega
    simp [c1, this] at h2
  · by_cases c2 : b.length < a.length
    · simp [c1, c2] at h1
    · simp only [c1, c2, if_false] at h1 h2
      exact lexLe_antisymm a b h1 h2

theorem keyLe_trans (a b c : Bytes) (h1 : keyLe a b = true) (h2 : keyLe b c = true) : keyLe a c = true := by
  unfold keyLe at h1 h2 ⊢
  by_cases ab : a.length < b.length
  · by_cases bc : b.length < c.length
    · have : a.length < c.length := by omega
      simp [this]
    · by_cases cb : c.length < b.length
      · simp [bc, cb] at h2
      · have : a.length < c.length := by omega
        simp [this]
  · by_cases ba : b.length < a.length
    · simp [ab, ba] at h1
    · simp only [ab, ba, if_false] at h1
      by_cases bc : b.length < c.length
      · have : a.length < c.length := by omega
        simp [this]
      · by_cases cb : c.length < b.length
        · simp [bc, cb] at h2
        · simp only [bc, cb, if_false] at h2
          have e1 : ¬ a.length < c.length := by omega
          have e2 : ¬ c.length < a.length := by omega
          simp only [e1, e2, if_false]
          exact lexLe_trans a b c h1 h2

variable {α : Type}

def eLe (x y : Bytes × α) : Prop := keyLe x.1 y.1 = true

theorem insertKV_perm (kv : Bytes × α) : ∀ m : List (Bytes × α), (insertKV kv m).Perm (kv :: m) := by
  intro m
  induction m with
  | nil => exact List.Perm.refl _
  | cons x xs ih =>
    unfold insertKV
    split
    · exact List.Perm.refl _
    · exact (List.Perm.cons x ih).trans (List.Perm.swap kv x xs)

theorem sortKV_perm_self (m : List (Bytes × α)) : (sortKV m).Perm m := by
  induction m with
  | nil => exact List.Perm.refl _
  | cons x xs ih =>
    have : sortKV (x :: xs) = insertKV x (sortKV xs) := rfl
    rw [this]
    exact (insertKV_perm x _).trans (List.Perm.cons x ih)

theorem insertKV_sorted (kv : Bytes × α) : ∀ m : List (Bytes × α), m.Pairwise eLe → (insertKV kv m).Pairwise eLe := by
  intro m
  induction m with
  | nil => intro _; simp [insertKV]
  | cons x xs ih =>
    intro hs
    unfold insertKV
    split
    · rename_i hle
      refine List.Pairwise.cons ?_ hs
      intro y hy
      rcases List.mem_cons.mp hy with rfl | hy
      · exact hle
      · exact keyLe_trans _ _ _ hle (List.rel_of_pairwise_cons hs hy)
    · rename_i hnle
      have hxk : keyLe x.1 kv.1 = true := by
        rcases keyLe_total kv.1 x.1 with h | h
        · exact absurd h hnle
        · exact h
      refine List.Pairwise.cons ?_ (ih hs.tail)
      intro y hy
      have := (insertKV_perm kv xs).subset hy
      rcases List.mem_cons.mp this with rfl | hy'
      · exact hxk
      · exact List.rel_of_pairwise_cons hs hy'

theorem sortKV_sorted (m : List (Bytes × α)) : (sortKV m).Pairwise eLe := by
  induction m with
  | nil => exact List.Pairwise.nil
  | cons x xs ih => exact insertKV_sorted x _ ih

/-- **order independence**: two lists of entries with the same entries (in any order) and distinct
keys sort to the same list -/
theorem sortKV_perm (m₁ m₂ : List (Bytes × α)) (hp : m₁.Perm m₂) (hnd : (m₁.map (·.1)).Nodup) :
    sortKV m₁ = sortKV m₂ := by
  apply List.Perm.eq_of_pairwise (le := eLe) _ (sortKV_sorted m₁) (sortKV_sorted m₂)
    ((sortKV_perm_self m₁).trans (hp.trans (sortKV_perm_self m₂).symm))
  intro a b ha hb hab hba
  have ha' : a ∈ m₁ := (sortKV_perm_self m₁).subset ha
  have hb' : b ∈ m₁ := hp.symm.subset ((sortKV_perm_self m₂).subset hb)
  have hk : a.1 = b.1 := keyLe_antisymm _ _ hab hba
  -- distinct keys: the same key means the same entry
  clear ha hb hab hba hp
  induction m₁ with
  | nil => simp at ha'
  | cons x xs ih =>
    simp only [List.map_cons, List.nodup_cons] at hnd
    rcases List.mem_cons.mp ha' with rfl | ha1
    · rcases List.mem_cons.mp hb' with rfl | hb1
      · rfl
      · exact absurd (List.mem_map.mpr ⟨b, hb1, hk.symm⟩) hnd.1
    · rcases List.mem_cons.mp hb' with rfl | hb1
      · exact absurd (List.mem_map.mpr ⟨a, ha1, hk⟩) hnd.1
      · exact ih hnd.2 ha1 hb1

end Cbor

namespace Cbor

theorem canonMap_eq_map : ∀ m : List (Bytes × CVal), canonMap m = m.map fun kv => (kv.1, canon kv.2)
  | [] => rfl
  | (a, v) :: xs => by simp [canonMap, canonMap_eq_map xs]

/-- the canonical form (hence the bytes, the hash and the signature) of a map does not depend on the
order in which its entries were supplied -/
theorem canon_map_perm (m₁ m₂ : List (Bytes × CVal)) (hp : m₁.Perm m₂) (hnd : (m₁.map (·.1)).Nodup) :
    canon (.map m₁) = canon (.map m₂) := by
  simp only [canon]
  congr 1
  apply sortKV_perm
  · rw [canonMap_eq_map, canonMap_eq_map]; exact hp.map _
  · rw [canonMap_eq_map, List.map_map]
    exact hnd

theorem encodeCanon_map_perm (m₁ m₂ : List (Bytes × CVal)) (hp : m₁.Perm m₂) (hnd : (m₁.map (·.1)).Nodup) :
    encodeCanon (.map m₁) = encodeCanon (.map m₂) := by
  unfold encodeCanon; rw [canon_map_perm m₁ m₂ hp hnd]

end Cbor

namespace Cbor
variable {α : Type}

theorem insertKV_of_le (kv : Bytes × α) (m : List (Bytes × α)) (h : ∀ y ∈ m, keyLe kv.1 y.1 = true) :
    insertKV kv m = kv :: m := by
  cases m with
  | nil => rfl
  | cons x xs =>
    have := h x (by simp)
    simp [insertKV, this]

/-- a sorted list is its own sort -/
theorem sortKV_of_sorted : ∀ m : List (Bytes × α), m.Pairwise eLe → sortKV m = m := by
  intro m
  induction m with
  | nil => intro _; rfl
  | cons x xs ih =>
    intro hs
    have : sortKV (x :: xs) = insertKV x (sortKV xs) := rfl
    rw [this, ih hs.tail]
    exact insertKV_of_le x xs (fun y hy => List.rel_of_pairwise_cons hs hy)

theorem sortKV_idem (m : List (Bytes × α)) : sortKV (sortKV m) = sortKV m :=
  sortKV_of_sorted _ (sortKV_sorted m)

theorem insertKV_mapVal {β : Type} (f : α → β) (kv : Bytes × α) : ∀ m : List (Bytes × α),
    insertKV (kv.1, f kv.2) (m.map fun e => (e.1, f e.2)) = (insertKV kv m).map fun e => (e.1, f e.2) := by
  intro m
  induction m with
  | nil => rfl
  | cons x xs ih =>
    simp only [List.map_cons, insertKV]
    split
    · rfl
    · simp only [List.map_cons]; rw [ih]

theorem sortKV_mapVal {β : Type} (f : α → β) : ∀ m : List (Bytes × α),
    sortKV (m.map fun e => (e.1, f e.2)) = (sortKV m).map fun e => (e.1, f e.2) := by
  intro m
  induction m with
  | nil => rfl
  | cons x xs ih =>
    have e1 : sortKV (x :: xs) = insertKV x (sortKV xs) := rfl
    have e2 : sortKV ((x :: xs).map fun e => (e.1, f e.2)) = insertKV (x.1, f x.2) (sortKV (xs.map fun e => (e.1, f e.2))) := rfl
    rw [e1, e2, ih, insertKV_mapVal]

mutual
theorem canon_idem : ∀ v : CVal, canon (canon v) = canon v
  | .null => rfl
  | .bool _ => rfl
  | .int _ => rfl
  | .text _ => rfl
  | .bytes _ => rfl
  | .link _ => rfl
  | .list l => by simp only [canon]; rw [canonList_idem l]
  | .map m => by
    simp only [canon]
    congr 1
    rw [canonMap_eq_map (sortKV (canonMap m)), ← sortKV_mapVal canon (canonMap m)]
    have : (canonMap m).map (fun e => (e.1, canon e.2)) = canonMap m := by
      rw [← canonMap_eq_map, canonMap_idem m]
    rw [this, sortKV_idem]
theorem canonList_idem : ∀ l : List CVal, canonList (canonList l) = canonList l
  | [] => rfl
  | x :: xs => by simp only [canonList]; rw [canon_idem x, canonList_idem xs]
theorem canonMap_idem : ∀ m : List (Bytes × CVal), canonMap (canonMap m) = canonMap m
  | [] => rfl
  | (a, v) :: xs => by simp only [canonMap]; rw [canon_idem v, canonMap_idem xs]
end

/-- the canonical form is a fixed point: decoding a block the encoder wrote and encoding it again
reproduces its bytes -/
theorem encodeCanon_canon (v : CVal) : encodeCanon (canon v) = encodeCanon v := by
  unfold encodeCanon; rw [canon_idem]

end Cbor
