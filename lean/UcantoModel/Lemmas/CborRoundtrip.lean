import UcantoModel.Lemmas.CborLemmas
/-! # DAG-CBOR: `decode (encode v) = v` for every value whose sizes fit CBOR's 64-bit arguments -/
namespace Cbor

-- sizes and integers fit a CBOR head argument (64 bits)
mutual
def WF : CVal → Prop
  | .null => True
  | .bool _ => True
  | .int i => -(2 ^ 64 : Int) ≤ i ∧ i < 2 ^ 64
  | .text s => s.length < 2 ^ 64
  | .bytes b => b.length < 2 ^ 64
  | .list l => l.length < 2 ^ 64 ∧ WFList l
  | .map m => m.length < 2 ^ 64 ∧ WFMap m
  | .link c => c.length + 1 < 2 ^ 64
def WFList : List CVal → Prop
  | [] => True
  | x :: xs => WF x ∧ WFList xs
def WFMap : List (Bytes × CVal) → Prop
  | [] => True
  | (k, v) :: xs => k.length < 2 ^ 64 ∧ WF v ∧ WFMap xs
end

-- fuel the decoder needs
mutual
def need : CVal → Nat
  | .list l => 1 + needList l
  | .map m => 1 + needMap m
  | _ => 1
def needList : List CVal → Nat
  | [] => 0
  | x :: xs => 1 + max (need x) (needList xs)
def needMap : List (Bytes × CVal) → Nat
  | [] => 0
  | (_, v) :: xs => 1 + max (need v) (needMap xs)
end

theorem takeExact_append_len (a b : Bytes) : takeExact a.length (a ++ b) = some (a, b) := takeExact_append a b

mutual
theorem decode_encode : ∀ (v : CVal) (rest : Bytes) (fuel : Nat), WF v → need v ≤ fuel →
    decode fuel (encode v ++ rest) = some (v, rest)
  | .null, rest, fuel, _, hf => by
    cases fuel with
    | zero => simp [need] at hf
    | succ f => simp [encode, decode, readHead]
  | .bool b, rest, fuel, _, hf => by
    cases fuel with
    | zero => simp [need] at hf
    | succ f => cases b <;> simp [encode, decode, readHead]
  | .int i, rest, fuel, hw, hf => by
    cases fuel with
    | zero => simp [need] at hf
    | succ f =>
      simp only [WF] at hw
      by_cases hi : 0 ≤ i
      · obtain ⟨info, hr⟩ := readHead_head 0 i.toNat rest (by omega) (by omega)
        simp only [encode, hi, if_true, decode, hr]
        have : (i.toNat : Int) = i := Int.toNat_of_nonneg hi
        simp [this]
      · obtain ⟨info, hr⟩ := readHead_head 1 (-1 - i).toNat rest (by omega) (by omega)
        simp only [encode, hi, if_false, decode, hr]
        have : ((-1 - i).toNat : Int) = -1 - i := Int.toNat_of_nonneg (by omega)
        simp [this]
        omega
  | .text s, rest, fuel, hw, hf => by
    cases fuel with
    | zero => simp [need] at hf
    | succ f =>
      simp only [WF] at hw
      obtain ⟨info, hr⟩ := readHead_head 3 s.length (s ++ rest) (by omega) hw
      simp only [encode, List.append_assoc, decode, hr]
      simp [takeExact_append_len]
  | .bytes b, rest, fuel, hw, hf => by
    cases fuel with
    | zero => simp [need] at hf
    | succ f =>
      simp only [WF] at hw
      obtain ⟨info, hr⟩ := readHead_head 2 b.length (b ++ rest) (by omega) hw
      simp only [encode, List.append_assoc, decode, hr]
      simp [takeExact_append_len]
  | .link c, rest, fuel, hw, hf => by
    cases fuel with
    | zero => simp [need] at hf
    | succ f =>
      simp only [WF] at hw
      obtain ⟨info, hr⟩ := readHead_head 2 (c.length + 1) ((0 :: c) ++ rest) (by omega) hw
      have h0 : readHead ([0xd8, 0x2a] ++ (head 2 (c.length + 1) ++ (0x00 :: c)) ++ rest) =
          some (6, 24, 42, head 2 (c.length + 1) ++ ((0 :: c) ++ rest)) := by
        simp [readHead, takeExact, beNat, List.append_assoc]
      simp only [encode, decode, h0, hr]
      have ht : takeExact (c.length + 1) (0 :: (c ++ rest)) = some (0 :: c, rest) := by
        have := takeExact_append_len (0 :: c) rest
        simpa using this
      simp only [List.cons_append, bne_self_eq_false, Bool.false_eq_true, if_false, beq_self_eq_true, ht]
      simp
  | .list l, rest, fuel, hw, hf => by
    cases fuel with
    | zero => simp [need] at hf
    | succ f =>
      simp only [WF] at hw
      simp only [need] at hf
      obtain ⟨info, hr⟩ := readHead_head 4 l.length (encodeList l ++ rest) (by omega) hw.1
      simp only [encode, List.append_assoc, decode, hr]
      rw [decodeList_encodeList l rest f hw.2 (by omega)]
      simp
  | .map m, rest, fuel, hw, hf => by
    cases fuel with
    | zero => simp [need] at hf
    | succ f =>
      simp only [WF] at hw
      simp only [need] at hf
      obtain ⟨info, hr⟩ := readHead_head 5 m.length (encodeMap m ++ rest) (by omega) hw.1
      simp only [encode, List.append_assoc, decode, hr]
      rw [decodeMap_encodeMap m rest f hw.2 (by omega)]
      simp
theorem decodeList_encodeList : ∀ (l : List CVal) (rest : Bytes) (fuel : Nat), WFList l → needList l ≤ fuel →
    decodeList fuel l.length (encodeList l ++ rest) = some (l, rest)
  | [], rest, fuel, _, _ => by
    cases fuel <;> simp [encodeList, decodeList]
  | x :: xs, rest, fuel, hw, hf => by
    cases fuel with
    | zero => simp [needList] at hf
    | succ f =>
      simp only [WFList] at hw
      simp only [needList] at hf
      simp only [encodeList, List.append_assoc, List.length_cons, decodeList]
      rw [decode_encode x (encodeList xs ++ rest) f hw.1 (by omega)]
      simp only
      rw [decodeList_encodeList xs rest f hw.2 (by omega)]
theorem decodeMap_encodeMap : ∀ (m : List (Bytes × CVal)) (rest : Bytes) (fuel : Nat), WFMap m → needMap m ≤ fuel →
    decodeMap fuel m.length (encodeMap m ++ rest) = some (m, rest)
  | [], rest, fuel, _, _ => by
    cases fuel <;> simp [encodeMap, decodeMap]
  | (k, v) :: xs, rest, fuel, hw, hf => by
    cases fuel with
    | zero => simp [needMap] at hf
    | succ f =>
      simp only [WFMap] at hw
      simp only [needMap] at hf
      obtain ⟨info, hr⟩ := readHead_head 3 k.length (k ++ (encode v ++ (encodeMap xs ++ rest))) (by omega) hw.1
      simp only [encodeMap, List.append_assoc, List.length_cons, decodeMap, hr]
      rw [takeExact_append_len]
      simp only
      rw [decode_encode v (encodeMap xs ++ rest) f hw.2.1 (by omega)]
      simp only
      rw [decodeMap_encodeMap xs rest f hw.2.2 (by omega)]
end

end Cbor

namespace Cbor

mutual
theorem encode_length_pos : ∀ v : CVal, 1 ≤ (encode v).length
  | .null => by simp [encode]
  | .bool b => by cases b <;> simp [encode]
  | .int i => by
    simp only [encode]; split <;> exact head_length_pos _ _
  | .text s => by
    have := head_length_pos 3 s.length
    simp only [encode, List.length_append]; omega
  | .bytes b => by
    have := head_length_pos 2 b.length
    simp only [encode, List.length_append]; omega
  | .list l => by
    have := head_length_pos 4 l.length
    simp only [encode, List.length_append]; omega
  | .map m => by
    have := head_length_pos 5 m.length
    simp only [encode, List.length_append]; omega
  | .link c => by simp [encode]
end

mutual
theorem need_le : ∀ v : CVal, need v + 1 ≤ 2 * (encode v).length
  | .null => by simp [need, encode]
  | .bool b => by cases b <;> simp [need, encode]
  | .int i => by
    have : 1 ≤ (encode (.int i)).length := encode_length_pos _
    simp only [need]; omega
  | .text s => by
    have : 1 ≤ (encode (.text s)).length := encode_length_pos _
    simp only [need]; omega
  | .bytes b => by
    have : 1 ≤ (encode (.bytes b)).length := encode_length_pos _
    simp only [need]; omega
  | .link c => by
    have : 1 ≤ (encode (.link c)).length := encode_length_pos _
    simp only [need]; omega
  | .list l => by
    have h1 := head_length_pos 4 l.length
    have h2 := needList_le l
    simp only [need, encode, List.length_append]; omega
  | .map m => by
    have h1 := head_length_pos 5 m.length
    have h2 := needMap_le m
    simp only [need, encode, List.length_append]; omega
theorem needList_le : ∀ l : List CVal, needList l ≤ 2 * (encodeList l).length
  | [] => by simp [needList]
  | x :: xs => by
    have h1 := need_le x
    have h2 := needList_le xs
    have h3 := encode_length_pos x
    simp only [needList, encodeList, List.length_append]
    omega
theorem needMap_le : ∀ m : List (Bytes × CVal), needMap m ≤ 2 * (encodeMap m).length
  | [] => by simp [needMap]
  | (k, v) :: xs => by
    have h1 := need_le v
    have h2 := needMap_le xs
    have h3 := encode_length_pos v
    simp only [needMap, encodeMap, List.length_append]
    omega
end

/-- **DAG-CBOR round trip**: the decoder reads back exactly the value the encoder wrote, with nothing
left over — for every value (any nesting, any map order, any sizes below 2^64) -/
theorem decodeTop_encode (v : CVal) (hw : WF v) : decodeTop (encode v) = some v := by
  unfold decodeTop
  have h := decode_encode v [] (2 * (encode v).length + 2) hw (by have := need_le v; omega)
  rw [List.append_nil] at h
  rw [h]

/-- the encoding determines the value -/
theorem encode_injective (a b : CVal) (ha : WF a) (hb : WF b) (h : encode a = encode b) : a = b := by
  have h1 := decodeTop_encode a ha
  have h2 := decodeTop_encode b hb
  rw [h] at h1
  rw [h1] at h2
  exact Option.some.inj h2

/-- no encoding is a proper prefix of another: an item followed by anything decodes to that item -/
theorem decode_encode_append (v : CVal) (rest : Bytes) (hw : WF v) :
    ∃ fuel, decode fuel (encode v ++ rest) = some (v, rest) :=
  ⟨need v, decode_encode v rest (need v) hw (Nat.le_refl _)⟩

end Cbor
