import UcantoModel.Model.Base64
import UcantoModel.Lemmas.VarintLemmas
/-! # base64: decoding inverts encoding, for every alphabet with the three properties of `Alpha` -/
namespace Base64

structure Alpha (ch : Nat → UInt8) (val : UInt8 → Option Nat) : Prop where
  inv : ∀ n, n < 64 → val (ch n) = some n
  padNone : val 61 = none
  noBreak : ∀ n, n < 64 → isBreak (ch n) = false

theorem std_alpha : Alpha stdChar stdVal :=
  ⟨by decide, by decide, by decide⟩

theorem url_alpha : Alpha urlChar urlVal :=
  ⟨by decide, by decide, by decide⟩

theorem ofNat_toNat' (a : UInt8) (n : Nat) (h : n = a.toNat) : UInt8.ofNat n = a := by
  subst h; exact UInt8.ofNat_toNat

theorem byte0_eq (a : UInt8) (k : Nat) (hk : k < 16) :
    byte0 (a.toNat / 4) (a.toNat % 4 * 16 + k) = a := by
  unfold byte0; apply ofNat_toNat'; omega

theorem byte1_eq (a b : UInt8) (k : Nat) (hk : k < 4) :
    byte1 (a.toNat % 4 * 16 + b.toNat / 16) (b.toNat % 16 * 4 + k) = b := by
  unfold byte1; apply ofNat_toNat'
  have := b.toNat_lt
  omega

theorem byte2_eq (b c : UInt8) :
    byte2 (b.toNat % 16 * 4 + c.toNat / 64) (c.toNat % 64) = c := by
  unfold byte2; apply ofNat_toNat'
  have := c.toNat_lt
  omega

theorem decodeQ_encode {ch val} (A : Alpha ch val) (pad : Bool) :
    ∀ b : Bytes, decodeQ val pad (encodeWith ch pad b) = some b := by
  intro b
  fun_induction encodeWith ch pad b with
  | case1 => rfl
  | case2 a =>
    have ha := a.toNat_lt
    have h0 := A.inv (a.toNat / 4) (by omega)
    have h1 := A.inv (a.toNat % 4 * 16) (by omega)
    cases pad
    · simp only [Bool.false_eq_true, if_false, List.append_nil, decodeQ, h0, h1]
      have := byte0_eq a 0 (by omega); simp only [Nat.add_zero] at this; rw [this]
    · simp only [if_true, List.cons_append, List.nil_append, decodeQ, h0, h1, A.padNone]
      have := byte0_eq a 0 (by omega); simp only [Nat.add_zero] at this
      simp [this]
  | case3 a b =>
    have ha := a.toNat_lt
    have hb := b.toNat_lt
    have h0 := A.inv (a.toNat / 4) (by omega)
    have h1 := A.inv (a.toNat % 4 * 16 + b.toNat / 16) (by omega)
    have h2 := A.inv (b.toNat % 16 * 4) (by omega)
    have e0 := byte0_eq a (b.toNat / 16) (by omega)
    have e1 := byte1_eq a b 0 (by omega); simp only [Nat.add_zero] at e1
    cases pad
    · simp only [Bool.false_eq_true, if_false, List.append_nil, decodeQ, h0, h1, h2, e0, e1]
    · simp only [if_true, List.cons_append, List.nil_append, decodeQ, h0, h1, h2, A.padNone]
      simp [e0, e1]
  | case4 a b c rest ih =>
    have ha := a.toNat_lt
    have hb := b.toNat_lt
    have hc := c.toNat_lt
    have h0 := A.inv (a.toNat / 4) (by omega)
    have h1 := A.inv (a.toNat % 4 * 16 + b.toNat / 16) (by omega)
    have h2 := A.inv (b.toNat % 16 * 4 + c.toNat / 64) (by omega)
    have h3 := A.inv (c.toNat % 64) (by omega)
    have e0 := byte0_eq a (b.toNat / 16) (by omega)
    have e1 := byte1_eq a b (c.toNat / 64) (by omega)
    have e2 := byte2_eq b c
    simp only [decodeQ, h0, h1, h2, h3, ih, Option.map_some, e0, e1, e2]

/-- every character the encoder writes is an alphabet character or `=`: none is a line break -/
theorem encode_noBreak {ch val} (A : Alpha ch val) (pad : Bool) :
    ∀ b : Bytes, ∀ c ∈ encodeWith ch pad b, isBreak c = false := by
  intro b
  fun_induction encodeWith ch pad b with
  | case1 => intro c h; cases h
  | case2 a =>
    have ha := a.toNat_lt
    intro c h
    simp only [List.mem_append, List.mem_cons, List.not_mem_nil, or_false] at h
    rcases h with (h | h) | h
    · subst h; exact A.noBreak _ (by omega)
    · subst h; exact A.noBreak _ (by omega)
    · cases pad
      · simp at h
      · simp only [if_true, List.mem_cons, List.not_mem_nil, or_false, or_self] at h; subst h; decide
  | case3 a b =>
    have ha := a.toNat_lt
    have hb := b.toNat_lt
    intro c h
    simp only [List.mem_append, List.mem_cons, List.not_mem_nil, or_false] at h
    rcases h with (h | h | h) | h
    · subst h; exact A.noBreak _ (by omega)
    · subst h; exact A.noBreak _ (by omega)
    · subst h; exact A.noBreak _ (by omega)
    · cases pad
      · simp at h
      · simp only [if_true, List.mem_cons, List.not_mem_nil, or_false] at h; subst h; decide
  | case4 a b c' rest ih =>
    have ha := a.toNat_lt
    have hb := b.toNat_lt
    have hc := c'.toNat_lt
    intro c h
    simp only [List.mem_cons] at h
    rcases h with h | h | h | h | h
    · subst h; exact A.noBreak _ (by omega)
    · subst h; exact A.noBreak _ (by omega)
    · subst h; exact A.noBreak _ (by omega)
    · subst h; exact A.noBreak _ (by omega)
    · exact ih c h

theorem filter_noBreak (s : Bytes) (h : ∀ c ∈ s, isBreak c = false) :
    s.filter (fun c => !isBreak c) = s := by
  apply List.filter_eq_self.mpr
  intro c hc; simp [h c hc]

theorem decodeWith_encode {ch val} (A : Alpha ch val) (pad : Bool) (b : Bytes) :
    decodeWith val pad (encodeWith ch pad b) = some b := by
  unfold decodeWith
  rw [filter_noBreak _ (encode_noBreak A pad b)]
  exact decodeQ_encode A pad b

theorem encodeWith_injective {ch val} (A : Alpha ch val) (pad : Bool) (x y : Bytes)
    (h : encodeWith ch pad x = encodeWith ch pad y) : x = y := by
  have hx := decodeWith_encode A pad x
  rw [h, decodeWith_encode A pad y] at hx
  exact (Option.some.inj hx).symm

/-- no character of an unpadded encoding is `.` -/
theorem url_noDot : ∀ n, n < 64 → urlChar n ≠ 46 := by decide

theorem rawUrl_noDot (b : Bytes) : ∀ c ∈ rawUrlEncode b, c ≠ 46 := by
  unfold rawUrlEncode
  fun_induction encodeWith urlChar false b with
  | case1 => intro c h; cases h
  | case2 a =>
    have ha := a.toNat_lt
    intro c h
    simp only [Bool.false_eq_true, if_false, List.append_nil, List.mem_cons, List.not_mem_nil, or_false] at h
    rcases h with h | h <;> (subst h; exact url_noDot _ (by omega))
  | case3 a b =>
    have ha := a.toNat_lt
    have hb := b.toNat_lt
    intro c h
    simp only [Bool.false_eq_true, if_false, List.append_nil, List.mem_cons, List.not_mem_nil, or_false] at h
    rcases h with h | h | h <;> (subst h; exact url_noDot _ (by omega))
  | case4 a b c' rest ih =>
    have ha := a.toNat_lt
    have hb := b.toNat_lt
    have hc := c'.toNat_lt
    intro c h
    simp only [List.mem_cons] at h
    rcases h with h | h | h | h | h
    · subst h; exact url_noDot _ (by omega)
    · subst h; exact url_noDot _ (by omega)
    · subst h; exact url_noDot _ (by omega)
    · subst h; exact url_noDot _ (by omega)
    · exact ih c h

theorem splitDot_append (a rest : Bytes) (h : ∀ c ∈ a, c ≠ 46) :
    splitDot (a ++ 46 :: rest) = (a, rest) := by
  induction a with
  | nil => simp [splitDot]
  | cons x xs ih =>
    have hx : x ≠ 46 := h x (by simp)
    have := ih (fun c hc => h c (by simp [hc]))
    simp [splitDot, hx, this]

end Base64
