import UcantoModel.Lemmas.Bodies
/-!
# Fuel stability: a result other than `oof` is the result for every larger fuel
-/
namespace V

theorem firstOk_stable {α β} {f g : α → R β} {l : List α} {acc : Fail}
    (h : ∀ x ∈ l, f x ≠ .oof → g x = f x) (hne : firstOk f l acc ≠ .oof) :
    firstOk g l acc = firstOk f l acc := by
  induction l generalizing acc with
  | nil => rfl
  | cons x xs ih =>
    simp only [firstOk] at hne ⊢
    cases hfx : f x with
    | ok b =>
      have : g x = f x := h x (by simp) (by rw [hfx]; simp)
      rw [this, hfx]
    | oof => rw [hfx] at hne; exact absurd rfl hne
    | fail e =>
      have : g x = f x := h x (by simp) (by rw [hfx]; simp)
      rw [this, hfx]
      rw [hfx] at hne
      exact ih (fun y hy => h y (by simp [hy])) hne

theorem map_val_stable {f g : View → R Unit} (l : List View)
    (h : ∀ v, f v ≠ .oof → g v = f v)
    (hno : (l.map fun v => (v, f v)).any (·.2.isOof) = false) :
    (l.map fun v => (v, g v)) = l.map fun v => (v, f v) := by
  induction l with
  | nil => rfl
  | cons x xs ih =>
    simp only [List.map_cons, List.any_cons, Bool.or_eq_false_iff] at hno ⊢
    have hx : f x ≠ .oof := by
      intro hc; rw [hc] at hno; simp [R.isOof] at hno
    rw [h x hx, ih hno.2]

theorem claimStep_stable {W : World} {auth auth' : Desc → Match → R Auth} {d : Desc} {m : Match}
    (ha : ∀ d m, auth d m ≠ .oof → auth' d m = auth d m) (hne : claimStep W auth d m ≠ .oof) :
    claimStep W auth' d m = claimStep W auth d m := by
  unfold claimStep at hne ⊢
  split
  · rfl
  · rename_i hci
    simp only [hci] at hne
    have : auth d m ≠ .oof := by
      intro hc; rw [hc] at hne; exact hne rfl
    rw [ha d m this]

theorem authStep_stable {W : World} {auth auth' : Desc → Match → R Auth} {d : Desc} {m : Match}
    (ha : ∀ d m, auth d m ≠ .oof → auth' d m = auth d m) (hne : authStep W auth d m ≠ .oof) :
    authStep W auth' d m = authStep W auth d m := by
  unfold authStep at hne ⊢
  split
  · rfl
  · rename_i hci
    simp only [hci] at hne
    have : auth d m ≠ .oof := by
      intro hc; rw [hc] at hne; exact hne rfl
    rw [ha d m this]

theorem claimBody_stable {W : World} {val val' : View → List View → R Unit}
    {auth auth' : Desc → Match → R Auth} {d : Desc} {ps : List Proof}
    (hv : ∀ v s, val v s ≠ .oof → val' v s = val v s)
    (ha : ∀ d m, auth d m ≠ .oof → auth' d m = auth d m)
    (hne : claimBody W val auth d ps ≠ .oof) :
    claimBody W val' auth' d ps = claimBody W val auth d ps := by
  unfold claimBody at hne ⊢
  simp only at hne ⊢
  by_cases hany : ((resolveProofs W ps).map fun v => (v, val v (resolveProofs W ps))).any (·.2.isOof) = true
  · rw [if_pos hany] at hne; exact absurd rfl hne
  · have hany' : ((resolveProofs W ps).map fun v => (v, val v (resolveProofs W ps))).any (·.2.isOof) = false := by
      simpa using hany
    have hmap := map_val_stable (f := fun v => val v (resolveProofs W ps))
      (g := fun v => val' v (resolveProofs W ps)) (resolveProofs W ps) (fun v => hv v _) hany'
    rw [hmap]
    rw [if_neg hany] at hne
    rw [if_neg hany, if_neg hany]
    exact firstOk_stable (fun x _ hx => claimStep_stable ha hx) hne

theorem authorizeBody_stable {W : World} {val val' : View → List View → R Unit}
    {auth auth' : Desc → Match → R Auth} {d : Desc} {m : Match}
    (hv : ∀ v s, val v s ≠ .oof → val' v s = val v s)
    (ha : ∀ d m, auth d m ≠ .oof → auth' d m = auth d m)
    (hne : authorizeBody W val auth d m ≠ .oof) :
    authorizeBody W val' auth' d m = authorizeBody W val auth d m := by
  unfold authorizeBody at hne ⊢
  simp only at hne ⊢
  generalize hal : ((resolveProofs W (proofsView W m.view)).filter fun p => p.tok.aud == m.view.tok.iss) = al at hne ⊢
  by_cases hany : (al.map fun p => (p, val p al)).any (·.2.isOof) = true
  · rw [if_pos hany] at hne; exact absurd rfl hne
  · have hany' : (al.map fun p => (p, val p al)).any (·.2.isOof) = false := by simpa using hany
    have hmap := map_val_stable (f := fun v => val v al) (g := fun v => val' v al) al (fun v => hv v _) hany'
    rw [hmap]
    rw [if_neg hany] at hne
    rw [if_neg hany, if_neg hany]
    exact firstOk_stable (fun x _ hx => authStep_stable ha hx) hne

theorem validateBody_stable {W : World} {clm clm' : Desc → List Proof → R Auth} {v : View} {s : List View}
    (hc : ∀ d ps, clm d ps ≠ .oof → clm' d ps = clm d ps)
    (hne : validateBody W clm v s ≠ .oof) :
    validateBody W clm' v s = validateBody W clm v s := by
  unfold validateBody at hne ⊢
  simp only at hne ⊢
  split
  · rfl
  · split
    · rfl
    · split
      · rfl
      · split
        · rfl
        · rename_i h1 h2 h3 h4
          simp only [h1, h2, h3, h4] at hne
          have : clm (attDesc W v.tok.id) ((attCandidates v.tok s).map .inline) ≠ .oof := by
            intro hcc; rw [hcc] at hne; exact hne rfl
          rw [hc _ _ this]

/-- **Fuel stability.** -/
theorem stable (W : World) : ∀ n,
    (∀ d ps, claim W n d ps ≠ .oof → claim W (n+1) d ps = claim W n d ps) ∧
    (∀ v s, validate W n v s ≠ .oof → validate W (n+1) v s = validate W n v s) ∧
    (∀ d m, authorize W n d m ≠ .oof → authorize W (n+1) d m = authorize W n d m) := by
  intro n
  induction n with
  | zero =>
    refine ⟨?_, ?_, ?_⟩
    · intro d ps h; exact absurd (claim_zero W d ps) h
    · intro v s h; exact absurd (validate_zero W v s) h
    · intro d m h; exact absurd (authorize_zero W d m) h
  | succ n ih =>
    obtain ⟨ihC, ihV, ihA⟩ := ih
    refine ⟨?_, ?_, ?_⟩
    · intro d ps h
      rw [claim_succ] at h ⊢
      rw [claim_succ]
      exact claimBody_stable ihV ihA h
    · intro v s h
      rw [validate_succ] at h ⊢
      rw [validate_succ]
      exact validateBody_stable ihC h
    · intro d m h
      rw [authorize_succ] at h ⊢
      rw [authorize_succ]
      exact authorizeBody_stable ihV ihA h

theorem claim_stable_le (W : World) {n m : Nat} (h : n ≤ m) (d : Desc) (ps : List Proof)
    (hne : claim W n d ps ≠ .oof) : claim W m d ps = claim W n d ps := by
  induction h with
  | refl => rfl
  | step _ ih =>
    rw [← ih]
    exact (stable W _).1 d ps (by rw [ih]; exact hne)

/-- two fuels that both terminate agree -/
theorem claim_deterministic (W : World) (n m : Nat) (d : Desc) (ps : List Proof)
    (h1 : claim W n d ps ≠ .oof) (h2 : claim W m d ps ≠ .oof) : claim W n d ps = claim W m d ps := by
  rcases Nat.le_total n m with h | h
  · exact (claim_stable_le W h d ps h1).symm
  · exact claim_stable_le W h d ps h2

end V
