import UcantoModel.Spec.Chain
/-! Helper lemmas about the validator model's list plumbing. -/
namespace V

theorem firstOk_ok {α β} {f : α → R β} {l : List α} {acc : Fail} {b : β} :
    firstOk f l acc = .ok b → ∃ x ∈ l, f x = .ok b := by
  induction l generalizing acc with
  | nil => simp [firstOk]
  | cons x xs ih =>
    simp only [firstOk]
    split
    · rename_i b' h
      intro hb; cases hb
      exact ⟨x, by simp, h⟩
    · intro hb; cases hb
    · intro hb
      obtain ⟨y, hy, hfy⟩ := ih hb
      exact ⟨y, by simp [hy], hfy⟩

theorem mem_validViews {α} {rs : List (View × R α)} {v : View} :
    v ∈ validViews rs → ∃ r, (v, R.ok r) ∈ rs := by
  unfold validViews
  simp only [List.mem_filterMap]
  rintro ⟨⟨v', r⟩, hmem, h⟩
  split at h
  · rename_i a heq
    cases h
    simp only at heq
    subst heq
    exact ⟨a, hmem⟩
  · cases h

theorem mem_capsOf {vs : List View} {c : Cap} {v : View} :
    (c, v) ∈ capsOf vs ↔ v ∈ vs ∧ c ∈ v.tok.caps := by
  unfold capsOf
  simp only [List.mem_flatMap, List.mem_map, Prod.mk.injEq]
  constructor
  · rintro ⟨v', hv', c', hc', rfl, rfl⟩; exact ⟨hv', hc'⟩
  · rintro ⟨hv, hc⟩; exact ⟨v, hv, c, hc, rfl, rfl⟩

theorem resolveProofs_inline (W : World) (vs : List View) :
    resolveProofs W (vs.map .inline) = vs := by
  unfold resolveProofs
  induction vs with
  | nil => rfl
  | cons v vs ih => simp [ih]

end V
