import UcantoModel.Model.Cbor
import UcantoModel.Lemmas.VarintLemmas
/-! # DAG-CBOR: the decoder reads back what the encoder writes -/
namespace Cbor

theorem beBytes_length : ∀ k n, (beBytes k n).length = k := by
  intro k
  induction k with
  | zero => intro n; rfl
  | succ k ih => intro n; simp [beBytes, ih]

theorem beNat_snoc (b : Bytes) (x : UInt8) : beNat (b ++ [x]) = beNat b * 256 + x.toNat := by
  simp [beNat, List.foldl_append]

theorem beNat_beBytes : ∀ k n, n < 256 ^ k → beNat (beBytes k n) = n := by
  intro k
  induction k with
  | zero => intro n h; simp at h; subst h; rfl
  | succ k ih =>
    intro n h
    rw [beBytes, beNat_snoc]
    have h1 : n / 256 < 256 ^ k := by
      apply Nat.div_lt_of_lt_mul
      rw [Nat.pow_succ, Nat.mul_comm] at h
      exact h
    rw [ih _ h1, Varint.toNat_ofNat_lt (Nat.mod_lt _ (by omega))]
    exact Nat.div_add_mod' n 256

theorem takeExact_append (a b : Bytes) : takeExact a.length (a ++ b) = some (a, b) := by
  unfold takeExact
  have : ¬ (a ++ b).length < a.length := by simp
  simp [this]

theorem takeExact_append' (a b : Bytes) (k : Nat) (h : a.length = k) : takeExact k (a ++ b) = some (a, b) := by
  subst h; exact takeExact_append a b

/-- reading back an item head -/
theorem readHead_head (major n : Nat) (rest : Bytes) (hm : major < 8) (hn : n < 2 ^ 64) :
    ∃ info, readHead (head major n ++ rest) = some (major, info, n, rest) := by
  unfold head
  by_cases h1 : n < 24
  · refine ⟨n, ?_⟩
    simp only [h1, if_true, List.cons_append, List.nil_append, readHead]
    rw [Varint.toNat_ofNat_lt (by omega)]
    have e1 : (major * 32 + n) / 32 = major := by omega
    have e2 : (major * 32 + n) % 32 = n := by omega
    simp [e1, e2, h1]
  · by_cases h2 : n < 256
    · refine ⟨24, ?_⟩
      simp only [h1, h2, if_false, if_true, List.cons_append, readHead]
      rw [Varint.toNat_ofNat_lt (by omega)]
      have e1 : (major * 32 + 24) / 32 = major := by omega
      have e2 : (major * 32 + 24) % 32 = 24 := by omega
      simp only [e1, e2, Nat.reduceLT, ↓reduceIte, Nat.reduceBEq, Bool.false_eq_true, beq_self_eq_true]
      rw [takeExact_append' _ _ 1 (beBytes_length 1 n)]
      simp only []
      rw [beNat_beBytes 1 n (by simpa using h2)]
    · by_cases h3 : n < 65536
      · refine ⟨25, ?_⟩
        simp only [h1, h2, h3, if_false, if_true, List.cons_append, readHead]
        rw [Varint.toNat_ofNat_lt (by omega)]
        have e1 : (major * 32 + 25) / 32 = major := by omega
        have e2 : (major * 32 + 25) % 32 = 25 := by omega
        simp only [e1, e2, Nat.reduceLT, ↓reduceIte, Nat.reduceBEq, Bool.false_eq_true, beq_self_eq_true]
        rw [takeExact_append' _ _ 2 (beBytes_length 2 n)]
        simp only []
        rw [beNat_beBytes 2 n (by simpa using h3)]
      · by_cases h4 : n < 4294967296
        · refine ⟨26, ?_⟩
          simp only [h1, h2, h3, h4, if_false, if_true, List.cons_append, readHead]
          rw [Varint.toNat_ofNat_lt (by omega)]
          have e1 : (major * 32 + 26) / 32 = major := by omega
          have e2 : (major * 32 + 26) % 32 = 26 := by omega
          simp only [e1, e2, Nat.reduceLT, ↓reduceIte, Nat.reduceBEq, Bool.false_eq_true, beq_self_eq_true]
          rw [takeExact_append' _ _ 4 (beBytes_length 4 n)]
          simp only []
          rw [beNat_beBytes 4 n (by simpa using h4)]
        · refine ⟨27, ?_⟩
          simp only [h1, h2, h3, h4, if_false, List.cons_append, readHead]
          rw [Varint.toNat_ofNat_lt (by omega)]
          have e1 : (major * 32 + 27) / 32 = major := by omega
          have e2 : (major * 32 + 27) % 32 = 27 := by omega
          simp only [e1, e2, Nat.reduceLT, ↓reduceIte, Nat.reduceBEq, Bool.false_eq_true, beq_self_eq_true]
          rw [takeExact_append' _ _ 8 (beBytes_length 8 n)]
          simp only []
          rw [beNat_beBytes 8 n (by simpa using hn)]

theorem head_length_pos (major n : Nat) : 1 ≤ (head major n).length := by
  unfold head
  split
  · simp
  · split
    · simp
    · split
      · simp
      · split <;> simp

end Cbor
