import UcantoModel.Lemmas.ValidatorLemmas
/-!
# One-step bodies of `claim` / `validate` / `authorize`
The mutually recursive model functions unfold (by `rfl`) to non-recursive *bodies* parameterised by
the functions they call at the smaller fuel. Fuel-stability and completeness are proved on the bodies.
-/
namespace V

def claimStep (W : World) (auth : Desc → Match → R Auth) (d : Desc) (m : Match) : R Auth :=
  if W.canIssue m.value m.view.tok.iss then
    let a := Auth.root m.view m.value
    if W.notRevoked a then .ok a else .fail { revoked := true }
  else
    match auth d m with
    | .oof => .oof
    | .fail _ => .fail { failedProofs := true }
    | .ok sub =>
      let a := Auth.step m.view m.value sub
      if W.notRevoked a then .ok a else .fail { revoked := true }

def claimBody (W : World) (val : View → List View → R Unit) (auth : Desc → Match → R Auth)
    (d : Desc) (proofs : List Proof) : R Auth :=
  let views := resolveProofs W proofs
  let rs := views.map fun v => (v, val v views)
  if rs.any (·.2.isOof) then .oof else
  let sources := capsOf (validViews rs)
  let ms := sources.filterMap fun s => (parseCap d s.1).map fun c => (⟨s.1, s.2, c⟩ : Match)
  firstOk (claimStep W auth d) ms {}

def validateBody (W : World) (clm : Desc → List Proof → R Auth) (v : View) (sibs : List View) : R Unit :=
  let t := v.tok
  if isExpired t.exp W.now then .fail { kind := .expired }
  else if isTooEarly t.nbf W.now then .fail { kind := .tooEarly }
  else if t.iss.key then
    match W.keyOf t.iss with
    | none => .fail { kind := .unverifiable }
    | some k => verifySig t t.iss k
  else if t.iss == W.authority then verifySig t W.authority W.authorityKey
  else
    match clm (attDesc W t.id) ((attCandidates t sibs).map .inline) with
    | .oof => .oof
    | .ok _ => .ok ()
    | .fail e =>
      if e.failedProofs then .fail { kind := .escalation }
      else
        match W.resolveKey t.iss with
        | none => .fail { kind := .unresolvedKey }
        | some kd =>
          match W.keyOf kd with
          | none => .fail { kind := .unverifiable }
          | some k => verifySig t t.iss k

def authStep (W : World) (auth : Desc → Match → R Auth) (d : Desc) (m' : Match) : R Auth :=
  if W.canIssue m'.value m'.view.tok.iss then .ok (Auth.root m'.view m'.value)
  else
    match auth d m' with
    | .oof => .oof
    | .fail _ => .fail { failedProofs := true }
    | .ok sub => .ok (Auth.step m'.view m'.value sub)

def authorizeBody (W : World) (val : View → List View → R Unit) (auth : Desc → Match → R Auth)
    (d : Desc) (m : Match) : R Auth :=
  let views := resolveProofs W (proofsView W m.view)
  let aligned := views.filter fun p => p.tok.aud == m.view.tok.iss
  let rs := aligned.map fun p => (p, val p aligned)
  if rs.any (·.2.isOof) then .oof else
  let sources := capsOf (validViews rs)
  let ms := sources.filterMap fun s => selectOne d m.value s.1 s.2
  firstOk (authStep W auth d) ms {}

theorem claim_zero (W : World) (d : Desc) (ps : List Proof) : claim W 0 d ps = .oof := by
  simp [claim]
theorem validate_zero (W : World) (v : View) (s : List View) : validate W 0 v s = .oof := by
  simp [validate]
theorem authorize_zero (W : World) (d : Desc) (m : Match) : authorize W 0 d m = .oof := by
  simp [authorize]

theorem claim_succ (W : World) (n : Nat) (d : Desc) (ps : List Proof) :
    claim W (n+1) d ps = claimBody W (validate W n) (authorize W n) d ps := by
  rw [claim]; rfl

theorem validate_succ (W : World) (n : Nat) (v : View) (s : List View) :
    validate W (n+1) v s = validateBody W (claim W n) v s := by
  rw [validate]; rfl

theorem authorize_succ (W : World) (n : Nat) (d : Desc) (m : Match) :
    authorize W (n+1) d m = authorizeBody W (validate W n) (authorize W n) d m := by
  rw [authorize]; rfl

end V
