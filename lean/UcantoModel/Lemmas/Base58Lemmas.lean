import UcantoModel.Model.Base58
/-! # base58btc: `decode (encode b) = some b` for every non-empty byte string -/
namespace Base58

def ofDigits (base : Nat) (ds : List Nat) : Nat := ds.foldl (fun acc d => acc * base + d) 0

/-- no leading zero digit -/
def NoLead (ds : List Nat) : Prop := ds.head? ≠ some 0

theorem ofDigits_snoc (base : Nat) (ds : List Nat) (d : Nat) :
    ofDigits base (ds ++ [d]) = ofDigits base ds * base + d := by
  simp [ofDigits, List.foldl_append]

theorem digits_zero (base : Nat) : digits base 0 = [] := by
  rw [digits]; simp

theorem digits_pos (base n : Nat) (hb : 2 ≤ base) (hn : n ≠ 0) :
    digits base n = digits base (n / base) ++ [n % base] := by
  rw [digits]
  have : ¬ (n = 0 ∨ base < 2) := by omega
  simp [this]

theorem digits_eq_nil (base n : Nat) (hb : 2 ≤ base) (h : digits base n = []) : n = 0 := by
  by_cases hn : n = 0
  · exact hn
  · rw [digits_pos base n hb hn] at h
    simp at h

theorem ofDigits_digits (base : Nat) (hb : 2 ≤ base) : ∀ n, ofDigits base (digits base n) = n := by
  intro n
  induction n using Nat.strongRecOn with
  | _ n ih =>
    by_cases hn : n = 0
    · subst hn; rw [digits_zero]; rfl
    · rw [digits_pos base n hb hn, ofDigits_snoc, ih (n / base) (Nat.div_lt_self (by omega) (by omega))]
      exact Nat.div_add_mod' n base

theorem digits_lt (base : Nat) (hb : 2 ≤ base) : ∀ n, ∀ d ∈ digits base n, d < base := by
  intro n
  induction n using Nat.strongRecOn with
  | _ n ih =>
    intro d hd
    by_cases hn : n = 0
    · subst hn; rw [digits_zero] at hd; simp at hd
    · rw [digits_pos base n hb hn] at hd
      simp only [List.mem_append, List.mem_singleton] at hd
      rcases hd with hd | hd
      · exact ih (n / base) (Nat.div_lt_self (by omega) (by omega)) d hd
      · subst hd; exact Nat.mod_lt _ (by omega)

theorem digits_noLead (base : Nat) (hb : 2 ≤ base) : ∀ n, NoLead (digits base n) := by
  intro n
  induction n using Nat.strongRecOn with
  | _ n ih =>
    by_cases hn : n = 0
    · subst hn; rw [digits_zero]; simp [NoLead]
    · rw [digits_pos base n hb hn]
      unfold NoLead
      rw [List.head?_append]
      cases hq : digits base (n / base) with
      | nil =>
        have h0 : n / base = 0 := digits_eq_nil base _ hb hq
        have hlt : n < base := by
          rcases Nat.lt_or_ge n base with h | h
          · exact h
          · have : 0 < n / base := Nat.div_pos h (by omega)
            omega
        simp [Nat.mod_eq_of_lt hlt, hn]
      | cons x xs =>
        have := ih (n / base) (Nat.div_lt_self (by omega) (by omega))
        rw [hq] at this
        simpa [NoLead] using this

theorem foldl_ge (base : Nat) (hb : 1 ≤ base) : ∀ (ds : List Nat) (a : Nat),
    a ≤ ds.foldl (fun acc d => acc * base + d) a := by
  intro ds
  induction ds with
  | nil => intro a; exact Nat.le_refl _
  | cons d ds ih =>
    intro a
    simp only [List.foldl_cons]
    have h1 : a ≤ a * base := Nat.le_mul_of_pos_right a (by omega)
    exact Nat.le_trans (by omega) (ih (a * base + d))

theorem ofDigits_pos (base : Nat) (hb : 1 ≤ base) (ds : List Nat) (hne : ds ≠ []) (hl : NoLead ds) :
    0 < ofDigits base ds := by
  cases ds with
  | nil => exact absurd rfl hne
  | cons d ds =>
    have hd : d ≠ 0 := by simpa [NoLead] using hl
    unfold ofDigits
    simp only [List.foldl_cons, Nat.zero_mul, Nat.zero_add]
    have := foldl_ge base hb ds d
    omega

/-- digits of a number given by digits without a leading zero are those digits -/
theorem digits_ofDigits (base : Nat) (hb : 2 ≤ base) : ∀ (rs : List Nat),
    (∀ d ∈ rs, d < base) → NoLead rs.reverse → digits base (ofDigits base rs.reverse) = rs.reverse := by
  intro rs
  induction rs with
  | nil => intro _ _; simp [ofDigits, digits_zero]
  | cons d rs ih =>
    intro hlt hl
    simp only [List.reverse_cons] at hl ⊢
    rw [ofDigits_snoc]
    have hd : d < base := hlt d (by simp)
    have hrs : ∀ x ∈ rs, x < base := fun x hx => hlt x (by simp [hx])
    have hl' : NoLead rs.reverse := by
      unfold NoLead at hl ⊢
      rw [List.head?_append] at hl
      cases hq : rs.reverse.head? with
      | none => simp
      | some x => rw [hq] at hl; simpa using hl
    have hne : ofDigits base rs.reverse * base + d ≠ 0 := by
      by_cases hr : rs.reverse = []
      · rw [hr] at hl
        have : d ≠ 0 := by simpa [NoLead] using hl
        omega
      · have hp := ofDigits_pos base (by omega) _ hr hl'
        have : 0 < ofDigits base rs.reverse * base := Nat.mul_pos hp (by omega)
        omega
    rw [digits_pos base _ hb hne]
    have e1 : (ofDigits base rs.reverse * base + d) / base = ofDigits base rs.reverse := by
      rw [Nat.add_comm, Nat.add_mul_div_right _ _ (by omega : 0 < base), Nat.div_eq_of_lt hd, Nat.zero_add]
    have e2 : (ofDigits base rs.reverse * base + d) % base = d := by
      rw [Nat.add_comm, Nat.add_mul_mod_self_right, Nat.mod_eq_of_lt hd]
    rw [e1, e2, ih hrs hl']

theorem digits_ofDigits' (base : Nat) (hb : 2 ≤ base) (ds : List Nat)
    (hlt : ∀ d ∈ ds, d < base) (hl : NoLead ds) : digits base (ofDigits base ds) = ds := by
  have := digits_ofDigits base hb ds.reverse (by simpa using hlt) (by simpa using hl)
  simpa using this

theorem ofDigits_zeros (base z : Nat) (ds : List Nat) :
    ofDigits base (List.replicate z 0 ++ ds) = ofDigits base ds := by
  induction z with
  | zero => simp
  | succ z ih =>
    simp only [List.replicate_succ, List.cons_append]
    unfold ofDigits at ih ⊢
    simpa using ih

/-! ### leading -/

theorem leading_split (x : UInt8) : ∀ b : Bytes,
    b = List.replicate (leading x b) x ++ b.drop (leading x b) ∧ (b.drop (leading x b)).head? ≠ some x := by
  intro b
  induction b with
  | nil => simp [leading]
  | cons y ys ih =>
    by_cases h : (y == x) = true
    · have hy : y = x := by simpa using h
      subst hy
      simp only [leading, beq_self_eq_true, if_true, List.replicate_succ, List.cons_append, List.drop_succ_cons]
      exact ⟨by rw [← ih.1], ih.2⟩
    · have hy : y ≠ x := by simpa using h
      have hf : (y == x) = false := by simpa using hy
      have hl : leading x (y :: ys) = 0 := by simp [leading, hf]
      rw [hl]
      exact ⟨by simp, by simpa using hy⟩

theorem leading_replicate (x : UInt8) (z : Nat) (t : Bytes) (h : t.head? ≠ some x) :
    leading x (List.replicate z x ++ t) = z := by
  induction z with
  | zero =>
    simp only [List.replicate_zero, List.nil_append]
    cases t with
    | nil => rfl
    | cons y ys =>
      have : y ≠ x := by simpa using h
      simp [leading, this]
  | succ z ih => simp [List.replicate_succ, leading, ih]

/-! ### alphabet -/

theorem digitOf_charOf : ∀ d, d < 58 → digitOf (charOf d) = some d := by decide

theorem charOf_ne_one : ∀ d, d < 58 → d ≠ 0 → charOf d ≠ 49 := by decide

theorem mapM_enc (z : Nat) : ∀ (ds : List Nat), (∀ d ∈ ds, d < 58) →
    (List.replicate z (49 : UInt8) ++ ds.map charOf).mapM digitOf = some (List.replicate z 0 ++ ds) := by
  induction z with
  | zero =>
    intro ds
    induction ds with
    | nil => intro _; rfl
    | cons d ds ih =>
      intro h
      have h1 := digitOf_charOf d (h d (by simp))
      have h2 := ih (fun x hx => h x (by simp [hx]))
      simp only [List.replicate_zero, List.nil_append, List.map_cons, List.mapM_cons] at h2 ⊢
      rw [h1, h2]; rfl
  | succ z ih =>
    intro ds h
    have h0 : digitOf 49 = some 0 := by decide
    simp only [List.replicate_succ, List.cons_append, List.mapM_cons]
    rw [h0, ih ds h]; rfl

theorem toNat_eq (b : Bytes) : toNat b = ofDigits 256 (b.map UInt8.toNat) := by
  unfold toNat ofDigits
  rw [List.foldl_map]

/-- **base58btc round trip** -/
theorem decode_encode (b : Bytes) (hne : b ≠ []) : decode (encode b) = some b := by
  obtain ⟨hsplit, hhead⟩ := leading_split 0 b
  generalize hz : leading 0 b = z at hsplit hhead
  generalize hrest : b.drop z = rest at hsplit hhead
  -- the number
  have hN : toNat b = ofDigits 256 (rest.map UInt8.toNat) := by
    rw [toNat_eq]
    conv => lhs; rw [hsplit]
    rw [List.map_append, List.map_replicate]
    exact ofDigits_zeros 256 z _
  have hrl : NoLead (rest.map UInt8.toNat) := by
    unfold NoLead
    cases rest with
    | nil => simp
    | cons y ys =>
      have : y ≠ 0 := by simpa using hhead
      simp only [List.map_cons, List.head?_cons, ne_eq, Option.some.injEq]
      intro h0
      apply this
      exact UInt8.toNat_inj.mp (by simpa using h0)
  have hrlt : ∀ d ∈ rest.map UInt8.toNat, d < 256 := by
    intro d hd
    obtain ⟨y, _, rfl⟩ := List.mem_map.mp hd
    exact y.toNat_lt
  have hdig : digits 256 (toNat b) = rest.map UInt8.toNat := by
    rw [hN]; exact digits_ofDigits' 256 (by omega) _ hrlt hrl
  have hd58 := digits_lt 58 (by omega) (toNat b)
  have hl58 := digits_noLead 58 (by omega) (toNat b)
  unfold decode
  have henc : encode b = List.replicate z 49 ++ (digits 58 (toNat b)).map charOf := by
    unfold encode; rw [hz]
  rw [henc]
  have hnonempty : (List.replicate z (49 : UInt8) ++ (digits 58 (toNat b)).map charOf).isEmpty = false := by
    cases z with
    | succ z => simp [List.replicate_succ]
    | zero =>
      simp only [List.replicate_zero, List.nil_append, List.isEmpty_map]
      have hb' : b = rest := by simpa using hsplit
      have hrne : rest.map UInt8.toNat ≠ [] := by rw [← hb']; simpa using hne
      have hp := ofDigits_pos 256 (by omega) _ hrne hrl
      rw [← hN] at hp
      cases hq : digits 58 (toNat b) with
      | nil => have := digits_eq_nil 58 _ (by omega) hq; omega
      | cons _ _ => rfl
  simp only [hnonempty, Bool.false_eq_true, if_false]
  rw [mapM_enc z _ hd58]
  simp only
  have hlead : leading 49 (List.replicate z (49 : UInt8) ++ (digits 58 (toNat b)).map charOf) = z := by
    apply leading_replicate
    cases hq : digits 58 (toNat b) with
    | nil => simp
    | cons d ds =>
      rw [hq] at hl58
      have hd0 : d ≠ 0 := by simpa [NoLead] using hl58
      have hdlt : d < 58 := hd58 d (by rw [hq]; simp)
      have := charOf_ne_one d hdlt hd0
      simpa using this
  rw [hlead]
  have hfold : List.foldl (fun acc d => acc * 58 + d) 0 (List.replicate z 0 ++ digits 58 (toNat b)) = toNat b := by
    have := ofDigits_zeros 58 z (digits 58 (toNat b))
    unfold ofDigits at this
    rw [this]
    exact ofDigits_digits 58 (by omega) (toNat b)
  rw [hfold, hdig, List.map_map]
  have hid : (UInt8.ofNat ∘ UInt8.toNat) = id := by
    funext x; simp
  rw [hid, List.map_id]
  exact congrArg some hsplit.symm

end Base58
