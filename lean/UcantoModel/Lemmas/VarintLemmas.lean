import UcantoModel.Model.Varint
/-! Round trips and suffix properties of the two varint readers. -/
namespace Varint

theorem toNat_ofNat_lt {n : Nat} (h : n < 256) : (UInt8.ofNat n).toNat = n := by
  rw [UInt8.toNat_ofNat']; exact Nat.mod_eq_of_lt h

/-- general statement for the std reader: reading `encode n` from state `(i, x)` -/
theorem readStdAux_encode (n : Nat) : ∀ (i x : Nat) (rest : Bytes), n < 2 ^ (64 - 7 * i) → i ≤ 9 →
    readStdAux (encode n ++ rest) i x = .ok (x + n * 2 ^ (7 * i), rest) := by
  induction n using Nat.strongRecOn with
  | _ n ih =>
    intro i x rest hn hi
    unfold encode
    split
    · rename_i hlt
      simp only [List.cons_append, List.nil_append, readStdAux]
      rw [toNat_ofNat_lt (by omega)]
      simp only [hlt, if_true]
      have : ¬ (i == 9 && decide (n > 1)) = true := by
        simp only [Bool.and_eq_true, beq_iff_eq, decide_eq_true_eq, not_and]
        intro h9; subst h9
        simp at hn; omega
      simp [this]
    · rename_i hge
      simp only [List.cons_append, readStdAux]
      rw [toNat_ofNat_lt (by omega)]
      have h1 : ¬ (n % 128 + 128 < 128) := by omega
      simp only [h1, if_false]
      have hi9 : ¬ i ≥ 9 := by
        intro h9
        have : i = 9 := by omega
        subst this
        simp at hn; omega
      simp only [hi9, if_false]
      have hlt : n / 128 < n := by omega
      have hbound : n / 128 < 2 ^ (64 - 7 * (i + 1)) := by
        have h64 : 64 - 7 * i = (64 - 7 * (i + 1)) + 7 := by omega
        rw [h64, Nat.pow_add] at hn
        exact Nat.div_lt_of_lt_mul (by rw [Nat.mul_comm]; simpa using hn)
      rw [ih (n / 128) hlt (i + 1) _ rest hbound (by omega)]
      congr 2
      have hp : 2 ^ (7 * (i + 1)) = 128 * 2 ^ (7 * i) := by
        rw [Nat.mul_add, Nat.pow_add]; simp [Nat.mul_comm]
      rw [hp]
      have : n % 128 + 128 - 128 = n % 128 := by omega
      rw [this]
      have hdm := Nat.div_add_mod n 128
      generalize 2 ^ (7 * i) = P
      have e1 : n / 128 * (128 * P) = 128 * (n / 128 * P) := Nat.mul_left_comm _ _ _
      have e2 : n * P = 128 * (n / 128 * P) + n % 128 * P := by
        conv => lhs; rw [← hdm]
        rw [Nat.add_mul, Nat.mul_assoc]
      rw [e1, e2]; omega

theorem readStd_encode (n : Nat) (rest : Bytes) (h : n < 2 ^ 64) :
    readStd (encode n ++ rest) = .ok (n, rest) := by
  unfold readStd
  rw [readStdAux_encode n 0 0 rest (by simpa using h) (by omega)]
  simp

theorem readMfAux_encode (n : Nat) : ∀ (i x : Nat) (rest : Bytes), n < 2 ^ (63 - 7 * i) → i ≤ 8 →
    (i > 0 → n ≠ 0) →
    readMfAux (encode n ++ rest) i x = .ok (x + n * 2 ^ (7 * i), rest) := by
  induction n using Nat.strongRecOn with
  | _ n ih =>
    intro i x rest hn hi hnz
    unfold encode
    split
    · rename_i hlt
      simp only [List.cons_append, List.nil_append, readMfAux]
      rw [toNat_ofNat_lt (by omega)]
      have h1 : ¬ ((i == 8 && decide (n ≥ 128)) || decide (i ≥ 9)) = true := by
        simp; omega
      simp only [h1, if_false, hlt, if_true]
      have h2 : ¬ (n == 0 && decide (i > 0)) = true := by
        simp only [Bool.and_eq_true, beq_iff_eq, decide_eq_true_eq, not_and]
        intro h0 hpos; exact hnz hpos h0
      simp [h2]
    · rename_i hge
      simp only [List.cons_append, readMfAux]
      rw [toNat_ofNat_lt (by omega)]
      have hi8 : i < 8 := by
        rcases Nat.lt_or_ge i 8 with h | h
        · exact h
        · have : i = 8 := by omega
          subst this
          simp at hn; omega
      have h1 : ¬ ((i == 8 && decide (n % 128 + 128 ≥ 128)) || decide (i ≥ 9)) = true := by
        simp; omega
      have h2 : ¬ (n % 128 + 128 < 128) := by omega
      simp only [h1, if_false, h2]
      have hlt : n / 128 < n := by omega
      have hbound : n / 128 < 2 ^ (63 - 7 * (i + 1)) := by
        have h63 : 63 - 7 * i = (63 - 7 * (i + 1)) + 7 := by omega
        rw [h63, Nat.pow_add] at hn
        exact Nat.div_lt_of_lt_mul (by rw [Nat.mul_comm]; simpa using hn)
      rw [ih (n / 128) hlt (i + 1) _ rest hbound (by omega) (by intro _; omega)]
      simp only [Bool.false_eq_true, if_false]
      congr 2
      have hp : 2 ^ (7 * (i + 1)) = 128 * 2 ^ (7 * i) := by
        rw [Nat.mul_add, Nat.pow_add]; simp [Nat.mul_comm]
      rw [hp]
      have : n % 128 + 128 - 128 = n % 128 := by omega
      rw [this]
      have hdm := Nat.div_add_mod n 128
      generalize 2 ^ (7 * i) = P
      have e1 : n / 128 * (128 * P) = 128 * (n / 128 * P) := Nat.mul_left_comm _ _ _
      have e2 : n * P = 128 * (n / 128 * P) + n % 128 * P := by
        conv => lhs; rw [← hdm]
        rw [Nat.add_mul, Nat.mul_assoc]
      rw [e1, e2]; omega

theorem readMf_encode (n : Nat) (rest : Bytes) (h : n < 2 ^ 63) :
    readMf (encode n ++ rest) = .ok (n, rest) := by
  unfold readMf
  rw [readMfAux_encode n 0 0 rest (by simpa using h) (by omega) (by intro h; omega)]
  simp

/-- whatever a reader returns as rest is a suffix of its input -/
theorem readMfAux_suffix : ∀ (s : Bytes) (i x v : Nat) (r : Bytes),
    readMfAux s i x = .ok (v, r) → ∃ p, s = p ++ r ∧ p ≠ [] := by
  intro s
  induction s with
  | nil => intro i x v r h; simp [readMfAux] at h
  | cons b rest ih =>
    intro i x v r h
    simp only [readMfAux] at h
    split at h
    · cases h
    · split at h
      · split at h
        · cases h
        · cases h; exact ⟨[b], rfl, by simp⟩
      · obtain ⟨p, hp, _⟩ := ih _ _ _ _ h
        exact ⟨b :: p, by simp [hp], by simp⟩

theorem readMf_suffix {s r : Bytes} {v : Nat} (h : readMf s = .ok (v, r)) : ∃ p, s = p ++ r ∧ p ≠ [] :=
  readMfAux_suffix s 0 0 v r h

theorem readStdAux_suffix : ∀ (s : Bytes) (i x v : Nat) (r : Bytes),
    readStdAux s i x = .ok (v, r) → ∃ p, s = p ++ r ∧ p ≠ [] := by
  intro s
  induction s with
  | nil => intro i x v r h; simp [readStdAux] at h
  | cons b rest ih =>
    intro i x v r h
    simp only [readStdAux] at h
    split at h
    · split at h
      · cases h
      · cases h; exact ⟨[b], rfl, by simp⟩
    · split at h
      · cases h
      · obtain ⟨p, hp, _⟩ := ih _ _ _ _ h
        exact ⟨b :: p, by simp [hp], by simp⟩

theorem readStd_suffix {s r : Bytes} {v : Nat} (h : readStd s = .ok (v, r)) : ∃ p, s = p ++ r ∧ p ≠ [] :=
  readStdAux_suffix s 0 0 v r h

end Varint
