/-! GENERATED on every run by `vharness -consts` from /repo's current source. Do not edit. -/
namespace Generated

def didCore : Nat := 0x0d1d
def didEd25519 : Nat := 0xed
def didRSA : Nat := 0x1205
def edSignerCode : Nat := 0x1300
def edVerifierCode : Nat := 0xed
def rsaSignerCode : Nat := 0x1305
def rsaVerifierCode : Nat := 0x1205
def sigEdDSA : Nat := 0xd0ed
def sigRS256 : Nat := 0xd01205
def sigNonStandard : Nat := 0xd000
def sigES256K : Nat := 0xd0e7
def sigES256 : Nat := 0xd01200
def sigEIP191 : Nat := 0xd191
def ucanVersion : String := "0.9.1"
def carContentType : String := "application/vnd.ipld.car"
def edAlgName : String := "EdDSA"
def rsaAlgName : String := "RS256"
def archiveKey : String := "ucan@0.9.1"
def messageKey : String := "ucanto/message@7.0.0"
def headerTyp : String := "JWT"

end Generated
