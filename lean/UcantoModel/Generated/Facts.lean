import UcantoModel.Model.Lock
/-! GENERATED on every run by `vharness -facts` from /repo's current source (go/ast). Do not edit. -/
namespace Generated
open Lock

/-- lock held by `blockstore.Put` while it reads and writes `keys` / `blks` -/
def putLock : Mode := .write
def putMutates : Bool := true
/-- lock held by `blockstore.Get` while it reads -/
def getLock : Mode := .read
/-- lock held by the iterator closure around its accesses to the shared fields -/
def iterLock : Mode := .read
/-- the iterator closure touches `keys` / `blks` while holding no lock -/
def iterTouchesSharedOutsideLock : Bool := false
/-- `server.Execute` appends to the shared receipt slice between Lock and Unlock -/
def execAppendInsideLock : Bool := true

def facts : Facts := ⟨putLock, getLock, iterLock, iterTouchesSharedOutsideLock⟩

end Generated
