import UcantoModel.Model.Cbor
/-!
# StructRd — `schema.Struct` over a flat struct schema (`core/schema/struct.go` → `ipld.Rebind` → bindnode)

The reader a capability's typed caveats are bound with, and the one the validator reads the caveats of
`ucan/attest` with (`{proof: Link}`). It is strict — *fails closed*: the value must be a map, every key
must be a declared field, no key may repeat, every required field must be present and every present
field must hold a value of the declared kind (absent ≠ null: `optional` fields may be absent, never null).
-/
namespace StructRd
open Cbor

inductive FKind where
  | int | str | bool | bytes | link
deriving DecidableEq, Repr

structure Field where
  name : Bytes
  kind : FKind
  optional : Bool

def kindOk : FKind → CVal → Bool
  | .int, .int _ => true
  | .str, .text _ => true
  | .bool, .bool _ => true
  | .bytes, .bytes _ => true
  | .link, .link _ => true
  | _, _ => false

def lookup (kvs : List (Bytes × CVal)) (k : Bytes) : Option CVal :=
  (kvs.find? (·.1 == k)).map (·.2)

def noDup : List Bytes → Bool
  | [] => true
  | k :: ks => !ks.contains k && noDup ks

def fieldOk (kvs : List (Bytes × CVal)) (f : Field) : Bool :=
  match lookup kvs f.name with
  | some x => kindOk f.kind x
  | none => f.optional

def known (fs : List Field) (k : Bytes) : Bool := fs.any (·.name == k)

/-- the bound value: the present fields in schema order -/
def read (fs : List Field) (v : CVal) : Option (List (Bytes × CVal)) :=
  match v with
  | .map kvs =>
    if kvs.all (fun kv => known fs kv.1) && noDup (kvs.map (·.1)) && fs.all (fieldOk kvs)
    then some (fs.filterMap fun f => (lookup kvs f.name).map fun x => (f.name, x))
    else none
  | _ => none

/-- the schema of the caveats of `ucan/attest`: `type Attestation struct { proof Link }` -/
def proofKey : Bytes := [112, 114, 111, 111, 102]  -- "proof"
def attestation : List Field := [⟨proofKey, .link, false⟩]

end StructRd
