import UcantoModel.Model.Basic
/-! Enumeration of all strings over a small alphabet, shared (by specification) with the Go harness:
order = by length, then lexicographic in alphabet index (first symbol most significant). -/
namespace Enum

/-- all strings of length exactly `n` over `alpha`, lexicographic -/
def exact (alpha : List UInt8) : Nat → List Bytes
  | 0 => [[]]
  | n+1 => alpha.flatMap fun a => (exact alpha n).map (a :: ·)

/-- all strings of length `≤ n`, by length then lexicographic -/
def upTo (alpha : List UInt8) (n : Nat) : List Bytes :=
  (List.range (n+1)).flatMap (exact alpha)

end Enum
