/-!
# Readers — the combinators capabilities are parsed with (`core/schema`: `Or`, `Mapped`, `Literal`)

A reader maps an input to a value or fails. The library builds the readers of a capability's resource
and caveats from a few combinators; the validator then treats the composed reader as a *function* of its
input. The model is that function, given as a tree:

* `leaf tbl` — some reader whose behaviour is the table `tbl` (input ↦ output; anything else fails);
* `literal v` — `schema.Literal(v)`: accepts exactly `v` and returns it;
* `mapped r tbl` — `schema.Mapped(r, f)`: `r`, then the converter `f` (a table; anything else fails);
* `or cs` — `schema.Or(cs…)`: the result of the first member that accepts, failure if none does
  (`cs` non-empty in the correspondence: the library's union of *no* readers panics while rendering its
  failure, a configuration no property quantifies over; the model's `evalOr [] = none` is not compared).
-/
namespace Rd

inductive RTree where
  | leaf (tbl : List (Nat × Nat))
  | literal (v : Nat)
  | mapped (r : RTree) (tbl : List (Nat × Nat))
  | or (cs : List RTree)

def tblGet (tbl : List (Nat × Nat)) (x : Nat) : Option Nat :=
  (tbl.find? (·.1 == x)).map (·.2)

mutual
def eval : RTree → Nat → Option Nat
  | .leaf tbl, x => tblGet tbl x
  | .literal v, x => if x == v then some x else none
  | .mapped r tbl, x =>
    match eval r x with
    | some y => tblGet tbl y
    | none => none
  | .or cs, x => evalOr cs x
def evalOr : List RTree → Nat → Option Nat
  | [], _ => none
  | c :: cs, x =>
    match eval c x with
    | some y => some y
    | none => evalOr cs x
end

/-- reading a sequence of inputs with one reader value: each answer depends on its own input only -/
def evalSeq (t : RTree) (xs : List Nat) : List (Option Nat) := xs.map (eval t)

end Rd
