import UcantoModel.Model.Ipld
import UcantoModel.Model.SigScheme
/-!
# UCAN signing and verification payloads — mirrors `ucan/lib.go` (`Issue`, `VerifySignature`),
`ucan/view.go` accessors and `ucan/formatter` at field level.

What is signed is `base64url(dag-json(header)) "." base64url(dag-json(payload))`; that string is an
injective function of the record `SignRec` below (the JSON tree of header and payload), which is what
the model compares.  DID bytes ↔ DID string conversion is C14's subject; here principals are their
DID strings.
-/
namespace Payload

structure CapF where
  can : String
  rsrc : String
  nb : Ipld
deriving Repr, Inhabited

/-- what the caller hands to `Issue` (expiration already defaulted) -/
structure Fields where
  iss : String
  aud : String
  att : List CapF
  prf : List String
  exp : Option Int
  fct : List (List (String × Ipld))
  nnc : String      -- "" = option not used
  nbf : Int         -- 0 = option not used
deriving Repr, Inhabited

/-- the stored token (`udm.UCANModel`) -/
structure Token where
  v : String
  iss : String
  aud : String
  att : List CapF
  prf : List String
  exp : Option Int
  fct : List (List (String × Ipld))
  nnc : Option String
  nbf : Option Int
  sig : Bytes
deriving Repr, Inhabited

/-- the signed record: JWT-style header {alg, ucv, typ} and the payload -/
structure SignRec where
  alg : String
  ucv : String
  iss : String
  aud : String
  att : List (String × String × JTree)     -- (with, can, nb)
  prf : List String
  exp : Option Int
  fct : List JTree
  nnc : Option String
  nbf : Option Int
deriving Inhabited

def capJson (c : CapF) : String × String × JTree := (c.rsrc, c.can, c.nb.toDagJson)
def factJson (f : List (String × Ipld)) : JTree := (Ipld.map f).toDagJson

def version : String := "0.9.1"

/-- the payload `Issue` signs -/
def signRec (alg : String) (F : Fields) : SignRec :=
  { alg := alg, ucv := version, iss := F.iss, aud := F.aud, att := F.att.map capJson, prf := F.prf,
    exp := F.exp, fct := F.fct.map factJson,
    nnc := if F.nnc = "" then none else some F.nnc,
    nbf := if F.nbf = 0 then none else some F.nbf }

/-- `view.Nonce()` / `view.NotBefore()` -/
def Token.nonce (t : Token) : String := t.nnc.getD ""
def Token.notBefore (t : Token) : Int := t.nbf.getD 0

/-- the payload `VerifySignature` rebuilds from the decoded view (`algName` = `CodeName(sig.Code())`) -/
def verifyRec (algName : String) (t : Token) : SignRec :=
  { alg := algName, ucv := t.v, iss := t.iss, aud := t.aud, att := t.att.map capJson, prf := t.prf,
    exp := t.exp, fct := t.fct.map factJson,
    nnc := if t.nonce = "" then none else some t.nonce,
    nbf := if t.notBefore = 0 then none else some t.notBefore }

/-- the pinned tree left `nnc` and `nbf` out of the verification payload -/
def verifyRecPinned (algName : String) (t : Token) : SignRec :=
  { verifyRec algName t with nnc := none, nbf := none }

/-- an algorithm: its multicodec signature code and its JWT name -/
structure Alg where
  code : Nat
  name : String

/-- `ucan.Issue` -/
def issue (S : SigScheme) (ser : SignRec → Bytes) (a : Alg) (k : S.Key) (F : Fields) : Token :=
  { v := version, iss := F.iss, aud := F.aud, att := F.att, prf := F.prf, exp := F.exp, fct := F.fct,
    nnc := if F.nnc = "" then none else some F.nnc,
    nbf := if F.nbf = 0 then none else some F.nbf,
    sig := DidM.newSig a.code (S.sign k (ser (signRec a.name F))) }

/-- `ucan.VerifySignature(view, verifier)` for a verifier with DID `vdid`, key `pub`, algorithm `a`;
`nameOf` is `signature.CodeName` (`none`: unknown code ⇒ error, treated as not verified) -/
def verify (S : SigScheme) (ser : SignRec → Bytes) (nameOf : Nat → Option String) (a : Alg)
    (vdid : String) (pub : S.Pub) (t : Token) : Bool :=
  match nameOf (DidM.sigCode t.sig) with
  | none => false
  | some n => t.iss == vdid && DidM.verifyWith S a.code pub (ser (verifyRec n t)) t.sig

end Payload
