import Lean.Data.Json
import UcantoModel.Model.Cbor
/-! # reading the harness's JSON form of an IPLD value into `Cbor.CVal` (driver glue, not verified) -/
namespace CborJson
open Lean Cbor

partial def parse (j : Json) : Except String CVal :=
  match j with
  | .str "z" => .ok .null
  | .bool b => .ok (.bool b)
  | .obj _ =>
    match j.getObjVal? "i" with
    | .ok (.str s) => match s.toInt? with
      | some i => .ok (.int i)
      | none => .error "int"
    | _ =>
    match j.getObjVal? "s" with
    | .ok (.str h) => (Bytes.ofHex h).elim (.error "hex") fun b => .ok (.text b)
    | _ =>
    match j.getObjVal? "b" with
    | .ok (.str h) => (Bytes.ofHex h).elim (.error "hex") fun b => .ok (.bytes b)
    | _ =>
    match j.getObjVal? "l" with
    | .ok (.str h) => (Bytes.ofHex h).elim (.error "hex") fun b => .ok (.link b)
    | _ =>
    match j.getObjVal? "a" with
    | .ok (.arr xs) => do
      let l ← xs.toList.mapM parse
      pure (.list l)
    | _ =>
    match j.getObjVal? "m" with
    | .ok (.arr xs) => do
      let m ← xs.toList.mapM fun e =>
        match e with
        | .arr #[.str k, v] => do
          let kb ← (Bytes.ofHex k).elim (.error "hex") .ok
          let vv ← parse v
          pure (kb, vv)
        | _ => .error "map entry"
      pure (.map m)
    | _ => .error "object"
  | _ => .error "value"

end CborJson
