import Lean.Data.Json
import UcantoModel.Model.Cbor
import UcantoModel.Model.Wire
import UcantoModel.Model.StructRd
import UcantoModel.Model.Issue
/-! # reading the harness's JSON form of an IPLD value into `Cbor.CVal` (driver glue, not verified) -/
namespace CborJson
open Lean Cbor

partial def parse (j : Json) : Except String CVal :=
  match j with
  | .str "z" => .ok .null
  | .bool b => .ok (.bool b)
  | .obj _ =>
    match j.getObjVal? "i" with
    | .ok (.str s) => match s.toInt? with
      | some i => .ok (.int i)
      | none => .error "int"
    | _ =>
    match j.getObjVal? "s" with
    | .ok (.str h) => (Bytes.ofHex h).elim (.error "hex") fun b => .ok (.text b)
    | _ =>
    match j.getObjVal? "b" with
    | .ok (.str h) => (Bytes.ofHex h).elim (.error "hex") fun b => .ok (.bytes b)
    | _ =>
    match j.getObjVal? "l" with
    | .ok (.str h) => (Bytes.ofHex h).elim (.error "hex") fun b => .ok (.link b)
    | _ =>
    match j.getObjVal? "a" with
    | .ok (.arr xs) => do
      let l ← xs.toList.mapM parse
      pure (.list l)
    | _ =>
    match j.getObjVal? "m" with
    | .ok (.arr xs) => do
      let m ← xs.toList.mapM fun e =>
        match e with
        | .arr #[.str k, v] => do
          let kb ← (Bytes.ofHex k).elim (.error "hex") .ok
          let vv ← parse v
          pure (kb, vv)
        | _ => .error "map entry"
      pure (.map m)
    | _ => .error "object"
  | _ => .error "value"

end CborJson

namespace WireJson
open Lean Cbor Wire

def hexField (j : Json) (key : String) : Except String Bytes :=
  match j.getObjVal? key with
  | .ok (.str h) => (Bytes.ofHex h).elim (.error s!"hex {key}") .ok
  | _ => .error s!"missing {key}"

def optHex (j : Json) (key : String) : Except String (Option Bytes) :=
  match j.getObjVal? key with
  | .ok (.str h) => (Bytes.ofHex h).elim (.error s!"hex {key}") (fun b => .ok (some b))
  | _ => .ok none

def optInt (j : Json) (key : String) : Except String (Option Int) :=
  match j.getObjVal? key with
  | .ok (.str s) => match s.toInt? with
    | some i => .ok (some i)
    | none => .error s!"int {key}"
  | _ => .ok none

def hexList (j : Json) : Except String (List Bytes) :=
  match j with
  | .arr xs => xs.toList.mapM fun x => match x with
    | .str h => (Bytes.ofHex h).elim (.error "hex") .ok
    | _ => .error "hex list"
  | _ => .error "list"

def optHexList (j : Json) (key : String) : Except String (Option (List Bytes)) :=
  match j.getObjVal? key with
  | .ok v => (hexList v).map some
  | .error _ => .ok none

def entries (j : Json) : Except String (List (Bytes × CVal)) :=
  match j with
  | .arr xs => xs.toList.mapM fun e => match e with
    | .arr #[.str kk, v] => do
      let kb ← (Bytes.ofHex kk).elim (.error "hex") .ok
      let vv ← CborJson.parse v
      pure (kb, vv)
    | _ => .error "entry"
  | _ => .error "entries"

def parseToken (j : Json) : Except String Token := do
  let v ← hexField j "v"
  let iss ← hexField j "iss"
  let aud ← hexField j "aud"
  let s ← hexField j "s"
  let att ← match j.getObjVal? "att" with
    | .ok (.arr xs) => xs.toList.mapM fun c => do
      let w ← hexField c "with"
      let cn ← hexField c "can"
      let nb ← (c.getObjVal? "nb") >>= CborJson.parse
      pure (⟨w, cn, nb⟩ : Cap)
    | _ => .error "att"
  let prf ← optHexList j "prf"
  let exp ← optInt j "exp"
  let fct ← match j.getObjVal? "fct" with
    | .ok (.arr xs) => (xs.toList.mapM entries).map some
    | _ => .ok none
  let nnc ← optHex j "nnc"
  let nbf ← optInt j "nbf"
  pure { v, iss, aud, s, att, prf, exp, fct, nnc, nbf }

def parseRcpt (j : Json) : Except String Rcpt := do
  let ran ← hexField j "ran"
  let okSide ← match j.getObjVal? "ok" with | .ok (.bool b) => .ok b | _ => .error "ok"
  let value ← (j.getObjVal? "value") >>= CborJson.parse
  let fork ← (j.getObjVal? "fork") >>= hexList
  let join ← optHex j "join"
  let metadata ← (j.getObjVal? "meta") >>= entries
  let iss ← optHex j "iss"
  let prf ← (j.getObjVal? "prf") >>= hexList
  let sig ← hexField j "sig"
  pure { ran, okSide, value, fork, join, metadata, iss, prf, sig }

def parseMsg (j : Json) : Except String Msg := do
  let execute ← optHexList j "execute"
  let report ← match j.getObjVal? "report" with
    | .ok (.arr xs) => (xs.toList.mapM fun (e : Json) => match e with
        | Json.arr #[Json.str a, Json.str b] => do
          let ka ← (Bytes.ofHex a).elim (Except.error "hex") Except.ok
          let kb ← (Bytes.ofHex b).elim (Except.error "hex") Except.ok
          pure (ka, kb)
        | _ => (Except.error "report entry" : Except String (Bytes × Bytes))).map some
    | _ => .ok none
  pure { execute, report }

def parseAtt (j : Json) : Except String (List Cap) :=
  match j.getObjVal? "att" with
  | .ok (.arr xs) => xs.toList.mapM fun c => do
    let w ← hexField c "with"
    let cn ← hexField c "can"
    let nb ← (c.getObjVal? "nb") >>= CborJson.parse
    pure (⟨w, cn, nb⟩ : Cap)
  | _ => .error "att"

def intField (j : Json) (key : String) : Except String Int :=
  match j.getObjVal? key with
  | .ok (.str s) => match s.toInt? with
    | some i => .ok i
    | none => .error s!"int {key}"
  | _ => .error s!"missing {key}"

def parseOpt (j : Json) : Except String Issue.Opt := do
  match ← j.getObjValAs? String "o" with
  | "noexp" => pure .noexp
  | "exp" => pure (.exp (← intField j "i"))
  | "nbf" => pure (.nbf (← intField j "i"))
  | "nnc" => pure (.nnc (← hexField j "s"))
  | "prf" => pure (.prf (← (j.getObjVal? "l") >>= hexList))
  | "fct" => match j.getObjVal? "f" with
    | .ok (.arr xs) => do pure (.fct (← xs.toList.mapM entries))
    | _ => .error "fct"
  | o => .error s!"option {o}"

/-- the token the issuance model writes for the given options (signature taken from the implementation) -/
def issuedBytes (j : Json) : Except String Bytes := do
  let v ← hexField j "v"
  let iss ← hexField j "iss"
  let aud ← hexField j "aud"
  let s ← hexField j "s"
  let att ← parseAtt j
  let opts ← match j.getObjVal? "opts" with
    | .ok (.arr xs) => xs.toList.mapM parseOpt
    | _ => .error "opts"
  pure (tokenBytes (Issue.token 0 v iss aud s att (Issue.fold opts)))

/-- model bytes (hex) of one item `{kind, fields, root}` -/
def itemBytes (j : Json) : Except String String := do
  let kind ← j.getObjValAs? String "kind"
  let f ← j.getObjVal? "fields"
  match kind with
  | "token" => (parseToken f).map fun t => Bytes.toHex (tokenBytes t)
  | "issued" => (issuedBytes f).map Bytes.toHex
  | "receipt" => (parseRcpt f).map fun r => Bytes.toHex (receiptBytes r)
  | "message" => (parseMsg f).map fun m => Bytes.toHex (messageBytes m)
  | "archive" => (hexField f "root").map fun r => Bytes.toHex (archiveBytes r)
  | k => .error s!"kind {k}"

end WireJson

namespace StructRdJson
open Lean Cbor StructRd

def asciiName (b : Bytes) : String := String.ofList (b.map fun c => Char.ofNat c.toNat)

def schemaOf : String → Option (List Field)
  | "att" => some attestation
  | "lib" => some [⟨"size".toUTF8.toList, .int, true⟩, ⟨"label".toUTF8.toList, .str, true⟩]
  | "req" => some [⟨"name".toUTF8.toList, .str, false⟩, ⟨"count".toUTF8.toList, .int, false⟩,
      ⟨"flag".toUTF8.toList, .bool, true⟩, ⟨"data".toUTF8.toList, .bytes, true⟩]
  | _ => none

def leaf : CVal → String
  | .int i => s!"i{i}"
  | .text s => s!"s{Bytes.toHex s}"
  | .bool b => if b then "t" else "f"
  | .bytes b => s!"b{Bytes.toHex b}"
  | .link l => s!"l{Bytes.toHex l}"
  | _ => "?"

def run (schema valueJson : String) : Except String String := do
  let fs ← (schemaOf schema).elim (.error s!"schema {schema}") .ok
  let v ← CborJson.parse (← Json.parse valueJson)
  match read fs v with
  | none => pure "fail"
  | some out => pure ("|".intercalate ("ok" :: out.map fun kv => s!"{asciiName kv.1}={leaf kv.2}"))

end StructRdJson
