import Lean.Data.Json
import UcantoModel.Model.Payload
/-! Parsing of the C07 harness's token specs (typed IPLD values as JSON). -/
open Lean

namespace UcanJson
open Payload

partial def parseTV (j : Json) : Except String Ipld := do
  let t ← (← j.getObjVal? "t").getStr?
  match t with
  | "null" => pure .null
  | "bool" => do pure (.bool (← (← j.getObjVal? "v").getBool?))
  | "int" => do pure (.int (← (← j.getObjVal? "v").getInt?))
  | "str" => do pure (.str (← (← j.getObjVal? "v").getStr?))
  | "bytes" => do
    let s ← (← j.getObjVal? "v").getStr?
    match Bytes.ofHex (if s == "" then "-" else s) with
    | some b => pure (.bytes b)
    | none => throw "hex"
  | "link" => do pure (.link (← (← j.getObjVal? "v").getStr?))
  | "list" => do
    let arr ← match j.getObjVal? "v" with
      | .ok .null => pure #[]
      | .ok v => v.getArr?
      | .error _ => pure #[]
    pure (.list (← arr.toList.mapM parseTV))
  | "map" => do
    let arr ← match j.getObjVal? "v" with
      | .ok .null => pure #[]
      | .ok v => v.getArr?
      | .error _ => pure #[]
    let kvs ← arr.toList.mapM fun kv => do
      let k ← (← kv.getObjVal? "k").getStr?
      let v ← parseTV (← kv.getObjVal? "v")
      pure (k, v)
    pure (.map kvs)
  | _ => throw s!"kind {t}"

def optArr (j : Json) (k : String) : Array Json :=
  match j.getObjVal? k with
  | .ok (.arr a) => a
  | _ => #[]

def optInt (j : Json) (k : String) : Option Int :=
  match j.getObjVal? k with
  | .ok v => match v.getInt? with | .ok i => some i | .error _ => none
  | .error _ => none

def optStr (j : Json) (k : String) : Option String :=
  match j.getObjVal? k with
  | .ok v => match v.getStr? with | .ok s => some s | .error _ => none
  | .error _ => none

/-- a token with the given fields (the signature is not part of the comparison) -/
def parseToken (j : Json) : Except String Token := do
  let att ← (optArr j "att").toList.mapM fun c => do
    let can ← (← c.getObjVal? "can").getStr?
    let w ← (← c.getObjVal? "with").getStr?
    let nb ← parseTV (← c.getObjVal? "nb")
    pure ({ can := can, rsrc := w, nb := nb } : CapF)
  let prf ← (optArr j "prf").toList.mapM (·.getStr?)
  let fct ← (optArr j "fct").toList.mapM fun f => do
    let arr ← f.getArr?
    arr.toList.mapM fun kv => do
      let k ← (← kv.getObjVal? "k").getStr?
      let v ← parseTV (← kv.getObjVal? "v")
      pure (k, v)
  pure { v := (optStr j "v").getD "", iss := (optStr j "iss").getD "", aud := (optStr j "aud").getD "",
         att, prf, exp := optInt j "exp", fct, nnc := optStr j "nnc", nbf := optInt j "nbf", sig := [] }

mutual
def beqRecAtt : List (String × String × JTree) → List (String × String × JTree) → Bool
  | [], [] => true
  | (a, b, c) :: xs, (a', b', c') :: ys => a == a' && b == b' && c == c' && beqRecAtt xs ys
  | _, _ => false
end

def beqJsonList : List JTree → List JTree → Bool
  | [], [] => true
  | x :: xs, y :: ys => x == y && beqJsonList xs ys
  | _, _ => false

def beqRec (a b : SignRec) : Bool :=
  a.alg == b.alg && a.ucv == b.ucv && a.iss == b.iss && a.aud == b.aud && beqRecAtt a.att b.att &&
  a.prf == b.prf && a.exp == b.exp && beqJsonList a.fct b.fct && a.nnc == b.nnc && a.nbf == b.nbf

end UcanJson
