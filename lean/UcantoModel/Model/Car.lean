import UcantoModel.Model.Varint
/-!
# CID parsing and the CAR codec — mirrors `core/car/car.go` (Encode / Decode / blkReader.next),
go-car's `util.LdRead`/`ReadNode`, go-cid's `CidFromReader` / `Prefix().Sum`.

Hash functions are a parameter `H : Nat → Option (Bytes → Bytes)` (multihash code ↦ full digest);
`none` = the code has no registered hasher.
-/
namespace Car
open Varint

abbrev HashTable := Nat → Option (Bytes → Bytes)

/-- a parsed CID: the raw bytes exactly as read, and the multihash fields -/
structure CidInfo where
  raw : Bytes
  v0 : Bool
  mhCode : Nat
  mhLen : Nat
  digest : Bytes
deriving DecidableEq, Repr

def maxAlloc : Nat := 32 * 1024 * 1024   -- 32 MiB

def takeExact (n : Nat) (s : Bytes) : Option (Bytes × Bytes) :=
  if s.length < n then none else some (s.take n, s.drop n)

/-- `cid.CidFromReader` on the bytes of one section; returns the CID and the rest (block data) -/
def parseCid (s : Bytes) : Option (CidInfo × Bytes) :=
  match readMf s with
  | .error _ => none
  | .ok (vers, r1) =>
    if vers == 0x12 then
      -- CIDv0: 34 bytes in total; accepted only as a sha2-256 multihash of length 32
      match takeExact 34 s with
      | none => none
      | some (raw, rest) =>
        match raw with
        | _ :: l :: dig => if l == 0x20 then some (⟨raw, true, 0x12, 32, dig⟩, rest) else none
        | _ => none
    else if vers != 1 then none
    else
      match readMf r1 with
      | .error _ => none
      | .ok (_codec, r2) =>
        match readMf r2 with
        | .error _ => none
        | .ok (code, r3) =>
          match readMf r3 with
          | .error _ => none
          | .ok (len, r4) =>
            if len > maxAlloc then none
            else match takeExact len r4 with
              | none => none
              | some (dig, rest) =>
                some (⟨s.take (s.length - rest.length), false, code, len, dig⟩, rest)

/-- `cid.Prefix().Sum(data)` compared with the CID: does the data match the CID's own multihash? -/
def hashMatches (H : HashTable) (c : CidInfo) (data : Bytes) : Bool :=
  if c.mhCode == 0 then c.digest == data     -- identity: the digest is the data itself
  else match H c.mhCode with
    | none => false
    | some h =>
      let full := h data
      if full.length < c.mhLen then false else full.take c.mhLen == c.digest

structure Block where
  cid : Bytes
  data : Bytes
deriving DecidableEq, Repr

inductive Item where
  | block (b : Block)
  | err
deriving DecidableEq, Repr

/-- one call of `blkReader.next` on the remaining input.  `none` = clean end of the archive (only at a
section boundary, i.e. when nothing at all is left). -/
def next (H : HashTable) (s : Bytes) : Option (Item × Bytes) :=
  if s.isEmpty then none else
  match readStd s with
  | .error _ => some (.err, [])
  | .ok (l, r) =>
    if l > maxAlloc then some (.err, r)
    else match takeExact l r with
      | none => some (.err, [])
      | some (sec, rest) =>
        match parseCid sec with
        | none => some (.err, rest)
        | some (c, data) =>
          if hashMatches H c data then some (.block ⟨c.raw, data⟩, rest) else some (.err, rest)

/-- the block iterator as its consumers use it (`NewBlockReader` / `NewBlockStore` stop at the first
error): delivered blocks in order, and whether the iteration ended with an error. -/
def blocks (H : HashTable) : Nat → Bytes → List Block × Bool
  | 0, _ => ([], true)
  | fuel+1, s =>
    match next H s with
    | none => ([], false)
    | some (.err, _) => ([], true)
    | some (.block b, rest) =>
      let (bs, e) := blocks H fuel rest
      (b :: bs, e)

/-! ## header -/

def cborHead (major : Nat) (n : Nat) : Bytes :=
  if n < 24 then [UInt8.ofNat (major * 32 + n)]
  else if n < 256 then [UInt8.ofNat (major * 32 + 24), UInt8.ofNat n]
  else if n < 65536 then [UInt8.ofNat (major * 32 + 25), UInt8.ofNat (n / 256), UInt8.ofNat (n % 256)]
  else [UInt8.ofNat (major * 32 + 26), UInt8.ofNat (n / 16777216), UInt8.ofNat (n / 65536 % 256),
        UInt8.ofNat (n / 256 % 256), UInt8.ofNat (n % 256)]

def rootsKey : Bytes := [0x65, 0x72, 0x6f, 0x6f, 0x74, 0x73]                  -- text(5) "roots"
def versionKey : Bytes := [0x67, 0x76, 0x65, 0x72, 0x73, 0x69, 0x6f, 0x6e]    -- text(7) "version"

/-- a CID as DAG-CBOR link: tag 42, byte string of `0x00 ++ cid` -/
def cborLink (cid : Bytes) : Bytes := [0xd8, 0x2a] ++ cborHead 2 (cid.length + 1) ++ [0x00] ++ cid

/-- `cbor.DumpObject(CarHeader{Roots, Version})` -/
def encodeHeaderV (roots : List Bytes) (version : Nat) : Bytes :=
  [0xa2] ++ rootsKey ++ cborHead 4 roots.length ++ roots.flatMap cborLink ++ versionKey ++ cborHead 0 version

def encodeHeader (roots : List Bytes) : Bytes := encodeHeaderV roots 1

def sectionOf (b : Block) : Bytes := encode (b.cid.length + b.data.length) ++ b.cid ++ b.data

/-- `car.Encode(roots, blocks)` -/
def encodeCar (roots : List Bytes) (bs : List Block) : Bytes :=
  let h := encodeHeader roots
  encode h.length ++ h ++ bs.flatMap sectionOf

/-! header decoding: exact for the canonical form written by `encodeHeaderV`; anything else is
`foreign` (the model abstains: go-car's CBOR header parser is not modelled). -/

def readCborHead (major : Nat) : Bytes → Option (Nat × Bytes)
  | b :: rest =>
    let v := b.toNat
    if v / 32 != major then none
    else
      let a := v % 32
      if a < 24 then some (a, rest)
      else if a == 24 then match rest with
        | x :: r => if x.toNat < 24 then none else some (x.toNat, r)
        | _ => none
      else if a == 25 then match rest with
        | x :: y :: r => let n := x.toNat * 256 + y.toNat; if n < 256 then none else some (n, r)
        | _ => none
      else none
  | [] => none

def stripPrefix (p s : Bytes) : Option Bytes := if p.isPrefixOf s then some (s.drop p.length) else none

def readLinks : Nat → Bytes → Option (List Bytes × Bytes)
  | 0, s => some ([], s)
  | n+1, s =>
    match stripPrefix [0xd8, 0x2a] s with
    | none => none
    | some s1 =>
      match readCborHead 2 s1 with
      | none => none
      | some (len, s2) =>
        match takeExact len s2 with
        | none => none
        | some (body, s3) =>
          match body with
          | 0 :: cid =>
            -- go-cid must accept the root: a parseable CID with nothing after it
            match parseCid cid with
            | some (_, []) =>
              match readLinks n s3 with
              | some (more, rest) => some (cid :: more, rest)
              | none => none
            | _ => none
          | _ => none

inductive Header where
  | ok (roots : List Bytes) (version : Nat)
  | foreign
deriving DecidableEq, Repr

def decodeHeader (h : Bytes) : Header :=
  match stripPrefix ([0xa2] ++ rootsKey) h with
  | none => .foreign
  | some s1 =>
    match readCborHead 4 s1 with
    | none => .foreign
    | some (n, s2) =>
      match readLinks n s2 with
      | none => .foreign
      | some (roots, s3) =>
        match stripPrefix versionKey s3 with
        | none => .foreign
        | some s4 =>
          match readCborHead 0 s4 with
          | some (v, []) => .ok roots v
          | _ => .foreign

inductive Decoded where
  /-- `car.Decode` returned an error -/
  | headerError
  /-- roots, delivered blocks, and whether block iteration ended with an error -/
  | ok (roots : List Bytes) (blocks : List Block) (iterError : Bool)
  /-- header not in the canonical form: the model does not predict the header outcome; the block
  part is still predicted *if* the implementation accepts the header -/
  | foreign (blocks : List Block) (iterError : Bool)
deriving DecidableEq, Repr

/-- `car.Decode` followed by draining the iterator up to the first error -/
def decodeCar (H : HashTable) (input : Bytes) : Decoded :=
  if input.isEmpty then .headerError else
  match readStd input with
  | .error _ => .headerError
  | .ok (l, r) =>
    if l > maxAlloc then .headerError
    else match takeExact l r with
      | none => .headerError
      | some (hb, rest) =>
        let (bs, e) := blocks H (rest.length + 1) rest
        match decodeHeader hb with
        | .ok roots v => if v != 1 then .headerError else .ok roots bs e
        | .foreign => .foreign bs e

end Car
