import UcantoModel.Model.Basic
/-!
# HTTP negotiation and status mapping — mirrors `transport/car/codec.go` (`carInbound.Accept`),
`server/server.go` (`Handle`) and `transport/http/channel.go`.
-/
namespace Http

/-- `"application/vnd.ipld.car"` -/
def carType : Bytes :=
  [97,112,112,108,105,99,97,116,105,111,110,47,118,110,100,46,105,112,108,100,46,99,97,114]

/-- `"*/*"` -/
def anyType : Bytes := [42, 47, 42]

/-- `strings.Split(s, ",")` on bytes -/
def splitOn (sep : UInt8) : Bytes → List Bytes
  | [] => [[]]
  | b :: rest =>
    match splitOn sep rest with
    | [] => [[b]]   -- unreachable: `splitOn` never returns `[]`
    | cur :: more => if b == sep then [] :: cur :: more else (b :: cur) :: more

def isOWS (b : UInt8) : Bool := b == 32 || b == 9

/-- `strings.Trim(s, " \t")` -/
def trimOWS (s : Bytes) : Bytes :=
  ((s.dropWhile isOWS).reverse.dropWhile isOWS).reverse

/-- media range of one element of an Accept list: parameters (`;q=…`) dropped, blanks trimmed -/
def mediaRange (e : Bytes) : Bytes := trimOWS (e.takeWhile (· != 59))

/-- does the Accept header value admit the CAR media type or `*/*`?  An absent/empty header admits
everything. -/
def admits (accept : Bytes) : Bool :=
  let a := if accept.isEmpty then anyType else accept
  (splitOn 44 a).any fun e => mediaRange e == anyType || mediaRange e == carType

/-- what the request body is, as far as `Handle` can tell -/
inductive Body where
  /-- not a CAR / no roots / root block missing or not an agent message -/
  | undecodable
  /-- an agent message; `viewable = false`: some invocation's blocks are missing from the CAR -/
  | message (viewable : Bool)
deriving DecidableEq, Repr

inductive Handled where
  | status (code : Nat)
  /-- `Handle` returned an error value instead of a response -/
  | error
deriving DecidableEq, Repr

/-- `server.Handle` up to the point where invocations start to run; `runs` tells whether `Execute`
is reached (only then can handlers run). -/
def handle (contentType accept : Bytes) (body : Body) : Handled × Bool :=
  if contentType != carType then (.status 415, false)
  else if !admits accept then (.status 406, false)
  else match body with
    | .undecodable => (.status 400, false)
    | .message false => (.error, true)
    | .message true => (.status 200, true)

/-- `channel.Request`: any non-200 status is an error carrying the status -/
inductive ChannelResult where
  | response
  | httpError (status : Nat)
deriving DecidableEq, Repr

def channel (status : Nat) : ChannelResult := if status == 200 then .response else .httpError status

/-! the pinned tree's negotiation (before the `fix:` commit): `accept != "*/*" && !strings.Contains(accept, contentType)` -/
def isInfix (p : Bytes) : Bytes → Bool
  | [] => p.isEmpty
  | s@(_ :: rest) => p.isPrefixOf s || isInfix p rest

def admitsPinned (accept : Bytes) : Bool :=
  let a := if accept.isEmpty then anyType else accept
  a == anyType || isInfix carType a

end Http
