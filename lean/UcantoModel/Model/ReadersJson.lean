import Lean.Data.Json
import UcantoModel.Model.Readers
/-! # reading the harness's JSON form of a reader tree (driver glue, not verified) -/
namespace RdJson
open Lean Rd

def optPairs (j : Json) (key : String) : Except String (List (Nat × Nat)) :=
  match j.getObjVal? key with
  | .ok v => pairs v
  | .error _ => pure []
where pairs (j : Json) : Except String (List (Nat × Nat)) := do
  (← j.getArr?).toList.mapM fun e => do
    match e with
    | .arr #[a, b] => pure ((← a.getNat?), (← b.getNat?))
    | _ => .error "pair"

partial def tree (j : Json) : Except String RTree := do
  match ← j.getObjValAs? String "t" with
  | "leaf" => pure (.leaf (← optPairs j "tbl"))
  | "lit" => pure (.literal (← j.getObjValAs? Nat "v"))
  | "map" => pure (.mapped (← tree (← j.getObjVal? "r")) (← optPairs j "tbl"))
  | "or" => do
    let cs ← match j.getObjVal? "cs" with
      | .ok v => (← v.getArr?).toList.mapM tree
      | .error _ => pure []
    pure (.or cs)
  | t => .error s!"tree kind {t}"

/-- answers to the input sequence, as the harness prints them: `o<value>` or `-`, comma separated -/
def run (treeJson inputsJson : String) : Except String String := do
  let t ← tree (← Json.parse treeJson)
  let xs ← (← (← Json.parse inputsJson).getArr?).toList.mapM (·.getNat?)
  pure (",".intercalate ((evalSeq t xs).map fun
    | some y => s!"o{y}"
    | none => "-"))

end RdJson
