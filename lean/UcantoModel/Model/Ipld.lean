import UcantoModel.Model.Basic
/-!
# IPLD values and their DAG-JSON form (as a tree)

`toDagJson` mirrors what go-ipld-prime's dag-json encoder writes for each kind, at the level of the
JSON *tree* (serialising a tree to bytes is injective and is not modelled): links become
`{"/": "<cid>"}`, bytes become `{"/": {"bytes": "<base64>"}}`, map keys are sorted.
-/

inductive Ipld where
  | null
  | bool (b : Bool)
  | int (i : Int)
  | str (s : String)
  | bytes (b : Bytes)
  | list (l : List Ipld)
  | map (m : List (String × Ipld))
  | link (cid : String)
deriving Repr, Inhabited

inductive JTree where
  | null
  | bool (b : Bool)
  | num (i : Int)
  | str (s : String)
  | arr (l : List JTree)
  | obj (m : List (String × JTree))
deriving Repr, Inhabited

namespace JTree

mutual
def beq : JTree → JTree → Bool
  | .null, .null => true
  | .bool a, .bool b => a == b
  | .num a, .num b => a == b
  | .str a, .str b => a == b
  | .arr a, .arr b => beqList a b
  | .obj a, .obj b => beqObj a b
  | _, _ => false
def beqList : List JTree → List JTree → Bool
  | [], [] => true
  | x :: xs, y :: ys => beq x y && beqList xs ys
  | _, _ => false
def beqObj : List (String × JTree) → List (String × JTree) → Bool
  | [], [] => true
  | (k, x) :: xs, (l, y) :: ys => k == l && beq x y && beqObj xs ys
  | _, _ => false
end

instance : BEq JTree := ⟨beq⟩

end JTree

namespace Ipld

def insertKV {α} (kv : String × α) : List (String × α) → List (String × α)
  | [] => [kv]
  | x :: xs => if kv.1 ≤ x.1 then kv :: x :: xs else x :: insertKV kv xs

def sortKV {α} (m : List (String × α)) : List (String × α) := m.foldr insertKV []

def b64Char (n : Nat) : Char :=
  if n < 26 then Char.ofNat (65 + n) else if n < 52 then Char.ofNat (97 + n - 26)
  else if n < 62 then Char.ofNat (48 + n - 52) else if n = 62 then '+' else '/'

def b64Chars : Bytes → List Char
  | [] => []
  | [a] => let n := a.toNat * 65536; [b64Char (n / 262144), b64Char (n / 4096 % 64)]
  | [a, b] => let n := a.toNat * 65536 + b.toNat * 256
    [b64Char (n / 262144), b64Char (n / 4096 % 64), b64Char (n / 64 % 64)]
  | a :: b :: c :: rest => let n := a.toNat * 65536 + b.toNat * 256 + c.toNat
    b64Char (n / 262144) :: b64Char (n / 4096 % 64) :: b64Char (n / 64 % 64) :: b64Char (n % 64) :: b64Chars rest

/-- standard base64 without padding: how dag-json writes bytes -/
def b64 (b : Bytes) : String := String.ofList (b64Chars b)

mutual
def toDagJson : Ipld → JTree
  | .null => .null
  | .bool b => .bool b
  | .int i => .num i
  | .str s => .str s
  | .bytes b => .obj [("/", .obj [("bytes", .str (b64 b))])]
  | .list l => .arr (toDagJsonList l)
  | .map m => .obj (sortKV (toDagJsonMap m))
  | .link c => .obj [("/", .str c)]
def toDagJsonList : List Ipld → List JTree
  | [] => []
  | x :: xs => toDagJson x :: toDagJsonList xs
def toDagJsonMap : List (String × Ipld) → List (String × JTree)
  | [] => []
  | (k, v) :: xs => (k, toDagJson v) :: toDagJsonMap xs
end

end Ipld
