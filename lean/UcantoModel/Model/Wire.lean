import UcantoModel.Model.Cbor
/-!
# Wire format of tokens, receipts, agent messages and archive descriptors
The IPLD schemas of go-ucanto (`ucan.ipldsch`, `receipt.ipldsch`, `agentmessage.ipldsch`,
`archive.ipldsch`) as functions from the fields the API exposes to the DAG-CBOR value that is written;
the root block bytes are `Cbor.encode (Cbor.canon (… fields))`.  Optional fields are absent when unset,
`exp` is nullable (always present).
-/
namespace Wire
open Cbor

def k (s : String) : Bytes := Bytes.ofChars s.toList

structure Cap where
  with_ : Bytes      -- utf8
  can : Bytes        -- utf8
  nb : CVal
deriving Inhabited

/-- `udm.UCANModel` -/
structure Token where
  v : Bytes                          -- utf8 of the version
  iss : Bytes                        -- DID bytes
  aud : Bytes
  s : Bytes                          -- signature bytes
  att : List Cap
  prf : Option (List Bytes)          -- CID bytes; `none` = field absent
  exp : Option Int                   -- `none` = null
  fct : Option (List (List (Bytes × CVal)))
  nnc : Option Bytes
  nbf : Option Int
deriving Inhabited

def optEntry (key : String) (v : Option CVal) : List (Bytes × CVal) :=
  match v with
  | some x => [(k key, x)]
  | none => []

def capVal (c : Cap) : CVal := .map [(k "with", .text c.with_), (k "can", .text c.can), (k "nb", c.nb)]

def tokenVal (t : Token) : CVal :=
  .map ([(k "v", .text t.v), (k "iss", .bytes t.iss), (k "aud", .bytes t.aud), (k "s", .bytes t.s),
         (k "att", .list (t.att.map capVal))]
    ++ optEntry "prf" (t.prf.map fun l => .list (l.map .link))
    ++ [(k "exp", match t.exp with | some e => .int e | none => .null)]
    ++ optEntry "fct" (t.fct.map fun l => .list (l.map .map))
    ++ optEntry "nnc" (t.nnc.map .text)
    ++ optEntry "nbf" (t.nbf.map .int))

/-- the root block of a token -/
def tokenBytes (t : Token) : Bytes := encode (canon (tokenVal t))

/-- `rdm.ReceiptModel` with its outcome -/
structure Rcpt where
  ran : Bytes                        -- link
  okSide : Bool
  value : CVal
  fork : List Bytes
  join : Option Bytes
  metadata : List (Bytes × CVal)
  iss : Option Bytes                 -- utf8 of the DID string
  prf : List Bytes
  sig : Bytes
deriving Inhabited

def outcomeVal (r : Rcpt) : CVal :=
  .map ([(k "ran", .link r.ran),
         (k "out", .map [(if r.okSide then k "ok" else k "error", r.value)]),
         (k "fx", .map ([(k "fork", .list (r.fork.map .link))] ++ optEntry "join" (r.join.map .link))),
         (k "meta", .map r.metadata)]
    ++ optEntry "iss" (r.iss.map .text)
    ++ [(k "prf", .list (r.prf.map .link))])

/-- what is signed: the DAG-CBOR of the outcome -/
def outcomeBytes (r : Rcpt) : Bytes := encode (canon (outcomeVal r))

def receiptVal (r : Rcpt) : CVal := .map [(k "ocm", outcomeVal r), (k "sig", .bytes r.sig)]

def receiptBytes (r : Rcpt) : Bytes := encode (canon (receiptVal r))

/-- `ucanto/message@7.0.0` -/
structure Msg where
  execute : Option (List Bytes)
  report : Option (List (Bytes × Bytes))    -- invocation link string (utf8) ↦ receipt link
deriving Inhabited

def messageVal (m : Msg) : CVal :=
  .map [(k "ucanto/message@7.0.0",
    .map (optEntry "execute" (m.execute.map fun l => .list (l.map .link))
       ++ optEntry "report" (m.report.map fun l => .map (l.map fun (a, b) => (a, .link b)))))]

def messageBytes (m : Msg) : Bytes := encode (canon (messageVal m))

/-- the `ucan@0.9.1` archive descriptor -/
def archiveVal (root : Bytes) : CVal := .map [(k "ucan@0.9.1", .link root)]

def archiveBytes (root : Bytes) : Bytes := encode (canon (archiveVal root))

end Wire
