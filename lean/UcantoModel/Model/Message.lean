import UcantoModel.Model.Server
/-!
# Agent messages and `Execute` — mirrors `core/message/message.go` (Build / Get / Receipts /
Invocations) and `server.Execute`.
-/
namespace Msg

/-- what the message layer sees of a receipt -/
structure Receipt where
  root : Nat        -- link of the receipt's root block
  ran : Nat         -- link of the invocation it answers
  issuer : Nat      -- DID of the receipt's issuer
  out : Srv.Out
deriving DecidableEq, Repr

/-- `mdm.ReportModel`: keys in insertion order (one per receipt) and the first value stored per key -/
structure Report where
  keys : List Nat
  values : List (Nat × Nat)
deriving DecidableEq, Repr

structure Message where
  execute : List Nat
  report : Option Report
deriving DecidableEq, Repr

def lookup (vs : List (Nat × Nat)) (k : Nat) : Option Nat := (vs.find? (·.1 == k)).map (·.2)

/-- `report.Values[key] = root` unless the key is already present (first receipt wins) -/
def addValue (vs : List (Nat × Nat)) (k v : Nat) : List (Nat × Nat) :=
  if (lookup vs k).isSome then vs else vs ++ [(k, v)]

/-- `message.Build(invocations, receipts)`: the report exists only when there is a receipt -/
def build (invs : List Nat) (rcpts : List Receipt) : Message :=
  { execute := invs
    report := if rcpts.isEmpty then none else
      some { keys := rcpts.map (·.ran)
             values := rcpts.foldl (fun vs r => addValue vs r.ran r.root) [] } }

/-- `message.Get(link)`: absent report ⇒ not found -/
def get (m : Message) (l : Nat) : Option Nat :=
  match m.report with
  | none => none
  | some rep => if rep.keys.contains l then lookup rep.values l else none

/-- `message.Receipts()` -/
def receipts (m : Message) : List Nat :=
  match m.report with
  | none => []
  | some rep => rep.keys.filterMap (lookup rep.values)

/-- the pinned tree dereferenced the optional report (`none` = nil-pointer panic) -/
def getPinned (m : Message) (l : Nat) : Option (Option Nat) :=
  match m.report with
  | none => none
  | some rep => some (if rep.keys.contains l then lookup rep.values l else none)

/-! ## `server.Execute` -/

/-- the receipt `Run` issues for one invocation: `ran` is that invocation, the issuer is the server -/
def receiptOf (server : Nat) (rootOf : Nat → Nat) (W : V.World) (fuel : Nat) (svc : List Srv.Method)
    (inv : V.View) : Receipt :=
  { root := rootOf inv.tok.id, ran := inv.tok.id, issuer := server, out := (Srv.run W fuel svc inv).out }

/-- `Execute`: every invocation runs on its own goroutine and appends its receipt under the lock when
it completes; `order` is the completion order (any permutation of the receipts). -/
def execute (server : Nat) (rootOf : Nat → Nat) (W : V.World) (fuel : Nat) (svc : List Srv.Method)
    (invs : List V.View) (order : List Receipt → List Receipt) : Message :=
  build [] (order (invs.map (receiptOf server rootOf W fuel svc)))

/-- first occurrences only -/
def dedup : List Nat → List Nat
  | [] => []
  | x :: xs => x :: (dedup xs).filter (· != x)

/-- the blocks a delegation carries in its own store when it is issued with `Delegate`: its root and,
for every proof embedded as blocks, everything that proof carries (`Proofs.WriteInto`) -/
def storeOf (toks : Array V.Token) (inl : Array (List Bool)) : Nat → Nat → List Nat
  | 0, i => [i]
  | fuel+1, i =>
    match toks[i]? with
    | none => [i]
    | some t =>
      let flags := (inl[i]?).getD []
      let subs := (t.prfs.zip flags).flatMap fun pf =>
        if pf.2 && pf.1 < toks.size then storeOf toks inl fuel pf.1 else []
      dedup (i :: subs)


end Msg
