import UcantoModel.Model.Basic
/-!
# Ability / resource patterns — mirrors `validator/capability.go`
`ResolveAbility`, `ResolveResource`, `DefaultDerives`.  `[]` is Go's `""` ("no match").
-/

namespace Patterns

def star : UInt8 := 42    -- '*'
def slash : UInt8 := 47   -- '/'
/-- `"ucan:*"` -/
def ucanStar : Bytes := [117, 99, 97, 110, 58, 42]

/-- `validator.ResolveAbility(pattern, can)` -/
def resolveAbility (p c : Bytes) : Bytes :=
  if p == c || p == [star] then c
  else if [slash, star].isSuffixOf p && (p.take (p.length - 1)).isPrefixOf c then c
  else []

/-- `validator.ResolveResource(source, uri)` -/
def resolveResource (s u : Bytes) : Bytes :=
  if s == u || s == ucanStar then u else []

/-- `validator.DefaultDerives(claimed, delegated)` on the two resources; `true` = `nil` failure. -/
def defaultDerives (cres dres : Bytes) : Bool :=
  if [star].isSuffixOf dres then (dres.take (dres.length - 1)).isPrefixOf cres
  else dres == cres

end Patterns
