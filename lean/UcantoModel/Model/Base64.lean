import UcantoModel.Model.Basic
import UcantoModel.Model.Varint
/-!
# base64 — `encoding/base64` as go-ucanto uses it

* `base64.RawURLEncoding.EncodeToString` — the two halves and the signature of the signing payload
  (`ucan/formatter`), joined by `.`;
* multibase `m` (`RawStdEncoding`) — `delegation.Format` / `delegation.Parse`: an identity‑hash CID over
  the CAR archive of a token;
* multibase `M` (`StdEncoding`, padded) — `signer.Format` / `signer.Parse` of Ed25519 and RSA keys.

The decoder is Go's non‑strict one: `\r` and `\n` are skipped wherever they stand, trailing bits of the
last quantum are ignored, padded alphabets insist on complete padding and nothing after it, unpadded ones
take `=` for an illegal character.
-/
namespace Base64

def stdChar (n : Nat) : UInt8 :=
  if n < 26 then UInt8.ofNat (65 + n)
  else if n < 52 then UInt8.ofNat (71 + n)
  else if n < 62 then UInt8.ofNat (n - 4)
  else if n = 62 then 43 else 47

def urlChar (n : Nat) : UInt8 :=
  if n < 26 then UInt8.ofNat (65 + n)
  else if n < 52 then UInt8.ofNat (71 + n)
  else if n < 62 then UInt8.ofNat (n - 4)
  else if n = 62 then 45 else 95

def stdVal (c : UInt8) : Option Nat :=
  let x := c.toNat
  if 65 ≤ x ∧ x ≤ 90 then some (x - 65)
  else if 97 ≤ x ∧ x ≤ 122 then some (x - 71)
  else if 48 ≤ x ∧ x ≤ 57 then some (x + 4)
  else if x = 43 then some 62
  else if x = 47 then some 63
  else none

def urlVal (c : UInt8) : Option Nat :=
  let x := c.toNat
  if 65 ≤ x ∧ x ≤ 90 then some (x - 65)
  else if 97 ≤ x ∧ x ≤ 122 then some (x - 71)
  else if 48 ≤ x ∧ x ≤ 57 then some (x + 4)
  else if x = 45 then some 62
  else if x = 95 then some 63
  else none

/-- `Encoding.Encode`: three bytes → four characters; a rest of one / two bytes → two / three characters
and, in padded alphabets, `==` / `=` -/
def encodeWith (ch : Nat → UInt8) (pad : Bool) : Bytes → Bytes
  | [] => []
  | [a] => [ch (a.toNat / 4), ch (a.toNat % 4 * 16)] ++ (if pad then [61, 61] else [])
  | [a, b] => [ch (a.toNat / 4), ch (a.toNat % 4 * 16 + b.toNat / 16), ch (b.toNat % 16 * 4)]
      ++ (if pad then [61] else [])
  | a :: b :: c :: rest =>
    ch (a.toNat / 4) :: ch (a.toNat % 4 * 16 + b.toNat / 16) :: ch (b.toNat % 16 * 4 + c.toNat / 64)
      :: ch (c.toNat % 64) :: encodeWith ch pad rest

def byte0 (s0 s1 : Nat) : UInt8 := UInt8.ofNat (s0 * 4 + s1 / 16)
def byte1 (s1 s2 : Nat) : UInt8 := UInt8.ofNat (s1 % 16 * 16 + s2 / 4)
def byte2 (s2 s3 : Nat) : UInt8 := UInt8.ofNat (s2 % 4 * 64 + s3)

/-- `Encoding.Decode` after the line breaks are dropped -/
def decodeQ (val : UInt8 → Option Nat) (pad : Bool) : Bytes → Option Bytes
  | [] => some []
  | [_] => none
  | [a, b] =>
    if pad then none else
    match val a, val b with
    | some s0, some s1 => some [byte0 s0 s1]
    | _, _ => none
  | [a, b, c] =>
    if pad then none else
    match val a, val b, val c with
    | some s0, some s1, some s2 => some [byte0 s0 s1, byte1 s1 s2]
    | _, _, _ => none
  | a :: b :: c :: d :: rest =>
    match val a, val b, val c, val d with
    | some s0, some s1, some s2, some s3 =>
      (decodeQ val pad rest).map fun r => byte0 s0 s1 :: byte1 s1 s2 :: byte2 s2 s3 :: r
    | some s0, some s1, some s2, none =>
      if pad && d == 61 && rest.isEmpty then some [byte0 s0 s1, byte1 s1 s2] else none
    | some s0, some s1, none, _ =>
      if pad && c == 61 && d == 61 && rest.isEmpty then some [byte0 s0 s1] else none
    | _, _, _, _ => none

def isBreak (c : UInt8) : Bool := c == 10 || c == 13

/-- `Encoding.DecodeString` -/
def decodeWith (val : UInt8 → Option Nat) (pad : Bool) (s : Bytes) : Option Bytes :=
  decodeQ val pad (s.filter fun c => !isBreak c)

def rawUrlEncode : Bytes → Bytes := encodeWith urlChar false
def rawStdEncode : Bytes → Bytes := encodeWith stdChar false
def stdEncode : Bytes → Bytes := encodeWith stdChar true
def rawUrlDecode : Bytes → Option Bytes := decodeWith urlVal false
def rawStdDecode : Bytes → Option Bytes := decodeWith stdVal false
def stdDecode : Bytes → Option Bytes := decodeWith stdVal true
def urlDecode : Bytes → Option Bytes := decodeWith urlVal true

/-! ## multibase (`m`, `M`, `u`, `U` — the bases go-ucanto writes; others: the model abstains) -/

inductive MB where
  | ok (b : Bytes)
  | err
  | abstain
deriving DecidableEq, Repr

def mbDecode (s : Bytes) : MB :=
  match s with
  | [] => .err
  | p :: rest =>
    let r := if p == 109 then some (rawStdDecode rest)
      else if p == 77 then some (stdDecode rest)
      else if p == 117 then some (rawUrlDecode rest)
      else if p == 85 then some (urlDecode rest)
      else none
    match r with
    | none => .abstain
    | some none => .err
    | some (some b) => .ok b

/-- `signer.Format`: multibase `M` over the tagged key bytes -/
def formatKey (k : Bytes) : Bytes := 77 :: stdEncode k

/-- `signer.Parse` up to `Decode` -/
def parseKey (s : Bytes) : MB := mbDecode s

/-! ## `delegation.Format` / `delegation.Parse` -/

def carCodec : Nat := 0x0202

/-- CIDv1, codec CAR, identity multihash over the archive -/
def cidBytes (archive : Bytes) : Bytes :=
  Varint.encode 1 ++ (Varint.encode carCodec ++ (Varint.encode 0 ++ (Varint.encode archive.length ++ archive)))

def format (archive : Bytes) : Bytes := 109 :: rawStdEncode (cidBytes archive)

inductive Parsed where
  | payload (b : Bytes)     -- handed to `Extract`
  | errCid                  -- "decoding CID"
  | errCodec                -- "non CAR codec found"
  | errNotIdentity          -- "non identity multihash"
  | abstain
deriving DecidableEq, Repr

/-- `cid.Cast` followed by the two checks of `Parse` -/
def castParse (data : Bytes) : Parsed :=
  match data with
  | 0x12 :: 0x20 :: _ :: _ =>
    -- CIDv0 (dag-pb): needs exactly 34 bytes; never a CAR codec
    if data.length == 34 then .errCodec else .errCid
  | _ =>
    match Varint.readMf data with
    | .error _ => .errCid
    | .ok (vers, r1) =>
      if vers != 1 then .errCid else
      match Varint.readMf r1 with
      | .error _ => .errCid
      | .ok (codec, r2) =>
        match Varint.readMf r2 with
        | .error _ => .errCid
        | .ok (code, r3) =>
          match Varint.readMf r3 with
          | .error _ => .errCid
          | .ok (len, r4) =>
            if len > 2147483647 then .errCid
            else if r4.length ≠ len then .errCid      -- too short, or trailing bytes (`Cast`)
            else if codec != carCodec then .errCodec
            else if code != 0 then .errNotIdentity
            else .payload r4

def parse (s : Bytes) : Parsed :=
  if s.length < 2 then .errCid
  else if s.length == 46 && s.take 2 == [81, 109] then .abstain      -- "Qm…": base58 CIDv0
  else match mbDecode s with
    | .err => .errCid
    | .abstain => .abstain
    | .ok data => castParse data

/-! ## the signing payload string: `base64url(header) "." base64url(payload)` -/

def joinDot (h p : Bytes) : Bytes := rawUrlEncode h ++ [46] ++ rawUrlEncode p

/-- split at the first `.` -/
def splitDot : Bytes → Bytes × Bytes
  | [] => ([], [])
  | c :: rest => if c == 46 then ([], rest) else let (a, b) := splitDot rest; (c :: a, b)

end Base64
