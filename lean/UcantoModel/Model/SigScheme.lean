import UcantoModel.Model.Did
/-!
# Signature schemes as a parameter
Lean cannot run Ed25519 / RSA; the primitives are a structure.  `Ideal` is the idealisation under
which "a change is detected" means anything: a signature verifies only if it was produced by the
matching key over exactly that message.  It is a *hypothesis* of the theorems that need it (never an
axiom) and it is satisfiable (`toy` below).
-/

structure SigScheme where
  Key : Type
  Pub : Type
  pubOf : Key → Pub
  sign : Key → Bytes → Bytes
  verify : Pub → Bytes → Bytes → Bool
  correct : ∀ k m, verify (pubOf k) m (sign k m) = true

def SigScheme.Ideal (S : SigScheme) : Prop :=
  ∀ p m s, S.verify p m s = true → ∃ k, S.pubOf k = p ∧ s = S.sign k m

namespace SigScheme

/-- a toy instance showing that `Ideal` is satisfiable: the "signature" is the key byte followed by
the message -/
def toy : SigScheme where
  Key := UInt8
  Pub := UInt8
  pubOf := id
  sign := fun k m => k :: m
  verify := fun p m s => s == p :: m
  correct := by intro k m; simp

theorem toy_ideal : toy.Ideal := by
  intro p m s h
  refine ⟨p, rfl, ?_⟩
  simpa [toy] using h

end SigScheme

namespace DidM

/-- `Ed25519Verifier.Verify(msg, sig)` / `RSAVerifier.Verify`: the algorithm code is checked before
the primitive is consulted -/
def verifyWith (S : SigScheme) (algCode : Nat) (pub : S.Pub) (msg sig : Bytes) : Bool :=
  sigCode sig == algCode && S.verify pub msg (sigRaw sig)

end DidM
