import UcantoModel.Model.Validator
/-!
# Server: `Run` + `Provide` (server/server.go:265-301, server/handler.go) on top of the validator model
-/
namespace Srv
open V

/-- one registered service method: `WithServiceMethod(can, Provide(capability, handler))`.
`handlerOk` abstracts what the caller's handler returns (`true`: a value, `false`: an error). -/
structure Method where
  can : Bytes
  desc : Desc
  handlerOk : Bool

inductive Out where
  | ok | handlerExecutionError | unauthorized | handlerNotFound | invocationCapabilityError
deriving DecidableEq, Repr

/-- result of running one invocation: the receipt's outcome class and the handler calls made (the
capability each call received) -/
structure RunResult where
  out : Out
  calls : List Cap

/-- `server.Run(server, invocation)` -/
def run (W : World) (fuel : Nat) (svc : List Method) (inv : View) : RunResult :=
  match inv.tok.caps with
  | [c] =>
    match svc.find? (·.can == c.can) with
    | none => ⟨.handlerNotFound, []⟩
    | some m =>
      match access W fuel m.desc inv with
      | .ok a => ⟨if m.handlerOk then .ok else .handlerExecutionError, [a.cap]⟩
      | _ => ⟨.unauthorized, []⟩
  | _ => ⟨.invocationCapabilityError, []⟩

end Srv
