import UcantoModel.Model.Basic
/-!
# Unsigned varints (LEB128) — two readers, as used by the code under test
* `readStd`: `encoding/binary.ReadUvarint` (go-car's section length): non-minimal encodings accepted,
  at most 10 bytes, the 10th at most 1.
* `readMf`: `multiformats/go-varint.ReadUvarint` (CID fields, DID and signature codes): minimal
  encodings only, at most 9 bytes (values below 2^63).
Both return the value and the unread rest.
-/
namespace Varint

inductive Err where
  | eof            -- no byte at all: `io.EOF`
  | unexpectedEof  -- ran out in the middle of a value
  | overflow
  | notMinimal
deriving DecidableEq, Repr

/-- `binary.PutUvarint` / `varint.ToUvarint` -/
def encode (n : Nat) : Bytes :=
  if n < 128 then [UInt8.ofNat n]
  else UInt8.ofNat (n % 128 + 128) :: encode (n / 128)
termination_by n
decreasing_by omega

/-- `encoding/binary.ReadUvarint`; `i` = number of bytes consumed so far, `x` the value so far -/
def readStdAux : Bytes → Nat → Nat → Except Err (Nat × Bytes)
  | [], i, _ => .error (if i == 0 then .eof else .unexpectedEof)
  | b :: rest, i, x =>
    if b.toNat < 128 then
      if i == 9 && b.toNat > 1 then .error .overflow
      else .ok (x + b.toNat * 2 ^ (7 * i), rest)
    else if i ≥ 9 then .error .overflow
    else readStdAux rest (i + 1) (x + (b.toNat - 128) * 2 ^ (7 * i))

def readStd (s : Bytes) : Except Err (Nat × Bytes) := readStdAux s 0 0

/-- `go-varint.ReadUvarint` -/
def readMfAux : Bytes → Nat → Nat → Except Err (Nat × Bytes)
  | [], i, _ => .error (if i == 0 then .eof else .unexpectedEof)
  | b :: rest, i, x =>
    if (i == 8 && b.toNat ≥ 128) || i ≥ 9 then .error .overflow
    else if b.toNat < 128 then
      if b.toNat == 0 && i > 0 then .error .notMinimal
      else .ok (x + b.toNat * 2 ^ (7 * i), rest)
    else readMfAux rest (i + 1) (x + (b.toNat - 128) * 2 ^ (7 * i))

def readMf (s : Bytes) : Except Err (Nat × Bytes) := readMfAux s 0 0

/-- `varint.UvarintSize` -/
def size (n : Nat) : Nat := (encode n).length

end Varint
