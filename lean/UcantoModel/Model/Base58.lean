import UcantoModel.Model.Basic
/-! # base58btc — as used by go-multibase ('z') for did:key strings -/
namespace Base58

def alphabet : Bytes :=
  [49,50,51,52,53,54,55,56,57,65,66,67,68,69,70,71,72,74,75,76,77,78,80,81,82,83,84,85,86,87,88,89,90,
   97,98,99,100,101,102,103,104,105,106,107,109,110,111,112,113,114,115,116,117,118,119,120,121,122]

def digitOf (c : UInt8) : Option Nat := alphabet.idxOf? c

def charOf (d : Nat) : UInt8 := alphabet.getD d 49

/-- big-endian bytes → number -/
def toNat (b : Bytes) : Nat := b.foldl (fun acc x => acc * 256 + x.toNat) 0

/-- number → big-endian digits in base `base` (no leading zeros; `[]` for 0) -/
def digits (base : Nat) (n : Nat) : List Nat :=
  if h : n = 0 ∨ base < 2 then [] else digits base (n / base) ++ [n % base]
termination_by n
decreasing_by
  have : ¬ (n = 0 ∨ base < 2) := h
  have h1 : n ≠ 0 := fun e => this (Or.inl e)
  have h2 : ¬ base < 2 := fun e => this (Or.inr e)
  exact Nat.div_lt_self (by omega) (by omega)

def leading {α} [BEq α] (x : α) : List α → Nat
  | [] => 0
  | y :: ys => if y == x then leading x ys + 1 else 0

def encode (b : Bytes) : Bytes :=
  List.replicate (leading 0 b) 49 ++ (digits 58 (toNat b)).map charOf

def decode (s : Bytes) : Option Bytes :=
  if s.isEmpty then none else
  match s.mapM digitOf with
  | none => none
  | some ds =>
    let n := ds.foldl (fun acc d => acc * 58 + d) 0
    some (List.replicate (leading 49 s) 0 ++ (digits 256 n).map UInt8.ofNat)

end Base58
