/-!
# The block store under concurrency — `core/dag/blockstore/blockstore.go`

Sequential specification (`Store`) and a step semantics of threads running `Put` / `Get` / iteration
under a read-write mutex.  Which lock each method takes is *not* written here: it is a parameter
(`Facts`) whose value is extracted from the Go source on every run (`Generated/Facts.lean`).
-/
namespace Lock

inductive Mode where
  | none | read | write
deriving DecidableEq, Repr

/-- the locking discipline as read from the source -/
structure Facts where
  putLock : Mode
  getLock : Mode
  iterLock : Mode
  /-- the iterator touches the shared fields while holding no lock -/
  iterOutside : Bool
deriving DecidableEq, Repr

/-- the discipline under which the store is safe to share -/
def Facts.good (F : Facts) : Bool :=
  F.putLock == .write && F.getLock != .none && F.iterLock != .none && !F.iterOutside

/-! ## sequential specification: insertion ordered, de-duplicating (content addressing: a link
determines its block, so the map is determined by the key list) -/

structure Store where
  keys : List Nat
deriving DecidableEq, Repr

def Store.put (s : Store) (l : Nat) : Store := if s.keys.contains l then s else ⟨s.keys ++ [l]⟩
def Store.get (s : Store) (l : Nat) : Bool := s.keys.contains l
def Store.iter (s : Store) : List Nat := s.keys

/-- first occurrences of `ls` not already in `acc`, in order -/
def firsts (acc : List Nat) : List Nat → List Nat
  | [] => []
  | l :: ls => if acc.contains l then firsts acc ls else l :: firsts (acc ++ [l]) ls

/-! ## threads and the read-write mutex -/

inductive Op where
  | put (l : Nat)
  | get (l : Nat)
  | iter
deriving DecidableEq, Repr

def Op.mutates : Op → Bool
  | .put _ => true
  | _ => false

def modeOf (F : Facts) : Op → Mode
  | .put _ => F.putLock
  | .get _ => F.getLock
  | .iter => if F.iterOutside then .none else F.iterLock

def apply (s : Store) : Op → Store
  | .put l => s.put l
  | _ => s

structure St where
  /-- the operation each thread is in the middle of (between acquiring and releasing its lock) -/
  cur : Nat → Option Op
  writer : Option Nat
  readers : List Nat
  store : Store
  /-- operations in the order in which they entered their critical section -/
  history : List Op

def init : St := ⟨fun _ => none, none, [], ⟨[]⟩, []⟩

def canAcquire (s : St) : Mode → Bool
  | .none => true
  | .read => s.writer.isNone
  | .write => s.writer.isNone && s.readers.isEmpty

def acquire (F : Facts) (s : St) (t : Nat) (op : Op) : St :=
  let m := modeOf F op
  { cur := fun u => if u = t then some op else s.cur u
    writer := if m = .write then some t else s.writer
    readers := if m = .read then t :: s.readers else s.readers
    store := apply s.store op
    history := s.history ++ [op] }

def release (F : Facts) (s : St) (t : Nat) (op : Op) : St :=
  let m := modeOf F op
  { s with
    cur := fun u => if u = t then none else s.cur u
    writer := if m = .write then none else s.writer
    readers := if m = .read then s.readers.erase t else s.readers }

/-- any thread may start any operation at any time (an over-approximation of all programs and all
schedules), provided the mutex lets it in -/
inductive Reach (F : Facts) : St → Prop
  | init : Reach F init
  | acquire {s t op} : Reach F s → s.cur t = none → canAcquire s (modeOf F op) = true →
      Reach F (acquire F s t op)
  | release {s t op} : Reach F s → s.cur t = some op → Reach F (release F s t op)

/-- two threads are inside their critical sections at once and one of them mutates the store: a data
race on `keys` / `blks` ("concurrent map writes") -/
def Conflict (s : St) : Prop :=
  ∃ t1 t2 op1 op2, t1 ≠ t2 ∧ s.cur t1 = some op1 ∧ s.cur t2 = some op2 ∧ op1.mutates = true

end Lock
