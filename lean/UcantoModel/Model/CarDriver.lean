import UcantoModel.Model.Car
import UcantoModel.Model.Sha256
/-! Driver-side glue for the CAR correspondence (canonical strings, tokens). -/
namespace CarDriver
open Car

/-- multihash codes with a registered hasher in go-multihash (other than sha2-256, which is modelled
exactly): the model only needs to know that they exist (a zero-length truncated digest matches
anything); their digests are never equal to the all-zero placeholder in practice. -/
def registered : List Nat :=
  [0x11, 0x13, 0x14, 0x15, 0x16, 0x17, 0x18, 0x19, 0x1b, 0x1d, 0x20, 0x22, 0x56, 0xd5, 0x1013, 0x1014, 0x1015, 0xb260]

def H : HashTable := fun code =>
  if code == 0x12 then some Sha256.hash
  else if registered.contains code || (0xb201 ≤ code && code ≤ 0xb240) then some (fun _ => List.replicate 64 0)
  else none

def hash4 (s : String) : String := Bytes.toHex ((Sha256.hash s.toUTF8.toList).take 2)

def rootsStr (roots : List Bytes) : String := ",".intercalate (roots.map Bytes.toHex)
def blocksStr (bs : List Block) (e : Bool) : String :=
  ",".intercalate (bs.map fun b => Bytes.toHex b.cid ++ ":" ++ Bytes.toHex b.data) ++ "|" ++ (if e then "err" else "eof")

/-- token of one decode; `none` for the header part when the model abstains -/
def token (input : Bytes) : String × Bool :=
  match decodeCar H input with
  | .headerError => ("E", false)
  | .ok roots bs e => ("R" ++ hash4 (rootsStr roots) ++ "B" ++ hash4 (blocksStr bs e), false)
  | .foreign bs e => ("B" ++ hash4 (blocksStr bs e), true)

/-- does the implementation's token agree with the model's? (a foreign header may be refused or
accepted by go-car; if accepted the block part must agree) -/
def agrees (model : String × Bool) (impl : String) : Bool :=
  if model.2 then impl == "E" || (impl.drop 5).toString == model.1
  else impl == model.1

def parseList (s : String) : Option (List Bytes) :=
  if s == "-" then some [] else (s.splitOn ",").mapM Bytes.ofHex

def parseBlocks (s : String) : Option (List Block) :=
  if s == "-" then some [] else
  (s.splitOn ",").mapM fun p =>
    match p.splitOn ":" with
    | [c, d] => do pure ⟨← Bytes.ofHex c, ← Bytes.ofHex d⟩
    | _ => none

def compareAll (inputs : List Bytes) (impl : String) : String :=
  let toks := impl.splitOn "."
  if toks.length != inputs.length then s!"length:model={inputs.length}:impl={toks.length}"
  else
    let rec go (i : Nat) : List Bytes → List String → Option String
      | inp :: is, t :: ts =>
        let m := token inp
        if agrees m t then go (i+1) is ts else some s!"pos={i}:model={m.1}:impl={t}"
      | _, _ => none
    match go 0 inputs toks with
    | none => impl
    | some d => d

def flipAt (a : Bytes) (i : Nat) (mask : UInt8) : Bytes :=
  a.take i ++ (match a.drop i with
    | b :: rest => (b ^^^ mask) :: rest
    | [] => [])

end CarDriver
