import UcantoModel.Model.Wire
/-!
# Issue — from the options given to `delegation.Delegate` / `invocation.Invoke` to the token written

`core/delegation/delegate.go` folds its options into a configuration (a later option of a kind replaces
an earlier one; `WithExpiration` and `WithNoExpiration` replace each other), hands it to `ucan.Issue`
(`ucan/lib.go`), which decides which optional fields are written:

* `exp` — `null` iff the configuration says "no expiration"; otherwise the configured second, or the
  default (30 s from now) when none was configured;
* `nbf` — written iff it is not 0 (negative values are written);
* `nnc` — written iff it is not the empty string;
* `fct` — written iff there is at least one fact;
* `prf` — always written by `Delegate` / `Invoke` (an empty list when there are no proofs).
-/
namespace Issue
open Cbor Wire

inductive Opt where
  | exp (e : Int)
  | noexp
  | nbf (n : Int)
  | nnc (s : Bytes)
  | fct (fs : List (List (Bytes × CVal)))
  | prf (ls : List Bytes)

structure Cfg where
  exp : Option Int := none
  noexp : Bool := false
  nbf : Int := 0
  nnc : Bytes := []
  fct : List (List (Bytes × CVal)) := []
  prf : List Bytes := []

def Cfg.apply (c : Cfg) : Opt → Cfg
  | .exp e => { c with exp := some e, noexp := false }
  | .noexp => { c with exp := none, noexp := true }
  | .nbf n => { c with nbf := n }
  | .nnc s => { c with nnc := s }
  | .fct fs => { c with fct := fs }
  | .prf ls => { c with prf := ls }

def fold (os : List Opt) : Cfg := os.foldl Cfg.apply {}

/-- the fields of the issued token (`dflt` = the default expiration, 30 s after issuance) -/
def token (dflt : Int) (v iss aud s : Bytes) (att : List Cap) (c : Cfg) : Token :=
  { v, iss, aud, s, att,
    prf := some c.prf,
    exp := if c.noexp then none else some (c.exp.getD dflt),
    fct := if c.fct.isEmpty then none else some c.fct,
    nnc := if c.nnc.isEmpty then none else some c.nnc,
    nbf := if c.nbf == 0 then none else some c.nbf }

/-- same kind of option (the two expiration options are one kind) -/
def Opt.kind : Opt → Nat
  | .exp _ => 0 | .noexp => 0 | .nbf _ => 1 | .nnc _ => 2 | .fct _ => 3 | .prf _ => 4

end Issue
