/-!
# Basic definitions shared by all model modules

Go `string` and `[]byte` are modelled as `List UInt8` (Go's `HasPrefix`, `HasSuffix`, slicing and
`==` on strings are byte operations).  Go `int` is `Int`.
-/

abbrev Bytes := List UInt8

namespace Bytes

def ofString (s : String) : Bytes := s.toUTF8.toList

def hexDigit (n : Nat) : Char :=
  if n < 10 then Char.ofNat (48 + n) else Char.ofNat (87 + n)

def toHex (b : Bytes) : String :=
  String.ofList (b.flatMap fun x => [hexDigit (x.toNat / 16), hexDigit (x.toNat % 16)])

def hexVal (c : Char) : Option Nat :=
  if '0' ≤ c ∧ c ≤ '9' then some (c.toNat - 48)
  else if 'a' ≤ c ∧ c ≤ 'f' then some (c.toNat - 87)
  else if 'A' ≤ c ∧ c ≤ 'F' then some (c.toNat - 55)
  else none

def ofHexChars : List Char → Option Bytes
  | [] => some []
  | [_] => none
  | a :: b :: rest =>
    match hexVal a, hexVal b, ofHexChars rest with
    | some x, some y, some r => some (UInt8.ofNat (x * 16 + y) :: r)
    | _, _, _ => none

/-- `-` stands for the empty byte string so that every field is a non-empty token on a line. -/
def ofHex (s : String) : Option Bytes :=
  if s == "-" then some [] else ofHexChars s.toList

def toHexTok (b : Bytes) : String := if b.isEmpty then "-" else toHex b

end Bytes

/-- ASCII literal helper for kernel-reducible examples (`String.toUTF8` does not reduce under `decide`). -/
def Bytes.ofChars (l : List Char) : Bytes := l.map fun c => UInt8.ofNat c.toNat
