import Lean.Data.Json
import UcantoModel.Model.Message
import UcantoModel.Model.Did
import UcantoModel.Model.Validator
import UcantoModel.Model.Oracle
import UcantoModel.Model.Server
/-! Parsing of the harness's abstract world (JSON) into the validator model's `World`. -/
open Lean

namespace WorldJson
open V Patterns

def bytesOf (s : String) : Bytes := s.toUTF8.toList

def getInt (j : Json) (k : String) : Except String Int := do (← j.getObjVal? k).getInt?
def getNat (j : Json) (k : String) : Except String Nat := do (← j.getObjVal? k).getNat?
def getStr (j : Json) (k : String) : Except String String := do (← j.getObjVal? k).getStr?
def getBool (j : Json) (k : String) : Except String Bool := do (← j.getObjVal? k).getBool?
def getArr (j : Json) (k : String) : Except String (Array Json) := do
  match j.getObjVal? k with
  | .ok .null => pure #[]
  | .ok v => v.getArr?
  | .error _ => pure #[]

structure Principal where
  did : Bytes
  key : Bool
  parse : Bool
  wraps : Int

def insertNb (kv : Nat × Nat) : Nb → Nb
  | [] => [kv]
  | x :: xs => if kv.1 ≤ x.1 then kv :: x :: xs else x :: insertNb kv xs

/-- canonical (sorted by field) caveats — what the harness's reader yields -/
def sortNb (nb : Nb) : Nb := nb.foldr insertNb []

def parseNb (j : Json) : Except String Nb := do
  let arr ← j.getArr?
  arr.toList.mapM fun kv => do
    let a ← kv.getArr?
    if a.size != 2 then throw "nb pair"
    let k ← a[0]!.getNat?
    -- negative values (unknown links) are mapped to a large id
    let v ← a[1]!.getInt?
    pure (k, if v < 0 then 999999 else v.toNat)

def parseCapJ (j : Json) : Except String Cap := do
  let can ← getStr j "can"
  let w ← getStr j "with"
  let nb ← match j.getObjVal? "nb" with
    | .ok .null => pure []
    | .ok v => parseNb v
    | .error _ => pure []
  pure ⟨bytesOf can, bytesOf w, nb⟩

def mkDid (ps : Array Principal) (i : Nat) : Did := ⟨(ps[i]?.map (·.key)).getD false, i⟩

def parseToken (ps : Array Principal) (j : Json) : Except String Token := do
  let id ← getNat j "id"
  let iss ← getNat j "iss"
  let aud ← getNat j "aud"
  let caps ← (← getArr j "caps").toList.mapM parseCapJ
  let prfs ← (← getArr j "prfs").toList.mapM fun p => do
    let v ← p.getInt?
    pure (if v < 0 then 999999 else v.toNat)
  let exp ← match j.getObjVal? "exp" with
    | .ok .null => pure none
    | .ok v => do pure (some (← v.getInt?))
    | .error _ => pure none
  let nbf ← getInt j "nbf"
  let signer ← getInt j "signer"
  let intact ← getBool j "intact"
  let algOk ← getBool j "algOk"
  pure { id, iss := mkDid ps iss, aud := mkDid ps aud, caps, prfs, exp, nbf,
         signer := if signer < 0 then 888888 else signer.toNat, intact, algOk }

structure Parsed where
  W : World
  d : Desc
  inv : View
  ntokens : Nat
  invs : List View := []
  services : List Srv.Method := []
  /-- ability ↦ what its handler returns ("ok" | "okfx" | "okjoin" | "err") -/
  results : List (Bytes × String) := []
  /-- per token: which of its proofs were embedded as blocks when it was issued -/
  inlines : Array (List Bool) := #[]

def derivesOf (mode : String) : Cap → Cap → Bool :=
  fun claimed delegated =>
    defaultDerives claimed.rsrc delegated.rsrc &&
    (match mode with
     | "eq" => delegated.nb.all fun kv => Nb.get claimed.nb kv.1 == some kv.2
     | "le" => delegated.nb.all fun kv => match Nb.get claimed.nb kv.1 with
         | some cv => cv ≤ kv.2
         | none => false
     | _ => true)

def didPrefix : Bytes := [100, 105, 100, 58]

def parseWorld (j : Json) : Except String Parsed := do
  let psj ← getArr j "principals"
  let ps ← psj.mapM fun p => do
    pure ({ did := bytesOf (← getStr p "did"), key := (← getBool p "key"), parse := (← getBool p "parse"),
            wraps := (← getInt p "wraps") } : Principal)
  let toks ← (← getArr j "tokens").mapM (parseToken ps)
  let authority ← getNat j "authority"
  let authorityKey ← getNat j "authorityKey"
  let invId ← getNat j "inv"
  let resolver ← (← getArr j "resolver").toList.mapM (·.getNat?)
  let rk ← (← getArr j "resolveKey").toList.mapM fun kv => do
    let a ← kv.getArr?
    pure ((← a[0]!.getNat?), (← a[1]!.getNat?))
  let policy ← getStr j "canIssue"
  let table ← (← getArr j "table").toList.mapM fun r => do
    pure (bytesOf (← getStr r "with"), (← getNat r "p"))
  let revoked ← (← getArr j "revoked").toList.mapM (·.getNat?)
  let now ← getInt j "now"
  let inl0 ← (← getArr j "tokens").mapM fun tj => do
    (← getArr tj "inline").toList.mapM (·.getBool?)
  let stores : Array (List Nat) := (Array.range toks.size).map fun i => Msg.storeOf toks inl0 (toks.size + 1) i
  let dj ← j.getObjVal? "desc"
  let dcan ← getStr dj "can"
  let dwith ← getStr dj "with"
  let dder ← getStr dj "derives"
  let didStr : Did → Bytes := fun d => (ps[d.id]?.map (·.did)).getD []
  let tokenOf : Nat → Option Token := fun l => toks[l]?
  let W : World := {
    token := tokenOf
    -- which blocks a token carries is PREDICTED from the inline flags (`Msg.storeOf`), not read from the
    -- implementation: a proof that was to be embedded and is not there is then a disagreement
    present := fun b l => ((stores[b]?).getD []).contains l
    resolveProof := fun l => if resolver.contains l then (tokenOf l).map fun t => ⟨t, l⟩ else none
    authority := mkDid ps authority
    authorityKey := authorityKey
    keyOf := fun d => match ps[d.id]? with
      | some p => if p.key && p.parse then some d.id else none
      | none => none
    resolveKey := fun d => (rk.find? (·.1 == d.id)).map fun kv => mkDid ps kv.2
    canIssue := fun c iss =>
      match policy with
      | "never" => false
      | "authorityAll" => iss == mkDid ps authority || c.rsrc == didStr iss
      | "table" => table.any fun r => r.1 == c.rsrc && mkDid ps r.2 == iss
      | _ => c.rsrc == didStr iss
    notRevoked := fun a => a.links.all fun l => !revoked.contains l
    now := now
    didStr := didStr
    proofField := 0
  }
  let d : Desc := {
    can := bytesOf dcan
    readWith := fun s =>
      if dwith == "did" then (if didPrefix.isPrefixOf s then some s else none)
      else if dwith == "libdid" then
        -- `schema.DIDString()`: `did.Parse` must accept it; the value read is the DID printed back
        (if didPrefix.isPrefixOf s then (DidM.parse s).map DidM.toString else none)
      else some s
    readNb := fun nb => some (sortNb nb)
    derives := derivesOf dder
  }
  let invIds ← (← getArr j "invs").toList.mapM (·.getNat?)
  let invs := invIds.filterMap fun i => (tokenOf i).map fun t => (⟨t, i⟩ : View)
  let services ← (← getArr j "services").toList.mapM fun sj => do
    let can ← getStr sj "can"
    let res ← getStr sj "result"
    pure ({ can := bytesOf can, desc := { d with can := bytesOf can }, handlerOk := res != "err" } : Srv.Method)
  let results ← (← getArr j "services").toList.mapM fun sj => do
    pure (bytesOf (← getStr sj "can"), (← getStr sj "result"))
  let inlines ← (← getArr j "tokens").mapM fun tj => do
    (← getArr tj "inline").toList.mapM (·.getBool?)
  match tokenOf invId with
  | none => throw "no invocation token"
  | some t => pure { W, d, inv := ⟨t, invId⟩, ntokens := toks.size, invs, services, inlines, results }

def parseSpine (j : Json) : Except String (List SpineItem) := do
  (← j.getArr?).toList.mapM fun it => do
    let tok ← getInt it "tok"
    let c ← parseCapJ it
    pure ⟨if tok < 0 then 999999 else tok.toNat, { c with nb := sortNb c.nb }⟩

def nbStr (nb : Nb) : String :=
  "[" ++ ",".intercalate (nb.map fun kv => s!"[{kv.1},{kv.2}]") ++ "]"

def strOf (b : Bytes) : String := (String.fromUTF8? (ByteArray.mk b.toArray)).getD "?"

def spineStr : Auth → List String
  | .root v c => [s!"{v.tok.id}:{strOf c.can}:{strOf c.rsrc}:{nbStr c.nb}"]
  | .step v c sub => s!"{v.tok.id}:{strOf c.can}:{strOf c.rsrc}:{nbStr c.nb}" :: spineStr sub

def insertNat (x : Nat) : List Nat → List Nat
  | [] => [x]
  | y :: ys => if x ≤ y then x :: y :: ys else y :: insertNat x ys

def sortNat (l : List Nat) : List Nat := l.foldr insertNat []

def outStr : Srv.Out → String
  | .ok => "ok"
  | .handlerExecutionError => "HandlerExecutionError"
  | .unauthorized => "Unauthorized"
  | .handlerNotFound => "HandlerNotFoundError"
  | .invocationCapabilityError => "InvocationCapabilityError"

def callStr (c : Cap) : String :=
  s!"{strOf c.can},{strOf c.rsrc},[{" ".intercalate (c.nb.map fun kv => s!"{kv.1}={kv.2}")}]"

end WorldJson
