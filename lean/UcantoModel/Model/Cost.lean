import UcantoModel.Model.Validator
/-!
# Work done by the validator: number of signature verifications

`claimC / validateC / authorizeC` are `claim / validate / authorize` instrumented with a counter of the
calls that reach `Verifier.Verify` (what a counting verifier handed out by the principal parser
observes); they return the result and the count in one pass.
-/
namespace V

/-- `ucan.VerifySignature` reaches `verifier.Verify` when the algorithm code is known and the issuer
DID equals the verifier's DID (`&&` short-circuits) -/
def verifySigC (t : Token) (d : Did) (k : Nat) : R Unit × Nat :=
  (verifySig t d k, if !t.algOk then 0 else if t.iss == d then 1 else 0)

/-- first-success loop with cost: every element up to and including the first success is paid for -/
def firstOkC {α β} (f : α → R β × Nat) : List α → Fail → Nat → R β × Nat
  | [], acc, c => (.fail acc, c)
  | x :: xs, acc, c =>
    match f x with
    | (.ok b, k) => (.ok b, c + k)
    | (.oof, k) => (.oof, c + k)
    | (.fail e, k) => firstOkC f xs (acc.merge e) (c + k)

def sumNat (l : List Nat) : Nat := l.foldr (· + ·) 0

mutual

def claimC (W : World) : Nat → Desc → List Proof → R Auth × Nat
  | 0, _, _ => (.oof, 0)
  | n+1, d, proofs =>
    let views := resolveProofs W proofs
    let rcs := views.map fun v => (v, validateC W n v views)
    let vc := sumNat (rcs.map (·.2.2))
    let rs := rcs.map fun r => (r.1, r.2.1)
    if rs.any (·.2.isOof) then (.oof, vc) else
    let sources := capsOf (validViews rs)
    let ms := sources.filterMap fun s => (parseCap d s.1).map fun c => (⟨s.1, s.2, c⟩ : Match)
    firstOkC (fun m =>
      if W.canIssue m.value m.view.tok.iss then
        let a := Auth.root m.view m.value
        (if W.notRevoked a then .ok a else .fail { revoked := true }, 0)
      else
        match authorizeC W n d m with
        | (.oof, k) => (.oof, k)
        | (.fail _, k) => (.fail { failedProofs := true }, k)
        | (.ok sub, k) =>
          let a := Auth.step m.view m.value sub
          (if W.notRevoked a then .ok a else .fail { revoked := true }, k))
      ms {} vc

def validateC (W : World) : Nat → View → List View → R Unit × Nat
  | 0, _, _ => (.oof, 0)
  | n+1, v, sibs =>
    let t := v.tok
    if isExpired t.exp W.now then (.fail { kind := .expired }, 0)
    else if isTooEarly t.nbf W.now then (.fail { kind := .tooEarly }, 0)
    else if t.iss.key then
      match W.keyOf t.iss with
      | none => (.fail { kind := .unverifiable }, 0)
      | some k => verifySigC t t.iss k
    else if t.iss == W.authority then verifySigC t W.authority W.authorityKey
    else
      match claimC W n (attDesc W t.id) ((attCandidates t sibs).map .inline) with
      | (.oof, c) => (.oof, c)
      | (.ok _, c) => (.ok (), c)
      | (.fail e, c) =>
        if e.failedProofs then (.fail { kind := .escalation }, c)
        else
          match W.resolveKey t.iss with
          | none => (.fail { kind := .unresolvedKey }, c)
          | some kd =>
            match W.keyOf kd with
            | none => (.fail { kind := .unverifiable }, c)
            | some k => let r := verifySigC t t.iss k; (r.1, c + r.2)

def authorizeC (W : World) : Nat → Desc → Match → R Auth × Nat
  | 0, _, _ => (.oof, 0)
  | n+1, d, m =>
    let views := resolveProofs W (proofsView W m.view)
    let aligned := views.filter fun p => p.tok.aud == m.view.tok.iss
    let rcs := aligned.map fun p => (p, validateC W n p aligned)
    let vc := sumNat (rcs.map (·.2.2))
    let rs := rcs.map fun r => (r.1, r.2.1)
    if rs.any (·.2.isOof) then (.oof, vc) else
    let sources := capsOf (validViews rs)
    let ms := sources.filterMap fun s => selectOne d m.value s.1 s.2
    firstOkC (fun m' =>
      if W.canIssue m'.value m'.view.tok.iss then (.ok (Auth.root m'.view m'.value), 0)
      else
        match authorizeC W n d m' with
        | (.oof, k) => (.oof, k)
        | (.fail _, k) => (.fail { failedProofs := true }, k)
        | (.ok sub, k) => (.ok (Auth.step m'.view m'.value sub), k))
      ms {} vc

end

/-- result and number of signature verifications of `Access` -/
def accessC (W : World) (fuel : Nat) (d : Desc) (inv : View) : R Auth × Nat :=
  claimC W fuel d [.inline inv]

end V
