import UcantoModel.Model.Varint
import UcantoModel.Model.Base58
/-!
# DIDs and signature framing — mirrors `did/did.go` and `ucan/crypto/signature/signature.go`
-/
namespace DidM
open Varint

structure Did where
  key : Bool
  str : Bytes
deriving DecidableEq, Repr

def undef : Did := ⟨false, []⟩

def didPrefix : Bytes := [100, 105, 100, 58]                      -- "did:"
def keyPrefix : Bytes := [100, 105, 100, 58, 107, 101, 121, 58]   -- "did:key:"

/-- `did.Decode(bytes)` -/
def decode (b : Bytes) : Option Did :=
  match readMf b with
  | .error _ => none
  | .ok (code, _) =>
    if code == 0xed || code == 0x1205 then some ⟨true, b⟩
    else if code == 0x0d1d then some ⟨false, b⟩
    else none

/-- `did.Parse(str)` -/
def parse (s : Bytes) : Option Did :=
  if !didPrefix.isPrefixOf s then none
  else if keyPrefix.isPrefixOf s then
    match s.drop 8 with
    | 122 :: rest =>                      -- multibase 'z' = base58btc
      match Base58.decode rest with
      | some b => decode b
      | none => none
    | _ => none                           -- another multibase, or nothing
  else some ⟨false, [0x9d, 0x1a] ++ s.drop 4⟩

/-- `DID.String()` (the undefined DID prints as "") -/
def toString (d : Did) : Bytes :=
  if d.str.isEmpty then []
  else if d.key then keyPrefix ++ [122] ++ Base58.encode d.str
  else didPrefix ++ d.str.drop 2

/-- `DID.String()` on the pinned tree: `none` = slice-bounds panic -/
def toStringPinned (d : Did) : Option Bytes :=
  if d.key then some (keyPrefix ++ [122] ++ Base58.encode d.str)
  else if d.str.length < 2 then none
  else some (didPrefix ++ d.str.drop 2)

/-- `DID.Bytes()` -/
def bytes (d : Did) : Bytes := d.str

/-! ## signature framing -/

/-- `signature.NewSignature(code, raw)` -/
def newSig (code : Nat) (raw : Bytes) : Bytes := encode code ++ encode raw.length ++ raw

/-- `signature.Code()`: a decoding error reads as code 0 -/
def sigCode (s : Bytes) : Nat :=
  match readMf s with
  | .ok (c, _) => c
  | .error _ => 0

/-- `signature.Size()` -/
def sigSize (s : Bytes) : Nat :=
  let cl := size (sigCode s)
  if cl > s.length then 0
  else match readMf (s.drop cl) with
    | .ok (n, _) => n
    | .error _ => 0

/-- `signature.Raw()` -/
def sigRaw (s : Bytes) : Bytes :=
  let cl := size (sigCode s)
  let rl := size (sigSize s)
  if cl + rl > s.length then [] else s.drop (cl + rl)

/-- pinned tree: `Size()` / `Raw()` slice without bounds checks (`none` = panic) -/
def sigSizePinned (s : Bytes) : Option Nat :=
  let cl := size (sigCode s)
  if cl > s.length then none
  else match readMf (s.drop cl) with
    | .ok (n, _) => some n
    | .error _ => some 0

def sigRawPinned (s : Bytes) : Option Bytes :=
  match sigSizePinned s with
  | none => none
  | some sz =>
    let cl := size (sigCode s)
    let rl := size sz
    if cl + rl > s.length then none else some (s.drop (cl + rl))

/-- `signature.CodeName`: the algorithm codes the library knows -/
def codeKnown (c : Nat) : Bool :=
  [0xd0e7, 0xd0ea, 0xd0eb, 0xd0ed, 0xd01200, 0xd01201, 0xd01202, 0xd01205, 0xd191].contains c

def edDSA : Nat := 0xd0ed
def rs256 : Nat := 0xd01205

/-! ## key byte layouts (principal/ed25519) -/

/-- `verifier.Decode` (Ed25519): tag 0xed then exactly 32 key bytes -/
def edVerifierDecode (b : Bytes) : Option Bytes :=
  match readMf b with
  | .ok (code, rest) => if code == 0xed && rest.length == 32 && b.length == 34 then some rest else none
  | .error _ => none

/-- `signer.Decode` (Ed25519): 68 bytes: tag 0x1300, 32 private, tag 0xed, 32 public -/
def edSignerDecode (b : Bytes) : Option (Bytes × Bytes) :=
  if b.length != 68 then none
  else match readMf b with
    | .ok (prc, _) =>
      if prc != 0x1300 then none
      else match readMf (b.drop 34) with
        | .ok (puc, _) =>
          if puc != 0xed then none
          else match edVerifierDecode (b.drop 34) with
            | some pub => some ((b.drop 2).take 32, pub)
            | none => none
        | .error _ => none
    | .error _ => none

def edSignerEncode (priv pub : Bytes) : Bytes := encode 0x1300 ++ priv ++ encode 0xed ++ pub

end DidM
