import UcantoModel.Model.Basic
import UcantoModel.Model.Patterns
/-!
# The delegation-chain validator — mirrors `validator/lib.go`, `validator/capability.go`,
`validator/authorization.go`, and the time predicates of `ucan/lib.go`.

Modelling decisions (see DESIGN.md 2.1):
* a *link* (CID) is a `Nat`; content addressing means a link determines its token: `World.token`.
* a delegation *view* is a token together with the block set it was read from (`bs`): nested proofs
  are looked up in the block set of the *citing* view, exactly as `delegation.NewProofsView(dlg.Proofs(), br)`.
* signatures are ideal and given by ground truth: `signer` is the key that produced the signature,
  `intact` says that the signed payload is the token's current payload, `algOk` that the signature's
  algorithm code is one `signature.CodeName` knows.
* caller-supplied functions (can-issue policy, revocation checker, proof resolver, key resolver,
  principal parser, `Derives`, the schema readers) are fields/parameters.
* the mutually recursive `Claim / Validate / Authorize` take a fuel argument; running dry is the
  distinguished result `oof` which *propagates* (it stands for divergence of the Go code), so that
  a result other than `oof` is the result for every larger fuel.
-/

namespace V
open Patterns

structure Did where
  key : Bool          -- `strings.HasPrefix(did.String(), "did:key:")`
  id : Nat
deriving DecidableEq, Repr, Inhabited

/-- caveats: field ↦ value (both abstract ids; the harness maps them to names / ints / links) -/
abbrev Nb := List (Nat × Nat)

def Nb.get (nb : Nb) (k : Nat) : Option Nat := (nb.find? (·.1 == k)).map (·.2)

/-- caveats shown to `Derives` as the delegated value: fields the delegation sets are shown, fields it
leaves unset are inherited from the claim (`inheritCaveats` in validator/capability.go). -/
def overlay (delegated claimed : Nb) : Nb :=
  claimed.filter (fun kv => (Nb.get delegated kv.1).isNone) ++ delegated

structure Cap where
  can : Bytes
  rsrc : Bytes
  nb : Nb
deriving DecidableEq, Repr, Inhabited

structure Token where
  id : Nat
  iss : Did
  aud : Did
  caps : List Cap
  prfs : List Nat
  exp : Option Int
  nbf : Int
  signer : Nat
  intact : Bool
  algOk : Bool
deriving Repr, Inhabited

structure View where
  tok : Token
  bs : Nat
deriving Repr, Inhabited

inductive Proof where
  | inline (v : View)
  | link (l : Nat)
deriving Repr

inductive Auth where
  | root (v : View) (cap : Cap)
  | step (v : View) (cap : Cap) (sub : Auth)
deriving Repr, Inhabited

def Auth.view : Auth → View
  | .root v _ => v
  | .step v _ _ => v

def Auth.cap : Auth → Cap
  | .root _ c => c
  | .step _ c _ => c

/-- the delegation links exposed through `Authorization.Proofs()` recursively, top first -/
def Auth.links : Auth → List Nat
  | .root v _ => [v.tok.id]
  | .step v _ sub => v.tok.id :: sub.links

/-- capability descriptor (`validator.Descriptor`) -/
structure Desc where
  can : Bytes
  readWith : Bytes → Option Bytes
  readNb : Nb → Option Nb
  /-- `Derives(claimed, delegated)`; `true` = no failure -/
  derives : Cap → Cap → Bool

structure World where
  token : Nat → Option Token
  /-- `present bs l`: the block of link `l` is in block set `bs` -/
  present : Nat → Nat → Bool
  resolveProof : Nat → Option View
  authority : Did
  authorityKey : Nat
  /-- `ParsePrincipal` on the string of a did:key: the key it carries (`none`: parse error) -/
  keyOf : Did → Option Nat
  /-- `ResolveDIDKey` -/
  resolveKey : Did → Option Did
  canIssue : Cap → Did → Bool
  /-- revocation checker: `true` = `ValidateAuthorization` returned nil -/
  notRevoked : Auth → Bool
  now : Int
  /-- the DID as a resource string -/
  didStr : Did → Bytes
  /-- nb field id of `proof` in `ucan/attest` -/
  proofField : Nat

/-! ## time window — `ucan.IsExpired`, `ucan.IsTooEarly` -/

def isExpired (exp : Option Int) (now : Int) : Bool :=
  match exp with
  | none => false
  | some e => decide (e ≤ now)

def isTooEarly (nbf : Int) (now : Int) : Bool := nbf != 0 && decide (now ≤ nbf)

/-! ## results -/

inductive FailKind where
  | expired | tooEarly | unverifiable | badSignature | escalation | unresolvedKey | unauthorized
deriving DecidableEq, Repr

structure Fail where
  /-- `Unauthorized.FailedProofs()` / `InvalidClaim` has failed proofs -/
  failedProofs : Bool := false
  /-- a candidate authorization was rejected by the revocation checker -/
  revoked : Bool := false
  kind : FailKind := .unauthorized
deriving Repr

def Fail.merge (a b : Fail) : Fail :=
  { failedProofs := a.failedProofs || b.failedProofs, revoked := a.revoked || b.revoked, kind := .unauthorized }

inductive R (α : Type) where
  | ok (a : α)
  | fail (e : Fail)
  | oof
deriving Repr

def R.isOof {α} : R α → Bool
  | .oof => true
  | _ => false

/-- first-success search over a list, accumulating failure flags; `oof` aborts. Mirrors the
`for _, matched := range matches { … continue … return }` loops of `Claim` and `Authorize`. -/
def firstOk {α β} (f : α → R β) : List α → Fail → R β
  | [], acc => .fail acc
  | x :: xs, acc =>
    match f x with
    | .ok b => .ok b
    | .oof => .oof
    | .fail e => firstOk f xs (acc.merge e)

/-! ## capabilities — `ParseCapability`, `ResolveCapability`, `match.Select` -/

structure Match where
  src : Cap          -- the source capability as written in the delegation
  view : View        -- the delegation it comes from
  value : Cap        -- parsed / resolved capability
deriving Repr

/-- `ParseCapability(descriptor, source)` -/
def parseCap (d : Desc) (src : Cap) : Option Cap :=
  if d.can != src.can then none else
  match d.readWith src.rsrc with
  | none => none
  | some uri =>
    match d.readNb src.nb with
    | none => none
    | some nb => some ⟨src.can, uri, nb⟩

/-- `ResolveCapability(descriptor, claimed, source)` -/
def resolveCap (d : Desc) (claimed src : Cap) : Option Cap :=
  let can := resolveAbility src.can claimed.can
  if can == [] then none else
  let r := resolveResource src.rsrc claimed.rsrc
  let r := if r == [] then src.rsrc else r
  match d.readWith r with
  | none => none
  | some uri =>
    match d.readNb (overlay src.nb claimed.nb) with
    | none => none
    | some nb => some ⟨can, uri, nb⟩

/-- `match.Select` for one source: resolve, then `Derives(claimed, resolved)` -/
def selectOne (d : Desc) (claimed : Cap) (src : Cap) (v : View) : Option Match :=
  match resolveCap d claimed src with
  | none => none
  | some c => if d.derives claimed c then some ⟨src, v, c⟩ else none

/-! ## proofs — `NewProofsView`, `ResolveProofs` -/

def proofsView (W : World) (v : View) : List Proof :=
  v.tok.prfs.map fun l =>
    if W.present v.bs l then
      match W.token l with
      | some t => .inline ⟨t, v.bs⟩
      | none => .link l
    else .link l

def resolveProofs (W : World) (ps : List Proof) : List View :=
  ps.filterMap fun
    | .inline v => some v
    | .link l => W.resolveProof l

/-! ## signatures — `VerifySignature` / `ucan.VerifySignature` with ideal signatures -/

/-- verification of `t` by the verifier with DID `d` holding key `k` -/
def verifySig (t : Token) (d : Did) (k : Nat) : R Unit :=
  if !t.algOk then .fail { kind := .unverifiable }
  else if t.iss == d && t.signer == k && t.intact then .ok ()
  else .fail { kind := .badSignature }

/-- `"ucan/attest"` -/
def attestCan : Bytes := [117, 99, 97, 110, 47, 97, 116, 116, 101, 115, 116]

/-- the capability `VerifySession` builds for delegation `l`: `with` is the literal authority DID,
`nb.proof` must be the link `l`; derivation is `DefaultDerives` plus equality of `proof`. -/
def attDesc (W : World) (l : Nat) : Desc where
  can := attestCan
  readWith := fun s => if s == W.didStr W.authority then some s else none
  readNb := fun nb => if nb == [(W.proofField, l)] then some nb else none
  derives := fun claimed delegated =>
    defaultDerives claimed.rsrc delegated.rsrc &&
      Nb.get claimed.nb W.proofField == Nb.get delegated.nb W.proofField

/-- sibling proofs considered as candidate attestations for `t` -/
def attCandidates (t : Token) (sibs : List View) : List View :=
  sibs.filter fun s =>
    s.tok.id != t.id &&
      match s.tok.caps with
      | c :: _ => c.can == attestCan
      | [] => false

def validViews {α} (rs : List (View × R α)) : List View :=
  rs.filterMap fun r => match r.2 with
    | .ok _ => some r.1
    | _ => none

def capsOf (vs : List View) : List (Cap × View) :=
  vs.flatMap fun v => v.tok.caps.map fun c => (c, v)

/-! ## Claim / Validate / Authorize -/

mutual

/-- `validator.Claim(capability, proofs, ctx)` -/
def claim (W : World) : Nat → Desc → List Proof → R Auth
  | 0, _, _ => .oof
  | n+1, d, proofs =>
    let views := resolveProofs W proofs
    let rs := views.map fun v => (v, validate W n v views)
    if rs.any (·.2.isOof) then .oof else
    let sources := capsOf (validViews rs)
    let ms := sources.filterMap fun s => (parseCap d s.1).map fun c => (⟨s.1, s.2, c⟩ : Match)
    firstOk (fun m =>
      if W.canIssue m.value m.view.tok.iss then
        let a := Auth.root m.view m.value
        if W.notRevoked a then .ok a else .fail { revoked := true }
      else
        match authorize W n d m with
        | .oof => .oof
        | .fail _ => .fail { failedProofs := true }
        | .ok sub =>
          let a := Auth.step m.view m.value sub
          if W.notRevoked a then .ok a else .fail { revoked := true })
      ms {}

/-- `validator.Validate(dlg, prfs, ctx)` followed by `VerifyAuthorization` / `VerifySession` -/
def validate (W : World) : Nat → View → List View → R Unit
  | 0, _, _ => .oof
  | n+1, v, sibs =>
    let t := v.tok
    if isExpired t.exp W.now then .fail { kind := .expired }
    else if isTooEarly t.nbf W.now then .fail { kind := .tooEarly }
    else if t.iss.key then
      match W.keyOf t.iss with
      | none => .fail { kind := .unverifiable }
      | some k => verifySig t t.iss k
    else if t.iss == W.authority then verifySig t W.authority W.authorityKey
    else
      match claim W n (attDesc W t.id) ((attCandidates t sibs).map .inline) with
      | .oof => .oof
      | .ok _ => .ok ()
      | .fail e =>
        if e.failedProofs then .fail { kind := .escalation }
        else
          match W.resolveKey t.iss with
          | none => .fail { kind := .unresolvedKey }
          | some kd =>
            match W.keyOf kd with
            | none => .fail { kind := .unverifiable }
            | some k => verifySig t t.iss k

/-- `validator.Authorize(match, ctx)` (with `ResolveMatch` / `ResolveSources` inlined: a match has
exactly one source) -/
def authorize (W : World) : Nat → Desc → Match → R Auth
  | 0, _, _ => .oof
  | n+1, d, m =>
    let views := resolveProofs W (proofsView W m.view)
    let aligned := views.filter fun p => p.tok.aud == m.view.tok.iss
    let rs := aligned.map fun p => (p, validate W n p aligned)
    if rs.any (·.2.isOof) then .oof else
    let sources := capsOf (validViews rs)
    let ms := sources.filterMap fun s => selectOne d m.value s.1 s.2
    firstOk (fun m' =>
      if W.canIssue m'.value m'.view.tok.iss then .ok (Auth.root m'.view m'.value)
      else
        match authorize W n d m' with
        | .oof => .oof
        | .fail _ => .fail { failedProofs := true }
        | .ok sub => .ok (Auth.step m'.view m'.value sub))
      ms {}

end

/-- `validator.Access(invocation, ctx)` -/
def access (W : World) (fuel : Nat) (d : Desc) (inv : View) : R Auth :=
  claim W fuel d [.inline inv]

end V
