import UcantoModel.Model.Validator
/-!
# Executable oracle: is a *given* authorization (the one the implementation returned) a valid chain?
`checkAuth` re-derives the chain top-down from the links and capabilities reported at each level.
Token validity is decided by the model's `validate`, which is proved sound (`V.sound_all`), so an
accepted spine is a `ClaimOk` derivation (see `Props/OracleSound.lean`).
-/
namespace V

structure SpineItem where
  tok : Nat
  cap : Cap
deriving Repr

def isOk {α} : R α → Bool
  | .ok _ => true
  | _ => false

def alignedProofsX (W : World) (v : View) : List View :=
  (resolveProofs W (proofsView W v)).filter fun p => p.tok.aud == v.tok.iss

/-- everything below `v` holding `cap` -/
def checkRest (W : World) (fuel : Nat) (d : Desc) : View → Cap → List SpineItem → Option Auth
  | v, cap, [] => if W.canIssue cap v.tok.iss then some (.root v cap) else none
  | v, cap, s :: rest =>
    let al := alignedProofsX W v
    al.findSome? fun p =>
      if p.tok.id == s.tok && isOk (validate W fuel p al) &&
          p.tok.caps.any (fun sc => resolveCap d cap sc == some s.cap) && d.derives cap s.cap then
        (checkRest W fuel d p s.cap rest).map fun sub => Auth.step v cap sub
      else none

def checkAuth (W : World) (fuel : Nat) (d : Desc) (inv : View) : List SpineItem → Bool
  | [] => false
  | top :: rest =>
    top.tok == inv.tok.id && isOk (validate W fuel inv [inv]) &&
      inv.tok.caps.any (fun c => parseCap d c == some top.cap) &&
      match checkRest W fuel d inv top.cap rest with
      | some a => W.notRevoked a
      | none => false

end V
