import UcantoModel.Model.Basic
/-!
# DAG-CBOR — byte-level model of go-ipld-prime's `dagcbor` encoder / decoder as go-ucanto uses it
(`core/ipld/codec/cbor`: every block — UCAN tokens, receipts, agent messages, archive descriptors — is
written and read through it).

* `encode`: definite lengths, shortest heads, links as tag 42 over `0x00 ++ cid`, map entries written in
  the order given; `canon` puts maps in the encoder's order (RFC 7049: shorter keys first, then
  bytewise), so `encode (canon v)` is what `dagcbor.Encode` writes for any node `v`.
* `decode`: definite-length items only; floats, other tags, other simple values, indefinite lengths and
  non-text map keys are refused.
Floats do not occur in go-ucanto's data and are outside the model (the model abstains: `none`).
-/
namespace Cbor

inductive CVal where
  | null
  | bool (b : Bool)
  | int (i : Int)
  | text (utf8 : Bytes)
  | bytes (b : Bytes)
  | list (l : List CVal)
  | map (m : List (Bytes × CVal))
  | link (cid : Bytes)
deriving Repr, Inhabited

/-- `k` bytes, big endian -/
def beBytes : Nat → Nat → Bytes
  | 0, _ => []
  | k+1, n => beBytes k (n / 256) ++ [UInt8.ofNat (n % 256)]

def beNat (b : Bytes) : Nat := b.foldl (fun acc x => acc * 256 + x.toNat) 0

/-- item head: major type and argument in the shortest form -/
def head (major n : Nat) : Bytes :=
  if n < 24 then [UInt8.ofNat (major * 32 + n)]
  else if n < 256 then UInt8.ofNat (major * 32 + 24) :: beBytes 1 n
  else if n < 65536 then UInt8.ofNat (major * 32 + 25) :: beBytes 2 n
  else if n < 4294967296 then UInt8.ofNat (major * 32 + 26) :: beBytes 4 n
  else UInt8.ofNat (major * 32 + 27) :: beBytes 8 n

mutual
def encode : CVal → Bytes
  | .null => [0xf6]
  | .bool false => [0xf4]
  | .bool true => [0xf5]
  | .int i => if 0 ≤ i then head 0 i.toNat else head 1 (-1 - i).toNat
  | .text s => head 3 s.length ++ s
  | .bytes b => head 2 b.length ++ b
  | .list l => head 4 l.length ++ encodeList l
  | .map m => head 5 m.length ++ encodeMap m
  | .link c => [0xd8, 0x2a] ++ (head 2 (c.length + 1) ++ (0x00 :: c))
def encodeList : List CVal → Bytes
  | [] => []
  | x :: xs => encode x ++ encodeList xs
def encodeMap : List (Bytes × CVal) → Bytes
  | [] => []
  | (k, v) :: xs => (head 3 k.length ++ k) ++ (encode v ++ encodeMap xs)
end

/-! ## canonical map order -/

def lexLe : Bytes → Bytes → Bool
  | [], _ => true
  | _ :: _, [] => false
  | a :: as, b :: bs => if a.toNat < b.toNat then true else if b.toNat < a.toNat then false else lexLe as bs

/-- RFC 7049 canonical key order: shorter first, then bytewise -/
def keyLe (a b : Bytes) : Bool :=
  if a.length < b.length then true else if b.length < a.length then false else lexLe a b

def insertKV {α} (kv : Bytes × α) : List (Bytes × α) → List (Bytes × α)
  | [] => [kv]
  | x :: xs => if keyLe kv.1 x.1 then kv :: x :: xs else x :: insertKV kv xs

def sortKV {α} (m : List (Bytes × α)) : List (Bytes × α) := m.foldr insertKV []

mutual
def canon : CVal → CVal
  | .list l => .list (canonList l)
  | .map m => .map (sortKV (canonMap m))
  | v => v
def canonList : List CVal → List CVal
  | [] => []
  | x :: xs => canon x :: canonList xs
def canonMap : List (Bytes × CVal) → List (Bytes × CVal)
  | [] => []
  | (k, v) :: xs => (k, canon v) :: canonMap xs
end

/-- what `dagcbor.Encode` writes -/
def encodeCanon (v : CVal) : Bytes := encode (canon v)

/-! ## decoder -/

def takeExact (n : Nat) (s : Bytes) : Option (Bytes × Bytes) :=
  if s.length < n then none else some (s.take n, s.drop n)

/-- major type, additional info, argument, rest -/
def readHead : Bytes → Option (Nat × Nat × Nat × Bytes)
  | [] => none
  | b :: rest =>
    let major := b.toNat / 32
    let info := b.toNat % 32
    if info < 24 then some (major, info, info, rest)
    else
      let k := if info == 24 then 1 else if info == 25 then 2 else if info == 26 then 4 else if info == 27 then 8 else 0
      if k == 0 then none
      else match takeExact k rest with
        | none => none
        | some (a, r) => some (major, info, beNat a, r)

mutual
def decode : Nat → Bytes → Option (CVal × Bytes)
  | 0, _ => none
  | fuel+1, s =>
    match readHead s with
    | none => none
    | some (major, info, n, rest) =>
      if major == 0 then some (.int n, rest)
      else if major == 1 then some (.int (-1 - (n : Int)), rest)
      else if major == 2 then (takeExact n rest).map fun (b, r) => (.bytes b, r)
      else if major == 3 then (takeExact n rest).map fun (b, r) => (.text b, r)
      else if major == 4 then (decodeList fuel n rest).map fun (l, r) => (.list l, r)
      else if major == 5 then (decodeMap fuel n rest).map fun (m, r) => (.map m, r)
      else if major == 6 then
        if n != 42 then none
        else match readHead rest with
          | some (2, _, m, r1) =>
            match takeExact m r1 with
            | some (0 :: cid, r2) => some (.link cid, r2)
            | _ => none
          | _ => none
      else -- major 7
        if info == 20 then some (.bool false, rest)
        else if info == 21 then some (.bool true, rest)
        else if info == 22 then some (.null, rest)
        else none
def decodeList : Nat → Nat → Bytes → Option (List CVal × Bytes)
  | _, 0, s => some ([], s)
  | 0, _+1, _ => none
  | fuel+1, n+1, s =>
    match decode fuel s with
    | none => none
    | some (x, r) =>
      match decodeList fuel n r with
      | none => none
      | some (xs, r') => some (x :: xs, r')
def decodeMap : Nat → Nat → Bytes → Option (List (Bytes × CVal) × Bytes)
  | _, 0, s => some ([], s)
  | 0, _+1, _ => none
  | fuel+1, n+1, s =>
    match readHead s with
    | some (3, _, kl, r0) =>
      match takeExact kl r0 with
      | none => none
      | some (k, r1) =>
        match decode fuel r1 with
        | none => none
        | some (v, r2) =>
          match decodeMap fuel n r2 with
          | none => none
          | some (m, r3) => some ((k, v) :: m, r3)
    | _ => none
end

/-- `dagcbor.Decode` of a whole block: one item, nothing after it -/
def decodeTop (b : Bytes) : Option CVal :=
  match decode (2 * b.length + 2) b with
  | some (v, []) => some v
  | _ => none

/-! ## equality (Bool) -/
mutual
def beq : CVal → CVal → Bool
  | .null, .null => true
  | .bool a, .bool b => a == b
  | .int a, .int b => a == b
  | .text a, .text b => a == b
  | .bytes a, .bytes b => a == b
  | .list a, .list b => beqList a b
  | .map a, .map b => beqMap a b
  | .link a, .link b => a == b
  | _, _ => false
def beqList : List CVal → List CVal → Bool
  | [], [] => true
  | x :: xs, y :: ys => beq x y && beqList xs ys
  | _, _ => false
def beqMap : List (Bytes × CVal) → List (Bytes × CVal) → Bool
  | [], [] => true
  | (k, x) :: xs, (l, y) :: ys => k == l && beq x y && beqMap xs ys
  | _, _ => false
end

end Cbor
