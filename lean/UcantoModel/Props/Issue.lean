import UcantoModel.Model.Issue
import UcantoModel.Model.Validator
/-!
# Option plumbing of issuance (C03: the window a token is issued with is the window it is validated
against; C18: re-issuing from the same key and fields reproduces the same token)
-/
namespace Issue
open Cbor Wire

theorem fold_append (os : List Opt) (o : Opt) : fold (os ++ [o]) = (fold os).apply o := by
  simp [fold, List.foldl_append]

/-- the last expiration option decides: `WithNoExpiration` last ⇒ the token never expires … -/
theorem last_noexp (dflt : Int) (v iss aud s : Bytes) (att : List Cap) (os : List Opt) :
    (token dflt v iss aud s att (fold (os ++ [.noexp]))).exp = none := by
  rw [fold_append]; simp [token, Cfg.apply]

/-- … `WithExpiration e` last ⇒ it expires at `e`, whatever was given before -/
theorem last_exp (dflt : Int) (v iss aud s : Bytes) (att : List Cap) (os : List Opt) (e : Int) :
    (token dflt v iss aud s att (fold (os ++ [.exp e]))).exp = some e := by
  rw [fold_append]; simp [token, Cfg.apply]

/-- options of different kinds do not interfere: they can be given in either order -/
theorem apply_comm (c : Cfg) (a b : Opt) (h : a.kind ≠ b.kind) :
    (c.apply a).apply b = (c.apply b).apply a := by
  cases a <;> cases b <;> simp_all [Cfg.apply, Opt.kind]

theorem fold_swap (os : List Opt) (a b : Opt) (h : a.kind ≠ b.kind) :
    fold (os ++ [a, b]) = fold (os ++ [b, a]) := by
  simp only [fold, List.foldl_append, List.foldl_cons, List.foldl_nil]
  exact apply_comm _ a b h

/-- an option of a kind given again replaces the earlier one -/
theorem apply_replace (c : Cfg) (a b : Opt) (h : a.kind = b.kind) :
    (c.apply a).apply b = c.apply b := by
  cases a <;> cases b <;> simp_all [Cfg.apply, Opt.kind]

/-- the expiration option does not touch the not-before bound, and conversely -/
theorem noexp_keeps_nbf (c : Cfg) : (c.apply .noexp).nbf = c.nbf := rfl
theorem exp_keeps_nbf (c : Cfg) (e : Int) : (c.apply (.exp e)).nbf = c.nbf := rfl
theorem nbf_keeps_exp (c : Cfg) (n : Int) :
    (c.apply (.nbf n)).exp = c.exp ∧ (c.apply (.nbf n)).noexp = c.noexp := ⟨rfl, rfl⟩

/-- `nbf` is written exactly when it is not 0 — negative bounds included -/
theorem nbf_written_iff (dflt : Int) (v iss aud s : Bytes) (att : List Cap) (c : Cfg) (n : Int) :
    (token dflt v iss aud s att c).nbf = some n ↔ c.nbf = n ∧ n ≠ 0 := by
  simp only [token]
  by_cases h : c.nbf = 0
  · have hb : (c.nbf == 0) = true := by simp [h]
    simp only [hb, if_true]
    constructor
    · intro e; cases e
    · intro ⟨e1, e2⟩; exact absurd (e1 ▸ h) e2
  · have : (c.nbf == 0) = false := by simpa using h
    simp only [this, Bool.false_eq_true, if_false, Option.some.injEq]
    constructor
    · intro e; subst e; exact ⟨rfl, h⟩
    · exact fun e => e.1

/-- without any expiration option the default applies; with one it never does -/
theorem default_exp (dflt : Int) (v iss aud s : Bytes) (att : List Cap) (os : List Opt)
    (h : ∀ o ∈ os, o.kind ≠ 0) : (token dflt v iss aud s att (fold os)).exp = some dflt := by
  have key : ∀ (c : Cfg), c.exp = none → c.noexp = false →
      (os.foldl Cfg.apply c).exp = none ∧ (os.foldl Cfg.apply c).noexp = false := by
    induction os with
    | nil => intro c h1 h2; exact ⟨h1, h2⟩
    | cons o os ih =>
      intro c h1 h2
      simp only [List.foldl_cons]
      apply ih (fun o' ho' => h o' (List.mem_cons_of_mem _ ho'))
      · cases o <;> simp_all [Cfg.apply, Opt.kind]
      · cases o <;> simp_all [Cfg.apply, Opt.kind]
  obtain ⟨h1, h2⟩ := key {} rfl rfl
  simp [token, fold, h1, h2]

/-- **what is issued is what is validated**: the token is expired at `now` iff an expiration was kept and
lies at or before `now`; it is too early iff a non-zero not-before lies at or after `now` (the validator
model's predicates on the issued fields) -/
theorem issued_window (dflt : Int) (v iss aud s : Bytes) (att : List Cap) (c : Cfg) (now : Int) :
    let t := token dflt v iss aud s att c
    (V.isExpired t.exp now = true ↔ c.noexp = false ∧ c.exp.getD dflt ≤ now) ∧
    (V.isTooEarly (t.nbf.getD 0) now = true ↔ c.nbf ≠ 0 ∧ now ≤ c.nbf) := by
  simp only [token]
  constructor
  · cases hn : c.noexp <;> simp [V.isExpired]
  · by_cases h : c.nbf = 0
    · simp [h, V.isTooEarly]
    · have : (c.nbf == 0) = false := by simpa using h
      simp [this, V.isTooEarly, h]

/-- non-vacuity: options given twice and in both orders, negative not-before -/
example :
    let c := fold [.exp 1999999999, .noexp, .nbf (-5), .nnc [110], .nbf (-7)]
    (token 30 [] [] [] [] [] c).exp = none ∧ (token 30 [] [] [] [] [] c).nbf = some (-7) ∧
      (token 30 [] [] [] [] [] c).nnc = some [110] ∧ (token 30 [] [] [] [] [] c).prf = some [] ∧
      (token 30 [] [] [] [] [] c).fct = none := by decide

end Issue
