import UcantoModel.Props.Base64
/-!
# The CID bytes that `delegation.Parse` accepts are exactly the ones `delegation.Format` writes

go-varint refuses non-minimal encodings, so a value has one accepted spelling (`readMf_inv`); hence
`castParse data = .payload p` **iff** `data = cidBytes p` (for payloads below 2 GiB): below the multibase
layer, `Parse` is the inverse of `Format` on exactly `Format`'s image — no second CID spelling of the same
archive is accepted, and nothing else is handed to `Extract`.
-/
namespace Varint

theorem encode_small {n : Nat} (h : n < 128) : encode n = [UInt8.ofNat n] := by
  unfold encode; simp [h]

theorem encode_big {n : Nat} (h : ¬ n < 128) : encode n = UInt8.ofNat (n % 128 + 128) :: encode (n / 128) := by
  rw [encode]; simp [h]

theorem readMfAux_inv : ∀ (s : Bytes) (i x v : Nat) (r : Bytes),
    readMfAux s i x = .ok (v, r) →
    ∃ n, v = x + n * 2 ^ (7 * i) ∧ s = encode n ++ r ∧ (0 < i → 1 ≤ n) := by
  intro s
  induction s with
  | nil => intro i x v r h; simp [readMfAux] at h
  | cons b rest ih =>
    intro i x v r h
    unfold readMfAux at h
    split at h
    · cases h
    · split at h
      · rename_i hb
        split at h
        · cases h
        · rename_i hz
          simp only [Except.ok.injEq, Prod.mk.injEq] at h
          obtain ⟨hv, hr⟩ := h
          refine ⟨b.toNat, hv.symm, ?_, ?_⟩
          · rw [encode_small hb, UInt8.ofNat_toNat, hr]; rfl
          · intro hi
            simp only [Bool.and_eq_true, beq_iff_eq, decide_eq_true_eq, not_and] at hz
            have : b.toNat ≠ 0 := fun e => hz e hi
            omega
      · rename_i hb
        obtain ⟨m, hv, hs, hm⟩ := ih (i + 1) _ v r h
        have hm1 := hm (by omega)
        have hb256 := b.toNat_lt
        refine ⟨(b.toNat - 128) + 128 * m, ?_, ?_, ?_⟩
        · rw [hv]
          have : 2 ^ (7 * (i + 1)) = 128 * 2 ^ (7 * i) := by
            have e : 7 * (i + 1) = 7 * i + 7 := by omega
            rw [e, Nat.pow_add]
            generalize 2 ^ (7 * i) = k
            omega
          rw [this]
          generalize 2 ^ (7 * i) = k
          generalize b.toNat - 128 = c
          have e3 : m * (128 * k) = 128 * m * k := by rw [Nat.mul_left_comm, Nat.mul_assoc]
          rw [e3, Nat.add_mul, Nat.add_assoc]
        · have hbig : ¬ (b.toNat - 128 + 128 * m) < 128 := by omega
          rw [encode_big hbig]
          have e1 : (b.toNat - 128 + 128 * m) % 128 + 128 = b.toNat := by omega
          have e2 : (b.toNat - 128 + 128 * m) / 128 = m := by omega
          rw [e1, e2, UInt8.ofNat_toNat, hs]; rfl
        · intro _; omega

theorem readMf_inv {s r : Bytes} {v : Nat} (h : readMf s = .ok (v, r)) : s = encode v ++ r := by
  obtain ⟨n, hv, hs, _⟩ := readMfAux_inv s 0 0 v r h
  simp at hv
  rw [hv]; exact hs

end Varint

namespace Base64

theorem castParse_payload_canonical (data p : Bytes) (h : castParse data = .payload p) :
    data = cidBytes p := by
  unfold castParse at h
  split at h
  · split at h <;> cases h
  · split at h
    · cases h
    · rename_i vers r1 e1
      split at h
      · cases h
      · rename_i hv
        split at h
        · cases h
        · rename_i codec r2 e2
          split at h
          · cases h
          · rename_i code r3 e3
            split at h
            · cases h
            · rename_i len r4 e4
              split at h; · cases h
              split at h; · cases h
              rename_i hlen
              split at h; · cases h
              rename_i hcodec
              split at h; · cases h
              rename_i hcode
              cases h
              have q1 := Varint.readMf_inv e1
              have q2 := Varint.readMf_inv e2
              have q3 := Varint.readMf_inv e3
              have q4 := Varint.readMf_inv e4
              have hv1 : vers = 1 := by simpa using hv
              have hc : codec = carCodec := by simpa using hcodec
              have h0 : code = 0 := by simpa using hcode
              have hl : len = p.length := by
                have : ¬ p.length ≠ len := hlen
                omega
              unfold cidBytes
              rw [q1, q2, q3, q4, hv1, hc, h0, hl]

/-- **C13, text form, both directions below the multibase layer** -/
theorem C13_cid_bytes_iff (data p : Bytes) (hp : p.length ≤ 2147483647) :
    castParse data = .payload p ↔ data = cidBytes p :=
  ⟨castParse_payload_canonical data p, fun e => e ▸ castParse_cidBytes p hp⟩

end Base64

namespace Base64

/-- whatever text `Parse` accepts for an archive decodes (multibase layer) to the CID bytes `Format` writes -/
theorem C13_parse_payload_canonical (s p : Bytes) (h : parse s = .payload p) :
    mbDecode s = .ok (cidBytes p) := by
  unfold parse at h
  split at h
  · cases h
  · split at h
    · cases h
    · split at h
      · cases h
      · cases h
      · rename_i data hd
        rw [hd, castParse_payload_canonical data p h]

/-! RFC 4648 §10 test vectors: the model's encoders and decoders on concrete strings (tests, labelled as
tests — the theorems above are the claims) -/
private def a (s : String) : Bytes := Bytes.ofChars s.toList

example : stdEncode (a "") = a "" := by decide
example : stdEncode (a "f") = a "Zg==" := by decide
example : stdEncode (a "fo") = a "Zm8=" := by decide
example : stdEncode (a "foo") = a "Zm9v" := by decide
example : stdEncode (a "foob") = a "Zm9vYg==" := by decide
example : stdEncode (a "fooba") = a "Zm9vYmE=" := by decide
example : stdEncode (a "foobar") = a "Zm9vYmFy" := by decide
example : rawStdEncode (a "foob") = a "Zm9vYg" := by decide
example : rawUrlEncode [0xfb, 0xff, 0xfe] = a "-__-" := by decide
example : rawStdEncode [0xfb, 0xff, 0xfe] = a "+//+" := by decide
example : stdDecode (a "Zm9v\nYg=\r=") = some (a "foob") := by decide
example : stdDecode (a "Zm9vYg=") = none := by decide           -- incomplete padding
example : stdDecode (a "Zm9vYg==Zg==") = none := by decide      -- data after padding
example : rawStdDecode (a "Zm9vYg==") = none := by decide       -- `=` in an unpadded alphabet
example : rawStdDecode (a "Zm9vYh") = some (a "foob") := by decide  -- trailing bits ignored (non-strict)
example : rawStdDecode (a "Zm9vY") = none := by decide          -- one character left over
example : joinDot (a "{}") (a "[1]") = a "e30.WzFd" := by decide
example : splitDot (a "e30.WzFd") = (a "e30", a "WzFd") := by decide

end Base64

namespace Base64

/-- a line break inserted anywhere in a text does not change what the decoder reads (stored strings that
were wrapped stay readable; the tie is the `mbdec` / `dlgparse` cases with inserted `\r` / `\n`) -/
theorem decodeWith_insert_break (val : UInt8 → Option Nat) (pad : Bool) (s t : Bytes) (c : UInt8)
    (h : isBreak c = true) : decodeWith val pad (s ++ c :: t) = decodeWith val pad (s ++ t) := by
  simp [decodeWith, List.filter_append, h]

theorem parseKey_insert_break (p : UInt8) (s t : Bytes) (c : UInt8) (h : isBreak c = true) :
    parseKey (p :: (s ++ c :: t)) = parseKey (p :: (s ++ t)) := by
  simp only [parseKey, mbDecode, rawStdDecode, stdDecode, rawUrlDecode, urlDecode,
    decodeWith_insert_break _ _ s t c h]

example : parseKey (formatKey [1, 2, 3, 4]) = .ok [1, 2, 3, 4] := C18_key_format_parse _
example : parseKey (a "MAQI\nDBA==") = .ok [1, 2, 3, 4] := by decide

end Base64
