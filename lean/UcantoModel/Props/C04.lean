import UcantoModel.Props.C03
/-!
# C04 — non-key issuers are accepted only with an authority-backed session
-/
namespace V

/-- **C04.** A token whose issuer is neither a did:key nor the authority passes `validate` only if
(a) there is a valid attestation authorization among its siblings, or (b) the session claim failed
without failed proof chains and the resolved key signed the token. -/
theorem C04_accept (W : World) (n : Nat) (v : View) (sibs : List View)
    (h : validate W n v sibs = .ok ()) (hk : v.tok.iss.key = false) (ha : v.tok.iss ≠ W.authority) :
    (∃ a, ClaimOk W (attDesc W v.tok.id) (attCandidates v.tok sibs) a) ∨
    ((∃ m e, claim W m (attDesc W v.tok.id) ((attCandidates v.tok sibs).map .inline) = .fail e ∧
        e.failedProofs = false) ∧
      ∃ kd k, W.resolveKey v.tok.iss = some kd ∧ W.keyOf kd = some k ∧ SignedBy v.tok k) := by
  have hv := (sound_all W n).2.1 v sibs h
  cases hv with
  | key _ hkey _ _ => rw [hk] at hkey; cases hkey
  | authority _ _ hauth _ => exact absurd hauth ha
  | session _ _ _ hc => exact Or.inl ⟨_, hc⟩
  | resolved _ _ _ hs hkd hk' hsig => exact Or.inr ⟨hs, _, _, hkd, hk', hsig⟩

theorem parseCap_attDesc {W : World} {l : Nat} {c c' : Cap} (h : parseCap (attDesc W l) c = some c') :
    c'.can = attestCan ∧ c'.rsrc = W.didStr W.authority ∧ c'.nb = [(W.proofField, l)] := by
  unfold parseCap at h
  by_cases h1 : ((attDesc W l).can != c.can) = true
  · rw [if_pos h1] at h; cases h
  · rw [if_neg h1] at h
    have hcan : c.can = attestCan := by
      have : (attDesc W l).can = c.can := by simpa using h1
      rw [← this]; rfl
    by_cases h2 : c.rsrc = W.didStr W.authority
    · have hw : (attDesc W l).readWith c.rsrc = some c.rsrc := by simp [attDesc, h2]
      rw [hw] at h
      by_cases h3 : c.nb = [(W.proofField, l)]
      · have hn : (attDesc W l).readNb c.nb = some c.nb := by simp [attDesc, h3]
        rw [hn] at h
        simp only [Option.some.injEq] at h
        subst h
        exact ⟨hcan, h2, h3⟩
      · have hn : (attDesc W l).readNb c.nb = none := by simp [attDesc, h3]
        rw [hn] at h; cases h
    · have hw : (attDesc W l).readWith c.rsrc = none := by simp [attDesc, h2]
      rw [hw] at h; cases h

/-- what an accepted attestation looks like: it is one of the *sibling* proofs, it is not the token
itself, its first capability is `ucan/attest`, the capability it yields is `ucan/attest` on the
authority's own DID with `proof` = exactly this token's link, it is inside its window, its chain is
valid down to somebody entitled to issue it, and it is not revoked. -/
theorem C04_attestation_shape {W : World} {t : Token} {sibs : List View} {a : Auth}
    (h : ClaimOk W (attDesc W t.id) (attCandidates t sibs) a) :
    a.view ∈ sibs ∧ a.view.tok.id ≠ t.id ∧
    (∃ c rest, a.view.tok.caps = c :: rest ∧ c.can = attestCan) ∧
    a.cap.can = attestCan ∧ a.cap.rsrc = W.didStr W.authority ∧ a.cap.nb = [(W.proofField, t.id)] ∧
    InWindow W a.view.tok ∧ Rest W (attDesc W t.id) a ∧ W.notRevoked a = true := by
  cases h with
  | mk hmem hvt hc hparse hrest hrev =>
    rename_i c
    unfold attCandidates at hmem
    simp only [List.mem_filter, Bool.and_eq_true, bne_iff_ne, ne_eq] at hmem
    obtain ⟨hs, hne, hfirst⟩ := hmem
    obtain ⟨p1, p2, p3⟩ := parseCap_attDesc hparse
    refine ⟨hs, hne, ?_, p1, p2, p3, validTok_window hvt, hrest, hrev⟩
    split at hfirst
    · rename_i c' rest heq
      exact ⟨c', rest, heq, by simpa using hfirst⟩
    · cases hfirst

/-- **C04 (never).** An attestation for a *different* token (`proof ≠` this token's link) can not be
the accepted one. -/
theorem C04_other_link {W : World} {t : Token} {sibs : List View} {a : Auth}
    (h : ClaimOk W (attDesc W t.id) (attCandidates t sibs) a) (x : Nat)
    (hx : Nb.get a.cap.nb W.proofField = some x) : x = t.id := by
  have := (C04_attestation_shape h).2.2.2.2.2.1
  rw [this] at hx
  simp [Nb.get] at hx
  exact hx.symm

end V
