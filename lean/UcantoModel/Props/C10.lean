import UcantoModel.Props.C07
/-!
# C10 — receipts are authentic and intact after transport

Field level, over an abstract canonical codec (`Codec`): `enc` is the DAG-CBOR encoder of the outcome,
`dec` its decoder; what is assumed of them is exactly what go-ipld-prime's dag-cbor provides for the
values the library writes — decoding what was encoded gives the value back, and the encoding is
canonical (a function of the value), so re-encoding the decoded outcome reproduces the signed bytes.
(Partial until the DAG-CBOR model of DESIGN 2.4 replaces the hypothesis.)
-/
namespace Rcpt
open DidM Payload

/-- the outcome that is signed (`rdm.OutcomeModel`) -/
structure Outcome where
  ran : Nat                  -- link of the invocation
  okSide : Bool              -- ok or error result
  value : Ipld               -- the result value
  fork : List Nat
  join : Option Nat
  metadata : List (String × Ipld)
  iss : Option String
  prf : List Nat
deriving Inhabited

/-- the receipt root block: outcome and signature. The theorems hold for any type `O` of outcomes —
in particular for `Outcome` above, where every field the property lists is part of what is encoded. -/
structure Receipt (O : Type) where
  ocm : O
  sig : Bytes

structure Codec (O : Type) where
  enc : O → Bytes
  dec : Bytes → Option O
  roundtrip : ∀ o, dec (enc o) = some o

variable {O : Type}

/-- `receipt.Issue`: sign the canonical encoding of the outcome -/
def issue (S : SigScheme) (C : Codec O) (code : Nat) (k : S.Key) (o : O) : Receipt O :=
  ⟨o, newSig code (S.sign k (C.enc o))⟩

/-- transport: the root block is encoded, carried in an agent message through the CAR codec (whose
integrity is C12's subject), and decoded; the receiver sees the decoded outcome and the same signature -/
def transport (C : Codec O) (r : Receipt O) : Option (Receipt O) :=
  (C.dec (C.enc r.ocm)).map fun o => ⟨o, r.sig⟩

/-- what a receiver does to check authenticity: re-encode the outcome it decoded, verify the signature -/
def verify (S : SigScheme) (C : Codec O) (code : Nat) (pub : S.Pub) (r : Receipt O) : Bool :=
  verifyWith S code pub (C.enc r.ocm) r.sig

/-- **C10 (intact).** Reading the receipt back yields the outcome that was issued: same result value
and side, `ran`, effects, metadata, issuer and proofs. -/
theorem C10_same (S : SigScheme) (C : Codec O) (code : Nat) (k : S.Key) (o : O) :
    transport C (issue S C code k o) = some (issue S C code k o) := by
  unfold transport issue
  simp [C.roundtrip]

/-- **C10 (authentic).** The signature of an issued receipt verifies after transport. -/
theorem C10_verifies (S : SigScheme) (C : Codec O) (code : Nat) (k : S.Key) (o : O)
    (hc : code < 2 ^ 63) (hl : ∀ m, (S.sign k m).length < 2 ^ 63) :
    ∃ r, transport C (issue S C code k o) = some r ∧ verify S C code (S.pubOf k) r = true := by
  refine ⟨issue S C code k o, C10_same S C code k o, ?_⟩
  unfold verify issue
  exact (C14_sign_verify S code k (C.enc o) hc (hl _)).1

/-- **C10 (tamper).** With ideal, binding signatures and an injective encoding: a receipt carrying an
issued receipt's signature verifies only if its outcome is the issued outcome (result, `ran`, effects,
metadata, issuer, proofs all included, since they are all inside what is encoded) and only under the
issuer's key. -/
theorem C10_tamper (S : SigScheme) (hI : S.Ideal) (hB : Binding S) (C : Codec O)
    (hinj : ∀ a b, C.enc a = C.enc b → a = b) (code : Nat) (k : S.Key) (o : O)
    (hc : code < 2 ^ 63) (hl : ∀ m, (S.sign k m).length < 2 ^ 63)
    (r : Receipt O) (pub : S.Pub) (hsig : r.sig = (issue S C code k o).sig)
    (hv : verify S C code pub r = true) : r.ocm = o ∧ pub = S.pubOf k := by
  unfold verify at hv
  obtain ⟨_, k', hpub, hs⟩ := C14_accept_only S hI code pub _ r.sig hv
  have hraw : sigRaw r.sig = S.sign k (C.enc o) := by
    rw [hsig]; exact (sig_frame code _ hc (hl _)).2.2
  rw [hraw] at hs
  obtain ⟨hk, hm⟩ := hB _ _ _ _ hs
  exact ⟨(hinj _ _ hm).symm, by rw [← hpub, hk]⟩

/-- a damaged or re-tagged signature never verifies as the issued one: the raw signature and the
algorithm code are both recovered from the framing (`sig_frame`), so any change of either changes what
the verifier sees -/
theorem C10_sig_code (S : SigScheme) (C : Codec O) (code other : Nat) (k : S.Key) (o : O)
    (hc : code < 2 ^ 63) (hl : ∀ m, (S.sign k m).length < 2 ^ 63) (hne : other ≠ code) :
    verify S C other (S.pubOf k) (issue S C code k o) = false := by
  unfold verify issue
  exact (C14_sign_verify S code k (C.enc o) hc (hl _)).2 other hne

/-- non-vacuity: a codec with the assumed laws (round trip, injective) exists, e.g. outcomes that are
their own encoding -/
def idCodec : Codec Bytes := ⟨id, some, fun _ => rfl⟩
example : ∀ a b, idCodec.enc a = idCodec.enc b → a = b := fun _ _ h => h

end Rcpt
