import UcantoModel.Model.Oracle
import UcantoModel.Props.C01
/-!
# The executable chain checker is sound
`checkAuth` is the oracle the correspondence check evaluates on the authorization *returned by the
implementation* (links and capabilities per level, signatures from ground truth).  If it accepts a
spine, a `ClaimOk` derivation with exactly that spine exists — so "the oracle passed" means the
property's own statement holds of what the implementation returned.
-/
namespace V

theorem alignedProofsX_eq (W : World) (v : View) : alignedProofsX W v = alignedProofs W v := rfl

theorem isOk_validate {W : World} {n : Nat} {v : View} {sibs : List View}
    (h : isOk (validate W n v sibs) = true) : ValidTok W v sibs := by
  cases hv : validate W n v sibs with
  | ok u => cases u; exact (sound_all W n).2.1 v sibs hv
  | fail e => rw [hv] at h; cases h
  | oof => rw [hv] at h; cases h

/-- the spine (links and capabilities, top first) of an authorization -/
def Auth.items : Auth → List (Nat × Cap)
  | .root v c => [(v.tok.id, c)]
  | .step v c sub => (v.tok.id, c) :: sub.items

theorem checkRest_sound (W : World) (fuel : Nat) (d : Desc) :
    ∀ (sp : List SpineItem) (v : View) (cap : Cap) (a : Auth),
      checkRest W fuel d v cap sp = some a →
      Rest W d a ∧ a.view = v ∧ a.cap = cap ∧ a.items = (v.tok.id, cap) :: sp.map (fun s => (s.tok, s.cap)) := by
  intro sp
  induction sp with
  | nil =>
    intro v cap a h
    simp only [checkRest] at h
    split at h
    · rename_i hci
      cases h
      exact ⟨Rest.root hci, rfl, rfl, rfl⟩
    · cases h
  | cons s rest ih =>
    intro v cap a h
    simp only [checkRest] at h
    obtain ⟨p, hp, hf⟩ := List.exists_of_findSome?_eq_some h
    split at hf
    · rename_i hcond
      simp only [Bool.and_eq_true, beq_iff_eq, List.any_eq_true] at hcond
      obtain ⟨⟨⟨hid, hval⟩, ⟨sc, hsc, hres⟩⟩, hder⟩ := hcond
      simp only [Option.map_eq_some_iff] at hf
      obtain ⟨sub, hsub, rfl⟩ := hf
      obtain ⟨hrest, hview, hcap, hitems⟩ := ih p s.cap sub hsub
      rw [alignedProofsX_eq] at hp hval
      refine ⟨?_, rfl, rfl, ?_⟩
      · refine Rest.step (sc := sc) (by rw [hview]; exact hp) (by rw [hview]; exact isOk_validate hval)
          (by rw [hview]; exact hsc) (by rw [hcap]; exact hres) (by rw [hcap]; exact hder) hrest
      · simp only [Auth.items, List.map_cons, hitems, hid]
    · cases hf

/-- **oracle soundness**: a spine accepted by `checkAuth` is the spine of a complete valid
authorization of the invocation -/
theorem checkAuth_sound (W : World) (fuel : Nat) (d : Desc) (inv : View) (sp : List SpineItem)
    (h : checkAuth W fuel d inv sp = true) :
    ∃ a, ClaimOk W d [inv] a ∧ a.view = inv ∧ a.items = sp.map (fun s => (s.tok, s.cap)) := by
  cases sp with
  | nil => simp [checkAuth] at h
  | cons top rest =>
    simp only [checkAuth, Bool.and_eq_true, beq_iff_eq, List.any_eq_true] at h
    obtain ⟨⟨⟨htop, hval⟩, ⟨c, hc, hparse⟩⟩, hrest⟩ := h
    split at hrest
    · rename_i a hcr
      obtain ⟨hr, hview, hcap, hitems⟩ := checkRest_sound W fuel d rest inv top.cap a hcr
      refine ⟨a, ?_, hview, ?_⟩
      · exact ClaimOk.mk (c := c) (by rw [hview]; simp) (by rw [hview]; exact isOk_validate hval)
          (by rw [hview]; exact hc) (by rw [hcap]; exact hparse) hr hrest
      · simp only [hitems, List.map_cons, htop]
    · cases hrest

end V
