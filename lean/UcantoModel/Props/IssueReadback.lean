import UcantoModel.Props.Issue
import UcantoModel.Props.WireReadback
/-!
# From the options to the bytes and back: the window a token is issued with is the window read from it
-/
namespace Issue
open Cbor Wire

/-- **C03 / C18, end to end at byte level.** Take any option list, fold it, write the token
(`Wire.tokenBytes ∘ Issue.token`), decode the root block and read the fields: expiration, not-before,
nonce and proofs are exactly what the options say — `exp` null iff the last expiration option was
`WithNoExpiration`, `nbf` present iff non-zero (negative values included), `nnc` present iff non-empty,
`prf` always present. -/
theorem issued_readback (dflt : Int) (v iss aud s : Bytes) (att : List Cap) (os : List Opt)
    (hw : WF (canon (tokenVal (token dflt v iss aud s att (fold os))))) :
    ((decodeTop (tokenBytes (token dflt v iss aud s att (fold os)))).bind fieldsOf).map
        (fun t => (t.exp, t.nbf, t.nnc, t.prf)) =
      some ((if (fold os).noexp then none else some ((fold os).exp.getD dflt)),
            (if (fold os).nbf == 0 then none else some (fold os).nbf),
            (if (fold os).nnc.isEmpty then none else some (fold os).nnc),
            some (fold os).prf) := by
  rw [token_readback _ hw]
  simp [canonToken, token]

/-- … and therefore the validator model, reading the token back from its bytes, judges the window the
options describe: expired at `now` iff an expiration was kept and `≤ now`; too early iff a non-zero
not-before `≥ now`. -/
theorem issued_bytes_window (dflt : Int) (v iss aud s : Bytes) (att : List Cap) (os : List Opt) (now : Int)
    (hw : WF (canon (tokenVal (token dflt v iss aud s att (fold os))))) :
    ∃ t, (decodeTop (tokenBytes (token dflt v iss aud s att (fold os)))).bind fieldsOf = some t ∧
      (V.isExpired t.exp now = true ↔ (fold os).noexp = false ∧ (fold os).exp.getD dflt ≤ now) ∧
      (V.isTooEarly (t.nbf.getD 0) now = true ↔ (fold os).nbf ≠ 0 ∧ now ≤ (fold os).nbf) := by
  refine ⟨_, token_readback _ hw, ?_⟩
  have h := issued_window dflt v iss aud s att (fold os) now
  simpa [canonToken] using h

end Issue

namespace Issue
open Cbor Wire

/-- non-vacuity: options given twice and in a mixed order meet the hypothesis, and the token read back has
no expiration, not-before −7 and the later nonce -/
def sampleOpts : List Opt := [.exp 1999999999, .nnc (k "first"), .noexp, .nbf (-5), .prf [[1, 0x71, 0x12, 0x02, 7, 7]], .nnc (k "n"), .nbf (-7)]

theorem sample_wf : WF (canon (tokenVal (token 30 (k "0.9.1") [0xed, 0x01, 1] [0xed, 0x01, 4] [0xed, 0xa1, 0x03, 0x01, 9]
    [⟨k "did:key:z6Mk", k "store/add", .map []⟩] (fold sampleOpts)))) := by
  simp (config := { decide := true }) [sampleOpts, fold, Cfg.apply, token, tokenVal, optEntry, canon, canonMap, canonList, capVal,
    sortKV, insertKV, WF, WFMap, WFList, k, Bytes.ofChars]

example : ((decodeTop (tokenBytes (token 30 (k "0.9.1") [0xed, 0x01, 1] [0xed, 0x01, 4] [0xed, 0xa1, 0x03, 0x01, 9]
    [⟨k "did:key:z6Mk", k "store/add", .map []⟩] (fold sampleOpts)))).bind fieldsOf).map
      (fun t => (t.exp, t.nbf, t.nnc)) = some (none, some (-7), some (k "n")) := by
  rw [token_readback _ sample_wf]
  decide

end Issue
