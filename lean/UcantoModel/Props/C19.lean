import UcantoModel.Model.Cost
/-!
# C19 — validation work is bounded by the size of the proof set

The full statement ("at most quadratic in the number of delegations for every proof-DAG shape") is
**false of the code**: the search is an exhaustive, un-memoised enumeration of citation paths.  It is
kept visible here with its negation proved on a concrete world (known finding C19/F1); the
correspondence check compares the implementation's count with the model's on chains, trees, layered
DAGs and random DAGs.
-/
namespace C19
open V

/-- layered DAG, two tokens per layer, every token cites both tokens of the next (deeper) layer.
Layer `k` (1 = cited by the invocation) is issued by principal `k+1` to principal `k`; the invocation
is issued by principal 1 to the service 0.  Nobody in the chain owns the resource `[200]`, so every
chain fails at its root. Links: layer `k`, copy `c ∈ {0,1}` has link `2*(depth-k) + c`; the invocation
has link `2*depth`. -/
def did (i : Nat) : Did := ⟨true, i⟩

def cap : Cap := ⟨[115, 47, 97], [200], []⟩   -- "s/a" on a resource nobody owns

def tok (depth : Nat) (l : Nat) : Option Token :=
  if l < 2 * depth then
    let j := l / 2                 -- 0 = deepest layer
    let layer := depth - j
    some { id := l, iss := did (layer + 1), aud := did layer, caps := [cap],
           prfs := if j = 0 then [] else [2 * (j - 1), 2 * (j - 1) + 1],
           exp := none, nbf := 0, signer := layer + 1, intact := true, algOk := true }
  else if l = 2 * depth then
    some { id := l, iss := did 1, aud := did 0, caps := [cap],
           prfs := if depth = 0 then [] else [2 * (depth - 1), 2 * (depth - 1) + 1],
           exp := none, nbf := 0, signer := 1, intact := true, algOk := true }
  else none

def world (depth : Nat) : World where
  token := tok depth
  present := fun _ _ => true
  resolveProof := fun _ => none
  authority := did 0
  authorityKey := 0
  keyOf := fun d => some d.id
  resolveKey := fun _ => none
  canIssue := fun c d => c.rsrc == [UInt8.ofNat d.id]
  notRevoked := fun _ => true
  now := 0
  didStr := fun d => [UInt8.ofNat d.id]
  proofField := 0

def desc : Desc := ⟨[115, 47, 97], some, some, fun c d => Patterns.defaultDerives c.rsrc d.rsrc⟩

def inv (depth : Nat) : View := ⟨(tok depth (2 * depth)).getD default, 0⟩

def count (depth : Nat) : Nat := (accessC (world depth) (4 * depth + 8) desc (inv depth)).2

/-- number of distinct delegations the invocation carries (itself included) -/
def tokens (depth : Nat) : Nat := 2 * depth + 1

/-- small instances, computed by the kernel: 2^(d+1) − 1 -/
theorem count_small : count 0 = 1 ∧ count 1 = 3 ∧ count 2 = 7 ∧ count 3 = 15 ∧ count 4 = 31 := by
  decide +kernel

/-- **negation of the full statement** (known finding C19/F1): 15 delegations, 255 signature
verifications — more than 15² = 225 -/
theorem C19_not_quadratic : ∃ d, count d > tokens d * tokens d := ⟨7, by decide +kernel⟩

/-- and the search does not even succeed: all that work ends in Unauthorized -/
theorem C19_all_fail : ∀ a, (accessC (world 7) 36 desc (inv 7)).1 ≠ .ok a := by
  intro a h
  have : (match (accessC (world 7) 36 desc (inv 7)).1 with | .ok _ => true | _ => false) = false := by
    decide +kernel
  rw [h] at this
  cases this

end C19
