import UcantoModel.Model.Patterns
import UcantoModel.Lemmas.ListLemmas
/-!
# C16 — ability and resource patterns grant exactly what they say
All theorems quantify over *all* byte strings.
-/
namespace C16
open Patterns

/-- "is the same string, is `*`, or ends in `/*` and the claimed ability starts with the pattern up
to and including the slash" -/
def AbilityGrants (p c : Bytes) : Prop :=
  p = c ∨ p = [star] ∨ ∃ q r, p = q ++ [slash, star] ∧ c = q ++ [slash] ++ r

/-- "is the same string or is `ucan:*`" -/
def ResourceResolves (s u : Bytes) : Prop := s = u ∨ s = ucanStar

/-- "equals the delegated one or the delegated one ends in `*` and is a prefix of it up to the star" -/
def DerivesAccepts (cres dres : Bytes) : Prop :=
  cres = dres ∨ ∃ q r, dres = q ++ [star] ∧ cres = q ++ r

theorem resolveAbility_range (p c : Bytes) : resolveAbility p c = c ∨ resolveAbility p c = [] := by
  unfold resolveAbility; split
  · exact Or.inl rfl
  · split
    · exact Or.inl rfl
    · exact Or.inr rfl

theorem resolveAbility_spec (p c : Bytes) (hc : c ≠ []) :
    resolveAbility p c = c ↔ AbilityGrants p c := by
  unfold resolveAbility AbilityGrants
  constructor
  · intro h
    split at h
    · rename_i h1
      simp at h1
      rcases h1 with h1 | h1
      · exact Or.inl h1
      · exact Or.inr (Or.inl h1)
    · split at h
      · rename_i h1 h2
        simp only [Bool.and_eq_true, List.isSuffixOf_iff_suffix, List.isPrefixOf_iff_prefix] at h2
        obtain ⟨⟨q, hq⟩, ⟨r, hr⟩⟩ := h2
        right; right
        refine ⟨q, r, hq.symm, ?_⟩
        subst hq
        rw [ListLemmas.take_pred_append2] at hr
        exact hr.symm
      · exact absurd h.symm hc
  · intro h
    rcases h with h | h | ⟨q, r, hq, hr⟩
    · simp [h]
    · simp [h]
    · subst hq hr
      split
      · rfl
      · rename_i h1
        have : ([slash, star].isSuffixOf (q ++ [slash, star]) && ((q ++ [slash, star]).take ((q ++ [slash, star]).length - 1)).isPrefixOf (q ++ [slash] ++ r)) = true := by
          simp only [Bool.and_eq_true, List.isSuffixOf_iff_suffix, List.isPrefixOf_iff_prefix]
          constructor
          · exact ⟨q, rfl⟩
          · refine ⟨r, ?_⟩
            rw [ListLemmas.take_pred_append2]
        rw [if_pos this]

/-- the excluded point: an empty claimed ability is never granted (`""` is also "no match") — the
result is `[]` whatever the pattern. -/
theorem resolveAbility_empty (p : Bytes) : resolveAbility p [] = [] := by
  have := resolveAbility_range p []
  rcases this with h | h <;> exact h

theorem resolveResource_spec (s u : Bytes) (hu : u ≠ []) :
    resolveResource s u = u ↔ ResourceResolves s u := by
  unfold resolveResource ResourceResolves
  constructor
  · intro h
    split at h
    · rename_i h1; simpa using h1
    · exact absurd h.symm hu
  · intro h
    have : (s == u || s == ucanStar) = true := by
      rcases h with h | h <;> simp [h]
    simp [this]

theorem resolveResource_range (s u : Bytes) : resolveResource s u = u ∨ resolveResource s u = [] := by
  unfold resolveResource; split
  · exact Or.inl rfl
  · exact Or.inr rfl

theorem defaultDerives_spec (cres dres : Bytes) :
    defaultDerives cres dres = true ↔ DerivesAccepts cres dres := by
  unfold defaultDerives DerivesAccepts
  constructor
  · intro h
    split at h
    · rename_i h1
      simp only [List.isSuffixOf_iff_suffix, List.isPrefixOf_iff_prefix] at h1 h
      obtain ⟨q, hq⟩ := h1
      obtain ⟨r, hr⟩ := h
      right
      refine ⟨q, r, hq.symm, ?_⟩
      subst hq
      rw [ListLemmas.take_pred_append1] at hr
      exact hr.symm
    · simp at h; exact Or.inl h.symm
  · intro h
    rcases h with h | ⟨q, r, hq, hr⟩
    · subst h
      split
      · rename_i h1
        simp only [List.isPrefixOf_iff_prefix]
        exact List.take_prefix _ _
      · simp
    · subst hq hr
      have h1 : [star].isSuffixOf (q ++ [star]) = true := by
        simp only [List.isSuffixOf_iff_suffix]; exact ⟨q, rfl⟩
      simp only [h1, if_true, List.isPrefixOf_iff_prefix]
      refine ⟨r, ?_⟩
      rw [ListLemmas.take_pred_append1]

/-! ### Corollaries named in the property: nothing else widens a delegation -/

/-- no partial-segment match: `q/*` never grants `q` followed by a non-slash byte.
(`store/*` does not grant `storefront/add`.) -/
theorem no_partial_segment (q r : Bytes) (x : UInt8) (hx : x ≠ slash)
    (hne : q ++ [slash, star] ≠ q ++ x :: r) (hs : q ++ [slash, star] ≠ [star]) :
    resolveAbility (q ++ [slash, star]) (q ++ x :: r) = [] := by
  rcases resolveAbility_range (q ++ [slash, star]) (q ++ x :: r) with h | h
  · have hc : q ++ x :: r ≠ [] := by simp
    rcases (resolveAbility_spec _ _ hc).mp h with h1 | h1 | ⟨q', r', hq, hr⟩
    · exact absurd h1 hne
    · exact absurd h1 hs
    · have hqq : q = q' := by
        have := congrArg List.length hq
        simp at this
        have hl : q.length = q'.length := by omega
        have := List.append_inj hq hl
        exact this.1
      subst hqq
      simp at hr
      exact absurd hr.1 hx
  · exact h

/-- a pattern that is not equal, not `*` and does not end in `/*` grants nothing (in particular no
case-insensitive and no substring match). -/
theorem only_three_forms (p c : Bytes) (h1 : p ≠ c) (h2 : p ≠ [star])
    (h3 : ¬ ∃ q, p = q ++ [slash, star]) : resolveAbility p c = [] := by
  by_cases hc : c = []
  · subst hc; exact resolveAbility_empty p
  rcases resolveAbility_range p c with h | h
  · rcases (resolveAbility_spec _ _ hc).mp h with g | g | ⟨q, r, hq, _⟩
    · exact absurd g h1
    · exact absurd g h2
    · exact absurd ⟨q, hq⟩ h3
  · exact h

theorem resource_only_two_forms (s u : Bytes) (h1 : s ≠ u) (h2 : s ≠ ucanStar) :
    resolveResource s u = [] := by
  unfold resolveResource
  have : (s == u || s == ucanStar) = false := by simp [h1, h2]
  simp [this]

/-! Non-vacuity / sanity examples (tests, not claims). -/
private def storeStar := Bytes.ofChars ['s','t','o','r','e','/','*']
private def storeAdd := Bytes.ofChars ['s','t','o','r','e','/','a','d','d']
private def storefrontAdd := Bytes.ofChars ['s','t','o','r','e','f','r','o','n','t','/','a','d','d']
example : resolveAbility storeStar storeAdd = storeAdd := by decide
example : resolveAbility storeStar storefrontAdd = [] := by decide
example : AbilityGrants storeStar storeAdd :=
  Or.inr (Or.inr ⟨Bytes.ofChars ['s','t','o','r','e'], Bytes.ofChars ['a','d','d'], by decide, by decide⟩)
example : ¬ AbilityGrants storeStar storefrontAdd := by
  intro h
  have := (resolveAbility_spec storeStar storefrontAdd (by decide)).mpr h
  revert this; decide

end C16
