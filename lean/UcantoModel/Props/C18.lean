import UcantoModel.Generated.Consts
import UcantoModel.Props.C14
import UcantoModel.Props.C12
import UcantoModel.Props.C07
/-!
# C18 — stored tokens, archives and keys stay readable and valid; formats do not drift

The Lean model *is* the format specification the stored artifacts were written under: multicodec
tags, version strings, schema keys, media type, CAR framing, DID and signature framing.  This file
pins the table of wire constants against the values regenerated from the Go source on every run, and
collects the theorems that say "what this format writes, this format reads".  That today's Go equals
the recorded past is an empirical comparison (the corpus), not a theorem: partial.
-/
namespace C18

/-- the wire and storage constants of UCAN 0.9.1 / ucanto as the stored artifacts use them -/
theorem wire_constants_unchanged :
    Generated.didCore = 0x0d1d ∧ Generated.didEd25519 = 0xed ∧ Generated.didRSA = 0x1205 ∧
    Generated.edSignerCode = 0x1300 ∧ Generated.edVerifierCode = 0xed ∧
    Generated.rsaSignerCode = 0x1305 ∧ Generated.rsaVerifierCode = 0x1205 ∧
    Generated.sigEdDSA = 0xd0ed ∧ Generated.sigRS256 = 0xd01205 ∧ Generated.sigNonStandard = 0xd000 ∧
    Generated.sigES256K = 0xd0e7 ∧ Generated.sigES256 = 0xd01200 ∧ Generated.sigEIP191 = 0xd191 ∧
    Generated.ucanVersion = "0.9.1" ∧ Generated.carContentType = "application/vnd.ipld.car" ∧
    Generated.edAlgName = "EdDSA" ∧ Generated.rsaAlgName = "RS256" ∧
    Generated.archiveKey = "ucan@0.9.1" ∧ Generated.messageKey = "ucanto/message@7.0.0" ∧
    Generated.headerTyp = "JWT" := by decide

/-- the model's own constants are the generated ones (the model reads what the code writes) -/
theorem model_constants :
    DidM.edDSA = Generated.sigEdDSA ∧ DidM.rs256 = Generated.sigRS256 ∧
    Payload.version = Generated.ucanVersion := by decide

/-- what the format writes, the format reads: signature framing, key layout, DID strings, varints,
and — byte for byte — only blocks that hash to their link come out of an archive -/
theorem readable :
    (∀ code raw, code < 2 ^ 63 → raw.length < 2 ^ 63 →
        DidM.sigCode (DidM.newSig code raw) = code ∧ DidM.sigRaw (DidM.newSig code raw) = raw) ∧
    (∀ priv pub : Bytes, priv.length = 32 → pub.length = 32 →
        DidM.edSignerDecode (DidM.edSignerEncode priv pub) = some (priv, pub)) ∧
    (∀ n rest, n < 2 ^ 63 → Varint.readMf (Varint.encode n ++ rest) = .ok (n, rest)) ∧
    (∀ H fuel input, ∀ b ∈ (Car.blocks H fuel input).1, Car.ValidBlock H b) := by
  refine ⟨?_, ?_, ?_, ?_⟩
  · intro code raw hc hr
    obtain ⟨h1, _, h3⟩ := DidM.sig_frame code raw hc hr
    exact ⟨h1, h3⟩
  · exact DidM.edSigner_decode_encode
  · intro n rest h; exact Varint.readMf_encode n rest h
  · exact Car.C12_integrity

end C18
