import UcantoModel.Props.C06
/-!
# Termination of the validator on well-founded worlds (used by C06, C11, C19)

Content addressing makes the proof DAG acyclic: a token can only cite links of tokens that existed
before it.  In the model: every cited link is smaller than the citing token's link (`WF`).  Under that
hypothesis the mutually recursive search terminates, with a fuel bound linear in
(link bound) × (longest proof list).  This is the obligation on which the self-attestation loop of the
pinned tree (C11d) showed up: without `s.tok.id != t.id` in `attCandidates` no such bound exists.
-/
namespace V

/-- a view is well-founded: its proofs are older (smaller links) and at most `L` many -/
def WFV (L : Nat) (v : View) : Prop := (∀ p ∈ v.tok.prfs, p < v.tok.id) ∧ v.tok.prfs.length ≤ L

structure WF (W : World) (L : Nat) : Prop where
  tok : ∀ l t, W.token l = some t → t.id = l ∧ WFV L ⟨t, 0⟩
  res : ∀ l v, W.resolveProof l = some v → v.tok.id = l ∧ WFV L v

theorem wfv_bs {L : Nat} {t : Token} {b b' : Nat} (h : WFV L ⟨t, b⟩) : WFV L ⟨t, b'⟩ := h

theorem mem_resolved_proofs {W : World} {L : Nat} (hW : WF W L) {v p : View}
    (hp : p ∈ resolveProofs W (proofsView W v)) : p.tok.id ∈ v.tok.prfs ∧ WFV L p := by
  unfold resolveProofs proofsView at hp
  simp only [List.mem_filterMap, List.mem_map] at hp
  obtain ⟨pr, ⟨l, hl, rfl⟩, hres⟩ := hp
  split at hres
  · rename_i v' heq
    cases hres
    split at heq
    · split at heq
      · rename_i t ht
        cases heq
        obtain ⟨hid, hw⟩ := hW.tok l t ht
        exact ⟨by simpa [hid] using hl, hw⟩
      · cases heq
    · cases heq
  · rename_i l' heq
    have hl' : l' = l := by
      split at heq
      · split at heq
        · cases heq
        · cases heq; rfl
      · cases heq; rfl
    subst hl'
    obtain ⟨hid, hw⟩ := hW.res _ _ hres
    exact ⟨by simpa [hid] using hl, hw⟩

theorem length_resolved_proofs (W : World) (v : View) :
    (resolveProofs W (proofsView W v)).length ≤ v.tok.prfs.length := by
  unfold resolveProofs proofsView
  exact Nat.le_trans (List.length_filterMap_le _ _) (by simp)

theorem firstOk_ne_oof {α β} {f : α → R β} {l : List α} {acc : Fail}
    (h : ∀ x ∈ l, f x ≠ .oof) : firstOk f l acc ≠ .oof := by
  induction l generalizing acc with
  | nil => simp [firstOk]
  | cons x xs ih =>
    simp only [firstOk]
    cases hfx : f x with
    | ok b => simp
    | oof => exact absurd hfx (h x (by simp))
    | fail e => exact ih (fun y hy => h y (by simp [hy]))

theorem not_any_oof {val : View → R Unit} {l : List View} (h : ∀ v ∈ l, val v ≠ .oof) :
    (l.map fun v => (v, val v)).any (·.2.isOof) = false := by
  cases hc : (l.map fun v => (v, val v)).any (·.2.isOof)
  · rfl
  · simp only [List.any_map, List.any_eq_true] at hc
    obtain ⟨v, hv, hv2⟩ := hc
    have := h v hv
    cases hval : val v <;> simp_all [R.isOof]

theorem mem_validViews_sub {α} {rs : List (View × R α)} {v : View} (h : v ∈ validViews rs) :
    ∃ r, (v, r) ∈ rs := by
  obtain ⟨r, hr⟩ := mem_validViews h
  exact ⟨_, hr⟩

theorem claimStep_ne_oof {W : World} {auth : Desc → Match → R Auth} {d : Desc} {m : Match}
    (h : auth d m ≠ .oof) : claimStep W auth d m ≠ .oof := by
  unfold claimStep
  split
  · dsimp only
    split <;> simp
  · cases ha : auth d m with
    | oof => exact absurd ha h
    | fail e => simp
    | ok sub =>
      dsimp only
      split <;> simp

theorem authStep_ne_oof {W : World} {auth : Desc → Match → R Auth} {d : Desc} {m : Match}
    (h : auth d m ≠ .oof) : authStep W auth d m ≠ .oof := by
  unfold authStep
  split
  · simp
  · cases ha : auth d m with
    | oof => exact absurd ha h
    | fail e => simp
    | ok sub => simp

theorem verifySig_ne_oof (t : Token) (d : Did) (k : Nat) : verifySig t d k ≠ .oof := by
  unfold verifySig; split
  · simp
  · split <;> simp

theorem attCandidates_sub {t : Token} {sibs : List View} {s : View} (h : s ∈ attCandidates t sibs) :
    s ∈ sibs := by
  unfold attCandidates at h
  exact (List.mem_filter.mp h).1

theorem attCandidates_length_lt {v : View} {sibs : List View} (h : v ∈ sibs) :
    (attCandidates v.tok sibs).length < sibs.length := by
  unfold attCandidates
  apply List.length_filter_lt_length_iff_exists.mpr
  exact ⟨v, h, by simp⟩

/-- fuel sufficient for link bound `i` and list length `k`, with `c = 2L+3` -/
theorem terminates_all (W : World) (L : Nat) (hW : WF W L) : ∀ n,
    (∀ d ps i k, (∀ v ∈ resolveProofs W ps, WFV L v ∧ v.tok.id < i) → (resolveProofs W ps).length ≤ k →
        i * (2*L+3) + 2*k + 1 ≤ n → claim W n d ps ≠ .oof) ∧
    (∀ v sibs i k, v ∈ sibs → (∀ s ∈ sibs, WFV L s ∧ s.tok.id < i) → sibs.length ≤ k →
        i * (2*L+3) + 2*k ≤ n → validate W n v sibs ≠ .oof) ∧
    (∀ d m i, WFV L m.view → m.view.tok.id < i → i * (2*L+3) ≤ n → authorize W n d m ≠ .oof) := by
  intro n
  induction n with
  | zero =>
    refine ⟨?_, ?_, ?_⟩
    · intro d ps i k _ _ h; omega
    · intro v sibs i k hv _ hk h
      have : 1 ≤ sibs.length := List.length_pos_of_mem hv
      omega
    · intro d m i _ hlt h
      have : 1 ≤ i := by omega
      have : 1 * (2*L+3) ≤ i * (2*L+3) := Nat.mul_le_mul_right _ this
      omega
  | succ n ih =>
    obtain ⟨ihC, ihV, ihA⟩ := ih
    refine ⟨?_, ?_, ?_⟩
    · intro d ps i k hviews hlen hn
      rw [claim_succ]
      unfold claimBody
      simp only
      have hno := not_any_oof (val := fun v => validate W n v (resolveProofs W ps))
        (l := resolveProofs W ps)
        (fun v hv => ihV v _ i k hv hviews hlen (by omega))
      rw [if_neg (by simp [hno])]
      apply firstOk_ne_oof
      intro m hm
      apply claimStep_ne_oof
      simp only [List.mem_filterMap, Option.map_eq_some_iff] at hm
      obtain ⟨⟨sc, sv⟩, hsrc, c, _, rfl⟩ := hm
      obtain ⟨hv, _⟩ := mem_capsOf.mp hsrc
      obtain ⟨r, hr⟩ := mem_validViews_sub hv
      simp only [List.mem_map, Prod.mk.injEq] at hr
      obtain ⟨v', hv', rfl, _⟩ := hr
      obtain ⟨hw, hid⟩ := hviews v' hv'
      exact ihA d _ i hw hid (by omega)
    · intro v sibs i k hv hsibs hlen hn
      rw [validate_succ]
      unfold validateBody
      simp only
      split
      · simp
      · split
        · simp
        · split
          · split
            · simp
            · exact verifySig_ne_oof _ _ _
          · split
            · exact verifySig_ne_oof _ _ _
            · have hlt := attCandidates_length_lt hv
              have hc : claim W n (attDesc W v.tok.id) ((attCandidates v.tok sibs).map .inline) ≠ .oof := by
                apply ihC _ _ i (k - 1)
                · rw [resolveProofs_inline]
                  intro s hs; exact hsibs s (attCandidates_sub hs)
                · rw [resolveProofs_inline]; omega
                · have : 1 ≤ sibs.length := List.length_pos_of_mem hv
                  omega
              cases hcl : claim W n (attDesc W v.tok.id) ((attCandidates v.tok sibs).map .inline) with
              | oof => exact absurd hcl hc
              | ok a => simp
              | fail e =>
                simp only
                split
                · simp
                · split
                  · simp
                  · split
                    · simp
                    · exact verifySig_ne_oof _ _ _
    · intro d m i hw hid hn
      rw [authorize_succ]
      unfold authorizeBody
      simp only
      generalize hal : ((resolveProofs W (proofsView W m.view)).filter fun p => p.tok.aud == m.view.tok.iss) = al
      have hsub : ∀ p ∈ al, WFV L p ∧ p.tok.id < m.view.tok.id := by
        intro p hp
        rw [← hal] at hp
        have hp' := (List.mem_filter.mp hp).1
        obtain ⟨hmem, hwp⟩ := mem_resolved_proofs hW hp'
        exact ⟨hwp, hw.1 _ hmem⟩
      have hlen : al.length ≤ L := by
        rw [← hal]
        exact Nat.le_trans (List.length_filter_le _ _)
          (Nat.le_trans (length_resolved_proofs W m.view) hw.2)
      have hj : (m.view.tok.id + 1) * (2*L+3) ≤ i * (2*L+3) := Nat.mul_le_mul_right _ (by omega)
      have hj' : (m.view.tok.id + 1) * (2*L+3) = m.view.tok.id * (2*L+3) + (2*L+3) := by
        rw [Nat.add_mul]; simp
      have hno := not_any_oof (val := fun v => validate W n v al) (l := al)
        (fun p hp => ihV p al m.view.tok.id L hp hsub hlen (by omega))
      rw [if_neg (by simp [hno])]
      apply firstOk_ne_oof
      intro m' hm'
      apply authStep_ne_oof
      simp only [List.mem_filterMap] at hm'
      obtain ⟨⟨sc, sv⟩, hsrc, hsel⟩ := hm'
      obtain ⟨hv, _⟩ := mem_capsOf.mp hsrc
      obtain ⟨r, hr⟩ := mem_validViews_sub hv
      simp only [List.mem_map, Prod.mk.injEq] at hr
      obtain ⟨v', hv', rfl, _⟩ := hr
      have hview : m'.view = v' := by
        unfold selectOne at hsel
        split at hsel
        · cases hsel
        · split at hsel
          · cases hsel; rfl
          · cases hsel
      obtain ⟨hw', hid'⟩ := hsub v' hv'
      exact ihA d m' m.view.tok.id (hview ▸ hw') (hview ▸ hid') (by omega)

/-- fuel that always suffices for an invocation with link `inv.tok.id` in a world whose proof lists
have at most `L` entries -/
def fuelBound (L : Nat) (inv : View) : Nat := (inv.tok.id + 1) * (2*L+3) + 3

/-- **Termination.** On a well-founded world the validator finishes within `fuelBound`. -/
theorem access_terminates (W : World) (L : Nat) (hW : WF W L) (d : Desc) (inv : View)
    (hinv : WFV L inv) (fuel : Nat) (hf : fuelBound L inv ≤ fuel) : access W fuel d inv ≠ .oof := by
  unfold access
  have hr : resolveProofs W [.inline inv] = [inv] := resolveProofs_inline W [inv]
  apply (terminates_all W L hW fuel).1 d _ (inv.tok.id + 1) 1
  · rw [hr]
    intro v hv
    simp only [List.mem_singleton] at hv
    subst hv
    exact ⟨hinv, by omega⟩
  · rw [hr]; simp
  · unfold fuelBound at hf; omega

/-- **C06, full statement.** On a well-founded world, if a complete valid chain exists and nothing is
revoked, `Access` with enough fuel *returns an authorization*, and that authorization is a complete
valid chain rooted in the invocation. -/
theorem C06_found (W : World) (L : Nat) (hW : WF W L) (hrev : ∀ a, W.notRevoked a = true)
    (d : Desc) (inv : View) (hinv : WFV L inv) (a : Auth) (h : ClaimOk W d [inv] a)
    (fuel : Nat) (hf : fuelBound L inv ≤ fuel) :
    ∃ a', access W fuel d inv = .ok a' ∧ a'.view = inv ∧ ClaimOk W d [inv] a' := by
  rcases C06_complete W hrev d inv a h fuel with h1 | ⟨a', h1⟩
  · exact absurd h1 (access_terminates W L hW d inv hinv fuel hf)
  · exact ⟨a', h1, C01_sound W fuel d inv a' h1⟩

/-- **C01, second half.** When no chain exists the outcome is an (Unauthorized) failure — never an
authorization and, on well-founded worlds, never divergence. -/
theorem C01_unauthorized (W : World) (L : Nat) (hW : WF W L) (d : Desc) (inv : View) (hinv : WFV L inv)
    (h : ¬ ∃ a, ClaimOk W d [inv] a) (fuel : Nat) (hf : fuelBound L inv ≤ fuel) :
    ∃ e, access W fuel d inv = .fail e := by
  cases hr : access W fuel d inv with
  | ok a => exact absurd ⟨a, (C01_sound W fuel d inv a hr).2⟩ h
  | oof => exact absurd hr (access_terminates W L hW d inv hinv fuel hf)
  | fail e => exact ⟨e, rfl⟩

end V
