import UcantoModel.Props.C12
/-!
# C12 — round trip: decoding an encoded archive yields exactly the roots and blocks that were encoded
-/
namespace Car
open Varint

/-- a block that `car.Encode` can be given and `car.Decode` must give back: its link is a CID whose
multihash matches its bytes, and the section is not absurdly large -/
structure WfBlock (H : HashTable) (b : Block) : Prop where
  valid : ValidBlock H b
  size : b.cid.length + b.data.length ≤ maxAlloc

theorem maxAlloc_lt : maxAlloc < 2 ^ 64 := by decide

theorem takeExact_append (a b : Bytes) : takeExact a.length (a ++ b) = some (a, b) := by
  unfold takeExact
  have : ¬ (a ++ b).length < a.length := by simp
  simp [this]

theorem encode_ne_nil (n : Nat) : encode n ≠ [] := by
  unfold encode; split <;> simp

theorem next_section (H : HashTable) (b : Block) (rest : Bytes) (hb : WfBlock H b) :
    next H (sectionOf b ++ rest) = some (.block b, rest) := by
  obtain ⟨c, hp, hraw, hm⟩ := hb.valid
  unfold next sectionOf
  have hne : (encode (b.cid.length + b.data.length) ++ b.cid ++ b.data ++ rest).isEmpty = false := by
    have := encode_ne_nil (b.cid.length + b.data.length)
    cases h : encode (b.cid.length + b.data.length) with
    | nil => exact absurd h this
    | cons x xs => rfl
  simp only [hne, Bool.false_eq_true, if_false]
  have hlt : b.cid.length + b.data.length < 2 ^ 64 := Nat.lt_of_le_of_lt hb.size maxAlloc_lt
  have hr : readStd (encode (b.cid.length + b.data.length) ++ b.cid ++ b.data ++ rest) =
      .ok (b.cid.length + b.data.length, (b.cid ++ b.data) ++ rest) := by
    have := readStd_encode (b.cid.length + b.data.length) ((b.cid ++ b.data) ++ rest) hlt
    simpa [List.append_assoc] using this
  rw [hr]
  have h1 : ¬ b.cid.length + b.data.length > maxAlloc := by have := hb.size; omega
  simp only [h1, if_false]
  have hte : takeExact (b.cid.length + b.data.length) ((b.cid ++ b.data) ++ rest) = some (b.cid ++ b.data, rest) := by
    have := takeExact_append (b.cid ++ b.data) rest
    simpa using this
  simp only [hte, hp, hm, if_true]
  cases b with
  | mk cid data => simp only at hraw; rw [hraw]

theorem sectionOf_ne_nil (b : Block) : sectionOf b ≠ [] := by
  unfold sectionOf
  have := encode_ne_nil (b.cid.length + b.data.length)
  cases h : encode (b.cid.length + b.data.length) with
  | nil => exact absurd h this
  | cons x xs => simp

theorem length_le_sections : ∀ bs : List Block, bs.length ≤ (bs.flatMap sectionOf).length := by
  intro bs
  induction bs with
  | nil => simp
  | cons b bs ih =>
    simp only [List.flatMap_cons, List.length_append, List.length_cons]
    have h1 : 1 ≤ (sectionOf b).length := by
      have := sectionOf_ne_nil b
      cases h : sectionOf b with
      | nil => exact absurd h this
      | cons _ _ => simp
    omega

/-- the block part: all blocks, in order, duplicates kept, clean end -/
theorem blocks_sections (H : HashTable) : ∀ (bs : List Block) (fuel : Nat),
    (∀ b ∈ bs, WfBlock H b) → bs.length < fuel → blocks H fuel (bs.flatMap sectionOf) = (bs, false) := by
  intro bs
  induction bs with
  | nil =>
    intro fuel _ hf
    cases fuel with
    | zero => omega
    | succ n => simp [blocks, next]
  | cons b bs ih =>
    intro fuel hwf hf
    cases fuel with
    | zero => omega
    | succ n =>
      simp only [List.flatMap_cons, blocks]
      rw [next_section H b _ (hwf b (by simp))]
      simp only
      rw [ih n (fun x hx => hwf x (by simp [hx])) (by simp at hf; omega)]

/-! ### header -/

theorem uint8_toNat_ofNat {n : Nat} (h : n < 256) : (UInt8.ofNat n).toNat = n := Varint.toNat_ofNat_lt h

theorem readCborHead_cborHead (major n : Nat) (rest : Bytes) (hm : major < 8) (hn : n < 65536) :
    readCborHead major (cborHead major n ++ rest) = some (n, rest) := by
  unfold cborHead
  by_cases h1 : n < 24
  · simp only [h1, if_true, List.cons_append, List.nil_append, readCborHead]
    rw [uint8_toNat_ofNat (by omega)]
    have e1 : (major * 32 + n) / 32 = major := by omega
    have e2 : (major * 32 + n) % 32 = n := by omega
    simp [e1, e2, h1]
  · by_cases h2 : n < 256
    · simp only [h1, h2, if_false, if_true, List.cons_append, List.nil_append, readCborHead]
      rw [uint8_toNat_ofNat (by omega)]
      have e1 : (major * 32 + 24) / 32 = major := by omega
      have e2 : (major * 32 + 24) % 32 = 24 := by omega
      simp only [e1, e2, bne_self_eq_false, Bool.false_eq_true, if_false, Nat.lt_irrefl, beq_self_eq_true, if_true]
      rw [uint8_toNat_ofNat h2]
      simp [h1]
    · have h3 : n < 65536 := hn
      simp only [h1, h2, h3, if_false, if_true, List.cons_append, List.nil_append, readCborHead]
      rw [uint8_toNat_ofNat (by omega)]
      have e1 : (major * 32 + 25) / 32 = major := by omega
      have e2 : (major * 32 + 25) % 32 = 25 := by omega
      have e3 : ¬ (25 < 24) := by omega
      have e4 : (25 == 24) = false := by decide
      simp only [e1, e2, bne_self_eq_false, Bool.false_eq_true, if_false, e3, e4, beq_self_eq_true, if_true]
      rw [uint8_toNat_ofNat (by omega), uint8_toNat_ofNat (by omega)]
      have e5 : n / 256 * 256 + n % 256 = n := by omega
      have e6 : ¬ (n / 256 * 256 + n % 256 < 256) := by omega
      simp [e5]
      omega

/-- a root CID the header can carry: go-cid parses it with nothing left over -/
def WfRoot (r : Bytes) : Prop := (∃ c, parseCid r = some (c, [])) ∧ r.length + 1 < 65536

theorem stripPrefix_append (p s : Bytes) : stripPrefix p (p ++ s) = some s := by
  unfold stripPrefix
  have : p.isPrefixOf (p ++ s) = true := by
    rw [List.isPrefixOf_iff_prefix]; exact List.prefix_append p s
  simp [this]

theorem readLinks_links : ∀ (roots : List Bytes) (rest : Bytes), (∀ r ∈ roots, WfRoot r) →
    readLinks roots.length (roots.flatMap cborLink ++ rest) = some (roots, rest) := by
  intro roots
  induction roots with
  | nil => intro rest _; simp [readLinks]
  | cons r rs ih =>
    intro rest hwf
    obtain ⟨⟨c, hc⟩, hlen⟩ := hwf r (by simp)
    simp only [List.length_cons, List.flatMap_cons, readLinks]
    unfold cborLink
    have e0 : ([0xd8, 0x2a] ++ cborHead 2 (r.length + 1) ++ [0x00] ++ r ++ rs.flatMap cborLink ++ rest : Bytes) =
        [0xd8, 0x2a] ++ (cborHead 2 (r.length + 1) ++ ((0x00 :: r) ++ (rs.flatMap cborLink ++ rest))) := by
      simp [List.append_assoc]
    have e0' : ([0xd8, 0x2a] ++ cborHead 2 (r.length + 1) ++ [0x00] ++ r ++ List.flatMap (fun cid => [0xd8, 0x2a] ++ cborHead 2 (cid.length + 1) ++ [0x00] ++ cid) rs ++ rest : Bytes) =
        [0xd8, 0x2a] ++ (cborHead 2 (r.length + 1) ++ ((0x00 :: r) ++ (rs.flatMap cborLink ++ rest))) := by
      have : (fun cid => ([0xd8, 0x2a] ++ cborHead 2 (cid.length + 1) ++ [0x00] ++ cid : Bytes)) = cborLink := rfl
      rw [this]; exact e0
    rw [e0', stripPrefix_append]
    simp only
    rw [readCborHead_cborHead 2 (r.length + 1) _ (by omega) hlen]
    simp only
    have hte : takeExact (r.length + 1) ((0x00 :: r) ++ (rs.flatMap cborLink ++ rest)) = some (0x00 :: r, rs.flatMap cborLink ++ rest) := by
      have := takeExact_append (0x00 :: r) (rs.flatMap cborLink ++ rest)
      simpa using this
    rw [hte]
    simp only [hc]
    rw [ih rest (fun x hx => hwf x (by simp [hx]))]

theorem decodeHeader_encodeHeader (roots : List Bytes) (hwf : ∀ r ∈ roots, WfRoot r) (hn : roots.length < 65536) :
    decodeHeader (encodeHeader roots) = .ok roots 1 := by
  unfold decodeHeader encodeHeader encodeHeaderV
  have e0 : ([0xa2] ++ rootsKey ++ cborHead 4 roots.length ++ roots.flatMap cborLink ++ versionKey ++ cborHead 0 1 : Bytes) =
      ([0xa2] ++ rootsKey) ++ (cborHead 4 roots.length ++ (roots.flatMap cborLink ++ (versionKey ++ cborHead 0 1))) := by
    simp [List.append_assoc]
  rw [e0, stripPrefix_append]
  simp only
  rw [readCborHead_cborHead 4 roots.length _ (by omega) hn]
  simp only
  rw [readLinks_links roots _ hwf]
  simp only
  rw [stripPrefix_append]
  simp only
  have : readCborHead 0 (cborHead 0 1) = some (1, []) := by
    have := readCborHead_cborHead 0 1 [] (by omega) (by omega)
    simpa using this
  rw [this]

/-- **C12 (round trip).** For well-formed roots and blocks — any number, duplicates included, CIDv0 or
v1, identity or hashed, as long as each block's bytes match its CID under `H` — decoding what
`car.Encode` wrote yields exactly those roots and exactly that sequence of blocks, and ends cleanly. -/
theorem C12_roundtrip (H : HashTable) (roots : List Bytes) (bs : List Block)
    (hroots : ∀ r ∈ roots, WfRoot r) (hn : roots.length < 65536)
    (hbs : ∀ b ∈ bs, WfBlock H b) (hsize : (encodeHeader roots).length ≤ maxAlloc) :
    decodeCar H (encodeCar roots bs) = .ok roots bs false := by
  unfold decodeCar encodeCar
  simp only
  have hne : (encode (encodeHeader roots).length ++ encodeHeader roots ++ bs.flatMap sectionOf).isEmpty = false := by
    have := encode_ne_nil (encodeHeader roots).length
    cases h : encode (encodeHeader roots).length with
    | nil => exact absurd h this
    | cons x xs => rfl
  simp only [hne, Bool.false_eq_true, if_false]
  have hlt : (encodeHeader roots).length < 2 ^ 64 := Nat.lt_of_le_of_lt hsize maxAlloc_lt
  have hr : readStd (encode (encodeHeader roots).length ++ encodeHeader roots ++ bs.flatMap sectionOf) =
      .ok ((encodeHeader roots).length, encodeHeader roots ++ bs.flatMap sectionOf) := by
    have := readStd_encode (encodeHeader roots).length (encodeHeader roots ++ bs.flatMap sectionOf) hlt
    simpa [List.append_assoc] using this
  rw [hr]
  have h1 : ¬ (encodeHeader roots).length > maxAlloc := by omega
  simp only [h1, if_false, takeExact_append]
  have hlen : bs.length < (bs.flatMap sectionOf).length + 1 := by
    have := length_le_sections bs; omega
  rw [blocks_sections H bs _ hbs hlen]
  simp only
  rw [decodeHeader_encodeHeader roots hroots hn]
  simp

/-- **C12 (version).** A header that announces another version is refused before any block is read -/
theorem C12_version (H : HashTable) (roots : List Bytes) (v : Nat) (rest : Bytes)
    (hroots : ∀ r ∈ roots, WfRoot r) (hn : roots.length < 65536) (hv : v ≠ 1) (hv24 : v < 65536)
    (hsize : (encodeHeaderV roots v).length ≤ maxAlloc) :
    decodeCar H (encode (encodeHeaderV roots v).length ++ encodeHeaderV roots v ++ rest) = .headerError := by
  unfold decodeCar
  simp only
  have hne : (encode (encodeHeaderV roots v).length ++ encodeHeaderV roots v ++ rest).isEmpty = false := by
    have := encode_ne_nil (encodeHeaderV roots v).length
    cases h : encode (encodeHeaderV roots v).length with
    | nil => exact absurd h this
    | cons x xs => rfl
  simp only [hne, Bool.false_eq_true, if_false]
  have hlt : (encodeHeaderV roots v).length < 2 ^ 64 := Nat.lt_of_le_of_lt hsize maxAlloc_lt
  have hr : readStd (encode (encodeHeaderV roots v).length ++ encodeHeaderV roots v ++ rest) =
      .ok ((encodeHeaderV roots v).length, encodeHeaderV roots v ++ rest) := by
    have := readStd_encode (encodeHeaderV roots v).length (encodeHeaderV roots v ++ rest) hlt
    simpa [List.append_assoc] using this
  rw [hr]
  have h1 : ¬ (encodeHeaderV roots v).length > maxAlloc := by omega
  simp only [h1, if_false, takeExact_append]
  have hd : decodeHeader (encodeHeaderV roots v) = .ok roots v := by
    unfold decodeHeader encodeHeaderV
    have e0 : ([0xa2] ++ rootsKey ++ cborHead 4 roots.length ++ roots.flatMap cborLink ++ versionKey ++ cborHead 0 v : Bytes) =
        ([0xa2] ++ rootsKey) ++ (cborHead 4 roots.length ++ (roots.flatMap cborLink ++ (versionKey ++ cborHead 0 v))) := by
      simp [List.append_assoc]
    rw [e0, stripPrefix_append]
    simp only
    rw [readCborHead_cborHead 4 roots.length _ (by omega) hn]
    simp only
    rw [readLinks_links roots _ hroots]
    simp only
    rw [stripPrefix_append]
    simp only
    have : readCborHead 0 (cborHead 0 v) = some (v, []) := by
      have := readCborHead_cborHead 0 v [] (by omega) hv24
      simpa using this
    rw [this]
  rw [hd]
  have : (v != 1) = true := by simpa using hv
  simp [this]

end Car
