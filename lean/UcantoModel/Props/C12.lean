import UcantoModel.Model.Car
import UcantoModel.Lemmas.VarintLemmas
/-!
# C12 — CAR decoding delivers only blocks whose bytes match their CID
All theorems hold for every byte string and every hash table `H`.
-/
namespace Car
open Varint

theorem takeExact_eq {n : Nat} {s a b : Bytes} (h : takeExact n s = some (a, b)) :
    s = a ++ b ∧ a.length = n := by
  unfold takeExact at h
  split at h
  · cases h
  · rename_i hlen
    cases h
    exact ⟨(List.take_append_drop n s).symm, by simp; omega⟩

theorem take_len_sub {α} (pre rest : List α) :
    (pre ++ rest).take ((pre ++ rest).length - rest.length) = pre := by
  have : (pre ++ rest).length - rest.length = pre.length := by simp
  rw [this]; simp

/-- the CID that `parseCid` returns is, byte for byte, the front of the input; the rest is what follows -/
theorem parseCid_split {s rest : Bytes} {c : CidInfo} (h : parseCid s = some (c, rest)) :
    s = c.raw ++ rest := by
  unfold parseCid at h
  split at h
  · cases h
  · rename_i vers r1 hv
    split at h
    · split at h
      · cases h
      · rename_i raw rst hte
        split at h
        · split at h
          · cases h
            exact (takeExact_eq hte).1
          · cases h
        · cases h
    · split at h
      · cases h
      · split at h
        · cases h
        · rename_i codec r2 h2
          split at h
          · cases h
          · rename_i code r3 h3
            split at h
            · cases h
            · rename_i len r4 h4
              split at h
              · cases h
              · split at h
                · cases h
                · rename_i dig rst hte
                  cases h
                  -- rest is a suffix of s
                  obtain ⟨p1, hp1, _⟩ := readMf_suffix hv
                  obtain ⟨p2, hp2, _⟩ := readMf_suffix h2
                  obtain ⟨p3, hp3, _⟩ := readMf_suffix h3
                  obtain ⟨p4, hp4, _⟩ := readMf_suffix h4
                  obtain ⟨hp5, _⟩ := takeExact_eq hte
                  have hs : s = (p1 ++ p2 ++ p3 ++ p4 ++ dig) ++ rest := by
                    rw [hp1, hp2, hp3, hp4, hp5]; simp
                  simp only
                  rw [hs, take_len_sub]

/-- a block is *valid* when its link is a CID (nothing after it) whose own multihash matches the
block's bytes -/
def ValidBlock (H : HashTable) (b : Block) : Prop :=
  ∃ c, parseCid (b.cid ++ b.data) = some (c, b.data) ∧ c.raw = b.cid ∧ hashMatches H c b.data = true

theorem next_block_valid {H : HashTable} {s rest : Bytes} {b : Block}
    (h : next H s = some (.block b, rest)) : ValidBlock H b := by
  unfold next at h
  split at h
  · cases h
  · split at h
    · cases h
    · split at h
      · cases h
      · split at h
        · cases h
        · rename_i sec rst hte
          split at h
          · cases h
          · rename_i c data hp
            split at h
            · rename_i hm
              cases h
              have := parseCid_split hp
              refine ⟨c, ?_, rfl, hm⟩
              simp only
              rw [← this]; exact hp
            · cases h

/-- **C12 (integrity).** Whatever the input bytes — valid, corrupted, truncated, spliced, arbitrary —
every block the decoder delivers is valid: its bytes hash to its own CID. -/
theorem C12_integrity (H : HashTable) : ∀ (fuel : Nat) (input : Bytes),
    ∀ b ∈ (blocks H fuel input).1, ValidBlock H b := by
  intro fuel
  induction fuel with
  | zero => intro input b hb; simp [blocks] at hb
  | succ n ih =>
    intro input b hb
    simp only [blocks] at hb
    split at hb
    · simp at hb
    · simp at hb
    · rename_i b' rest hn
      simp only [List.mem_cons] at hb
      rcases hb with rfl | hb
      · exact next_block_valid hn
      · exact ih rest b hb

theorem decodeCar_blocks {H : HashTable} {input : Bytes} {bs : List Block} {e : Bool}
    (h : (∃ roots, decodeCar H input = .ok roots bs e) ∨ decodeCar H input = .foreign bs e) :
    ∃ fuel rest, (blocks H fuel rest) = (bs, e) := by
  unfold decodeCar at h
  split at h
  · rcases h with ⟨_, h⟩ | h <;> cases h
  · split at h
    · rcases h with ⟨_, h⟩ | h <;> cases h
    · split at h
      · rcases h with ⟨_, h⟩ | h <;> cases h
      · split at h
        · rcases h with ⟨_, h⟩ | h <;> cases h
        · rename_i hb rest _
          refine ⟨rest.length + 1, rest, ?_⟩
          simp only at h
          split at h
          · split at h
            · rcases h with ⟨_, h⟩ | h <;> cases h
            · rcases h with ⟨_, h⟩ | h
              · cases h; rfl
              · cases h
          · rcases h with ⟨_, h⟩ | h
            · cases h
            · cases h; rfl

/-- integrity through `car.Decode` (and hence through request/response decoding and
`delegation.Extract`, which all read blocks through it) -/
theorem C12_integrity_decode (H : HashTable) (input : Bytes) (roots : List Bytes) (bs : List Block) (e : Bool)
    (h : decodeCar H input = .ok roots bs e) : ∀ b ∈ bs, ValidBlock H b := by
  obtain ⟨fuel, rest, hb⟩ := decodeCar_blocks (Or.inl ⟨roots, h⟩)
  intro b hmem
  have := C12_integrity H fuel rest b
  rw [hb] at this
  exact this hmem

/-- a block whose bytes do not match its CID is never delivered: the section yields an error -/
theorem C12_mismatch_is_error (H : HashTable) (s sec rest : Bytes) (l : Nat) (c : CidInfo) (data : Bytes)
    (hs : s ≠ []) (hl : readStd s = .ok (l, sec ++ rest)) (hlen : sec.length = l) (hmax : l ≤ maxAlloc)
    (hp : parseCid sec = some (c, data)) (hm : hashMatches H c data = false) :
    next H s = some (.err, rest) := by
  unfold next
  have : s.isEmpty = false := by
    cases s with
    | nil => exact absurd rfl hs
    | cons _ _ => rfl
  simp only [this, Bool.false_eq_true, if_false, hl]
  have h1 : ¬ l > maxAlloc := by omega
  simp only [h1, if_false]
  have hte : takeExact l (sec ++ rest) = some (sec, rest) := by
    unfold takeExact
    have : ¬ (sec ++ rest).length < l := by simp; omega
    simp only [this, if_false]
    rw [← hlen]; simp
  simp only [hte, hp, hm, Bool.false_eq_true, if_false]

/-- a clean end of the archive is possible only at a section boundary: `next` answers "end" exactly
on the empty rest -/
theorem next_none_iff (H : HashTable) (s : Bytes) : next H s = none ↔ s = [] := by
  unfold next
  cases s with
  | nil => simp
  | cons b r =>
    simp only [List.isEmpty_cons, Bool.false_eq_true, if_false]
    constructor
    · intro h
      split at h
      · cases h
      · split at h
        · cases h
        · split at h
          · cases h
          · split at h
            · cases h
            · split at h <;> cases h
    · intro h; cases h

end Car
