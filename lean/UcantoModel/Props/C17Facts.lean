import UcantoModel.Props.C17
import UcantoModel.Generated.Facts
/-! The obligations of C17 (and C09) that depend on the facts regenerated from the Go source. -/
namespace Lock

/-! ## the tie to the source: the facts extracted from the Go code on this run -/

/-- the discipline read from `/repo`'s current `blockstore.go` is a good one (this is the proof
obligation that a change of the locking breaks) -/
theorem generated_facts_good : Generated.facts.good = true := by decide

/-- **C17 for the code as it is now.** -/
theorem C17_mutex_current (s : St) (h : Reach Generated.facts s) : ¬ Conflict s :=
  C17_mutex Generated.facts generated_facts_good s h

/-- `server.Execute` appends to the shared receipt slice inside its lock (used by C09) -/
theorem exec_append_locked : Generated.execAppendInsideLock = true := by decide

end Lock
