import UcantoModel.Props.C19
/-!
# C19 — the instrumented validator computes the validator's result
`claimC / validateC / authorizeC` return exactly what `claim / validate / authorize` return (for which
soundness, completeness and termination are proved), next to the count: the cost model measures the
proved model, not another search.
-/
namespace V

theorem firstOkC_fst {α β} (f : α → R β × Nat) (g : α → R β) : ∀ (xs : List α) (acc : Fail) (c : Nat),
    (∀ x ∈ xs, (f x).1 = g x) → (firstOkC f xs acc c).1 = firstOk g xs acc := by
  intro xs
  induction xs with
  | nil => intro acc c _; rfl
  | cons x xs ih =>
    intro acc c h
    have hx := h x (by simp)
    have hrest : ∀ y ∈ xs, (f y).1 = g y := fun y hy => h y (by simp [hy])
    simp only [firstOkC, firstOk]
    rcases hfx : f x with ⟨r, k⟩
    rw [hfx] at hx
    simp only at hx
    rw [← hx]
    cases r with
    | ok b => rfl
    | oof => rfl
    | fail e => exact ih _ _ hrest

theorem verifySigC_fst (t : Token) (d : Did) (k : Nat) : (verifySigC t d k).1 = verifySig t d k := rfl

theorem cost_refines (W : World) : ∀ n,
    (∀ d ps, (claimC W n d ps).1 = claim W n d ps) ∧
    (∀ v s, (validateC W n v s).1 = validate W n v s) ∧
    (∀ d m, (authorizeC W n d m).1 = authorize W n d m) := by
  intro n
  induction n with
  | zero =>
    refine ⟨?_, ?_, ?_⟩
    · intro d ps; rw [claimC, claim]
    · intro v s; rw [validateC, validate]
    · intro d m; rw [authorizeC, authorize]
  | succ n ih =>
    obtain ⟨ihc, ihv, iha⟩ := ih
    refine ⟨?_, ?_, ?_⟩
    · intro d ps
      rw [claimC, claim]
      simp only [List.map_map]
      have hmap : (List.map ((fun r : View × R Unit × Nat => (r.1, r.2.1)) ∘ fun v => (v, validateC W n v (resolveProofs W ps))) (resolveProofs W ps))
          = List.map (fun v => (v, validate W n v (resolveProofs W ps))) (resolveProofs W ps) := by
        apply List.map_congr_left
        intro v _
        simp [ihv]
      rw [hmap]
      split
      · rfl
      · apply firstOkC_fst
        intro m _
        by_cases hci : W.canIssue m.value m.view.tok.iss = true
        · simp only [hci, if_true]
        · simp only [hci, Bool.false_eq_true, if_false]
          have := iha d m
          rcases hq : authorizeC W n d m with ⟨r, k⟩
          rw [hq] at this
          simp only at this
          rw [← this]
          cases r <;> rfl
    · intro v s
      rw [validateC, validate]
      simp only
      split
      · rfl
      · split
        · rfl
        · split
          · split <;> (rename_i h; simp only [h]; try rfl)
          · split
            · rfl
            · have := ihc (attDesc W v.tok.id) ((attCandidates v.tok s).map .inline)
              rcases hq : claimC W n (attDesc W v.tok.id) ((attCandidates v.tok s).map .inline) with ⟨r, k⟩
              rw [hq] at this
              simp only at this
              rw [← this]
              cases r with
              | oof => rfl
              | ok _ => rfl
              | fail e =>
                simp only
                split
                · rfl
                · split
                  · rename_i h; simp only [h]
                  · rename_i kd h
                    simp only [h]
                    split <;> (rename_i h2; simp only [h2]; try rfl)
    · intro d m
      rw [authorizeC, authorize]
      simp only [List.map_map]
      have hmap : ∀ al : List View, (List.map ((fun r : View × R Unit × Nat => (r.1, r.2.1)) ∘ fun p => (p, validateC W n p al)) al)
          = List.map (fun p => (p, validate W n p al)) al := by
        intro al
        apply List.map_congr_left
        intro v _
        simp [ihv]
      rw [hmap]
      split
      · rfl
      · apply firstOkC_fst
        intro m' _
        by_cases hci : W.canIssue m'.value m'.view.tok.iss = true
        · simp only [hci, if_true]
        · simp only [hci, Bool.false_eq_true, if_false]
          have := iha d m'
          rcases hq : authorizeC W n d m' with ⟨r, k⟩
          rw [hq] at this
          simp only at this
          rw [← this]
          cases r <;> rfl

/-- **C19 (model tie).** The counted search returns the validator's verdict -/
theorem accessC_fst (W : World) (fuel : Nat) (d : Desc) (inv : View) :
    (accessC W fuel d inv).1 = access W fuel d inv :=
  (cost_refines W fuel).1 d [.inline inv]

end V
