import UcantoModel.Model.Payload
import UcantoModel.Props.C14
/-!
# C07 — issued tokens verify; any change to a signed token is detected
Field level: the serialisation `ser` of the signed record to bytes is a parameter, assumed injective
where "detected" is claimed (dag-json + base64url of distinct trees are distinct).
-/
namespace Payload
open DidM

/-- a signature determines key and message (with `Ideal`: what makes "a change is detected" mean
anything); satisfied by the toy scheme -/
def Binding (S : SigScheme) : Prop := ∀ k k' m m', S.sign k m = S.sign k' m' → k = k' ∧ m = m'

theorem toy_binding : Binding SigScheme.toy := by
  intro k k' m m' h
  have h' : (k :: m : List UInt8) = k' :: m' := h
  exact List.cons.inj h' 

/-- the record rebuilt for verification from an issued token is the record that was signed — for every
combination of expiration / no expiration, not-before, nonce, facts, proofs and capabilities -/
theorem verifyRec_issue (S : SigScheme) (ser : SignRec → Bytes) (a : Alg) (k : S.Key) (F : Fields) :
    verifyRec a.name (issue S ser a k F) = signRec a.name F := by
  unfold verifyRec issue signRec Token.nonce Token.notBefore
  simp only
  congr 1
  · by_cases h : F.nnc = "" <;> simp [h]
  · by_cases h : F.nbf = 0 <;> simp [h]

/-- **C07 (issued tokens verify)**, for any signature scheme and any algorithm whose code the library
knows under its own name -/
theorem C07_issue_verifies (S : SigScheme) (ser : SignRec → Bytes) (nameOf : Nat → Option String)
    (a : Alg) (k : S.Key) (F : Fields) (hname : nameOf a.code = some a.name)
    (hc : a.code < 2 ^ 63) (hl : ∀ m, (S.sign k m).length < 2 ^ 63) :
    verify S ser nameOf a F.iss (S.pubOf k) (issue S ser a k F) = true := by
  unfold verify
  have hsig := sig_frame a.code (S.sign k (ser (signRec a.name F))) hc (hl _)
  have hcode : sigCode (issue S ser a k F).sig = a.code := hsig.1
  rw [hcode, hname]
  simp only
  rw [verifyRec_issue]
  have hiss : (issue S ser a k F).iss = F.iss := rfl
  rw [hiss]
  simp only [beq_self_eq_true, Bool.true_and]
  exact (C14_sign_verify S a.code k _ hc (hl _)).1

/-- on the pinned tree the two records differ as soon as a nonce (or a not-before) is set -/
theorem C07_pinned_counterexample (S : SigScheme) (ser : SignRec → Bytes) (a : Alg) (k : S.Key) (F : Fields)
    (h : F.nnc ≠ "") :
    (verifyRecPinned a.name (issue S ser a k F)).nnc ≠ (signRec a.name F).nnc := by
  simp [verifyRecPinned, signRec, h]

/-- **C07 (any change is detected).** A token carrying the signature of an issued token verifies only
if the record rebuilt from its fields is the record that was signed. -/
theorem C07_tamper (S : SigScheme) (hI : S.Ideal) (hB : Binding S) (ser : SignRec → Bytes)
    (hser : ∀ r r', ser r = ser r' → r = r') (nameOf : Nat → Option String)
    (a : Alg) (k : S.Key) (F : Fields) (hc : a.code < 2 ^ 63) (hl : ∀ m, (S.sign k m).length < 2 ^ 63)
    (t : Token) (vdid : String) (pub : S.Pub)
    (hsig : t.sig = (issue S ser a k F).sig)
    (hv : verify S ser nameOf a vdid pub t = true) :
    ∃ n, nameOf a.code = some n ∧ verifyRec n t = signRec a.name F ∧ pub = S.pubOf k ∧ t.iss = vdid := by
  unfold verify at hv
  have hfr := sig_frame a.code (S.sign k (ser (signRec a.name F))) hc (hl _)
  have hcode : sigCode t.sig = a.code := by rw [hsig]; exact hfr.1
  have hraw : sigRaw t.sig = S.sign k (ser (signRec a.name F)) := by rw [hsig]; exact hfr.2.2
  rw [hcode] at hv
  cases hn : nameOf a.code with
  | none => rw [hn] at hv; cases hv
  | some n =>
    rw [hn] at hv
    simp only [Bool.and_eq_true, beq_iff_eq] at hv
    obtain ⟨hiss, hvw⟩ := hv
    obtain ⟨_, k', hpub, hs⟩ := C14_accept_only S hI a.code pub _ t.sig hvw
    rw [hraw] at hs
    obtain ⟨hk, hm⟩ := hB _ _ _ _ hs
    exact ⟨n, rfl, (hser _ _ hm).symm, by rw [← hpub, hk], hiss⟩

/-- every field of the token is covered by the verification record: two tokens with the same record
agree on version, issuer, audience, capabilities (as DAG-JSON), proofs, expiration, facts, nonce and
not-before -/
theorem verifyRec_covers (n : String) (t t' : Token) (h : verifyRec n t = verifyRec n t') :
    t.v = t'.v ∧ t.iss = t'.iss ∧ t.aud = t'.aud ∧ t.att.map capJson = t'.att.map capJson ∧
    t.prf = t'.prf ∧ t.exp = t'.exp ∧ t.fct.map factJson = t'.fct.map factJson ∧
    t.nonce = t'.nonce ∧ t.notBefore = t'.notBefore := by
  unfold verifyRec at h
  simp only [SignRec.mk.injEq] at h
  obtain ⟨_, hv, hi, ha, hatt, hp, he, hf, hnn, hnb⟩ := h
  refine ⟨hv, hi, ha, hatt, hp, he, hf, ?_, ?_⟩
  · by_cases h1 : t.nonce = "" <;> by_cases h2 : t'.nonce = "" <;> simp_all
  · by_cases h1 : t.notBefore = 0 <;> by_cases h2 : t'.notBefore = 0 <;> simp_all

/-- **C07 (another principal).** Verification against any other key, or against a verifier whose DID
is not the token's issuer, fails. -/
theorem C07_other_principal (S : SigScheme) (hI : S.Ideal) (hB : Binding S) (ser : SignRec → Bytes)
    (nameOf : Nat → Option String) (a : Alg) (k : S.Key) (F : Fields)
    (hc : a.code < 2 ^ 63) (hl : ∀ m, (S.sign k m).length < 2 ^ 63) (vdid : String) (pub : S.Pub)
    (hother : pub ≠ S.pubOf k ∨ vdid ≠ F.iss) :
    verify S ser nameOf a vdid pub (issue S ser a k F) = false := by
  cases hv : verify S ser nameOf a vdid pub (issue S ser a k F) with
  | false => rfl
  | true =>
    unfold verify at hv
    have hfr := sig_frame a.code (S.sign k (ser (signRec a.name F))) hc (hl _)
    have hcode : sigCode (issue S ser a k F).sig = a.code := hfr.1
    rw [hcode] at hv
    cases hn : nameOf a.code with
    | none => rw [hn] at hv; cases hv
    | some n =>
      rw [hn] at hv
      simp only [Bool.and_eq_true, beq_iff_eq] at hv
      obtain ⟨hiss, hvw⟩ := hv
      obtain ⟨_, k', hpub, hs⟩ := C14_accept_only S hI a.code pub _ _ hvw
      have hraw : sigRaw (issue S ser a k F).sig = S.sign k (ser (signRec a.name F)) := hfr.2.2
      rw [hraw] at hs
      obtain ⟨hk, _⟩ := hB _ _ _ _ hs
      rcases hother with h | h
      · exact absurd (by rw [← hpub, hk]) h
      · exact absurd hiss.symm h

/-- **the full-strength statement is false** (known finding C07/F2): DAG-JSON cannot tell a link from
the map `{"/": "<cid>"}`, nor bytes from `{"/": {"bytes": …}}` — two different caveats (different CBOR,
different CID) with the same signing payload -/
theorem C07_dagjson_collision (c : String) :
    (Ipld.link c).toDagJson = (Ipld.map [("/", Ipld.str c)]).toDagJson := by
  simp [Ipld.toDagJson, Ipld.toDagJsonMap, Ipld.sortKV, Ipld.insertKV]

theorem C07_dagjson_collision_bytes (b : Bytes) :
    (Ipld.bytes b).toDagJson = (Ipld.map [("/", Ipld.map [("bytes", Ipld.str (Ipld.b64 b))])]).toDagJson := by
  simp [Ipld.toDagJson, Ipld.toDagJsonMap, Ipld.sortKV, Ipld.insertKV]

/-- non-vacuity: the hypotheses on the signature scheme are satisfiable -/
example : SigScheme.toy.Ideal ∧ Binding SigScheme.toy := ⟨SigScheme.toy_ideal, toy_binding⟩

end Payload
