import UcantoModel.Lemmas.Stable
import UcantoModel.Props.C05
/-!
# C06 — a valid chain is always found, whatever surrounds it (completeness of the validator)
-/
namespace V

def Good {α} (r : R α) : Prop := r = .oof ∨ ∃ a, r = .ok a

theorem firstOk_complete {α β} {f : α → R β} {l : List α} {acc : Fail} {x : α}
    (hx : x ∈ l) (hf : Good (f x)) : Good (firstOk f l acc) := by
  induction l generalizing acc with
  | nil => cases hx
  | cons y ys ih =>
    simp only [firstOk]
    cases hfy : f y with
    | ok b => exact Or.inr ⟨b, rfl⟩
    | oof => exact Or.inl rfl
    | fail e =>
      rcases List.mem_cons.mp hx with h | h
      · subst h
        rcases hf with h1 | ⟨b, h1⟩ <;> rw [hfy] at h1 <;> cases h1
      · exact ih h

theorem mem_validViews_of {α} {rs : List (View × R α)} {v : View} {r : α} (h : (v, R.ok r) ∈ rs) :
    v ∈ validViews rs := by
  unfold validViews
  simp only [List.mem_filterMap]
  exact ⟨(v, R.ok r), h, rfl⟩

theorem val_ok_of_not_any {val : View → R Unit} {l : List View} {v : View}
    (hany : (l.map fun v => (v, val v)).any (·.2.isOof) = false) (hv : v ∈ l)
    (hg : val v = .oof ∨ val v = .ok ()) : (v, R.ok ()) ∈ l.map fun v => (v, val v) := by
  have hne : val v ≠ .oof := by
    intro hc
    have : (l.map fun v => (v, val v)).any (·.2.isOof) = true := by
      simp only [List.any_map, List.any_eq_true]
      exact ⟨v, hv, by simp [hc, R.isOof]⟩
    rw [this] at hany; cases hany
  rcases hg with h | h
  · exact absurd h hne
  · exact List.mem_map.mpr ⟨v, hv, by rw [h]⟩

theorem verifySig_of_signed {t : Token} {d : Did} {k : Nat} (hd : t.iss = d) (hs : SignedBy t k) :
    verifySig t d k = .ok () := by
  obtain ⟨h1, h2, h3⟩ := hs
  unfold verifySig
  simp [h3, hd, h1, h2]

/-- what `Rest` gives below a match that cannot be issued by its own issuer -/
theorem rest_below {W : World} {d : Desc} {a : Auth} {src : Cap} (hr : Rest W d a)
    (hci : ¬ W.canIssue a.cap a.view.tok.iss = true) : ∃ sub, Below W d ⟨src, a.view, a.cap⟩ sub := by
  cases hr with
  | root h => exact absurd h hci
  | step hmem hvt hsc hres hder hrest =>
    rename_i v cap sub sc
    exact ⟨sub, hmem, hvt, ⟨sc, hsc, hres⟩, hder, hrest⟩

theorem claimStep_good {W : World} {auth : Desc → Match → R Auth} {d : Desc} {a : Auth} {src : Cap}
    (ha : ∀ d m a, Below W d m a → Good (auth d m)) (hrev : ∀ a, W.notRevoked a = true)
    (hr : Rest W d a) : Good (claimStep W auth d ⟨src, a.view, a.cap⟩) := by
  unfold claimStep
  simp only
  split
  · simp only [hrev, if_true]; exact Or.inr ⟨_, rfl⟩
  · rename_i hci
    obtain ⟨sub, hb⟩ := rest_below (src := src) hr hci
    rcases ha d _ sub hb with h | ⟨a', h⟩
    · rw [h]; exact Or.inl rfl
    · rw [h]; simp only [hrev, if_true]; exact Or.inr ⟨_, rfl⟩

theorem authStep_good {W : World} {auth : Desc → Match → R Auth} {d : Desc} {a : Auth} {src : Cap}
    (ha : ∀ d m a, Below W d m a → Good (auth d m))
    (hr : Rest W d a) : Good (authStep W auth d ⟨src, a.view, a.cap⟩) := by
  unfold authStep
  simp only
  split
  · exact Or.inr ⟨_, rfl⟩
  · rename_i hci
    obtain ⟨sub, hb⟩ := rest_below (src := src) hr hci
    rcases ha d _ sub hb with h | ⟨a', h⟩
    · rw [h]; exact Or.inl rfl
    · rw [h]; exact Or.inr ⟨_, rfl⟩

theorem claimBody_complete {W : World} {val : View → List View → R Unit}
    {auth : Desc → Match → R Auth} {d : Desc} {ps : List Proof} {a : Auth}
    (hv : ∀ v s, ValidTok W v s → val v s = .oof ∨ val v s = .ok ())
    (ha : ∀ d m a, Below W d m a → Good (auth d m)) (hrev : ∀ a, W.notRevoked a = true)
    (h : ClaimOk W d (resolveProofs W ps) a) : Good (claimBody W val auth d ps) := by
  cases h with
  | @mk _ _ _ c hmem hvt hc hparse hrest _ =>
    unfold claimBody
    simp only
    by_cases hany : ((resolveProofs W ps).map fun v => (v, val v (resolveProofs W ps))).any (·.2.isOof) = true
    · rw [if_pos hany]; exact Or.inl rfl
    · rw [if_neg hany]
      have hany' : ((resolveProofs W ps).map fun v => (v, val v (resolveProofs W ps))).any (·.2.isOof) = false := by
        simpa using hany
      have hin := val_ok_of_not_any (val := fun v => val v (resolveProofs W ps)) hany' hmem (hv _ _ hvt)
      have hvv := mem_validViews_of hin
      have hsrc : (c, a.view) ∈ capsOf (validViews ((resolveProofs W ps).map fun v => (v, val v (resolveProofs W ps)))) :=
        mem_capsOf.mpr ⟨hvv, hc⟩
      refine firstOk_complete (x := ⟨c, a.view, a.cap⟩) ?_ (claimStep_good ha hrev hrest)
      simp only [List.mem_filterMap, Option.map_eq_some_iff]
      exact ⟨(c, a.view), hsrc, a.cap, hparse, rfl⟩

theorem authorizeBody_complete {W : World} {val : View → List View → R Unit}
    {auth : Desc → Match → R Auth} {d : Desc} {m : Match} {a : Auth}
    (hv : ∀ v s, ValidTok W v s → val v s = .oof ∨ val v s = .ok ())
    (ha : ∀ d m a, Below W d m a → Good (auth d m))
    (h : Below W d m a) : Good (authorizeBody W val auth d m) := by
  obtain ⟨hmem, hvt, ⟨sc, hsc, hres⟩, hder, hrest⟩ := h
  unfold authorizeBody
  simp only
  unfold alignedProofs at hmem hvt
  generalize hal : ((resolveProofs W (proofsView W m.view)).filter fun p => p.tok.aud == m.view.tok.iss) = al at hmem hvt ⊢
  by_cases hany : (al.map fun p => (p, val p al)).any (·.2.isOof) = true
  · rw [if_pos hany]; exact Or.inl rfl
  · rw [if_neg hany]
    have hany' : (al.map fun p => (p, val p al)).any (·.2.isOof) = false := by simpa using hany
    have hin := val_ok_of_not_any (val := fun v => val v al) hany' hmem (hv _ _ hvt)
    have hvv := mem_validViews_of hin
    have hsrc : (sc, a.view) ∈ capsOf (validViews (al.map fun p => (p, val p al))) :=
      mem_capsOf.mpr ⟨hvv, hsc⟩
    refine firstOk_complete (x := ⟨sc, a.view, a.cap⟩) ?_ (authStep_good ha hrest)
    simp only [List.mem_filterMap]
    refine ⟨(sc, a.view), hsrc, ?_⟩
    simp only [selectOne, hres, hder, if_true]

theorem validateBody_complete {W : World} {clm : Desc → List Proof → R Auth} {v : View} {s : List View}
    (hc : ∀ d ps a, ClaimOk W d (resolveProofs W ps) a → Good (clm d ps))
    (hres : ∀ d ps e, (∃ m, claim W m d ps = .fail e) → clm d ps = .oof ∨ clm d ps = .fail e)
    (h : ValidTok W v s) : validateBody W clm v s = .oof ∨ validateBody W clm v s = .ok () := by
  unfold validateBody
  simp only
  cases h with
  | key hw hkey hk hs =>
    simp only [hw.1, hw.2, hkey, hk, Bool.false_eq_true, if_false, if_true]
    exact Or.inr (verifySig_of_signed rfl hs)
  | authority hw hkey hauth hs =>
    have : (v.tok.iss == W.authority) = true := by simp [hauth]
    simp only [hw.1, hw.2, hkey, this, Bool.false_eq_true, if_false, if_true]
    exact Or.inr (verifySig_of_signed hauth hs)
  | session hw hkey hauth hcl =>
    have : (v.tok.iss == W.authority) = false := by simpa using hauth
    simp only [hw.1, hw.2, hkey, this, Bool.false_eq_true, if_false]
    rw [← resolveProofs_inline W (attCandidates v.tok s)] at hcl
    rcases hc _ _ _ hcl with h | ⟨a', h⟩
    · rw [h]; exact Or.inl rfl
    · rw [h]; exact Or.inr rfl
  | resolved hw hkey hauth hfail hkd hk hs =>
    have : (v.tok.iss == W.authority) = false := by simpa using hauth
    simp only [hw.1, hw.2, hkey, this, Bool.false_eq_true, if_false]
    obtain ⟨m, e, hm, hfp⟩ := hfail
    rcases hres _ _ e ⟨m, hm⟩ with h | h
    · rw [h]; exact Or.inl rfl
    · rw [h]
      simp only [hfp, Bool.false_eq_true, if_false, hkd, hk]
      exact Or.inr (verifySig_of_signed rfl hs)

theorem complete_all (W : World) (hrev : ∀ a, W.notRevoked a = true) : ∀ n,
    (∀ d ps a, ClaimOk W d (resolveProofs W ps) a → Good (claim W n d ps)) ∧
    (∀ v s, ValidTok W v s → validate W n v s = .oof ∨ validate W n v s = .ok ()) ∧
    (∀ d m a, Below W d m a → Good (authorize W n d m)) := by
  intro n
  induction n with
  | zero =>
    refine ⟨?_, ?_, ?_⟩
    · intro d ps a _; rw [claim_zero]; exact Or.inl rfl
    · intro v s _; rw [validate_zero]; exact Or.inl rfl
    · intro d m a _; rw [authorize_zero]; exact Or.inl rfl
  | succ n ih =>
    obtain ⟨ihC, ihV, ihA⟩ := ih
    refine ⟨?_, ?_, ?_⟩
    · intro d ps a h
      rw [claim_succ]
      exact claimBody_complete ihV ihA hrev h
    · intro v s h
      rw [validate_succ]
      refine validateBody_complete ihC ?_ h
      intro d ps e ⟨m, hm⟩
      by_cases hn : claim W n d ps = .oof
      · exact Or.inl hn
      · right
        rw [claim_deterministic W n m d ps hn (by rw [hm]; simp), hm]
    · intro d m a h
      rw [authorize_succ]
      exact authorizeBody_complete ihV ihA h

/-- **C06 (completeness).** If the proofs attached to (or resolvable for) the invocation contain a
complete valid chain and the revocation checker rejects nothing, then for *every* fuel the validator
either has not finished (`oof`) or returns an authorization — it never answers Unauthorized. This
holds whatever else surrounds the chain: the specification `ClaimOk` speaks of membership only, so
order, duplicates, decoys, further capabilities and inline-versus-resolver supply are immaterial. -/
theorem C06_complete (W : World) (hrev : ∀ a, W.notRevoked a = true) (d : Desc) (inv : View) (a : Auth)
    (h : ClaimOk W d [inv] a) (fuel : Nat) :
    access W fuel d inv = .oof ∨ ∃ a', access W fuel d inv = .ok a' := by
  unfold access
  have hr : resolveProofs W [.inline inv] = [inv] := resolveProofs_inline W [inv]
  exact (complete_all W hrev fuel).1 d [.inline inv] a (by rw [hr]; exact h)

/-- never `Unauthorized` when a valid chain exists -/
theorem C06_never_refused (W : World) (hrev : ∀ a, W.notRevoked a = true) (d : Desc) (inv : View) (a : Auth)
    (h : ClaimOk W d [inv] a) (fuel : Nat) (e : Fail) : access W fuel d inv ≠ .fail e := by
  intro hc
  rcases C06_complete W hrev d inv a h fuel with h1 | ⟨a', h1⟩ <;> rw [hc] at h1 <;> cases h1

/-- the chain described by the returned authorization is itself valid (= C01_sound) -/
theorem C06_valid (W : World) (fuel : Nat) (d : Desc) (inv : View) (a : Auth)
    (h : access W fuel d inv = .ok a) : ClaimOk W d [inv] a := (C01_sound W fuel d inv a h).2

/-- the answer does not depend on the fuel once it is enough -/
theorem C06_fuel_independent (W : World) (d : Desc) (inv : View) (n m : Nat)
    (h1 : access W n d inv ≠ .oof) (h2 : access W m d inv ≠ .oof) :
    access W n d inv = access W m d inv := claim_deterministic W n m d _ h1 h2

end V
