import UcantoModel.Props.C09
import UcantoModel.Props.C12
import UcantoModel.Props.C17
/-!
# C13 — messages and delegation archives read back unchanged (the part that is bookkeeping)

* which blocks a delegation carries (`storeOf`: its root plus, transitively, everything carried by the
  proofs that were embedded when it was issued) — compared with the real stores on every run;
* what a message reports (`Msg.build` / `Msg.get`, proved in `Props/C09.lean`);
* the block store keeps every block once, in first-write order (`Lock.C17_seq`);
* every block read back through the CAR codec hashes to its link (`Car.C12_integrity`), which is what
  makes "a delegation's link equals the CID of its root block bytes" survive transport.
The byte-level codec round trip (DAG-CBOR) is not modelled: partial.
-/
namespace Msg
open V

theorem mem_dedup (l : List Nat) (x : Nat) : x ∈ dedup l ↔ x ∈ l := by
  induction l with
  | nil => simp [dedup]
  | cons y ys ih =>
    simp only [dedup, List.mem_cons, List.mem_filter, ih]
    constructor
    · rintro (h | ⟨h, _⟩)
      · exact Or.inl h
      · exact Or.inr h
    · intro h
      by_cases hxy : x = y
      · exact Or.inl hxy
      · rcases h with h | h
        · exact Or.inl h
        · exact Or.inr ⟨h, by simpa using hxy⟩

theorem dedup_nodup (l : List Nat) : (dedup l).Nodup := by
  induction l with
  | nil => simp [dedup]
  | cons y ys ih =>
    simp only [dedup, List.nodup_cons, List.mem_filter]
    refine ⟨?_, ih.filter _⟩
    rintro ⟨_, h⟩
    simp at h

/-- a delegation always carries its own root block -/
theorem storeOf_self (toks : Array Token) (inl : Array (List Bool)) (fuel i : Nat) :
    i ∈ storeOf toks inl fuel i := by
  cases fuel with
  | zero => simp [storeOf]
  | succ n =>
    simp only [storeOf]
    split
    · simp
    · rw [mem_dedup]; simp

/-- … and everything carried by a proof that was embedded when it was issued: nested proof chains
travel with the delegation, to any depth -/
theorem storeOf_embedded (toks : Array Token) (inl : Array (List Bool)) (fuel i p : Nat) (t : Token)
    (ht : toks[i]? = some t) (hp : (p, true) ∈ t.prfs.zip ((inl[i]?).getD [])) (hlt : p < toks.size) :
    ∀ b ∈ storeOf toks inl fuel p, b ∈ storeOf toks inl (fuel + 1) i := by
  intro b hb
  simp only [storeOf, ht]
  rw [mem_dedup]
  apply List.mem_cons_of_mem
  simp only [List.mem_flatMap]
  exact ⟨(p, true), hp, by simp [hlt, hb]⟩

/-- no block twice -/
theorem storeOf_nodup (toks : Array Token) (inl : Array (List Bool)) (fuel i : Nat) :
    (storeOf toks inl fuel i).Nodup := by
  cases fuel with
  | zero => simp [storeOf]
  | succ n =>
    simp only [storeOf]
    split
    · simp
    · exact dedup_nodup _

/-- a message built from invocations lists exactly their links, in order -/
theorem C13_invocations (invs : List Nat) (rs : List Receipt) : (build invs rs).execute = invs := rfl

/-- … and maps each invocation that has a receipt to a receipt issued for it (the first one in the
list when several answer the same invocation) -/
theorem C13_mapping (invs : List Nat) (rs : List Receipt) (l : Nat) :
    get (build invs rs) l = (rs.find? (·.ran == l)).map (·.root) := get_build invs rs l

end Msg
