import UcantoModel.Props.C19Chain
/-!
# C19 — what the work is bounded by: the number of citation paths
For worlds whose tokens carry one capability each and are issued by keys (no sessions), the number of
signature verifications of `Access` is at most `1 +` the number of citation paths below the invocation
(`paths`): one per token *occurrence* in the unfolded proof tree. Where no token is cited twice that is
the number of tokens; with sharing it is exponential — which is exactly known finding C19/F1
(`C19_not_quadratic` shows the bound is attained).
-/
namespace V

structure SingleCapWorld (W : World) : Prop where
  tok : ∀ l t, W.token l = some t → t.caps.length ≤ 1 ∧ t.iss.key = true
  res : ∀ l v, W.resolveProof l = some v → v.tok.caps.length ≤ 1 ∧ v.tok.iss.key = true

def SingleCapView (v : View) : Prop := v.tok.caps.length ≤ 1 ∧ v.tok.iss.key = true

def sumOver {α} (l : List α) (g : α → Nat) : Nat := sumNat (l.map g)

@[simp] theorem sumOver_nil {α} (g : α → Nat) : sumOver ([] : List α) g = 0 := rfl
@[simp] theorem sumOver_cons {α} (x : α) (xs : List α) (g : α → Nat) : sumOver (x :: xs) g = g x + sumOver xs g := rfl

theorem sumOver_append {α} (a b : List α) (g : α → Nat) : sumOver (a ++ b) g = sumOver a g + sumOver b g := by
  induction a with
  | nil => simp
  | cons x xs ih => simp [ih]; omega

/-- number of citation paths below a view (token occurrences in the unfolded proof tree), to depth `n` -/
def paths (W : World) : Nat → View → Nat
  | 0, _ => 0
  | n+1, v => sumOver (resolveProofs W (proofsView W v)) fun p => 1 + paths W n p

theorem sumOver_filter_le {α} (l : List α) (p : α → Bool) (g : α → Nat) : sumOver (l.filter p) g ≤ sumOver l g := by
  induction l with
  | nil => simp
  | cons x xs ih =>
    simp only [List.filter_cons]
    split
    · simp only [sumOver_cons]; omega
    · simp only [sumOver_cons]; omega

theorem sumOver_filterMap_le {α β} (l : List α) (f : α → Option β) (h : β → Nat) (h' : α → Nat)
    (hf : ∀ x y, f x = some y → h y ≤ h' x) : sumOver (l.filterMap f) h ≤ sumOver l h' := by
  induction l with
  | nil => simp
  | cons x xs ih =>
    simp only [List.filterMap_cons]
    cases hfx : f x with
    | none => simp only [sumOver_cons]; omega
    | some y =>
      have := hf x y hfx
      simp only [sumOver_cons]; omega

theorem sumOver_flatMap_le {α β} (l : List α) (F : α → List β) (h : β → Nat) (h' : α → Nat)
    (hF : ∀ a, sumOver (F a) h ≤ h' a) : sumOver (l.flatMap F) h ≤ sumOver l h' := by
  induction l with
  | nil => simp
  | cons x xs ih =>
    simp only [List.flatMap_cons, sumOver_append, sumOver_cons]
    have := hF x
    omega

theorem sumOver_mono {α} (l : List α) (g g' : α → Nat) (h : ∀ x ∈ l, g x ≤ g' x) : sumOver l g ≤ sumOver l g' := by
  induction l with
  | nil => simp
  | cons x xs ih =>
    have h1 := h x (by simp)
    have h2 := ih (fun y hy => h y (by simp [hy]))
    simp only [sumOver_cons]; omega

theorem firstOkC_le_sum {α β} (f : α → R β × Nat) : ∀ (l : List α) (acc : Fail) (c : Nat),
    (firstOkC f l acc c).2 ≤ c + sumOver l fun x => (f x).2 := by
  intro l
  induction l with
  | nil => intro acc c; simp [firstOkC]
  | cons x xs ih =>
    intro acc c
    simp only [firstOkC, sumOver_cons]
    rcases hfx : f x with ⟨r, k⟩
    cases r with
    | ok _ => simp only; omega
    | oof => simp only; omega
    | fail e =>
      simp only
      have := ih (acc.merge e) (c + k)
      omega

theorem mem_resolved_single {W : World} (hW : SingleCapWorld W) {v p : View}
    (hp : p ∈ resolveProofs W (proofsView W v)) : SingleCapView p := by
  unfold resolveProofs proofsView at hp
  simp only [List.mem_filterMap, List.mem_map] at hp
  obtain ⟨pr, ⟨l, _, rfl⟩, hres⟩ := hp
  split at hres
  · rename_i v' heq
    cases hres
    split at heq
    · split at heq
      · rename_i t ht
        cases heq
        exact hW.tok l t ht
      · cases heq
    · cases heq
  · rename_i l' heq
    exact hW.res _ _ hres

theorem sumOver_filterMap_le_mem {α β} (l : List α) (f : α → Option β) (h : β → Nat) (h' : α → Nat)
    (hf : ∀ x ∈ l, ∀ y, f x = some y → h y ≤ h' x) : sumOver (l.filterMap f) h ≤ sumOver l h' := by
  induction l with
  | nil => simp
  | cons x xs ih =>
    have ih' := ih (fun a ha => hf a (by simp [ha]))
    simp only [List.filterMap_cons]
    cases hfx : f x with
    | none => simp only [sumOver_cons]; omega
    | some y =>
      have := hf x (by simp) y hfx
      simp only [sumOver_cons]; omega

theorem sumOver_flatMap_le_mem {α β} (l : List α) (F : α → List β) (h : β → Nat) (h' : α → Nat)
    (hF : ∀ a ∈ l, sumOver (F a) h ≤ h' a) : sumOver (l.flatMap F) h ≤ sumOver l h' := by
  induction l with
  | nil => simp
  | cons x xs ih =>
    have ih' := ih (fun a ha => hF a (by simp [ha]))
    simp only [List.flatMap_cons, sumOver_append, sumOver_cons]
    have := hF x (by simp)
    omega

theorem sumOver_const_le {α β} (l : List α) (f : α → β) (c : Nat) (h : l.length ≤ 1) :
    sumOver (l.map f) (fun _ => c) ≤ c := by
  cases l with
  | nil => simp
  | cons x xs =>
    cases xs with
    | nil => simp
    | cons _ _ => simp at h

/-- the loop body of `authorizeC` -/
def stepC (W : World) (authC : Desc → Match → R Auth × Nat) (d : Desc) (m' : Match) : R Auth × Nat :=
  if W.canIssue m'.value m'.view.tok.iss then (.ok (Auth.root m'.view m'.value), 0)
  else
    match authC d m' with
    | (.oof, k) => (.oof, k)
    | (.fail _, k) => (.fail { failedProofs := true }, k)
    | (.ok sub, k) => (.ok (Auth.step m'.view m'.value sub), k)

theorem stepC_le (W : World) (authC : Desc → Match → R Auth × Nat) (d : Desc) (m' : Match) :
    (stepC W authC d m').2 ≤ (authC d m').2 := by
  unfold stepC
  by_cases hci : W.canIssue m'.value m'.view.tok.iss = true
  · simp [hci]
  · simp only [hci, Bool.false_eq_true, if_false]
    rcases hq : authC d m' with ⟨r, k⟩
    cases r <;> simp

theorem validViews_sum_le (l : List View) (r : View → R Unit) (g : View → Nat) :
    sumOver (validViews (l.map fun p => (p, r p))) g ≤ sumOver l g := by
  induction l with
  | nil => simp [validViews]
  | cons x xs ih =>
    unfold validViews at ih ⊢
    simp only [List.map_cons, List.filterMap_cons]
    cases r x with
    | ok _ => simp only [sumOver_cons]; omega
    | oof => simp only [sumOver_cons]; omega
    | fail _ => simp only [sumOver_cons]; omega

theorem mem_validViews_map {l : List View} {r : View → R Unit} {v : View}
    (h : v ∈ validViews (l.map fun p => (p, r p))) : v ∈ l := by
  have := mem_validViews_fst h
  simp only [List.map_map, List.mem_map, Function.comp] at this
  obtain ⟨p, hp, rfl⟩ := this
  exact hp

theorem capsOf_sum_le (vv : List View) (g : View → Nat) (h : ∀ v ∈ vv, v.tok.caps.length ≤ 1) :
    sumOver (capsOf vv) (fun s => g s.2) ≤ sumOver vv g := by
  unfold capsOf
  apply sumOver_flatMap_le_mem
  intro v hv
  have hc := h v hv
  cases hcs : v.tok.caps with
  | nil => simp
  | cons c cs =>
    cases cs with
    | nil => simp
    | cons _ _ => rw [hcs] at hc; simp at hc

theorem matches_sum_le (W : World) (authC : Desc → Match → R Auth × Nat) (g : View → Nat) (d : Desc) (claimed : Cap)
    (vv : List View) (hvv : ∀ v ∈ vv, SingleCapView v)
    (hauth : ∀ d m', SingleCapView m'.view → (authC d m').2 ≤ g m'.view) :
    sumOver ((capsOf vv).filterMap fun s => selectOne d claimed s.1 s.2) (fun m' => (stepC W authC d m').2)
      ≤ sumOver vv g := by
  refine Nat.le_trans (sumOver_filterMap_le_mem (capsOf vv) _ _ (fun s : Cap × View => g s.2) ?_)
    (capsOf_sum_le vv g (fun v hv => (hvv v hv).1))
  intro s hs m' hsel
  have hv := selectOne_view hsel
  have hs2 : s.2 ∈ vv := by
    obtain ⟨c, v⟩ := s
    exact (mem_capsOf.mp hs).1
  have h1 := stepC_le W authC d m'
  have h2 := hauth d m' (by rw [hv]; exact hvv _ hs2)
  rw [hv] at h2
  omega

/-- one level: the validations of the aligned proofs, then the levels below the ones that match -/
theorem authBodyC_paths (W : World) (hW : SingleCapWorld W)
    (valC : View → List View → R Unit × Nat) (authC : Desc → Match → R Auth × Nat) (g : View → Nat)
    (hval : ∀ p s, p.tok.iss.key = true → (valC p s).2 ≤ 1)
    (hauth : ∀ d m', SingleCapView m'.view → (authC d m').2 ≤ g m'.view)
    (d : Desc) (m : Match) :
    (authBodyC W valC authC d m).2 ≤ sumOver (resolveProofs W (proofsView W m.view)) fun p => 1 + g p := by
  unfold authBodyC
  simp only
  generalize hal : (resolveProofs W (proofsView W m.view)).filter (fun p => p.tok.aud == m.view.tok.iss) = aligned
  have hsub : ∀ p ∈ aligned, SingleCapView p := by
    intro p hp
    rw [← hal] at hp
    exact mem_resolved_single hW (List.mem_filter.mp hp).1
  have hle : sumOver aligned (fun p => 1 + g p) ≤ sumOver (resolveProofs W (proofsView W m.view)) fun p => 1 + g p := by
    rw [← hal]; exact sumOver_filter_le _ _ _
  have hvc : sumNat ((aligned.map fun p => (p, valC p aligned)).map (·.2.2)) ≤ sumOver aligned fun _ => 1 := by
    unfold sumOver
    simp only [List.map_map]
    exact sumOver_mono aligned _ _ (fun p hp => hval p aligned (hsub p hp).2)
  have hsplit : sumOver aligned (fun p => 1 + g p) = sumOver aligned (fun _ => 1) + sumOver aligned g := by
    clear hal hsub hle hvc
    induction aligned with
    | nil => simp
    | cons x xs ih => simp only [sumOver_cons, ih]; omega
  have hrs : (aligned.map fun p => (p, valC p aligned)).map (fun r => (r.1, r.2.1))
      = aligned.map fun p => (p, (valC p aligned).1) := by simp [List.map_map, Function.comp]
  rw [hrs]
  split
  · simp only; omega
  · have h1 := firstOkC_le_sum (stepC W authC d)
      ((capsOf (validViews (aligned.map fun p => (p, (valC p aligned).1)))).filterMap fun s => selectOne d m.value s.1 s.2)
      {} (sumNat ((aligned.map fun p => (p, valC p aligned)).map (·.2.2)))
    have h2 := matches_sum_le W authC g d m.value (validViews (aligned.map fun p => (p, (valC p aligned).1)))
      (fun v hv => hsub v (mem_validViews_map hv)) hauth
    have h3 := validViews_sum_le aligned (fun p => (valC p aligned).1) g
    exact Nat.le_trans h1 (by omega)

end V

namespace V

theorem authorizeC_paths (W : World) (hW : SingleCapWorld W) : ∀ (n : Nat) (d : Desc) (m : Match),
    (authorizeC W n d m).2 ≤ paths W n m.view := by
  intro n
  induction n with
  | zero => intro d m; rw [authorizeC]; exact Nat.zero_le _
  | succ n ih =>
    intro d m
    rw [authorizeC_succ]
    exact authBodyC_paths W hW (validateC W n) (authorizeC W n) (paths W n)
      (fun p s hk => validateC_key_le W n p s hk) (fun d' m' _ => ih d' m') d m

/-- the invocation level: one validation, then at most one match (one capability) -/
theorem claimC_single (W : World) (n : Nat) (d : Desc) (inv : View) (hinv : SingleCapView inv) (B : Nat)
    (hB : ∀ m : Match, m.view = inv → (authorizeC W n d m).2 ≤ B) :
    (claimC W (n+1) d [.inline inv]).2 ≤ 1 + B := by
  rw [claimC_succ]
  unfold claimBodyC
  have hv : resolveProofs W [Proof.inline inv] = [inv] := rfl
  simp only [hv, List.map_cons, List.map_nil]
  have h1 : (validateC W n inv [inv]).2 ≤ 1 := validateC_key_le W n inv [inv] hinv.2
  have hvc : sumNat [(validateC W n inv [inv]).2] ≤ 1 := by simpa [sumNat] using h1
  split
  · simp only; omega
  · generalize hms : (capsOf (validViews [(inv, (validateC W n inv [inv]).1)])).filterMap
        (fun s => (parseCap d s.1).map fun c => (⟨s.1, s.2, c⟩ : Match)) = ms
    have hmsview : ∀ m ∈ ms, m.view = inv := by
      intro m hm
      rw [← hms] at hm
      obtain ⟨⟨c, v⟩, hs, hsel⟩ := List.mem_filterMap.mp hm
      have hv := (mem_capsOf.mp hs).1
      have := mem_validViews_fst hv
      simp only [List.map_cons, List.map_nil, List.mem_singleton] at this
      cases hp : parseCap d c with
      | none => simp [hp] at hsel
      | some c' =>
        simp only [hp, Option.map_some, Option.some.injEq] at hsel
        rw [← hsel]; exact this
    have hmslen : ms.length ≤ 1 := by
      rw [← hms]
      have a1 := List.length_filterMap_le (fun s : Cap × View => (parseCap d s.1).map fun c => (⟨s.1, s.2, c⟩ : Match))
        (capsOf (validViews [(inv, (validateC W n inv [inv]).1)]))
      have a2 := capsOf_length_le (validViews [(inv, (validateC W n inv [inv]).1)]) (by
        intro v hv
        have := mem_validViews_fst hv
        simp only [List.map_cons, List.map_nil, List.mem_singleton] at this
        rw [this]; exact hinv.1)
      have a3 := validViews_length_le [(inv, (validateC W n inv [inv]).1)]
      simp only [List.length_cons, List.length_nil] at a3
      omega
    have hb := firstOkC_le (fun m =>
        if W.canIssue m.value m.view.tok.iss then
          (if W.notRevoked (Auth.root m.view m.value) then R.ok (Auth.root m.view m.value) else .fail { revoked := true }, 0)
        else
          match authorizeC W n d m with
          | (.oof, k) => (.oof, k)
          | (.fail _, k) => (.fail { failedProofs := true }, k)
          | (.ok sub, k) =>
            (if W.notRevoked (Auth.step m.view m.value sub) then R.ok (Auth.step m.view m.value sub) else .fail { revoked := true }, k))
      B ms {} (sumNat [(validateC W n inv [inv]).2]) (by
        intro m hm
        have hv := hmsview m hm
        by_cases hci : W.canIssue m.value m.view.tok.iss = true
        · simp [hci]
        · simp only [hci, Bool.false_eq_true, if_false]
          have := hB m hv
          rcases hq : authorizeC W n d m with ⟨r, k⟩
          rw [hq] at this
          cases r <;> simpa using this)
    have e : ms.length * B ≤ B := by
      have : ms.length * B ≤ 1 * B := Nat.mul_le_mul_right _ hmslen
      omega
    exact Nat.le_trans hb (by omega)

/-- **C19 (what the work is bounded by).** In a world of single-capability tokens issued by keys, `Access`
performs at most `1 +` (number of citation paths below the invocation) signature verifications — for
every fuel, every policy, every outcome. Without sharing that is the number of tokens. -/
theorem C19_paths_bound (W : World) (hW : SingleCapWorld W) (n : Nat) (d : Desc) (inv : View)
    (hinv : SingleCapView inv) : (accessC W (n+1) d inv).2 ≤ 1 + paths W n inv := by
  unfold accessC
  apply claimC_single W n d inv hinv
  intro m hm
  have := authorizeC_paths W hW n d m
  rw [hm] at this
  exact this

end V

namespace V
/-- the bound is attained: on the layered world of `C19_not_quadratic` (every chain failing) the count is
exactly `1 + paths` — the exponential cost of known finding C19/F1 *is* the number of citation paths -/
theorem C19_paths_tight :
    (accessC (C19.world 3) 20 C19.desc (C19.inv 3)).2 = 1 + paths (C19.world 3) 19 (C19.inv 3) ∧
    (accessC (C19.world 4) 24 C19.desc (C19.inv 4)).2 = 1 + paths (C19.world 4) 23 (C19.inv 4) := by
  constructor <;> decide +kernel
end V
