import UcantoModel.Lemmas.Base64Lemmas
/-!
# Text forms: the signing payload string, `delegation.Format` / `Parse`, `signer.Format` / `Parse`

* C07 — what is signed is `base64url(header) "." base64url(payload)`: the string determines both halves
  (`C07_payload_join_injective`), so two tokens with different header or payload bytes never share a
  signing input; the text form of a signature determines the signature (`C07_sig_text_injective`).
* C13 / C18 — `Parse (Format archive)` hands exactly `archive` to `Extract`, for every archive below 2 GiB
  (`C13_format_parse`; beyond that go-multihash refuses the length), different archives have different text forms
  (`C13_format_injective`), and a stored key string reads back to the same key bytes (`C18_key_format_parse`).
-/
namespace Base64

theorem C07_payload_join_injective (h p h' p' : Bytes) (e : joinDot h p = joinDot h' p') :
    h = h' ∧ p = p' := by
  unfold joinDot at e
  have s1 := splitDot_append (rawUrlEncode h) (rawUrlEncode p) (rawUrl_noDot h)
  have s2 := splitDot_append (rawUrlEncode h') (rawUrlEncode p') (rawUrl_noDot h')
  simp only [List.append_assoc, List.singleton_append] at e
  rw [e, s2] at s1
  have e1 : rawUrlEncode h' = rawUrlEncode h := congrArg Prod.fst s1
  have e2 : rawUrlEncode p' = rawUrlEncode p := congrArg Prod.snd s1
  exact ⟨(encodeWith_injective url_alpha false _ _ e1).symm, (encodeWith_injective url_alpha false _ _ e2).symm⟩

theorem C07_sig_text_injective (s s' : Bytes) (e : rawUrlEncode s = rawUrlEncode s') : s = s' :=
  encodeWith_injective url_alpha false _ _ e

theorem rawUrl_roundtrip (b : Bytes) : rawUrlDecode (rawUrlEncode b) = some b :=
  decodeWith_encode url_alpha false b
theorem rawStd_roundtrip (b : Bytes) : rawStdDecode (rawStdEncode b) = some b :=
  decodeWith_encode std_alpha false b
theorem std_roundtrip (b : Bytes) : stdDecode (stdEncode b) = some b :=
  decodeWith_encode std_alpha true b

theorem C18_key_format_parse (k : Bytes) : parseKey (formatKey k) = .ok k := by
  simp [parseKey, formatKey, mbDecode, std_roundtrip]

theorem C18_key_format_injective (k k' : Bytes) (e : formatKey k = formatKey k') : k = k' := by
  have := C18_key_format_parse k
  rw [e, C18_key_format_parse] at this
  exact (MB.ok.inj this).symm

theorem encode_one : Varint.encode 1 = [1] := by unfold Varint.encode; simp
theorem encode_zero : Varint.encode 0 = [0] := by unfold Varint.encode; simp

theorem castParse_cidBytes (a : Bytes) (h : a.length ≤ 2147483647) :
    castParse (cidBytes a) = .payload a := by
  have e : cidBytes a = 1 :: (Varint.encode carCodec ++ (Varint.encode 0 ++ (Varint.encode a.length ++ a))) := by
    simp [cidBytes, encode_one]
  unfold castParse
  split
  · rename_i heq; rw [e] at heq; simp at heq
  clear e
  unfold cidBytes
  rw [Varint.readMf_encode 1 _ (by omega)]
  simp only [bne_self_eq_false, Bool.false_eq_true, if_false]
  rw [Varint.readMf_encode carCodec _ (by unfold carCodec; omega)]
  simp only []
  rw [Varint.readMf_encode 0 _ (by omega)]
  simp only []
  rw [Varint.readMf_encode a.length _ (by omega)]
  simp only [bne_self_eq_false, Bool.false_eq_true, if_false]
  have h1 : ¬ a.length > 2147483647 := by omega
  simp [h1]

theorem format_length (a : Bytes) : 2 ≤ (format a).length ∧ (format a).take 2 ≠ [81, 109] := by
  unfold format
  constructor
  · have : cidBytes a = 1 :: (Varint.encode carCodec ++ (Varint.encode 0 ++ (Varint.encode a.length ++ a))) := by
      simp [cidBytes, encode_one]
    rw [this]
    unfold rawStdEncode
    generalize (Varint.encode carCodec ++ (Varint.encode 0 ++ (Varint.encode a.length ++ a))) = t
    match t with
    | [] => simp [encodeWith]
    | [_] => simp [encodeWith]
    | _ :: _ :: _ => simp [encodeWith]
  · intro h
    match hc : rawStdEncode (cidBytes a), h with
    | [], h => simp at h
    | _ :: _, h => simp at h

/-- C13 / C18: the text form of a token reads back to exactly the archive it was made from -/
theorem C13_format_parse (a : Bytes) (h : a.length ≤ 2147483647) : parse (format a) = .payload a := by
  have ⟨h2, hq⟩ := format_length a
  unfold parse
  have n1 : ¬ (format a).length < 2 := by omega
  simp only [n1, if_false]
  have n2 : ((format a).length == 46 && (format a).take 2 == [81, 109]) = false := by
    have : ((format a).take 2 == [81, 109]) = false := by
      simpa using hq
    simp [this]
  simp only [n2, Bool.false_eq_true, if_false]
  have : mbDecode (format a) = .ok (cidBytes a) := by
    simp [format, mbDecode, rawStd_roundtrip]
  rw [this]
  exact castParse_cidBytes a h

theorem C13_format_injective (a a' : Bytes) (h : a.length ≤ 2147483647) (h' : a'.length ≤ 2147483647)
    (e : format a = format a') : a = a' := by
  have := C13_format_parse a h
  rw [e, C13_format_parse a' h'] at this
  exact (Parsed.payload.inj this).symm

/-- the parser never hands `Extract` anything for a CID of another codec or another hash function:
what it returns as payload is the digest of an identity multihash under the CAR codec (read off
`castParse`: the only `.payload` branch is behind both checks) -/
theorem castParse_payload_checked (data p : Bytes) (h : castParse data = .payload p) :
    ∃ pre, data = pre ++ p ∧ pre ≠ [] := by
  unfold castParse at h
  split at h
  · split at h <;> cases h
  · split at h
    · cases h
    · rename_i vers r1 e1
      split at h
      · cases h
      · split at h
        · cases h
        · rename_i codec r2 e2
          split at h
          · cases h
          · rename_i code r3 e3
            split at h
            · cases h
            · rename_i len r4 e4
              split at h; · cases h
              split at h; · cases h
              split at h; · cases h
              split at h; · cases h
              cases h
              obtain ⟨p1, q1, n1⟩ := Varint.readMf_suffix e1
              obtain ⟨p2, q2, _⟩ := Varint.readMf_suffix e2
              obtain ⟨p3, q3, _⟩ := Varint.readMf_suffix e3
              obtain ⟨p4, q4, _⟩ := Varint.readMf_suffix e4
              refine ⟨p1 ++ p2 ++ p3 ++ p4, ?_, ?_⟩
              · rw [q1, q2, q3, q4]; simp
              · simp [n1]

end Base64
