import UcantoModel.Model.Readers
/-!
# What the validator relies on from the reader combinators (C02, C06, C08: the policy and the handler see
the caveats *as the capability's reader reads them*)
-/
namespace Rd

theorem evalOr_append (as bs : List RTree) (x : Nat) :
    evalOr (as ++ bs) x = match evalOr as x with
      | some y => some y
      | none => evalOr bs x := by
  induction as with
  | nil => simp [evalOr]
  | cons a as ih =>
    simp only [List.cons_append, evalOr]
    cases eval a x with
    | some y => rfl
    | none => simpa using ih

/-- **first match wins**: members before the first accepting one all fail, and its answer is the union's -/
theorem or_first (pre post : List RTree) (r : RTree) (x y : Nat)
    (hpre : ∀ p ∈ pre, eval p x = none) (hr : eval r x = some y) :
    eval (.or (pre ++ r :: post)) x = some y := by
  simp only [eval]
  induction pre with
  | nil => simp [evalOr, hr]
  | cons p pre ih =>
    simp only [List.cons_append, evalOr]
    rw [hpre p (List.mem_cons_self ..)]
    exact ih (fun q hq => hpre q (List.mem_cons_of_mem _ hq))

/-- the union fails exactly when every member fails -/
theorem or_none_iff (cs : List RTree) (x : Nat) :
    eval (.or cs) x = none ↔ ∀ c ∈ cs, eval c x = none := by
  simp only [eval]
  induction cs with
  | nil => simp [evalOr]
  | cons c cs ih =>
    simp only [evalOr, List.mem_cons, forall_eq_or_imp]
    cases h : eval c x with
    | some y => simp
    | none => simpa using ih

/-- whatever the union answers is the answer of one of its members -/
theorem or_some_mem (cs : List RTree) (x y : Nat) (h : eval (.or cs) x = some y) :
    ∃ c ∈ cs, eval c x = some y := by
  simp only [eval] at h
  induction cs with
  | nil => simp [evalOr] at h
  | cons c cs ih =>
    simp only [evalOr] at h
    cases hc : eval c x with
    | some z =>
      rw [hc] at h
      exact ⟨c, List.mem_cons_self .., by rw [hc]; exact h⟩
    | none =>
      rw [hc] at h
      obtain ⟨d, hd, hy⟩ := ih h
      exact ⟨d, List.mem_cons_of_mem _ hd, hy⟩

/-- **nesting is flattening**: a union as first member of a union reads like the flat union; in
particular a nested union that fails does not end the search (its failure is not a verdict) -/
theorem or_nested_flat (as bs : List RTree) (x : Nat) :
    eval (.or (.or as :: bs)) x = eval (.or (as ++ bs)) x := by
  simp only [eval, evalOr]
  rw [evalOr_append]
  cases evalOr as x <;> rfl

theorem or_nested_any (pre as post : List RTree) (x : Nat) :
    eval (.or (pre ++ .or as :: post)) x = eval (.or (pre ++ as ++ post)) x := by
  simp only [eval]
  rw [evalOr_append, List.append_assoc, evalOr_append]
  cases evalOr pre x with
  | some y => rfl
  | none =>
    simp only [evalOr, eval]
    rw [evalOr_append]
    cases evalOr as x <;> rfl

theorem or_singleton (r : RTree) (x : Nat) : eval (.or [r]) x = eval r x := by
  simp only [eval, evalOr]
  cases eval r x <;> rfl

/-- a literal reader accepts exactly its value -/
theorem literal_iff (v x y : Nat) : eval (.literal v) x = some y ↔ x = v ∧ y = v := by
  simp only [eval]
  by_cases h : x = v
  · subst h; simp [eq_comm]
  · have : (x == v) = false := by simpa using h
    simp [this, h]

/-- a mapped reader accepts only what its inner reader accepts -/
theorem mapped_some (r : RTree) (tbl : List (Nat × Nat)) (x z : Nat) (h : eval (.mapped r tbl) x = some z) :
    ∃ y, eval r x = some y ∧ tblGet tbl y = some z := by
  simp only [eval] at h
  cases hr : eval r x with
  | none => rw [hr] at h; cases h
  | some y => rw [hr] at h; exact ⟨y, rfl, h⟩

/-- **no memory**: the answers to a sequence of reads are the answers to each read alone, in any order
and with any repetition — in particular reading `x` after `w` is reading `x` -/
theorem evalSeq_get (t : RTree) (xs : List Nat) (i : Nat) (h : i < xs.length) :
    (evalSeq t xs)[i]'(by simpa [evalSeq] using h) = eval t xs[i] := by
  simp [evalSeq]

theorem evalSeq_append (t : RTree) (ws xs : List Nat) :
    evalSeq t (ws ++ xs) = evalSeq t ws ++ evalSeq t xs := by
  simp [evalSeq]

/-- non-vacuity: the shape the harness mounts as `lib/or` — `Or(Or(reject, reject), Or(strict, lenient))` —
hands over the strict reading when the strict member accepts and the lenient one otherwise -/
example :
    let reject := RTree.leaf []
    let strict := RTree.leaf [(1, 42)]
    let lenient := RTree.mapped (.leaf [(1, 0), (2, 0)]) [(0, 9)]
    let t := RTree.or [.or [reject, reject], .or [strict, lenient]]
    evalSeq t [2, 1, 3] = [some 9, some 42, none] := by decide

end Rd
