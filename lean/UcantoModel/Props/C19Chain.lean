import UcantoModel.Props.C19Refine
import UcantoModel.Props.Termination
import UcantoModel.Props.Examples
/-!
# C19 — the part of the bound that holds: chains cost one verification per delegation
The full statement (quadratic for every DAG shape) is false of the code (`C19_not_quadratic`). What does
hold, and is proved here for every world and every fuel: when no token cites more than one proof, every
token carries at most one capability and issuers are keys — i.e. the proof "DAG" is a chain — the search
performs at most one signature verification per token on the chain: `cost ≤ link(invocation) + 1 ≤ n`.
-/
namespace V

/-- chain-shaped worlds: links decrease along citations (content addressing), at most one proof and
one capability per token, key issuers -/
structure ChainWorld (W : World) : Prop where
  wf : WF W 1
  tok : ∀ l t, W.token l = some t → t.caps.length ≤ 1 ∧ t.iss.key = true
  res : ∀ l v, W.resolveProof l = some v → v.tok.caps.length ≤ 1 ∧ v.tok.iss.key = true

def ChainView (v : View) : Prop := WFV 1 v ∧ v.tok.caps.length ≤ 1 ∧ v.tok.iss.key = true

theorem verifySigC_le (t : Token) (d : Did) (k : Nat) : (verifySigC t d k).2 ≤ 1 := by
  unfold verifySigC; simp only; split <;> (try split) <;> omega

theorem validateC_key_le (W : World) (n : Nat) (v : View) (sibs : List View) (hk : v.tok.iss.key = true) :
    (validateC W n v sibs).2 ≤ 1 := by
  cases n with
  | zero => rw [validateC]; omega
  | succ n =>
    rw [validateC]
    simp only [hk, if_true]
    split
    · omega
    · split
      · omega
      · split
        · omega
        · exact verifySigC_le _ _ _

theorem firstOkC_le {α β} (f : α → R β × Nat) (b : Nat) : ∀ (l : List α) (acc : Fail) (c : Nat),
    (∀ x ∈ l, (f x).2 ≤ b) → (firstOkC f l acc c).2 ≤ c + l.length * b := by
  intro l
  induction l with
  | nil => intro acc c _; simp [firstOkC]
  | cons x xs ih =>
    intro acc c h
    have hx := h x (by simp)
    simp only [firstOkC, List.length_cons]
    rcases hfx : f x with ⟨r, k⟩
    rw [hfx] at hx
    simp only at hx
    cases r with
    | ok _ =>
      simp only
      have : k ≤ (xs.length + 1) * b := by
        have : b ≤ (xs.length + 1) * b := Nat.le_mul_of_pos_left b (by omega)
        omega
      omega
    | oof =>
      simp only
      have : b ≤ (xs.length + 1) * b := Nat.le_mul_of_pos_left b (by omega)
      omega
    | fail e =>
      simp only
      have := ih (acc.merge e) (c + k) (fun y hy => h y (by simp [hy]))
      have e2 : (xs.length + 1) * b = xs.length * b + b := Nat.succ_mul _ _
      omega

theorem mem_resolved_chain {W : World} (hW : ChainWorld W) {v p : View}
    (hp : p ∈ resolveProofs W (proofsView W v)) : p.tok.id ∈ v.tok.prfs ∧ ChainView p := by
  have h1 := mem_resolved_proofs hW.wf hp
  refine ⟨h1.1, h1.2, ?_⟩
  unfold resolveProofs proofsView at hp
  simp only [List.mem_filterMap, List.mem_map] at hp
  obtain ⟨pr, ⟨l, _, rfl⟩, hres⟩ := hp
  split at hres
  · rename_i v' heq
    cases hres
    split at heq
    · split at heq
      · rename_i t ht
        cases heq
        exact hW.tok l t ht
      · cases heq
    · cases heq
  · rename_i l' heq
    exact hW.res _ _ hres

end V

namespace V

/-- the body of `authorizeC`, parameterised by the functions it calls at the smaller fuel -/
def authBodyC (W : World) (valC : View → List View → R Unit × Nat) (authC : Desc → Match → R Auth × Nat)
    (d : Desc) (m : Match) : R Auth × Nat :=
  let views := resolveProofs W (proofsView W m.view)
  let aligned := views.filter fun p => p.tok.aud == m.view.tok.iss
  let rcs := aligned.map fun p => (p, valC p aligned)
  let vc := sumNat (rcs.map (·.2.2))
  let rs := rcs.map fun r => (r.1, r.2.1)
  if rs.any (·.2.isOof) then (.oof, vc) else
  let sources := capsOf (validViews rs)
  let ms := sources.filterMap fun s => selectOne d m.value s.1 s.2
  firstOkC (fun m' =>
    if W.canIssue m'.value m'.view.tok.iss then (.ok (Auth.root m'.view m'.value), 0)
    else
      match authC d m' with
      | (.oof, k) => (.oof, k)
      | (.fail _, k) => (.fail { failedProofs := true }, k)
      | (.ok sub, k) => (.ok (Auth.step m'.view m'.value sub), k))
    ms {} vc

theorem authorizeC_succ (W : World) (n : Nat) (d : Desc) (m : Match) :
    authorizeC W (n+1) d m = authBodyC W (validateC W n) (authorizeC W n) d m := by
  rw [authorizeC]; rfl

theorem sumNat_le (l : List Nat) (b : Nat) (h : ∀ x ∈ l, x ≤ b) : sumNat l ≤ l.length * b := by
  induction l with
  | nil => simp [sumNat]
  | cons x xs ih =>
    have hx := h x (by simp)
    have := ih (fun y hy => h y (by simp [hy]))
    simp only [sumNat, List.foldr_cons, List.length_cons] at this ⊢
    have e : (xs.length + 1) * b = xs.length * b + b := Nat.succ_mul _ _
    omega

theorem selectOne_view {d : Desc} {claimed src : Cap} {v : View} {m : Match}
    (h : selectOne d claimed src v = some m) : m.view = v := by
  unfold selectOne at h
  split at h
  · cases h
  · split at h
    · cases h; rfl
    · cases h

theorem capsOf_length_le (vs : List View) (h : ∀ v ∈ vs, v.tok.caps.length ≤ 1) : (capsOf vs).length ≤ vs.length := by
  induction vs with
  | nil => simp [capsOf]
  | cons x xs ih =>
    have hx := h x (by simp)
    have := ih (fun y hy => h y (by simp [hy]))
    simp only [capsOf, List.flatMap_cons, List.length_append, List.length_map, List.length_cons] at this ⊢
    omega

theorem validViews_length_le {α} (rs : List (View × R α)) : (validViews rs).length ≤ rs.length := by
  unfold validViews; exact List.length_filterMap_le _ _

theorem mem_validViews_fst {α} {rs : List (View × R α)} {v : View} (h : v ∈ validViews rs) : v ∈ rs.map (·.1) := by
  obtain ⟨r, hr⟩ := mem_validViews_sub h
  exact List.mem_map.mpr ⟨(v, r), hr, rfl⟩

/-- one level of the chain: at most one signature verification, then the level below -/
theorem authBodyC_chain (W : World) (hW : ChainWorld W)
    (valC : View → List View → R Unit × Nat) (authC : Desc → Match → R Auth × Nat)
    (hval : ∀ p s, p.tok.iss.key = true → (valC p s).2 ≤ 1)
    (hauth : ∀ d m', ChainView m'.view → (authC d m').2 ≤ m'.view.tok.id)
    (d : Desc) (m : Match) (hm : ChainView m.view) :
    (authBodyC W valC authC d m).2 ≤ m.view.tok.id := by
  unfold authBodyC
  simp only
  -- name the pieces
  generalize hal : (resolveProofs W (proofsView W m.view)).filter (fun p => p.tok.aud == m.view.tok.iss) = aligned
  have hsub : ∀ p ∈ aligned, p.tok.id < m.view.tok.id ∧ ChainView p := by
    intro p hp
    rw [← hal] at hp
    have hp' := (List.mem_filter.mp hp).1
    obtain ⟨h1, h2⟩ := mem_resolved_chain hW hp'
    exact ⟨hm.1.1 _ h1, h2⟩
  have hlen : aligned.length ≤ 1 := by
    rw [← hal]
    have h1 := List.length_filter_le (fun p : View => p.tok.aud == m.view.tok.iss) (resolveProofs W (proofsView W m.view))
    have h2 := length_resolved_proofs W m.view
    have h3 := hm.1.2
    omega
  have hvc : sumNat ((aligned.map fun p => (p, valC p aligned)).map (·.2.2)) ≤ aligned.length := by
    have := sumNat_le ((aligned.map fun p => (p, valC p aligned)).map (·.2.2)) 1 (by
      intro x hx
      simp only [List.map_map, List.mem_map, Function.comp] at hx
      obtain ⟨p, hp, rfl⟩ := hx
      exact hval p aligned (hsub p hp).2.2.2)
    simpa using this
  split
  · -- out of fuel while validating: only the validations were paid
    simp only
    have : aligned.length ≤ m.view.tok.id := by
      cases aligned with
      | nil => simp
      | cons p ps =>
        have := (hsub p (by simp)).1
        simp only [List.length_cons] at hlen ⊢
        omega
    omega
  · generalize hms : (capsOf (validViews ((aligned.map fun p => (p, valC p aligned)).map fun r => (r.1, r.2.1)))).filterMap
        (fun s => selectOne d m.value s.1 s.2) = ms
    have hmsview : ∀ m' ∈ ms, m'.view ∈ aligned := by
      intro m' hm'
      rw [← hms] at hm'
      obtain ⟨⟨c, v⟩, hs, hsel⟩ := List.mem_filterMap.mp hm'
      have hv := (mem_capsOf.mp hs).1
      have := mem_validViews_fst hv
      simp only [List.map_map, List.mem_map, Function.comp] at this
      obtain ⟨p, hp, rfl⟩ := this
      rw [selectOne_view hsel]; exact hp
    have hmslen : ms.length ≤ aligned.length := by
      rw [← hms]
      have h1 := List.length_filterMap_le (fun s : Cap × View => selectOne d m.value s.1 s.2)
        (capsOf (validViews ((aligned.map fun p => (p, valC p aligned)).map fun r => (r.1, r.2.1))))
      have h2 := capsOf_length_le (validViews ((aligned.map fun p => (p, valC p aligned)).map fun r => (r.1, r.2.1))) (by
        intro v hv
        have := mem_validViews_fst hv
        simp only [List.map_map, List.mem_map, Function.comp] at this
        obtain ⟨p, hp, rfl⟩ := this
        exact (hsub p hp).2.2.1)
      have h3 := validViews_length_le ((aligned.map fun p => (p, valC p aligned)).map fun r => (r.1, r.2.1))
      simp only [List.length_map] at h3
      omega
    cases aligned with
    | nil =>
      have : ms = [] := by
        cases ms with
        | nil => rfl
        | cons x xs => simp at hmslen
      subst this
      simp [firstOkC, sumNat]
    | cons p ps =>
      have hps : ps = [] := by
        cases ps with
        | nil => rfl
        | cons _ _ => simp at hlen
      subst hps
      have hp := hsub p (by simp)
      have hb := firstOkC_le (fun m' =>
          if W.canIssue m'.value m'.view.tok.iss then (R.ok (Auth.root m'.view m'.value), 0)
          else
            match authC d m' with
            | (.oof, k) => (.oof, k)
            | (.fail _, k) => (.fail { failedProofs := true }, k)
            | (.ok sub, k) => (.ok (Auth.step m'.view m'.value sub), k)) p.tok.id ms {}
        (sumNat (([p].map fun q => (q, valC q [p])).map (·.2.2))) (by
          intro m' hm'
          have hv : m'.view = p := by
            have := hmsview m' hm'; simpa using this
          by_cases hci : W.canIssue m'.value m'.view.tok.iss = true
          · simp [hci]
          · simp only [hci, Bool.false_eq_true, if_false]
            have := hauth d m' (by rw [hv]; exact hp.2)
            rw [hv] at this
            rcases hq : authC d m' with ⟨r, k⟩
            rw [hq] at this
            cases r <;> simpa using this)
      simp only [List.length_cons, List.length_nil] at hvc hmslen
      have e : ms.length * p.tok.id ≤ p.tok.id := by
        have : ms.length * p.tok.id ≤ 1 * p.tok.id := Nat.mul_le_mul_right _ hmslen
        omega
      omega

end V

namespace V

theorem authorizeC_chain (W : World) (hW : ChainWorld W) : ∀ (n : Nat) (d : Desc) (m : Match),
    ChainView m.view → (authorizeC W n d m).2 ≤ m.view.tok.id := by
  intro n
  induction n with
  | zero => intro d m _; rw [authorizeC]; exact Nat.zero_le _
  | succ n ih =>
    intro d m hm
    rw [authorizeC_succ]
    exact authBodyC_chain W hW (validateC W n) (authorizeC W n)
      (fun p s hk => validateC_key_le W n p s hk) (fun d' m' h' => ih d' m' h') d m hm

/-- the body of `claimC` -/
def claimBodyC (W : World) (valC : View → List View → R Unit × Nat) (authC : Desc → Match → R Auth × Nat)
    (d : Desc) (proofs : List Proof) : R Auth × Nat :=
  let views := resolveProofs W proofs
  let rcs := views.map fun v => (v, valC v views)
  let vc := sumNat (rcs.map (·.2.2))
  let rs := rcs.map fun r => (r.1, r.2.1)
  if rs.any (·.2.isOof) then (.oof, vc) else
  let sources := capsOf (validViews rs)
  let ms := sources.filterMap fun s => (parseCap d s.1).map fun c => (⟨s.1, s.2, c⟩ : Match)
  firstOkC (fun m =>
    if W.canIssue m.value m.view.tok.iss then
      let a := Auth.root m.view m.value
      (if W.notRevoked a then .ok a else .fail { revoked := true }, 0)
    else
      match authC d m with
      | (.oof, k) => (.oof, k)
      | (.fail _, k) => (.fail { failedProofs := true }, k)
      | (.ok sub, k) =>
        let a := Auth.step m.view m.value sub
        (if W.notRevoked a then .ok a else .fail { revoked := true }, k))
    ms {} vc

theorem claimC_succ (W : World) (n : Nat) (d : Desc) (ps : List Proof) :
    claimC W (n+1) d ps = claimBodyC W (validateC W n) (authorizeC W n) d ps := by
  rw [claimC]; rfl

/-- **C19 (chains).** In a chain-shaped world the search performs at most one signature verification
per token of the chain: with links `0 … n−1` and the invocation last, at most `n` — for every fuel,
every policy, whether the chain is valid or not. -/
theorem C19_chain_linear (W : World) (hW : ChainWorld W) (fuel : Nat) (d : Desc) (inv : View)
    (hinv : ChainView inv) : (accessC W fuel d inv).2 ≤ inv.tok.id + 1 := by
  unfold accessC
  cases fuel with
  | zero => rw [claimC]; exact Nat.zero_le _
  | succ n =>
    rw [claimC_succ]
    unfold claimBodyC
    have hv : resolveProofs W [Proof.inline inv] = [inv] := rfl
    simp only [hv, List.map_cons, List.map_nil]
    have h1 : (validateC W n inv [inv]).2 ≤ 1 := validateC_key_le W n inv [inv] hinv.2.2
    have hvc : sumNat [(validateC W n inv [inv]).2] ≤ 1 := by simpa [sumNat] using h1
    split
    · simp only; omega
    · generalize hms : (capsOf (validViews [(inv, (validateC W n inv [inv]).1)])).filterMap
          (fun s => (parseCap d s.1).map fun c => (⟨s.1, s.2, c⟩ : Match)) = ms
      have hmsview : ∀ m ∈ ms, m.view = inv := by
        intro m hm
        rw [← hms] at hm
        obtain ⟨⟨c, v⟩, hs, hsel⟩ := List.mem_filterMap.mp hm
        have hv := (mem_capsOf.mp hs).1
        have := mem_validViews_fst hv
        simp only [List.map_cons, List.map_nil, List.mem_singleton] at this
        cases hp : parseCap d c with
        | none => simp [hp] at hsel
        | some c' =>
          simp only [hp, Option.map_some, Option.some.injEq] at hsel
          rw [← hsel]; exact this
      have hmslen : ms.length ≤ 1 := by
        rw [← hms]
        have a1 := List.length_filterMap_le (fun s : Cap × View => (parseCap d s.1).map fun c => (⟨s.1, s.2, c⟩ : Match))
          (capsOf (validViews [(inv, (validateC W n inv [inv]).1)]))
        have a2 := capsOf_length_le (validViews [(inv, (validateC W n inv [inv]).1)]) (by
          intro v hv
          have := mem_validViews_fst hv
          simp only [List.map_cons, List.map_nil, List.mem_singleton] at this
          rw [this]; exact hinv.2.1)
        have a3 := validViews_length_le [(inv, (validateC W n inv [inv]).1)]
        simp only [List.length_cons, List.length_nil] at a3
        omega
      have hb := firstOkC_le (fun m =>
          if W.canIssue m.value m.view.tok.iss then
            (if W.notRevoked (Auth.root m.view m.value) then R.ok (Auth.root m.view m.value) else .fail { revoked := true }, 0)
          else
            match authorizeC W n d m with
            | (.oof, k) => (.oof, k)
            | (.fail _, k) => (.fail { failedProofs := true }, k)
            | (.ok sub, k) =>
              (if W.notRevoked (Auth.step m.view m.value sub) then R.ok (Auth.step m.view m.value sub) else .fail { revoked := true }, k))
        inv.tok.id ms {} (sumNat [(validateC W n inv [inv]).2]) (by
          intro m hm
          have hv := hmsview m hm
          by_cases hci : W.canIssue m.value m.view.tok.iss = true
          · simp [hci]
          · simp only [hci, Bool.false_eq_true, if_false]
            have := authorizeC_chain W hW n d m (by rw [hv]; exact hinv)
            rw [hv] at this
            rcases hq : authorizeC W n d m with ⟨r, k⟩
            rw [hq] at this
            cases r <;> simpa using this)
      have e : ms.length * inv.tok.id ≤ inv.tok.id := by
        have : ms.length * inv.tok.id ≤ 1 * inv.tok.id := Nat.mul_le_mul_right _ hmslen
        omega
      omega

end V

namespace V
open Examples in
/-- non-vacuity: the three-token example world is a chain world, its invocation a chain view, and the
bound is met with equality there (3 tokens, 3 verifications) -/
theorem example_chain : ChainWorld (Examples.world 3) ∧ ChainView (Examples.inv 3) ∧
    (accessC (Examples.world 3) 20 Examples.desc (Examples.inv 3)).2 = 3 := by
  refine ⟨⟨Examples.good_wf, ?_, ?_⟩, ?_, ?_⟩
  · intro l t h
    match l, h with
    | 0, h => simp [Examples.world, Examples.tok] at h; subst h; simp [Examples.did]
    | 1, h => simp [Examples.world, Examples.tok] at h; subst h; simp [Examples.did]
    | 2, h => simp [Examples.world, Examples.tok] at h; subst h; simp [Examples.did]
    | n+3, h => simp [Examples.world, Examples.tok] at h
  · intro l v h; simp [Examples.world] at h
  · simp [ChainView, WFV, Examples.inv, Examples.tok, Examples.did]
  · decide +kernel
end V
