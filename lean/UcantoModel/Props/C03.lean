import UcantoModel.Props.C02
/-!
# C03 — only tokens inside their validity window contribute to an authorization
-/
namespace V

theorem isExpired_spec (exp : Option Int) (now : Int) :
    isExpired exp now = true ↔ ∃ e, exp = some e ∧ e ≤ now := by
  cases exp with
  | none => simp [isExpired]
  | some e => simp [isExpired]

theorem isTooEarly_spec (nbf now : Int) :
    isTooEarly nbf now = true ↔ nbf ≠ 0 ∧ now ≤ nbf := by
  simp [isTooEarly]

/-- a token with no expiration never expires -/
theorem C03_noexp (now : Int) : isExpired none now = false := rfl

/-- a token strictly inside its window is never rejected for time reasons -/
theorem C03_inside (exp : Option Int) (nbf now : Int)
    (h1 : ∀ e, exp = some e → now < e) (h2 : nbf = 0 ∨ nbf < now) :
    isExpired exp now = false ∧ isTooEarly nbf now = false := by
  constructor
  · cases hx : isExpired exp now
    · rfl
    · obtain ⟨e, he, hle⟩ := (isExpired_spec exp now).mp hx
      have := h1 e he
      omega
  · cases hx : isTooEarly nbf now
    · rfl
    · obtain ⟨hne, hle⟩ := (isTooEarly_spec nbf now).mp hx
      rcases h2 with h | h
      · exact absurd h hne
      · omega

/-- `validate` never rejects a token inside its window with a time error: if it fails, the failure is
of another kind -/
theorem C03_no_spurious (W : World) (n : Nat) (v : View) (sibs : List View) (e : Fail)
    (hw : InWindow W v.tok) (h : validate W (n+1) v sibs = .fail e) :
    e.kind ≠ .expired ∧ e.kind ≠ .tooEarly := by
  obtain ⟨h1, h2⟩ := hw
  simp only [validate, h1, h2] at h
  simp only [Bool.false_eq_true, if_false] at h
  split at h
  · split at h
    · cases h; simp
    · unfold verifySig at h
      split at h
      · cases h; simp
      · split at h
        · cases h
        · cases h; simp
  · split at h
    · unfold verifySig at h
      split at h
      · cases h; simp
      · split at h
        · cases h
        · cases h; simp
    · split at h
      · cases h
      · cases h
      · split at h
        · cases h; simp
        · split at h
          · cases h; simp
          · split at h
            · cases h; simp
            · unfold verifySig at h
              split at h
              · cases h; simp
              · split at h
                · cases h
                · cases h; simp

theorem validTok_window {W : World} {v : View} {sibs : List View} (h : ValidTok W v sibs) :
    InWindow W v.tok := by
  cases h <;> assumption

/-- the delegations of an authorization, top first -/
def Auth.spine : Auth → List View
  | .root v _ => [v]
  | .step v _ sub => v :: sub.spine

theorem rest_window {W : World} {d : Desc} : ∀ {a : Auth}, Rest W d a →
    ∀ v ∈ a.spine.tail, InWindow W v.tok
  | _, .root _, v, hv => by simp [Auth.spine] at hv
  | .step _ _ sub, .step _ hvt _ _ _ hrest, v, hv => by
    simp only [Auth.spine, List.tail_cons] at hv
    cases sub with
    | root v' c' =>
      simp only [Auth.spine, List.mem_singleton] at hv
      subst hv
      exact validTok_window hvt
    | step v' c' s' =>
      simp only [Auth.spine, List.mem_cons] at hv
      rcases hv with rfl | hv
      · exact validTok_window hvt
      · exact rest_window hrest v (by simpa [Auth.spine] using hv)

theorem claimOk_window {W : World} {d : Desc} {views : List View} {a : Auth}
    (h : ClaimOk W d views a) : ∀ v ∈ a.spine, InWindow W v.tok := by
  cases h with
  | mk _ hvt _ _ hrest _ =>
    intro v hv
    cases a with
    | root v' c' =>
      simp only [Auth.spine, List.mem_singleton] at hv
      subst hv; exact validTok_window hvt
    | step v' c' s' =>
      simp only [Auth.spine, List.mem_cons] at hv
      rcases hv with rfl | hv
      · exact validTok_window hvt
      · exact rest_window hrest v (by simpa [Auth.spine] using hv)

/-- **C03.** Every delegation of a returned authorization — the invocation itself and every proof at
any depth — is inside its window at `W.now`. -/
theorem C03_window (W : World) (fuel : Nat) (d : Desc) (inv : View) (a : Auth)
    (h : access W fuel d inv = .ok a) :
    ∀ v ∈ a.spine, isExpired v.tok.exp W.now = false ∧ isTooEarly v.tok.nbf W.now = false :=
  claimOk_window (C01_sound W fuel d inv a h).2

/-- … and so is every delegation of a session attestation that made a non-key issuer acceptable
(the attestation authorization is again a `ClaimOk`, to which the same statement applies). -/
theorem C03_attestation_window {W : World} {v : View} {sibs : List View} {a : Auth}
    (h : ClaimOk W (attDesc W v.tok.id) (attCandidates v.tok sibs) a) :
    ∀ u ∈ a.spine, InWindow W u.tok := claimOk_window h

/-! ## the window over time (what the `access3seq` / `serve3seq` histories rely on) -/

/-- once expired, expired at every later second -/
theorem C03_expired_mono (exp : Option Int) (t t' : Int) (h : t ≤ t')
    (he : isExpired exp t = true) : isExpired exp t' = true := by
  cases exp with
  | none => simp [isExpired] at he
  | some e => simp only [isExpired, decide_eq_true_eq] at he ⊢; omega

/-- once no longer too early, never too early again -/
theorem C03_tooEarly_anti (nbf : Int) (t t' : Int) (h : t ≤ t')
    (he : isTooEarly nbf t = false) : isTooEarly nbf t' = false := by
  unfold isTooEarly at he ⊢
  by_cases hz : nbf = 0
  · subst hz; simp
  · have h1 : (nbf != 0) = true := by simpa using hz
    simp only [h1, Bool.true_and, decide_eq_false_iff_not] at he ⊢
    omega

/-- the seconds at which a token is inside its window form an interval: inside at `t₁` and at `t₃`
means inside at every second between them -/
theorem C03_window_convex (W : World) (t : Token) (t₁ t₂ t₃ : Int) (h12 : t₁ ≤ t₂) (h23 : t₂ ≤ t₃)
    (h1 : InWindow { W with now := t₁ } t) (h3 : InWindow { W with now := t₃ } t) :
    InWindow { W with now := t₂ } t := by
  unfold InWindow at *
  simp only at h1 h3 ⊢
  refine ⟨?_, C03_tooEarly_anti t.nbf t₁ t₂ h12 h1.2⟩
  cases he : isExpired t.exp t₂ with
  | false => rfl
  | true => rw [C03_expired_mono t.exp t₂ t₃ h23 he] at h3; exact absurd h3.1 (by simp)

/-- a token with both bounds is inside its window exactly on `(nbf, exp)`, both ends excluded as the
implementation's comparisons are -/
theorem C03_window_exact (W : World) (t : Token) (e : Int) (hexp : t.exp = some e) (hn : t.nbf ≠ 0) :
    InWindow W t ↔ t.nbf < W.now ∧ W.now < e := by
  unfold InWindow isExpired isTooEarly
  rw [hexp]
  have h1 : (t.nbf != 0) = true := by simpa using hn
  simp only [h1, Bool.true_and, decide_eq_false_iff_not]
  omega

end V
