import UcantoModel.Props.C07
import UcantoModel.Props.Base64
/-!
# C07 with the text layer of the signing input discharged

`C07_tamper` asks that the serialisation of the signed record be injective.  What is signed is
`base64url(dag-json(header)) "." base64url(dag-json(payload))`; the base64url and the join are modelled and
proved injective here, so the hypothesis shrinks to DAG-JSON alone: the pair (header bytes, payload bytes)
determines the record.
-/
namespace Payload
open Base64

theorem signing_string_injective {R : Type} (hdr pld : R → Bytes)
    (h : ∀ r r', hdr r = hdr r' → pld r = pld r' → r = r') :
    ∀ r r', joinDot (hdr r) (pld r) = joinDot (hdr r') (pld r') → r = r' := by
  intro r r' e
  obtain ⟨e1, e2⟩ := C07_payload_join_injective _ _ _ _ e
  exact h r r' e1 e2

/-- **C07 (any change is detected)** with the signing string as it is built by `formatter.FormatSignPayload` -/
theorem C07_tamper_text (S : SigScheme) (hI : S.Ideal) (hB : Binding S) (hdr pld : SignRec → Bytes)
    (hjson : ∀ r r', hdr r = hdr r' → pld r = pld r' → r = r') (nameOf : Nat → Option String)
    (a : Alg) (k : S.Key) (F : Fields) (hc : a.code < 2 ^ 63)
    (hl : ∀ m, (S.sign k m).length < 2 ^ 63)
    (t : Token) (vdid : String) (pub : S.Pub)
    (hsig : t.sig = (issue S (fun r => joinDot (hdr r) (pld r)) a k F).sig)
    (hv : verify S (fun r => joinDot (hdr r) (pld r)) nameOf a vdid pub t = true) :
    ∃ n, nameOf a.code = some n ∧ verifyRec n t = signRec a.name F ∧ pub = S.pubOf k ∧ t.iss = vdid :=
  C07_tamper S hI hB (fun r => joinDot (hdr r) (pld r)) (signing_string_injective hdr pld hjson) nameOf a k F hc hl
    t vdid pub hsig hv

end Payload
