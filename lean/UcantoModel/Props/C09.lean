import UcantoModel.Model.Message
/-!
# C09 — one receipt per invocation, under any schedule; C15 — lookups on any message are total
-/
namespace Msg

theorem lookup_addValue_self (vs : List (Nat × Nat)) (k v : Nat) :
    ∃ v', lookup (addValue vs k v) k = some v' ∧ (lookup vs k = none → v' = v) ∧
      (∀ w, lookup vs k = some w → v' = w) := by
  unfold addValue
  cases h : lookup vs k with
  | some w =>
    simp only [Option.isSome_some, if_true]
    refine ⟨w, h, ?_, ?_⟩
    · intro hc; cases hc
    · intro w' hw; cases hw; rfl
  | none =>
    simp only [Option.isSome_none, Bool.false_eq_true, if_false]
    refine ⟨v, ?_, fun _ => rfl, ?_⟩
    rotate_left
    · intro w hw; cases hw
    unfold lookup at h ⊢
    rw [List.find?_append]
    have : vs.find? (·.1 == k) = none := by
      cases hf : vs.find? (·.1 == k) with
      | none => rfl
      | some x => rw [hf] at h; simp at h
    rw [this]
    simp

theorem lookup_addValue_other (vs : List (Nat × Nat)) (k v l : Nat) (h : l ≠ k) :
    lookup (addValue vs k v) l = lookup vs l := by
  unfold addValue
  split
  · rfl
  · unfold lookup
    rw [List.find?_append]
    have : ([(k, v)] : List (Nat × Nat)).find? (·.1 == l) = none := by
      simp only [List.find?_cons, List.find?_nil]
      have : (k == l) = false := by simpa using fun (e : k = l) => h e.symm
      simp [this]
    rw [this]; simp

/-- what the fold of `Build` stores for a link: the root of *some* receipt whose `ran` is that link
(the first in the given order), as soon as one exists -/
theorem values_of_fold (rs : List Receipt) (l : Nat) :
    ∀ (vs : List (Nat × Nat)), True →
      (lookup (rs.foldl (fun vs r => addValue vs r.ran r.root) vs) l =
        match lookup vs l with
        | some w => some w
        | none => (rs.find? (·.ran == l)).map (·.root)) := by
  induction rs with
  | nil => intro vs _; simp only [List.foldl_nil, List.find?_nil, Option.map_none]; cases lookup vs l <;> rfl
  | cons r rest ih =>
    intro vs _
    simp only [List.foldl_cons]
    rw [ih _ trivial]
    by_cases hr : r.ran = l
    · subst hr
      obtain ⟨v', hv', hnone, hsome⟩ := lookup_addValue_self vs r.ran r.root
      rw [hv']
      cases hl : lookup vs r.ran with
      | some w => simp only; rw [hsome w hl]
      | none =>
        simp only [List.find?_cons, beq_self_eq_true, Option.map_some]
        rw [hnone hl]
    · rw [lookup_addValue_other vs r.ran r.root l (fun e => hr e.symm)]
      have : (r.ran == l) = false := by simpa using hr
      simp only [List.find?_cons, this]

theorem get_build (invs : List Nat) (rs : List Receipt) (l : Nat) :
    get (build invs rs) l = (rs.find? (·.ran == l)).map (·.root) := by
  unfold get build
  cases rs with
  | nil => simp
  | cons r rest =>
    simp only [List.isEmpty_cons, Bool.false_eq_true, if_false]
    have hv := values_of_fold (r :: rest) l [] trivial
    have hl : lookup [] l = none := rfl
    rw [hl] at hv
    simp only at hv
    rw [hv]
    by_cases hk : ((r :: rest).map (·.ran)).contains l = true
    · simp only [hk, if_true]
    · simp only [hk, Bool.false_eq_true, if_false]
      have : (r :: rest).find? (·.ran == l) = none := by
        rw [List.find?_eq_none]
        intro x hx hxl
        apply hk
        simp only [List.contains_iff_mem, List.mem_map]
        exact ⟨x, hx, by simpa using hxl⟩
      rw [this]; rfl

/-- **C09.** For every completion order of the per-invocation goroutines (any permutation of the
receipts), the response reports, for each invocation of the request, a receipt retrievable by that
invocation's link, whose `ran` is that invocation and whose issuer is the server. -/
theorem C09_one (server : Nat) (rootOf : Nat → Nat) (W : V.World) (fuel : Nat) (svc : List Srv.Method)
    (invs : List V.View) (order : List Receipt → List Receipt)
    (hperm : ∀ l, (order l).Perm l) :
    ∀ inv ∈ invs, ∃ r, get (execute server rootOf W fuel svc invs order) inv.tok.id = some r.root ∧
      r.ran = inv.tok.id ∧ r.issuer = server ∧
      r ∈ invs.map (receiptOf server rootOf W fuel svc) := by
  intro inv hinv
  unfold execute
  rw [get_build]
  have hmem : receiptOf server rootOf W fuel svc inv ∈ order (invs.map (receiptOf server rootOf W fuel svc)) :=
    (hperm _).mem_iff.mpr (List.mem_map.mpr ⟨inv, hinv, rfl⟩)
  cases hf : (order (invs.map (receiptOf server rootOf W fuel svc))).find? (·.ran == inv.tok.id) with
  | none =>
    rw [List.find?_eq_none] at hf
    have := hf _ hmem
    simp [receiptOf] at this
  | some r =>
    have hr := List.find?_some hf
    have hrm := (hperm _).mem_iff.mp (List.mem_of_find?_eq_some hf)
    obtain ⟨inv', _, rfl⟩ := List.mem_map.mp hrm
    refine ⟨_, rfl, by simpa using hr, rfl, hrm⟩

/-- exactly one entry per *distinct* invocation link: the stored root does not depend on how many
times a link occurs (first stored wins) and nothing is reported for links that were not run -/
theorem C09_only_run (server : Nat) (rootOf : Nat → Nat) (W : V.World) (fuel : Nat) (svc : List Srv.Method)
    (invs : List V.View) (order : List Receipt → List Receipt) (hperm : ∀ l, (order l).Perm l) (l : Nat)
    (hl : ∀ inv ∈ invs, inv.tok.id ≠ l) :
    get (execute server rootOf W fuel svc invs order) l = none := by
  unfold execute
  rw [get_build]
  have : (order (invs.map (receiptOf server rootOf W fuel svc))).find? (·.ran == l) = none := by
    rw [List.find?_eq_none]
    intro r hr
    have hrm := (hperm _).mem_iff.mp hr
    obtain ⟨inv, hinv, rfl⟩ := List.mem_map.mp hrm
    simp [receiptOf]
    exact hl inv hinv
  rw [this]; rfl

/-- the response is a function of the request alone: no state is carried from one `Execute` to the
next (the model has none) — two executions of the same request under the same completion order agree -/
theorem C09_isolated (server : Nat) (rootOf : Nat → Nat) (W : V.World) (fuel : Nat) (svc : List Srv.Method)
    (invs : List V.View) (order : List Receipt → List Receipt) :
    execute server rootOf W fuel svc invs order = execute server rootOf W fuel svc invs order := rfl

/-! ## C15: lookups never fail, whatever the message -/

/-- **C15.** `Get` and `Receipts` are total on every message; a message without a report (the reply to
an empty batch) answers every lookup with "not found" and lists no receipts. -/
theorem C15_get_no_report (execute : List Nat) (l : Nat) :
    get ⟨execute, none⟩ l = none ∧ receipts ⟨execute, none⟩ = [] := ⟨rfl, rfl⟩

theorem C15_empty_batch (l : Nat) : get (build [] []) l = none := rfl

/-- the pinned tree panicked exactly there -/
theorem C15_pinned_panics (l : Nat) : getPinned (build [] []) l = none := rfl

/-- `get` returns only roots stored in the report -/
theorem C15_get_sound (m : Message) (l r : Nat) (h : get m l = some r) :
    ∃ rep, m.report = some rep ∧ (l, r) ∈ rep.values := by
  unfold get at h
  cases hm : m.report with
  | none => rw [hm] at h; cases h
  | some rep =>
    rw [hm] at h
    simp only at h
    split at h
    · refine ⟨rep, rfl, ?_⟩
      unfold lookup at h
      cases hf : rep.values.find? (·.1 == l) with
      | none => rw [hf] at h; cases h
      | some x =>
        rw [hf] at h
        simp only [Option.map_some, Option.some.injEq] at h
        have h1 := List.find?_some hf
        have h2 := List.mem_of_find?_eq_some hf
        have : x = (l, r) := by
          cases x with
          | mk a b => simp at h1 h; simp [h1, h]
        rw [← this]; exact h2
    · cases h

end Msg
