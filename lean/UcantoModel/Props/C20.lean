import UcantoModel.Model.Http
/-!
# C20 — unacceptable requests are refused with a 4xx and run nothing
-/
namespace Http

/-- declarative reading of "the Accept header admits the CAR media type or `*/*`": the header is
absent/empty, or one of its comma separated elements, parameters and blanks aside, is one of the two. -/
def Admits (accept : Bytes) : Prop :=
  accept = [] ∨ ∃ e ∈ splitOn 44 accept, mediaRange e = anyType ∨ mediaRange e = carType

theorem splitOn_ne_nil (sep : UInt8) (s : Bytes) : splitOn sep s ≠ [] := by
  induction s with
  | nil => simp [splitOn]
  | cons b rest ih =>
    simp only [splitOn]
    split
    · simp
    · split <;> simp

theorem mediaRange_anyType : mediaRange anyType = anyType := by decide

theorem admits_spec (accept : Bytes) : admits accept = true ↔ Admits accept := by
  unfold admits Admits
  by_cases h : accept = []
  · subst h
    simp only [List.isEmpty_nil, if_true, true_or, iff_true]
    decide
  · have he : accept.isEmpty = false := by
      cases accept with
      | nil => exact absurd rfl h
      | cons _ _ => rfl
    simp only [he, Bool.false_eq_true, if_false, h, false_or, List.any_eq_true, Bool.or_eq_true, beq_iff_eq]

/-- **C20 (status).** -/
theorem C20_415 (ct accept : Bytes) (b : Body) : (handle ct accept b).1 = .status 415 ↔ ct ≠ carType := by
  unfold handle
  by_cases h : ct = carType
  · subst h
    simp only [bne_self_eq_false, Bool.false_eq_true, if_false, ne_eq, not_true_eq_false, iff_false]
    split
    · simp
    · split <;> simp
  · have : (ct != carType) = true := by simpa using h
    simp [this, h]

theorem C20_406 (ct accept : Bytes) (b : Body) :
    (handle ct accept b).1 = .status 406 ↔ ct = carType ∧ ¬ Admits accept := by
  rw [← admits_spec]
  unfold handle
  by_cases h : ct = carType
  · subst h
    simp only [bne_self_eq_false, Bool.false_eq_true, if_false, true_and]
    by_cases ha : admits accept = true
    · simp only [ha, Bool.not_true, Bool.false_eq_true, if_false, not_true_eq_false, iff_false]
      split <;> simp
    · have : admits accept = false := by simpa using ha
      simp [this]
  · have : (ct != carType) = true := by simpa using h
    simp [this, h]

theorem C20_400 (ct accept : Bytes) (b : Body) :
    (handle ct accept b).1 = .status 400 ↔ ct = carType ∧ Admits accept ∧ b = .undecodable := by
  rw [← admits_spec]
  unfold handle
  by_cases h : ct = carType
  · subst h
    simp only [bne_self_eq_false, Bool.false_eq_true, if_false, true_and]
    by_cases ha : admits accept = true
    · simp only [ha, Bool.not_true, Bool.false_eq_true, if_false, true_and]
      cases b with
      | undecodable => simp
      | message v => cases v <;> simp
    · have : admits accept = false := by simpa using ha
      simp [this]
  · have : (ct != carType) = true := by simpa using h
    simp [this, h]

theorem C20_200 (ct accept : Bytes) (b : Body) :
    (handle ct accept b).1 = .status 200 ↔ ct = carType ∧ Admits accept ∧ b = .message true := by
  rw [← admits_spec]
  unfold handle
  by_cases h : ct = carType
  · subst h
    simp only [bne_self_eq_false, Bool.false_eq_true, if_false, true_and]
    by_cases ha : admits accept = true
    · simp only [ha, Bool.not_true, Bool.false_eq_true, if_false, true_and]
      cases b with
      | undecodable => simp
      | message v => cases v <;> simp
    · have : admits accept = false := by simpa using ha
      simp [this]
  · have : (ct != carType) = true := by simpa using h
    simp [this, h]

/-- **C20 (nothing runs).** a 415 / 406 / 400 answer is given before `Execute` is reached -/
theorem C20_nothing_runs (ct accept : Bytes) (b : Body) (c : Nat)
    (h : (handle ct accept b).1 = .status c) (hc : c = 415 ∨ c = 406 ∨ c = 400) :
    (handle ct accept b).2 = false := by
  unfold handle at h ⊢
  by_cases h1 : (ct != carType) = true
  · simp [h1]
  · by_cases h2 : (!admits accept) = true
    · simp [h1, h2]
    · simp only [h1, h2, if_false] at h ⊢
      cases b with
      | undecodable => rfl
      | message v =>
        cases v
        · simp at h
        · simp at h
          omega

/-- **C20 (client).** any non-200 reply is an error carrying the status, never a response -/
theorem C20_client (status : Nat) :
    (channel status = .response ↔ status = 200) ∧ (status ≠ 200 → channel status = .httpError status) := by
  unfold channel
  constructor
  · by_cases h : status = 200 <;> simp [h]
  · intro h; simp [h]

/-! ### the pinned tree (before the fix): the negotiation was a substring test -/
private def textHtmlAny : Bytes := Bytes.ofChars ['t','e','x','t','/','h','t','m','l',',',' ','*','/','*']
private def anyQ : Bytes := Bytes.ofChars ['*','/','*',';','q','=','0','.','8']
private def carx : Bytes := carType ++ [120]

/-- `Accept: text/html, */*` admits `*/*` but the pinned negotiation refused it (406) -/
theorem C20_pinned_counterexample_1 : Admits textHtmlAny ∧ admitsPinned textHtmlAny = false := by
  constructor
  · rw [← admits_spec]; decide
  · decide
theorem C20_pinned_counterexample_2 : Admits anyQ ∧ admitsPinned anyQ = false := by
  constructor
  · rw [← admits_spec]; decide
  · decide
/-- `Accept: application/vnd.ipld.carx` admits neither, the pinned negotiation let it through -/
theorem C20_pinned_counterexample_3 : ¬ Admits carx ∧ admitsPinned carx = true := by
  constructor
  · rw [← admits_spec]; decide
  · decide

example : (handle carType textHtmlAny (.message true)).1 = .status 200 := by decide

end Http
