import UcantoModel.Props.C01
/-!
# C02 — caveats written in a delegation bind everything derived from it
-/
namespace V

/-- consecutive (parent view, parent capability, child view, child capability) pairs of an authorization -/
def Auth.pairs : Auth → List (View × Cap × View × Cap)
  | .root _ _ => []
  | .step v c sub => (v, c, sub.view, sub.cap) :: sub.pairs

/-- the delegated capability shown to `Derives` carries, as caveats, the overlay of the caveats
written in the delegation over the claimed ones: fields the delegation sets are shown, unset ones are
inherited. -/
theorem resolveCap_nb {d : Desc} {claimed src c : Cap} (h : resolveCap d claimed src = some c) :
    d.readNb (overlay src.nb claimed.nb) = some c.nb ∧ c.can = claimed.can := by
  unfold resolveCap at h
  simp only at h
  split at h
  · cases h
  · rename_i hcan
    split at h
    · cases h
    · split at h
      · cases h
      · rename_i nb hnb
        cases h
        refine ⟨hnb, ?_⟩
        rcases C16.resolveAbility_range src.can claimed.can with h1 | h1
        · exact h1
        · simp [h1] at hcan

theorem overlay_get_set {d c : Nb} {k v : Nat} (h : Nb.get d k = some v) :
    Nb.get (overlay d c) k = some v := by
  unfold overlay Nb.get at *
  rw [List.find?_append]
  have : (c.filter fun kv => (Option.map (·.2) (d.find? (·.1 == kv.1))).isNone).find? (·.1 == k) = none := by
    rw [List.find?_eq_none]
    intro x hx
    simp only [List.mem_filter] at hx
    intro hk
    have hk' : x.1 = k := by simpa using hk
    rw [hk'] at hx
    rw [h] at hx
    simp at hx
  rw [this]
  simpa using h

theorem find?_filter_of_imp {α} (p q : α → Bool) (l : List α) (h : ∀ x, q x = true → p x = true) :
    (l.filter p).find? q = l.find? q := by
  induction l with
  | nil => rfl
  | cons x xs ih =>
    by_cases hp : p x = true
    · rw [List.filter_cons_of_pos hp]
      simp only [List.find?_cons]
      cases hq : q x
      · exact ih
      · rfl
    · rw [List.filter_cons_of_neg hp]
      have hq : q x = false := by
        cases hq : q x
        · rfl
        · exact absurd (h x hq) hp
      simp only [List.find?_cons, hq]
      exact ih

theorem overlay_get_unset {d c : Nb} {k : Nat} (h : Nb.get d k = none) :
    Nb.get (overlay d c) k = Nb.get c k := by
  have hd : d.find? (·.1 == k) = none := by
    unfold Nb.get at h
    cases hf : d.find? (·.1 == k) with
    | none => rfl
    | some x => rw [hf] at h; simp at h
  unfold overlay Nb.get
  rw [List.find?_append, hd]
  simp only [Option.or_none]
  congr 1
  apply find?_filter_of_imp
  intro x hx
  have hx' : x.1 = k := by simpa using hx
  show (Nb.get d x.1).isNone = true
  rw [hx', h]
  rfl

/-- **C02.** In every authorization the validator returns, at every step the derivation rule has
accepted the claimed capability against a delegated capability whose caveats are the overlay of the
caveats *actually written in that delegation* over the claimed ones. Hence a rule that rejects those
caveats means no authorization through that delegation. -/
theorem rest_binds {W : World} {d : Desc} : ∀ {a : Auth}, Rest W d a →
    ∀ q ∈ a.pairs, ∃ sc ∈ q.2.2.1.tok.caps,
      d.readNb (overlay sc.nb q.2.1.nb) = some q.2.2.2.nb ∧ d.derives q.2.1 q.2.2.2 = true
  | _, .root _, q, hq => by simp [Auth.pairs] at hq
  | _, .step (sc := sc) _ _ hsc hres hder hrest, q, hq => by
    simp only [Auth.pairs, List.mem_cons] at hq
    rcases hq with rfl | hq
    · exact ⟨sc, hsc, (resolveCap_nb hres).1, hder⟩
    · exact rest_binds hrest q hq

theorem C02_binds (W : World) (fuel : Nat) (d : Desc) (inv : View) (a : Auth)
    (h : access W fuel d inv = .ok a) :
    ∀ q ∈ a.pairs, ∃ sc ∈ q.2.2.1.tok.caps,
      d.readNb (overlay sc.nb q.2.1.nb) = some q.2.2.2.nb ∧ d.derives q.2.1 q.2.2.2 = true := by
  have := (C01_sound W fuel d inv a h).2
  cases this with
  | mk _ _ _ _ hrest _ => exact rest_binds hrest

/-- re-delegated attestations: every capability along an attestation chain for delegation `l` names
`l` in its `proof` caveat and the authority as resource — a holder of `ucan/attest {proof: X}` cannot
attest `Y ≠ X`. -/
theorem attest_chain_proof {W : World} {l : Nat} : ∀ {a : Auth}, Rest W (attDesc W l) a →
    ∀ q ∈ a.pairs, ∃ sc ∈ q.2.2.1.tok.caps,
      overlay sc.nb q.2.1.nb = [(W.proofField, l)] ∧ q.2.2.2.nb = [(W.proofField, l)]
  | a, hr, q, hq => by
    obtain ⟨sc, hsc, hnb, _⟩ := rest_binds hr q hq
    refine ⟨sc, hsc, ?_⟩
    simp only [attDesc] at hnb
    split at hnb
    · rename_i heq
      have heq' : overlay sc.nb q.2.1.nb = [(W.proofField, l)] := by simpa using heq
      have h2 : overlay sc.nb q.2.1.nb = q.2.2.2.nb := Option.some.inj hnb
      exact ⟨heq', h2 ▸ heq'⟩
    · exact absurd hnb (by simp)

/-- a delegation that sets `proof := x` can only ever be used to attest `x` -/
theorem C02_attest {W : World} {l x : Nat} {a : Auth} (hr : Rest W (attDesc W l) a)
    (q : View × Cap × View × Cap) (hq : q ∈ a.pairs)
    (hall : ∀ sc ∈ q.2.2.1.tok.caps, Nb.get sc.nb W.proofField = some x) : x = l := by
  obtain ⟨sc, hsc, hov, _⟩ := attest_chain_proof hr q hq
  have h1 := overlay_get_set (c := q.2.1.nb) (hall sc hsc)
  rw [hov] at h1
  simp [Nb.get] at h1
  exact h1.symm

end V
