import UcantoModel.Lemmas.ValidatorLemmas
import UcantoModel.Props.C16
/-!
# C01 — authorization requires a complete, valid delegation chain (soundness of the validator)
-/
namespace V

/-- what a successful `authorize` for match `m` returns: the premises of `Rest.step`. -/
def Below (W : World) (d : Desc) (m : Match) (a : Auth) : Prop :=
  a.view ∈ alignedProofs W m.view ∧ ValidTok W a.view (alignedProofs W m.view) ∧
  (∃ sc ∈ a.view.tok.caps, resolveCap d m.value sc = some a.cap) ∧
  d.derives m.value a.cap = true ∧ Rest W d a

theorem verifySig_ok {t : Token} {d : Did} {k : Nat} (h : verifySig t d k = .ok ()) :
    t.iss = d ∧ SignedBy t k := by
  unfold verifySig at h
  split at h
  · cases h
  · split at h
    · rename_i h1 h2
      simp only [Bool.and_eq_true, beq_iff_eq] at h2
      simp only [Bool.not_eq_true', Bool.not_eq_false] at h1
      refine ⟨h2.1.1, h2.1.2, h2.2, ?_⟩
      simpa using h1
    · cases h

theorem sound_all (W : World) : ∀ n,
    (∀ d proofs a, claim W n d proofs = .ok a → ClaimOk W d (resolveProofs W proofs) a) ∧
    (∀ v sibs, validate W n v sibs = .ok () → ValidTok W v sibs) ∧
    (∀ d m a, authorize W n d m = .ok a → Below W d m a) := by
  intro n
  induction n with
  | zero =>
    refine ⟨?_, ?_, ?_⟩
    · intro d proofs a h; simp [claim] at h
    · intro v sibs h; simp [validate] at h
    · intro d m a h; simp [authorize] at h
  | succ n ih =>
    obtain ⟨ihC, ihV, ihA⟩ := ih
    refine ⟨?_, ?_, ?_⟩
    · -- claim
      intro d proofs a h
      simp only [claim] at h
      split at h
      · cases h
      · obtain ⟨m, hm, hf⟩ := firstOk_ok h
        simp only [List.mem_filterMap, Option.map_eq_some_iff] at hm
        obtain ⟨⟨sc, sv⟩, hsrc, c, hparse, rfl⟩ := hm
        obtain ⟨hv, hc⟩ := mem_capsOf.mp hsrc
        obtain ⟨r, hr⟩ := mem_validViews hv
        simp only [List.mem_map, Prod.mk.injEq] at hr
        obtain ⟨v', hv'mem, rfl, hval⟩ := hr
        have hvalid : ValidTok W v' (resolveProofs W proofs) := ihV _ _ (by cases r; exact hval)
        simp only at hf hparse hc
        split at hf
        · rename_i hci
          split at hf
          · rename_i hrev
            cases hf
            exact ClaimOk.mk (c := sc) hv'mem hvalid hc hparse (Rest.root hci) hrev
          · cases hf
        · split at hf
          · cases hf
          · cases hf
          · rename_i sub hauth
            split at hf
            · rename_i hrev
              cases hf
              obtain ⟨hmem, hvt, ⟨sc', hsc', hres⟩, hder, hrest⟩ := ihA _ _ _ hauth
              exact ClaimOk.mk (c := sc) hv'mem hvalid hc hparse
                (Rest.step hmem hvt hsc' hres hder hrest) hrev
            · cases hf
    · -- validate
      intro v sibs h
      simp only [validate] at h
      split at h
      · cases h
      · rename_i hexp
        split at h
        · cases h
        · rename_i hearly
          have hw : InWindow W v.tok := ⟨by simpa using hexp, by simpa using hearly⟩
          split at h
          · rename_i hkey
            split at h
            · cases h
            · rename_i k hk
              exact ValidTok.key hw hkey hk (verifySig_ok h).2
          · rename_i hkey
            have hkey' : v.tok.iss.key = false := by simpa using hkey
            split at h
            · rename_i hauth
              have hauth' : v.tok.iss = W.authority := by simpa using hauth
              have := verifySig_ok h
              exact ValidTok.authority hw hkey' hauth' this.2
            · rename_i hauth
              have hauth' : v.tok.iss ≠ W.authority := by simpa using hauth
              split at h
              · cases h
              · rename_i a hclaim
                have := ihC _ _ _ hclaim
                rw [resolveProofs_inline] at this
                exact ValidTok.session hw hkey' hauth' this
              · rename_i e hclaim
                split at h
                · cases h
                · rename_i hfp
                  split at h
                  · cases h
                  · rename_i kd hkd
                    split at h
                    · cases h
                    · rename_i k hk
                      exact ValidTok.resolved hw hkey' hauth'
                        ⟨n, e, hclaim, by simpa using hfp⟩ hkd hk (verifySig_ok h).2
    · -- authorize
      intro d m a h
      simp only [authorize] at h
      split at h
      · cases h
      · obtain ⟨m', hm', hf⟩ := firstOk_ok h
        simp only [List.mem_filterMap] at hm'
        obtain ⟨⟨sc, sv⟩, hsrc, hsel⟩ := hm'
        obtain ⟨hv, hc⟩ := mem_capsOf.mp hsrc
        obtain ⟨r, hr⟩ := mem_validViews hv
        simp only [List.mem_map, Prod.mk.injEq] at hr
        obtain ⟨v', hv'mem, rfl, hval⟩ := hr
        have hvalid := ihV _ _ (by cases r; exact hval)
        simp only [selectOne] at hsel
        split at hsel
        · cases hsel
        · rename_i c hres
          split at hsel
          · rename_i hder
            cases hsel
            simp only at hf hc
            split at hf
            · rename_i hci
              cases hf
              exact ⟨hv'mem, hvalid, ⟨sc, hc, hres⟩, hder, Rest.root hci⟩
            · split at hf
              · cases hf
              · cases hf
              · rename_i sub hauth
                cases hf
                obtain ⟨hmem, hvt, ⟨sc', hsc', hres'⟩, hder', hrest⟩ := ihA _ _ _ hauth
                exact ⟨hv'mem, hvalid, ⟨sc, hc, hres⟩, hder,
                  Rest.step hmem hvt hsc' hres' hder' hrest⟩
          · cases hsel

/-- **C01 (soundness).** Whatever the world, policy, descriptor and fuel: if `Access` authorizes,
the authorization is rooted in the invocation itself and is a complete valid chain. -/
theorem C01_sound (W : World) (fuel : Nat) (d : Desc) (inv : View) (a : Auth)
    (h : access W fuel d inv = .ok a) : a.view = inv ∧ ClaimOk W d [inv] a := by
  have := (sound_all W fuel).1 d [.inline inv] a h
  have hr : resolveProofs W [.inline inv] = [inv] := resolveProofs_inline W [inv]
  rw [hr] at this
  refine ⟨?_, this⟩
  cases this with
  | mk hmem _ _ _ _ _ => simpa using hmem

/-- **C01 (no chain ⇒ never an authorization).** -/
theorem C01_no_chain (W : World) (d : Desc) (inv : View)
    (h : ¬ ∃ a, ClaimOk W d [inv] a) : ∀ fuel a, access W fuel d inv ≠ .ok a := by
  intro fuel a hacc
  exact h ⟨a, (C01_sound W fuel d inv a hacc).2⟩

end V
