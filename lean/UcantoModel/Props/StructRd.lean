import UcantoModel.Model.StructRd
/-!
# The struct reader fails closed (C04: the caveats of `ucan/attest` are exactly `{proof: Link}`;
C02: a restricting field the schema does not know is never silently dropped)
-/
namespace StructRd
open Cbor

theorem read_map_inv (fs : List Field) (v : CVal) (out : List (Bytes × CVal)) (h : read fs v = some out) :
    ∃ kvs, v = .map kvs ∧ (∀ kv ∈ kvs, known fs kv.1 = true) ∧ noDup (kvs.map (·.1)) = true ∧
      (∀ f ∈ fs, fieldOk kvs f = true) ∧
      out = fs.filterMap fun f => (lookup kvs f.name).map fun x => (f.name, x) := by
  cases v with
  | map kvs =>
    simp only [read] at h
    split at h
    · rename_i hc
      simp only [Bool.and_eq_true, List.all_eq_true] at hc
      exact ⟨kvs, rfl, hc.1.1, hc.1.2, hc.2, by simpa using h.symm⟩
    · cases h
  | _ => simp [read] at h

/-- **fails closed on unknown fields**: a map with a key that is not a declared field is refused, whatever
else it holds -/
theorem read_unknown_fails (fs : List Field) (kvs : List (Bytes × CVal)) (k : Bytes) (x : CVal)
    (hmem : (k, x) ∈ kvs) (hk : known fs k = false) : read fs (.map kvs) = none := by
  cases h : read fs (.map kvs) with
  | none => rfl
  | some out =>
    obtain ⟨kvs', hv, hknown, _⟩ := read_map_inv fs _ out h
    cases hv
    have := hknown (k, x) hmem
    simp [hk] at this

/-- a required field that is absent, and a field of the wrong kind, are refused -/
theorem read_missing_fails (fs : List Field) (kvs : List (Bytes × CVal)) (f : Field) (hf : f ∈ fs)
    (hreq : f.optional = false) (habs : lookup kvs f.name = none) : read fs (.map kvs) = none := by
  cases h : read fs (.map kvs) with
  | none => rfl
  | some out =>
    obtain ⟨kvs', hv, _, _, hall, _⟩ := read_map_inv fs _ out h
    cases hv
    have := hall f hf
    simp [fieldOk, habs, hreq] at this

theorem read_wrong_kind_fails (fs : List Field) (kvs : List (Bytes × CVal)) (f : Field) (x : CVal)
    (hf : f ∈ fs) (hx : lookup kvs f.name = some x) (hk : kindOk f.kind x = false) :
    read fs (.map kvs) = none := by
  cases h : read fs (.map kvs) with
  | none => rfl
  | some out =>
    obtain ⟨kvs', hv, _, _, hall, _⟩ := read_map_inv fs _ out h
    cases hv
    have := hall f hf
    simp [fieldOk, hx, hk] at this

/-- anything that is not a map is refused -/
theorem read_not_map (fs : List Field) (v : CVal) (h : ∀ kvs, v ≠ .map kvs) : read fs v = none := by
  cases v with
  | map kvs => exact absurd rfl (h kvs)
  | _ => rfl

theorem kindOk_link (x : CVal) (h : kindOk .link x = true) : ∃ l, x = .link l := by
  cases x <;> simp [kindOk] at h
  exact ⟨_, rfl⟩

/-- **C04, the shape of a session attestation's caveats**: the reader accepts a value exactly when it is
the one-entry map `{proof: <link>}` — no further field, no other kind, nothing missing. -/
theorem attestation_exact (v : CVal) (out : List (Bytes × CVal)) (h : read attestation v = some out) :
    ∃ l, v = .map [(proofKey, .link l)] ∧ out = [(proofKey, .link l)] := by
  obtain ⟨kvs, rfl, hknown, hnd, hall, hout⟩ := read_map_inv _ _ _ h
  have hf := hall ⟨proofKey, .link, false⟩ (by simp [attestation])
  simp only [fieldOk] at hf
  cases hl : lookup kvs proofKey with
  | none => rw [hl] at hf; simp at hf
  | some x =>
    rw [hl] at hf
    obtain ⟨l, rfl⟩ := kindOk_link x hf
    -- every key is "proof", keys do not repeat: one entry
    have hkeys : ∀ kv ∈ kvs, kv.1 = proofKey := by
      intro kv hkv
      have := hknown kv hkv
      simp only [known, attestation, List.any_cons, List.any_nil, Bool.or_false, beq_iff_eq] at this
      exact this.symm
    refine ⟨l, ?_, ?_⟩
    · cases kvs with
      | nil => simp [lookup] at hl
      | cons a rest =>
        have ha := hkeys a (List.mem_cons_self ..)
        cases rest with
        | nil =>
          simp only [lookup, List.find?_cons, ha, beq_self_eq_true, Option.map_some,
            Option.some.injEq] at hl
          cases a with
          | mk k x => simp only at ha hl; subst ha; subst hl; rfl
        | cons b rest' =>
          have hb := hkeys b (List.mem_cons_of_mem _ (List.mem_cons_self ..))
          simp [noDup, ha, hb] at hnd
    · rw [hout]; simp [attestation, hl]

theorem attestation_accepts (l : Bytes) :
    read attestation (.map [(proofKey, .link l)]) = some [(proofKey, .link l)] := by
  simp [read, attestation, known, noDup, fieldOk, lookup, kindOk]

/-- non-vacuity / fail-closed instances: an extra field, a missing field, a string instead of a link -/
example : read attestation (.map [(proofKey, .link [1]), ([120], .int 1)]) = none := by decide
example : read attestation (.map []) = none := by decide
example : read attestation (.map [(proofKey, .text [1])]) = none := by decide
example : read attestation (.map [(proofKey, .link [1]), (proofKey, .link [1])]) = none := by decide

end StructRd
