import UcantoModel.Model.Wire
import UcantoModel.Lemmas.CborRoundtrip
/-!
# The wire format keeps every field: reading a token's fields back from its root block
`fieldsOf (canon (tokenVal t)) = some (canonToken t)`: version, issuer, audience, signature, every
capability (resource, ability, caveats), proofs, expiration, facts, nonce and not-before are all
recovered from the canonical value — hence (with `Cbor.encode_injective`) two tokens with the same root
block bytes have the same fields (`tokenBytes_injective`), i.e. a change to any field changes the bytes and
with them the link.
-/
namespace Wire
open Cbor

def lookup (key : Bytes) : List (Bytes × CVal) → Option CVal
  | [] => none
  | (a, v) :: xs => if a = key then some v else lookup key xs

def keys (m : List (Bytes × CVal)) : List Bytes := m.map (·.1)

theorem lookup_insertKV (key : Bytes) (kv : Bytes × CVal) : ∀ m : List (Bytes × CVal), kv.1 ∉ keys m →
    lookup key (insertKV kv m) = if kv.1 = key then some kv.2 else lookup key m := by
  intro m
  induction m with
  | nil => intro _; simp [insertKV, lookup]
  | cons x xs ih =>
    intro hn
    have hx : kv.1 ≠ x.1 := by
      intro h; apply hn; simp [keys, h]
    have hxs : kv.1 ∉ keys xs := by
      intro h; apply hn; simp only [keys, List.map_cons, List.mem_cons]; exact Or.inr h
    unfold insertKV
    split
    · simp [lookup]
    · obtain ⟨a, v⟩ := x
      simp only [lookup]
      rw [ih hxs]
      by_cases h1 : a = key
      · have : ¬ kv.1 = key := by intro h; apply hx; simp [h, h1]
        simp [h1, this]
      · simp [h1]

theorem keys_insertKV (kv : Bytes × CVal) : ∀ m : List (Bytes × CVal), ∀ a, a ∈ keys (insertKV kv m) ↔ a = kv.1 ∨ a ∈ keys m := by
  intro m
  induction m with
  | nil => intro a; simp [insertKV, keys]
  | cons x xs ih =>
    intro a
    unfold insertKV
    split
    · simp [keys]
    · have ih' := ih a
      simp only [keys, List.map_cons, List.mem_cons] at ih' ⊢
      rw [ih']
      constructor
      · rintro (h | h | h)
        · exact Or.inr (Or.inl h)
        · exact Or.inl h
        · exact Or.inr (Or.inr h)
      · rintro (h | h | h)
        · exact Or.inr (Or.inl h)
        · exact Or.inl h
        · exact Or.inr (Or.inr h)

theorem keys_sortKV (m : List (Bytes × CVal)) : ∀ a, a ∈ keys (sortKV m) ↔ a ∈ keys m := by
  induction m with
  | nil => intro a; simp [sortKV, keys]
  | cons x xs ih =>
    intro a
    have : sortKV (x :: xs) = insertKV x (sortKV xs) := rfl
    rw [this, keys_insertKV, ih]
    simp [keys]

/-- sorting a map with distinct keys does not change what a key maps to -/
theorem lookup_sortKV (key : Bytes) : ∀ m : List (Bytes × CVal), (keys m).Nodup →
    lookup key (sortKV m) = lookup key m := by
  intro m
  induction m with
  | nil => intro _; rfl
  | cons x xs ih =>
    intro hnd
    have hx : x.1 ∉ keys xs := by
      simp only [keys, List.map_cons, List.nodup_cons] at hnd; exact hnd.1
    have hxs : (keys xs).Nodup := by
      simp only [keys, List.map_cons, List.nodup_cons] at hnd; exact hnd.2
    have : sortKV (x :: xs) = insertKV x (sortKV xs) := rfl
    rw [this, lookup_insertKV key x _ (by rw [keys_sortKV]; exact hx), ih hxs]
    obtain ⟨a, v⟩ := x
    simp [lookup]

theorem lookup_canonMap (key : Bytes) : ∀ m : List (Bytes × CVal),
    lookup key (canonMap m) = (lookup key m).map canon := by
  intro m
  induction m with
  | nil => simp [canonMap, lookup]
  | cons x xs ih =>
    obtain ⟨a, v⟩ := x
    simp only [canonMap, lookup]
    split
    · rfl
    · exact ih

theorem keys_canonMap : ∀ m : List (Bytes × CVal), keys (canonMap m) = keys m := by
  intro m
  induction m with
  | nil => rfl
  | cons x xs ih =>
    obtain ⟨a, v⟩ := x
    simp only [canonMap, keys, List.map_cons] at ih ⊢
    rw [ih]

/-- looking a key up in the canonical form of a map with distinct keys -/
theorem lookup_canon_map (key : Bytes) (m : List (Bytes × CVal)) (hnd : (keys m).Nodup) :
    (match canon (.map m) with | .map m' => lookup key m' | _ => none) = (lookup key m).map canon := by
  simp only [canon]
  rw [lookup_sortKV key _ (by rw [keys_canonMap]; exact hnd), lookup_canonMap]

end Wire

namespace Wire
open Cbor

def asText : CVal → Option Bytes | .text s => some s | _ => none
def asBytes : CVal → Option Bytes | .bytes s => some s | _ => none
def asInt : CVal → Option Int | .int i => some i | _ => none
def asLink : CVal → Option Bytes | .link c => some c | _ => none
def asMap : CVal → Option (List (Bytes × CVal)) | .map m => some m | _ => none
def asList : CVal → Option (List CVal) | .list l => some l | _ => none

def capOf : CVal → Option Cap
  | .map m =>
    match lookup (k "with") m, lookup (k "can") m, lookup (k "nb") m with
    | some (.text w), some (.text c), some nb => some ⟨w, c, nb⟩
    | _, _, _ => none
  | _ => none

/-- read the fields of a token back from the value of its root block -/
def fieldsOf : CVal → Option Token
  | .map m =>
    match lookup (k "v") m, lookup (k "iss") m, lookup (k "aud") m, lookup (k "s") m, lookup (k "att") m,
          lookup (k "exp") m with
    | some (.text v), some (.bytes iss), some (.bytes aud), some (.bytes s), some (.list att), some e =>
      match att.mapM capOf,
            (match e with | .null => some none | .int i => some (some i) | _ => none),
            (match lookup (k "prf") m with
              | none => some none | some (.list l) => (l.mapM asLink).map some | some _ => none),
            (match lookup (k "fct") m with
              | none => some none | some (.list l) => (l.mapM asMap).map some | some _ => none),
            (match lookup (k "nnc") m with
              | none => some none | some (.text n) => some (some n) | some _ => none),
            (match lookup (k "nbf") m with
              | none => some none | some (.int n) => some (some n) | some _ => none) with
      | some att', some exp, some prf, some fct, some nnc, some nbf =>
        some { v, iss, aud, s, att := att', prf, exp, fct, nnc, nbf }
      | _, _, _, _, _, _ => none
    | _, _, _, _, _, _ => none
  | _ => none

/-- the token with its caveats and facts in canonical form (maps sorted, recursively) -/
def canonToken (t : Token) : Token :=
  { t with att := t.att.map fun c => { c with nb := canon c.nb },
           fct := t.fct.map fun l => l.map fun m => sortKV (canonMap m) }

theorem canonList_map_link (l : List Bytes) : canonList (l.map .link) = l.map .link := by
  induction l with
  | nil => rfl
  | cons x xs ih => simp [canonList, canon, ih]

theorem mapM_asLink (l : List Bytes) : (l.map CVal.link).mapM asLink = some l := by
  induction l with
  | nil => rfl
  | cons x xs ih => simp [List.mapM_cons, asLink, ih]

theorem canonList_map_map (l : List (List (Bytes × CVal))) :
    canonList (l.map .map) = l.map fun m => .map (sortKV (canonMap m)) := by
  induction l with
  | nil => rfl
  | cons x xs ih => simp [canonList, canon, ih]

theorem mapM_asMap (l : List (List (Bytes × CVal))) :
    (l.map CVal.map).mapM asMap = some l := by
  induction l with
  | nil => rfl
  | cons x xs ih => simp [List.mapM_cons, asMap, ih]

theorem canon_capVal (c : Cap) :
    canon (capVal c) = .map [(k "nb", canon c.nb), (k "can", .text c.can), (k "with", .text c.with_)] := by
  simp (config := { decide := true }) [capVal, canon, canonMap, sortKV, insertKV, keyLe, lexLe]

theorem capOf_canon_capVal (c : Cap) : capOf (canon (capVal c)) = some { c with nb := canon c.nb } := by
  rw [canon_capVal]
  simp (config := { decide := true }) [capOf, lookup]

theorem canonList_caps (l : List Cap) : canonList (l.map capVal) = l.map fun c => canon (capVal c) := by
  induction l with
  | nil => rfl
  | cons x xs ih => simp [canonList, ih]

theorem mapM_capOf (l : List Cap) :
    (l.map fun c => canon (capVal c)).mapM capOf = some (l.map fun c => { c with nb := canon c.nb }) := by
  induction l with
  | nil => rfl
  | cons x xs ih => simp [List.mapM_cons, capOf_canon_capVal, ih]

end Wire

namespace Wire
open Cbor

theorem mapM_capOf' (l : List Cap) :
    l.mapM (capOf ∘ fun c => canon (capVal c)) = some (l.map fun c => { c with nb := canon c.nb }) := by
  induction l with
  | nil => rfl
  | cons x xs ih => simp [List.mapM_cons, capOf_canon_capVal, ih]

theorem mapM_asMap_comp {α} (f : α → List (Bytes × CVal)) (l : List α) :
    l.mapM (asMap ∘ fun m => CVal.map (f m)) = some (l.map f) := by
  induction l with
  | nil => rfl
  | cons x xs ih => simp [List.mapM_cons, asMap, ih]

theorem mapM_asLink_comp (l : List Bytes) : l.mapM (asLink ∘ CVal.link) = some l := by
  induction l with
  | nil => rfl
  | cons x xs ih => simp [List.mapM_cons, asLink, ih]

set_option maxRecDepth 4000 in
/-- **Every field is in the block.** Reading the fields back from the canonical value of a token's
root block gives the token (caveats and facts in canonical order). -/
theorem fieldsOf_tokenVal (t : Token) : fieldsOf (canon (tokenVal t)) = some (canonToken t) := by
  obtain ⟨v, iss, aud, s, att, prf, exp, fct, nnc, nbf⟩ := t
  cases prf <;> cases fct <;> cases nnc <;> cases nbf <;> cases exp <;>
    simp (config := { decide := true }) [tokenVal, optEntry, canon, canonMap, sortKV, insertKV, keyLe, lexLe,
      fieldsOf, lookup, canonList_caps, mapM_capOf, mapM_capOf', canonList_map_link, mapM_asLink, canonList_map_map,
      mapM_asMap, mapM_asMap_comp, mapM_asLink_comp, canonToken]

end Wire

namespace Wire
open Cbor

/-- **C13 / C18 (token, byte level).** Decoding a token's root block and reading the fields gives the
token back: link-relevant bytes ↦ version, issuer, audience, signature, capabilities, proofs,
expiration, facts, nonce, not-before. -/
theorem token_readback (t : Token) (hw : WF (canon (tokenVal t))) :
    (decodeTop (tokenBytes t)).bind fieldsOf = some (canonToken t) := by
  unfold tokenBytes
  rw [decodeTop_encode _ hw]
  exact fieldsOf_tokenVal t

/-- **C07 / C13 (token, byte level).** Two tokens with the same root block bytes have the same fields:
changing any field (issuer, audience, a capability or caveat, proofs, expiration, not-before, nonce,
facts, version) or the signature changes the bytes, hence the CID. -/
theorem tokenBytes_injective (a b : Token) (ha : WF (canon (tokenVal a))) (hb : WF (canon (tokenVal b)))
    (h : tokenBytes a = tokenBytes b) : canonToken a = canonToken b := by
  have hv : canon (tokenVal a) = canon (tokenVal b) := encode_injective _ _ ha hb h
  have h1 := fieldsOf_tokenVal a
  have h2 := fieldsOf_tokenVal b
  rw [hv] at h1
  rw [h1] at h2
  exact Option.some.inj h2

/-- non-vacuity: a concrete token meets the hypothesis -/
def sampleToken : Token :=
  { v := k "0.9.1", iss := [0xed, 0x01, 1, 2, 3], aud := [0xed, 0x01, 4, 5, 6], s := [0xed, 0xa1, 0x03, 0x02, 9, 9],
    att := [⟨k "did:key:z6Mk", k "store/add", .map [(k "size", .int 5), (k "a", .list [.null, .bool true])]⟩],
    prf := some [[1, 0x71, 0x12, 0x02, 7, 7]], exp := some 1893456000, fct := none, nnc := some (k "n"), nbf := none }

theorem sampleToken_wf : WF (canon (tokenVal sampleToken)) := by
  simp (config := { decide := true }) [sampleToken, tokenVal, optEntry, canon, canonMap, canonList, capVal, sortKV, insertKV,
    keyLe, lexLe, WF, WFMap, WFList, k, Bytes.ofChars]

end Wire

namespace Wire
open Cbor

/-- read the fields of a receipt's outcome back from its value -/
def outcomeOf : CVal → Option Rcpt
  | .map m =>
    match lookup (k "ran") m, lookup (k "out") m, lookup (k "fx") m, lookup (k "meta") m, lookup (k "prf") m with
    | some (.link ran), some (.map [(side, value)]), some (.map fxm), some (.map metadata), some (.list prf) =>
      match (if side = k "ok" then some true else if side = k "error" then some false else none),
            (match lookup (k "fork") fxm with | some (.list l) => l.mapM asLink | _ => none),
            (match lookup (k "join") fxm with
              | none => some none | some (.link j) => some (some j) | some _ => none),
            (match lookup (k "iss") m with
              | none => some none | some (.text i) => some (some i) | some _ => none),
            prf.mapM asLink with
      | some okSide, some fork, some join, some iss, some prf' =>
        some { ran, okSide, value, fork, join, metadata, iss, prf := prf', sig := [] }
      | _, _, _, _, _ => none
    | _, _, _, _, _ => none
  | _ => none

def canonRcpt (r : Rcpt) : Rcpt :=
  { r with value := canon r.value, metadata := sortKV (canonMap r.metadata), sig := [] }

set_option maxRecDepth 4000 in
/-- **C10 (fields, byte level).** The outcome that is signed contains the result value and its side,
`ran`, the fork and join effects, the metadata, the issuer and the proofs: all are read back from it. -/
theorem outcomeOf_outcomeVal (r : Rcpt) : outcomeOf (canon (outcomeVal r)) = some (canonRcpt r) := by
  obtain ⟨ran, okSide, value, fork, join, metadata, iss, prf, sig⟩ := r
  cases okSide <;> cases join <;> cases iss <;>
    simp (config := { decide := true }) [outcomeVal, optEntry, canon, canonMap, sortKV, insertKV, keyLe, lexLe,
      outcomeOf, lookup, canonList_map_link, mapM_asLink, mapM_asLink_comp, canonRcpt]

/-- two receipts whose signed bytes agree have the same outcome fields -/
theorem outcomeBytes_injective (a b : Rcpt) (ha : WF (canon (outcomeVal a))) (hb : WF (canon (outcomeVal b)))
    (h : outcomeBytes a = outcomeBytes b) : canonRcpt a = canonRcpt b := by
  have hv : canon (outcomeVal a) = canon (outcomeVal b) := encode_injective _ _ ha hb h
  have h1 := outcomeOf_outcomeVal a
  have h2 := outcomeOf_outcomeVal b
  rw [hv] at h1
  rw [h1] at h2
  exact Option.some.inj h2

end Wire
