import UcantoModel.Model.Server
import UcantoModel.Props.Termination
/-!
# C08 — a service handler runs exactly when the invocation is authorized
-/
namespace Srv
open V

/-- **C08.** the handler runs if and only if the invocation carries exactly one capability, a method
is registered for its ability, and the validator authorizes it; it then receives the authorized
capability. -/
theorem C08_iff (W : World) (fuel : Nat) (svc : List Method) (inv : View) (c : Cap) :
    (run W fuel svc inv).calls = [c] ↔
      ∃ cap m a, inv.tok.caps = [cap] ∧ svc.find? (·.can == cap.can) = some m ∧
        access W fuel m.desc inv = .ok a ∧ c = a.cap := by
  unfold run
  constructor
  · intro h
    split at h
    · rename_i cap hcaps
      split at h
      · cases h
      · rename_i m hm
        split at h
        · rename_i a ha
          simp only [List.cons.injEq, and_true] at h
          exact ⟨cap, m, a, hcaps, hm, ha, h.symm⟩
        · cases h
    · cases h
  · rintro ⟨cap, m, a, hcaps, hm, ha, rfl⟩
    simp only [hcaps, hm, ha]

/-- at most once per invocation -/
theorem C08_at_most_once (W : World) (fuel : Nat) (svc : List Method) (inv : View) :
    (run W fuel svc inv).calls.length ≤ 1 := by
  unfold run
  split
  · split
    · simp
    · split <;> simp
  · simp

/-- the capability handed to the handler is the invocation's *own* capability as parsed by the
method's descriptor: same ability, the resource and caveats the invocation carried -/
theorem C08_args (W : World) (fuel : Nat) (svc : List Method) (inv : View) (c : Cap)
    (h : (run W fuel svc inv).calls = [c]) :
    ∃ (cap : Cap) (m : Method), inv.tok.caps = [cap] ∧ parseCap m.desc cap = some c ∧ c.can = cap.can := by
  obtain ⟨cap, m, a, hcaps, _, ha, rfl⟩ := (C08_iff W fuel svc inv c).mp h
  obtain ⟨hview, hok⟩ := C01_sound W fuel m.desc inv a ha
  cases hok with
  | @mk _ _ _ c' _ _ hc hparse _ _ =>
    rw [hview, hcaps] at hc
    simp only [List.mem_singleton] at hc
    subst hc
    refine ⟨c', m, hcaps, hparse, ?_⟩
    unfold parseCap at hparse
    split at hparse
    · cases hparse
    · split at hparse
      · cases hparse
      · split at hparse
        · cases hparse
        · have := Option.some.inj hparse
          rw [← this]

/-- for an unauthorized invocation no handler code runs and the receipt carries `Unauthorized` -/
theorem C08_unauthorized (W : World) (fuel : Nat) (svc : List Method) (inv : View) (cap : Cap) (m : Method)
    (hcaps : inv.tok.caps = [cap]) (hm : svc.find? (·.can == cap.can) = some m)
    (hno : ∀ a, access W fuel m.desc inv ≠ .ok a) :
    (run W fuel svc inv).calls = [] ∧ (run W fuel svc inv).out = .unauthorized := by
  unfold run
  simp only [hcaps, hm]
  cases ha : access W fuel m.desc inv with
  | ok a => exact absurd ha (hno a)
  | fail e => simp
  | oof => simp

/-- zero or several capabilities: `InvocationCapabilityError`, nothing runs -/
theorem C08_capability_count (W : World) (fuel : Nat) (svc : List Method) (inv : View)
    (h : inv.tok.caps.length ≠ 1) :
    (run W fuel svc inv).calls = [] ∧ (run W fuel svc inv).out = .invocationCapabilityError := by
  unfold run
  split
  · rename_i c hc; rw [hc] at h; simp at h
  · exact ⟨rfl, rfl⟩

/-- an ability nobody handles: `HandlerNotFoundError`, nothing runs -/
theorem C08_not_found (W : World) (fuel : Nat) (svc : List Method) (inv : View) (cap : Cap)
    (hcaps : inv.tok.caps = [cap]) (hm : svc.find? (·.can == cap.can) = none) :
    (run W fuel svc inv).calls = [] ∧ (run W fuel svc inv).out = .handlerNotFound := by
  unfold run
  simp [hcaps, hm]

/-- whenever the handler ran, the authorization behind the call is a complete valid chain (C01) -/
theorem C08_only_authorized (W : World) (fuel : Nat) (svc : List Method) (inv : View) (c : Cap)
    (h : (run W fuel svc inv).calls = [c]) :
    ∃ (m : Method) (a : Auth), ClaimOk W m.desc [inv] a ∧ a.cap = c := by
  obtain ⟨cap, m, a, _, _, ha, rfl⟩ := (C08_iff W fuel svc inv c).mp h
  exact ⟨m, a, (C01_sound W fuel m.desc inv a ha).2, rfl⟩

end Srv
