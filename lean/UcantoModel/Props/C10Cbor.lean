import UcantoModel.Props.C10
import UcantoModel.Lemmas.CborRoundtrip
/-!
# C10 / C13 / C18 over the DAG-CBOR byte model

The abstract `Codec` of `Props/C10.lean` instantiated with the byte-level DAG-CBOR model
(`Model/Cbor.lean`, tied to go-ipld-prime by the `cbor` / `cborblock` correspondence): its two laws —
round trip and injectivity — are theorems (`Cbor.decodeTop_encode`, `Cbor.encode_injective`), so the
receipt statements no longer rest on a codec hypothesis. An outcome is the IPLD map the encoder writes
(`ran`, `out`, `fx`, `meta`, `iss`, `prf` are its entries), any value of any nesting.
-/
namespace Rcpt
open Cbor DidM

/-- IPLD values whose sizes fit CBOR's 64-bit arguments (everything that exists in memory) -/
def WfVal := { v : CVal // WF v }

open Classical in
/-- DAG-CBOR as a `Codec` -/
noncomputable def cborCodec : Codec WfVal where
  enc v := encode v.1
  dec b := match decodeTop b with
    | some v => if h : WF v then some ⟨v, h⟩ else none
    | none => none
  roundtrip := by
    intro o
    simp only [decodeTop_encode o.1 o.2, dif_pos o.2]
    rfl

theorem cborCodec_injective (a b : WfVal) (h : cborCodec.enc a = cborCodec.enc b) : a = b := by
  apply Subtype.ext
  exact encode_injective a.1 b.1 a.2 b.2 h

/-- **C10 (intact), byte level.** A receipt whose outcome is any IPLD value, written as DAG-CBOR,
carried and read back, is the receipt that was issued. -/
theorem C10_same_cbor (S : SigScheme) (code : Nat) (k : S.Key) (o : WfVal) :
    transport cborCodec (issue S cborCodec code k o) = some (issue S cborCodec code k o) :=
  C10_same S cborCodec code k o

/-- **C10 (authentic), byte level.** Its signature over the DAG-CBOR bytes of the outcome verifies. -/
theorem C10_verifies_cbor (S : SigScheme) (code : Nat) (k : S.Key) (o : WfVal)
    (hc : code < 2 ^ 63) (hl : ∀ m, (S.sign k m).length < 2 ^ 63) :
    ∃ r, transport cborCodec (issue S cborCodec code k o) = some r ∧
      verify S cborCodec code (S.pubOf k) r = true :=
  C10_verifies S cborCodec code k o hc hl

/-- **C10 (tamper), byte level.** No codec hypothesis left: with ideal, binding signatures, a receipt
that carries an issued signature verifies only with exactly the issued outcome — any change to any entry
of the outcome map, at any depth, changes the DAG-CBOR bytes (`encode_injective`) — and only under the
issuer's key. -/
theorem C10_tamper_cbor (S : SigScheme) (hI : S.Ideal) (hB : Payload.Binding S) (code : Nat) (k : S.Key) (o : WfVal)
    (hc : code < 2 ^ 63) (hl : ∀ m, (S.sign k m).length < 2 ^ 63)
    (r : Receipt WfVal) (pub : S.Pub) (hsig : r.sig = (issue S cborCodec code k o).sig)
    (hv : verify S cborCodec code pub r = true) : r.ocm = o ∧ pub = S.pubOf k :=
  C10_tamper S hI hB cborCodec cborCodec_injective code k o hc hl r pub hsig hv

/-- non-vacuity: a concrete outcome map is well formed and round trips (kernel-evaluated) -/
def sampleOutcome : CVal :=
  .map [([102, 120], .map [([102, 111, 114, 107], .list [])]),            -- "fx": {"fork": []}
        ([111, 117, 116], .map [([111, 107], .int 7)]),                   -- "out": {"ok": 7}
        ([114, 97, 110], .link [1, 113, 18, 2, 0xaa, 0xbb]),              -- "ran": link
        ([109, 101, 116, 97], .map [])]                                   -- "meta": {}

theorem sampleOutcome_wf : WF sampleOutcome := by
  simp [sampleOutcome, WF, WFMap, WFList]

example : decodeTop (encode sampleOutcome) = some sampleOutcome := decodeTop_encode _ sampleOutcome_wf

end Rcpt
