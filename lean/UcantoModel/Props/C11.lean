import UcantoModel.Props.Termination
import UcantoModel.Props.C09
import UcantoModel.Props.C14
import UcantoModel.Props.C20
/-!
# C11 — no request can crash the server (the part that is this repository's own logic)

The model makes every place where the Go code indexes, slices, dereferences or recurses on attacker
data explicit; this file collects the statements that those places are total on *all* inputs, and the
machine-checked record of the pinned tree's failures at the same places.  Third-party decoders
(go-car header CBOR, bindnode, dag-cbor) are outside the model: partial.
-/
namespace C11
open V

/-- candidate attestations never include the token under verification, and never a token without
capabilities (the pinned tree indexed `Capabilities()[0]` of every sibling) -/
theorem attCandidates_safe (t : Token) (sibs : List View) :
    ∀ s ∈ attCandidates t sibs, s.tok.id ≠ t.id ∧ s.tok.caps ≠ [] := by
  intro s hs
  unfold attCandidates at hs
  simp only [List.mem_filter, Bool.and_eq_true, bne_iff_ne, ne_eq] at hs
  refine ⟨hs.2.1, ?_⟩
  intro hc
  rw [hc] at hs
  simp at hs

/-- **termination**: on well-founded worlds (content addressing) the mutually recursive
Claim / Validate / VerifySession / Authorize search finishes within `fuelBound` -/
theorem C11_terminates (W : World) (L : Nat) (hW : WF W L) (d : Desc) (inv : View) (hinv : WFV L inv)
    (fuel : Nat) (hf : fuelBound L inv ≤ fuel) : access W fuel d inv ≠ .oof :=
  access_terminates W L hW d inv hinv fuel hf

/-! ### the pinned tree's self-attestation loop
`VerifySession` offered the token under verification to itself as candidate attestation.  The loop
`Validate → VerifySession → Claim → Validate` on a lone non-key-issued `ucan/attest` token, written
out with the pinned candidate filter (no `id ≠` test), runs out of every fuel. -/

def attCandidatesPinned (sibs : List View) : List View :=
  sibs.filter fun s => match s.tok.caps with
    | c :: _ => c.can == attestCan
    | [] => false

mutual
def validatePinned (W : World) : Nat → View → List View → Bool   -- `true` = finished
  | 0, _, _ => false
  | n+1, v, sibs =>
    if v.tok.iss.key || v.tok.iss == W.authority then true
    else claimPinned W n (attCandidatesPinned sibs)
def claimPinned (W : World) : Nat → List View → Bool
  | 0, _ => false
  | n+1, views => views.all fun v => validatePinned W n v views
end

theorem C11_pinned_divergence (W : World) (a : View) (c : Cap) (rest : List Cap)
    (hk : a.tok.iss.key = false) (ha : a.tok.iss ≠ W.authority)
    (hc : a.tok.caps = c :: rest) (hcan : c.can = attestCan) :
    ∀ n, validatePinned W n a [a] = false ∧ claimPinned W n [a] = false := by
  have hcand : attCandidatesPinned [a] = [a] := by
    simp [attCandidatesPinned, hc, hcan]
  have hauth : (a.tok.iss == W.authority) = false := by simpa using ha
  intro n
  induction n with
  | zero => exact ⟨rfl, rfl⟩
  | succ n ih =>
    constructor
    · simp only [validatePinned, hk, hauth, Bool.or_false, Bool.false_eq_true, if_false, hcand]
      exact ih.2
    · simp only [claimPinned, List.all_cons, List.all_nil, Bool.and_true]
      exact ih.1

/-- the same token under the repaired filter: the session claim has no candidate and returns at once -/
theorem C11_fixed_no_self (a : View) : attCandidates a.tok [a] = [] := by
  simp [attCandidates]

/-- byte-level sites: total by construction in the model, and agreeing with the Go functions on every
byte string of the exhaustive enumeration (see the correspondence) -/
theorem C11_did_string_total : DidM.toString DidM.undef = [] := rfl
theorem C11_did_string_pinned_panics : DidM.toStringPinned DidM.undef = none := rfl
theorem C11_sig_total (s : Bytes) : ∃ p, s = p ++ DidM.sigRaw s ∨ DidM.sigRaw s = [] := DidM.sigRaw_suffix s

/-- `Handle` always produces a status or an error value -/
theorem C11_handle_total (ct accept : Bytes) (b : Http.Body) :
    (∃ c, (Http.handle ct accept b).1 = .status c) ∨ (Http.handle ct accept b).1 = .error := by
  cases h : (Http.handle ct accept b).1 with
  | status c => exact Or.inl ⟨c, rfl⟩
  | error => exact Or.inr rfl

/-- whenever a response message is produced it holds a receipt for every invocation of the request
(= C09_one, for any completion order) -/
theorem C11_receipts_kept (server : Nat) (rootOf : Nat → Nat) (W : World) (fuel : Nat)
    (svc : List Srv.Method) (invs : List View) (order : List Msg.Receipt → List Msg.Receipt)
    (hperm : ∀ l, (order l).Perm l) :
    ∀ inv ∈ invs, (Msg.get (Msg.execute server rootOf W fuel svc invs order) inv.tok.id).isSome := by
  intro inv hinv
  obtain ⟨r, hr, _⟩ := Msg.C09_one server rootOf W fuel svc invs order hperm inv hinv
  rw [hr]; rfl

end C11
