import UcantoModel.Props.WireReadback
/-!
# C13 — the agent message keeps its invocation list and its invocation-to-receipt mapping (byte level)
-/
namespace Wire
open Cbor

def lookupLink (key : Bytes) : List (Bytes × Bytes) → Option Bytes
  | [] => none
  | (a, b) :: xs => if a = key then some b else lookupLink key xs

/-- the data map of a message value -/
def dataOf : CVal → Option (List (Bytes × CVal))
  | .map [(key, .map d)] => if key = k "ucanto/message@7.0.0" then some d else none
  | _ => none

/-- `AgentMessage.Get(link)`: the receipt the report maps an invocation link (as string) to -/
def reportGet (v : CVal) (key : Bytes) : Option CVal :=
  match dataOf v with
  | some d => match lookup (k "report") d with
    | some (.map rep) => lookup key rep
    | _ => none
  | none => none

/-- `AgentMessage.Invocations()` -/
def executeOf (v : CVal) : Option (List CVal) :=
  match dataOf v with
  | some d => match lookup (k "execute") d with
    | some (.list l) => some l
    | _ => none
  | none => none

theorem lookup_linkEntries (key : Bytes) (r : List (Bytes × Bytes)) :
    lookup key (r.map fun (a, b) => (a, CVal.link b)) = (lookupLink key r).map .link := by
  induction r with
  | nil => rfl
  | cons x xs ih =>
    obtain ⟨a, b⟩ := x
    simp only [List.map_cons, lookup, lookupLink]
    split
    · rfl
    · exact ih

theorem keys_linkEntries (r : List (Bytes × Bytes)) :
    keys (r.map fun (a, b) => (a, CVal.link b)) = r.map (·.1) := by
  induction r with
  | nil => rfl
  | cons x xs ih => obtain ⟨a, b⟩ := x; simp only [keys, List.map_cons] at ih ⊢; rw [ih]

theorem dataOf_messageVal (m : Msg) :
    dataOf (canon (messageVal m)) = some (sortKV (canonMap
      (optEntry "execute" (m.execute.map fun l => .list (l.map .link))
        ++ optEntry "report" (m.report.map fun l => .map (l.map fun (a, b) => (a, .link b)))))) := by
  simp (config := { decide := true }) [messageVal, canon, canonMap, sortKV, insertKV, dataOf]

theorem inner_nodup (m : Msg) :
    (keys (optEntry "execute" (m.execute.map fun l => CVal.list (l.map .link))
        ++ optEntry "report" (m.report.map fun l => CVal.map (l.map fun (a, b) => (a, .link b))))).Nodup := by
  cases m.execute <;> cases m.report <;> simp (config := { decide := true }) [optEntry, keys]

/-- **C13 (mapping, byte level).** For a report whose keys are distinct (it is a map), looking an
invocation up in the message that was written gives exactly the receipt link it was built with, and
nothing for a key that was not there — whatever order the entries were given in. -/
theorem message_mapping (m : Msg) (r : List (Bytes × Bytes)) (hr : m.report = some r)
    (hnd : (r.map (·.1)).Nodup) (key : Bytes) :
    reportGet (canon (messageVal m)) key = (lookupLink key r).map .link := by
  unfold reportGet
  rw [dataOf_messageVal]
  simp only
  rw [lookup_sortKV _ _ (by rw [keys_canonMap]; exact inner_nodup m), lookup_canonMap]
  have hl : lookup (k "report") (optEntry "execute" (m.execute.map fun l => CVal.list (l.map .link))
        ++ optEntry "report" (m.report.map fun l => CVal.map (l.map fun (a, b) => (a, .link b))))
      = some (.map (r.map fun (a, b) => (a, .link b))) := by
    rw [hr]
    cases m.execute <;> simp (config := { decide := true }) [optEntry, lookup]
  rw [hl]
  simp only [Option.map_some, canon]
  rw [lookup_sortKV _ _ (by rw [keys_canonMap, keys_linkEntries]; exact hnd), lookup_canonMap,
    lookup_linkEntries]
  cases lookupLink key r <;> simp [canon]

/-- **C13 (invocation list, byte level).** The `execute` list reads back as written, in order. -/
theorem message_execute (m : Msg) (l : List Bytes) (he : m.execute = some l) :
    executeOf (canon (messageVal m)) = some (l.map .link) := by
  unfold executeOf
  rw [dataOf_messageVal]
  simp only
  rw [lookup_sortKV _ _ (by rw [keys_canonMap]; exact inner_nodup m), lookup_canonMap]
  rw [he]
  cases m.report <;>
    simp (config := { decide := true }) [optEntry, lookup, canon, canonList_map_link]

end Wire
