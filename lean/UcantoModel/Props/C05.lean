import UcantoModel.Props.C04
/-!
# C05 — revocation is honoured over the whole chain
-/
namespace V

/-- **C05.** An authorization is returned only after the revocation checker accepted *that*
authorization. -/
theorem C05_checked (W : World) (fuel : Nat) (d : Desc) (inv : View) (a : Auth)
    (h : access W fuel d inv = .ok a) : W.notRevoked a = true := by
  have := (C01_sound W fuel d inv a h).2
  cases this with
  | mk _ _ _ _ _ hrev => exact hrev

/-- the authorization handed to the checker exposes every delegation of the chain, from the
invocation to the root, through its proofs: `links` (what walking `Proofs()` yields) is exactly the
list of links of the spine. -/
theorem C05_exposes (a : Auth) : a.links = a.spine.map (·.tok.id) := by
  induction a with
  | root v c => rfl
  | step v c sub ih => simp [Auth.links, Auth.spine, ih]

/-- a checker that rejects every authorization containing a revoked delegation guarantees that no
returned authorization contains one -/
theorem C05_none_revoked (W : World) (revoked : Nat → Bool)
    (hck : ∀ a : Auth, (∃ l ∈ a.links, revoked l = true) → W.notRevoked a = false)
    (fuel : Nat) (d : Desc) (inv : View) (a : Auth) (h : access W fuel d inv = .ok a) :
    ∀ v ∈ a.spine, revoked v.tok.id = false := by
  intro v hv
  cases hr : revoked v.tok.id
  · rfl
  · have hmem : v.tok.id ∈ a.links := by
      rw [C05_exposes]; exact List.mem_map.mpr ⟨v, hv, rfl⟩
    have := hck a ⟨_, hmem, hr⟩
    rw [C05_checked W fuel d inv a h] at this
    cases this

/-- when the checker rejects everything, nothing is ever authorized -/
theorem C05_all_rejected (W : World) (hall : ∀ a, W.notRevoked a = false)
    (fuel : Nat) (d : Desc) (inv : View) : ∀ a, access W fuel d inv ≠ .ok a := by
  intro a h
  have := C05_checked W fuel d inv a h
  rw [hall a] at this
  cases this

end V
