import UcantoModel.Props.C12Roundtrip
import UcantoModel.Lemmas.CborRoundtrip
/-!
# C13 — an archive of DAG-CBOR blocks reads back unchanged, byte level
Composition of the CAR model (C12) and the DAG-CBOR model: what `Archive` writes — the blocks of a
delegation (root, embedded proofs, attached blocks, the `ucan@0.9.1` descriptor), each a DAG-CBOR value
under the CID of its own bytes — `Extract` reads back block for block, and every block decodes to the
value that was encoded.
-/
namespace Archive
open Car Cbor Varint

/-- `block.Encode`'s link: CIDv1, dag-cbor (0x71), sha2-256 (0x12), 32 bytes -/
def cidOf (sha : Bytes → Bytes) (data : Bytes) : Bytes := [0x01, 0x71, 0x12, 0x20] ++ sha data

/-- the block of a value: its DAG-CBOR bytes under the CID of those bytes -/
def blockOf (sha : Bytes → Bytes) (v : CVal) : Block := ⟨cidOf sha (encode v), encode v⟩

theorem readMf_small (b : UInt8) (rest : Bytes) (h : b.toNat < 128) : readMf (b :: rest) = .ok (b.toNat, rest) := by
  simp [readMf, readMfAux, h]

theorem parseCid_cidOf (sha : Bytes → Bytes) (hlen : ∀ x, (sha x).length = 32) (data rest : Bytes) :
    parseCid (cidOf sha data ++ rest) = some (⟨cidOf sha data, false, 0x12, 32, sha data⟩, rest) := by
  have ht : Car.takeExact 32 (sha data ++ rest) = some (sha data, rest) := by
    have := Car.takeExact_append (sha data) rest
    rw [hlen] at this; exact this
  have e : cidOf sha data ++ rest = (0x01 : UInt8) :: 0x71 :: 0x12 :: 0x20 :: (sha data ++ rest) := by
    simp [cidOf]
  rw [e]
  unfold parseCid
  rw [readMf_small 0x01 _ (by decide)]
  have h1 : ((0x01 : UInt8).toNat == 0x12) = false := by decide
  have h2 : ((0x01 : UInt8).toNat != 1) = false := by decide
  simp only [h1, h2, Bool.false_eq_true, if_false]
  rw [readMf_small 0x71 _ (by decide)]
  simp only
  rw [readMf_small 0x12 _ (by decide)]
  simp only
  rw [readMf_small 0x20 _ (by decide)]
  have h3 : (0x20 : UInt8).toNat = 32 := by decide
  have h4 : (0x12 : UInt8).toNat = 0x12 := by decide
  have h5 : ¬ (32 > maxAlloc) := by decide
  simp only [h3, h4, h5, if_false, ht]
  have hl : ((0x01 : UInt8) :: 0x71 :: 0x12 :: 0x20 :: (sha data ++ rest)).length - rest.length = 36 := by
    simp [hlen]
    omega
  rw [hl]
  have : List.take 36 ((0x01 : UInt8) :: 0x71 :: 0x12 :: 0x20 :: (sha data ++ rest)) = cidOf sha data := by
    simp [cidOf, List.take_append_of_le_length, hlen]
  rw [this]

theorem blockOf_wf (H : HashTable) (sha : Bytes → Bytes) (hH : H 0x12 = some sha)
    (hlen : ∀ x, (sha x).length = 32) (v : CVal) (hsize : (encode v).length + 36 ≤ maxAlloc) :
    WfBlock H (blockOf sha v) := by
  refine ⟨⟨⟨cidOf sha (encode v), false, 0x12, 32, sha (encode v)⟩, ?_, rfl, ?_⟩, ?_⟩
  · exact parseCid_cidOf sha hlen (encode v) (encode v)
  · simp only [hashMatches, hH]
    have : List.take 32 (sha (Cbor.encode v)) = sha (Cbor.encode v) := List.take_of_length_le (by rw [hlen]; exact Nat.le_refl _)
    simp [hlen, blockOf, this]
  · simp only [blockOf, cidOf, List.length_append, List.length_cons, List.length_nil, hlen]
    omega

/-- **C13 (archive, byte level).** -/
theorem C13_archive_roundtrip (H : HashTable) (sha : Bytes → Bytes) (hH : H 0x12 = some sha)
    (hlen : ∀ x, (sha x).length = 32) (root : Bytes) (hroot : WfRoot root)
    (hhdr : (encodeHeader [root]).length ≤ maxAlloc)
    (vs : List CVal) (hw : ∀ v ∈ vs, WF v) (hsize : ∀ v ∈ vs, (encode v).length + 36 ≤ maxAlloc) :
    decodeCar H (encodeCar [root] (vs.map (blockOf sha))) = .ok [root] (vs.map (blockOf sha)) false ∧
    ∀ v ∈ vs, decodeTop (blockOf sha v).data = some v := by
  constructor
  · apply C12_roundtrip H [root] _ (by intro r hr; simp at hr; subst hr; exact hroot) (by simp)
    · intro b hb
      obtain ⟨v, hv, rfl⟩ := List.mem_map.mp hb
      exact blockOf_wf H sha hH hlen v (hsize v hv)
    · exact hhdr
  · intro v hv
    exact decodeTop_encode v (hw v hv)

/-- the link of a block is a function of its bytes, and different values have different bytes: two
values with the same link-and-bytes are the same value -/
theorem blockOf_injective (sha : Bytes → Bytes) (a b : CVal) (ha : WF a) (hb : WF b)
    (h : blockOf sha a = blockOf sha b) : a = b := by
  have : encode a = encode b := by
    have := congrArg Block.data h
    simpa [blockOf] using this
  exact encode_injective a b ha hb this

end Archive
