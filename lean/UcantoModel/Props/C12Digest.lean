import UcantoModel.Model.Car
/-!
# C12 / C15 — the digest a CID announces: shorter than the function's output is a truncation and is
compared as such; longer than the function's output can never match (and is never sliced); identity
digests are the data; unregistered functions never match.
-/
namespace Car

/-- a digest announced longer than the hash function produces is a mismatch — for every data, whatever the
digest bytes are -/
theorem overlong_digest_mismatch (H : HashTable) (c : CidInfo) (data : Bytes) (h : Bytes → Bytes)
    (hc : c.mhCode ≠ 0) (hh : H c.mhCode = some h) (hl : (h data).length < c.mhLen) :
    hashMatches H c data = false := by
  unfold hashMatches
  have : (c.mhCode == 0) = false := by simpa using hc
  simp [this, hh, hl]

/-- a truncated digest matches exactly when it is the prefix of the full digest of that length -/
theorem truncated_digest_iff (H : HashTable) (c : CidInfo) (data : Bytes) (h : Bytes → Bytes)
    (hc : c.mhCode ≠ 0) (hh : H c.mhCode = some h) (hl : c.mhLen ≤ (h data).length) :
    hashMatches H c data = true ↔ (h data).take c.mhLen = c.digest := by
  unfold hashMatches
  have h0 : (c.mhCode == 0) = false := by simpa using hc
  have h1 : ¬ (h data).length < c.mhLen := by omega
  simp [h0, hh, h1]

/-- identity "hashes": the digest is the data -/
theorem identity_digest_iff (H : HashTable) (c : CidInfo) (data : Bytes) (hc : c.mhCode = 0) :
    hashMatches H c data = true ↔ c.digest = data := by
  unfold hashMatches
  simp [hc]

/-- a function the table does not know never matches -/
theorem unknown_function_mismatch (H : HashTable) (c : CidInfo) (data : Bytes)
    (hc : c.mhCode ≠ 0) (hh : H c.mhCode = none) : hashMatches H c data = false := by
  unfold hashMatches
  have : (c.mhCode == 0) = false := by simpa using hc
  simp [this, hh]

end Car
