import UcantoModel.Props.Termination
import UcantoModel.Props.C08
import UcantoModel.Props.C19
import UcantoModel.Model.Oracle
/-!
# Non-vacuity: concrete worlds that meet the hypotheses of the main theorems

An implication whose hypotheses no reachable state satisfies checks fine and means nothing.  Here a
concrete three-token world (owner 3 → 2 → invoker 1, service 0) is shown to (i) be well-founded,
(ii) be authorized by the model, hence (by `C01_sound`) to carry a `ClaimOk` derivation, which is the
hypothesis of `C06_complete` / `C06_found`; and its failing twin is refused.  Evaluated by the kernel
(`decide +kernel`): these are tests of the hypotheses' satisfiability, not the claims themselves.
-/
namespace Examples
open V

def did (i : Nat) : Did := ⟨true, i⟩
def res (owner : Nat) : Bytes := [UInt8.ofNat owner]
def cap (can : Bytes) (owner : Nat) : Cap := ⟨can, res owner, []⟩
def storeAdd : Bytes := [115, 47, 97]      -- "s/a"
def storeStar : Bytes := [115, 47, 42]     -- "s/*"

/-- token 0: 3 → 2 grants `s/*` on 3's resource; token 1: 2 → 1 grants `s/a`; token 2: invocation by 1 -/
def tok (owner : Nat) (l : Nat) : Option Token :=
  match l with
  | 0 => some { id := 0, iss := did 3, aud := did 2, caps := [cap storeStar owner], prfs := [],
                exp := none, nbf := 0, signer := 3, intact := true, algOk := true }
  | 1 => some { id := 1, iss := did 2, aud := did 1, caps := [cap storeAdd owner], prfs := [0],
                exp := some 100, nbf := 0, signer := 2, intact := true, algOk := true }
  | 2 => some { id := 2, iss := did 1, aud := did 0, caps := [cap storeAdd owner], prfs := [1],
                exp := some 100, nbf := 0, signer := 1, intact := true, algOk := true }
  | _ => none

def world (owner : Nat) : World where
  token := tok owner
  present := fun _ _ => true
  resolveProof := fun _ => none
  authority := did 0
  authorityKey := 0
  keyOf := fun d => some d.id
  resolveKey := fun _ => none
  canIssue := fun c d => c.rsrc == res d.id
  notRevoked := fun _ => true
  now := 50
  didStr := fun d => res d.id
  proofField := 0

def desc : Desc := ⟨storeAdd, some, some, fun c d => Patterns.defaultDerives c.rsrc d.rsrc⟩
def inv (owner : Nat) : View := ⟨(tok owner 2).getD default, 0⟩

/-- the good world (resource owned by 3, the root issuer) is authorized … -/
theorem good_authorized : isOk (access (world 3) 20 desc (inv 3)) = true := by decide +kernel

/-- … so a `ClaimOk` derivation exists: the hypothesis of `C06_complete` / `C06_found` is satisfiable -/
theorem good_has_chain : ∃ a, ClaimOk (world 3) desc [inv 3] a := by
  cases h : access (world 3) 20 desc (inv 3) with
  | ok a => exact ⟨a, (C01_sound (world 3) 20 desc (inv 3) a h).2⟩
  | fail e => have := good_authorized; rw [h] at this; cases this
  | oof => have := good_authorized; rw [h] at this; cases this

/-- the world is well-founded with proof lists of length ≤ 1, and the fuel used above is enough -/
theorem good_wf : WF (world 3) 1 := by
  constructor
  · intro l t h
    match l, h with
    | 0, h => simp [world, tok] at h; subst h; exact ⟨rfl, by simp [WFV]⟩
    | 1, h => simp [world, tok] at h; subst h; exact ⟨rfl, by simp [WFV]⟩
    | 2, h => simp [world, tok] at h; subst h; exact ⟨rfl, by simp [WFV]⟩
    | n+3, h => simp [world, tok] at h
  · intro l v h; simp [world] at h

theorem good_fuel : fuelBound 1 (inv 3) ≤ 20 := by decide

/-- the twin in which nobody on the chain owns the resource is refused (and not for lack of fuel) -/
theorem bad_refused : (match access (world 9) 20 desc (inv 9) with | .fail _ => true | _ => false) = true := by
  decide +kernel

/-- the server model on the good world runs the handler exactly once with the invocation's capability -/
theorem good_handler_runs :
    ((Srv.run (world 3) 20 [⟨storeAdd, desc, true⟩] (inv 3)).calls.length == 1) = true := by decide +kernel

end Examples
