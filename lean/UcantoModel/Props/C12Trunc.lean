import UcantoModel.Props.C12Roundtrip
/-!
# C12 — truncation: an archive cut anywhere but at a section boundary ends with an error
-/
namespace Car
open Varint

/-- a varint cut short is an error for `binary.ReadUvarint`, never a smaller value -/
theorem readStdAux_trunc : ∀ (n m i x : Nat), m < (encode n).length →
    ∃ e, readStdAux ((encode n).take m) i x = .error e := by
  intro n
  induction n using Nat.strongRecOn with
  | _ n ih =>
    intro m i x hm
    rw [encode] at hm ⊢
    by_cases h : n < 128
    · simp only [h, if_true, List.length_cons, List.length_nil] at hm ⊢
      have : m = 0 := by omega
      subst this
      exact ⟨_, rfl⟩
    · simp only [h, if_false, List.length_cons] at hm ⊢
      cases m with
      | zero => exact ⟨_, rfl⟩
      | succ m =>
        simp only [List.take_succ_cons, readStdAux]
        have hb : ¬ (UInt8.ofNat (n % 128 + 128)).toNat < 128 := by
          rw [toNat_ofNat_lt (by omega)]; omega
        simp only [hb, if_false]
        by_cases h9 : i ≥ 9
        · simp only [h9, if_true]; exact ⟨_, rfl⟩
        · simp only [h9, if_false]
          exact ih (n / 128) (by omega) m (i + 1) _ (by omega)

theorem readStd_trunc (n m : Nat) (hm : m < (encode n).length) : ∃ e, readStd ((encode n).take m) = .error e :=
  readStdAux_trunc n m 0 0 hm

theorem takeExact_short {n : Nat} {s : Bytes} (h : s.length < n) : takeExact n s = none := by
  unfold takeExact; simp [h]

/-- one section cut short (at least one byte of it present, at least one missing): `next` reports an error -/
theorem next_truncated (H : HashTable) (b : Block) (hb : WfBlock H b) (m : Nat)
    (h0 : 0 < m) (hm : m < (sectionOf b).length) :
    ∃ r, next H ((sectionOf b).take m) = some (.err, r) := by
  unfold next
  have hne : ((sectionOf b).take m).isEmpty = false := by
    have : ((sectionOf b).take m).length = m := by simp [List.length_take]; omega
    cases h : (sectionOf b).take m with
    | nil => rw [h] at this; simp at this; omega
    | cons _ _ => rfl
  simp only [hne, Bool.false_eq_true, if_false]
  have hlt : b.cid.length + b.data.length < 2 ^ 64 := Nat.lt_of_le_of_lt hb.size maxAlloc_lt
  by_cases hk : m < (encode (b.cid.length + b.data.length)).length
  · -- the cut falls inside the length prefix
    have e : (sectionOf b).take m = (encode (b.cid.length + b.data.length)).take m := by
      unfold sectionOf
      rw [List.append_assoc, List.take_append_of_le_length (by omega)]
    obtain ⟨er, her⟩ := readStd_trunc _ m hk
    rw [e, her]
    exact ⟨_, rfl⟩
  · -- the length prefix is complete, the section body is short
    have e : (sectionOf b).take m = encode (b.cid.length + b.data.length) ++
        (b.cid ++ b.data).take (m - (encode (b.cid.length + b.data.length)).length) := by
      unfold sectionOf
      rw [List.append_assoc, List.take_append]
      have : List.take m (encode (b.cid.length + b.data.length)) = encode (b.cid.length + b.data.length) :=
        List.take_of_length_le (by omega)
      rw [this]
    rw [e, readStd_encode _ _ hlt]
    have h1 : ¬ b.cid.length + b.data.length > maxAlloc := by have := hb.size; omega
    simp only [h1, if_false]
    have hshort : ((b.cid ++ b.data).take (m - (encode (b.cid.length + b.data.length)).length)).length
        < b.cid.length + b.data.length := by
      have hl : (sectionOf b).length = (encode (b.cid.length + b.data.length)).length + (b.cid.length + b.data.length) := by
        unfold sectionOf; simp [List.length_append]
      simp only [List.length_take, List.length_append]
      omega
    rw [takeExact_short hshort]
    exact ⟨_, rfl⟩

/-- **C12 (truncation, block part).** The complete sections before the cut are delivered; the
iteration then ends with an error, not cleanly. -/
theorem blocks_truncated (H : HashTable) : ∀ (pre : List Block) (b : Block) (m fuel : Nat),
    (∀ x ∈ pre, WfBlock H x) → WfBlock H b → 0 < m → m < (sectionOf b).length → pre.length < fuel →
    blocks H fuel (pre.flatMap sectionOf ++ (sectionOf b).take m) = (pre, true) := by
  intro pre
  induction pre with
  | nil =>
    intro b m fuel _ hb h0 hm hf
    cases fuel with
    | zero => omega
    | succ n =>
      obtain ⟨r, hr⟩ := next_truncated H b hb m h0 hm
      simp [blocks, hr]
  | cons p ps ih =>
    intro b m fuel hwf hb h0 hm hf
    cases fuel with
    | zero => omega
    | succ n =>
      simp only [List.flatMap_cons, List.append_assoc, blocks]
      rw [next_section H p _ (hwf p (by simp))]
      simp only
      rw [ih b m n (fun x hx => hwf x (by simp [hx])) hb h0 hm (by simp at hf; omega)]

private theorem decodeCar_prefix (H : HashTable) (roots : List Bytes) (rest : Bytes)
    (hroots : ∀ r ∈ roots, WfRoot r) (hn : roots.length < 65536) (hsize : (encodeHeader roots).length ≤ maxAlloc) :
    decodeCar H (encode (encodeHeader roots).length ++ encodeHeader roots ++ rest) =
      .ok roots (blocks H (rest.length + 1) rest).1 (blocks H (rest.length + 1) rest).2 := by
  unfold decodeCar
  have hne : (encode (encodeHeader roots).length ++ encodeHeader roots ++ rest).isEmpty = false := by
    have := encode_ne_nil (encodeHeader roots).length
    cases h : encode (encodeHeader roots).length with
    | nil => exact absurd h this
    | cons x xs => rfl
  simp only [hne, Bool.false_eq_true, if_false]
  have hlt : (encodeHeader roots).length < 2 ^ 64 := Nat.lt_of_le_of_lt hsize maxAlloc_lt
  have hr : readStd (encode (encodeHeader roots).length ++ encodeHeader roots ++ rest) =
      .ok ((encodeHeader roots).length, encodeHeader roots ++ rest) := by
    have := readStd_encode (encodeHeader roots).length (encodeHeader roots ++ rest) hlt
    simpa [List.append_assoc] using this
  rw [hr]
  have h1 : ¬ (encodeHeader roots).length > maxAlloc := by omega
  simp only [h1, if_false, takeExact_append]
  rw [decodeHeader_encodeHeader roots hroots hn]
  simp

/-- **C12 (truncation).** An archive of well-formed blocks cut inside a section — after the complete
sections `pre`, with `0 < m < |section|` bytes of the next one — decodes to the roots, exactly the
blocks `pre`, and an error at the end of the iteration: never a clean, shorter archive. -/
theorem C12_truncated (H : HashTable) (roots : List Bytes) (pre : List Block) (b : Block) (m : Nat)
    (hroots : ∀ r ∈ roots, WfRoot r) (hn : roots.length < 65536) (hsize : (encodeHeader roots).length ≤ maxAlloc)
    (hpre : ∀ x ∈ pre, WfBlock H x) (hb : WfBlock H b) (h0 : 0 < m) (hm : m < (sectionOf b).length) :
    decodeCar H (encode (encodeHeader roots).length ++ encodeHeader roots ++
      (pre.flatMap sectionOf ++ (sectionOf b).take m)) = .ok roots pre true := by
  rw [decodeCar_prefix H roots _ hroots hn hsize]
  have hl : pre.length < (pre.flatMap sectionOf ++ (sectionOf b).take m).length + 1 := by
    have := length_le_sections pre
    simp only [List.length_append]; omega
  rw [blocks_truncated H pre b m _ hpre hb h0 hm hl]

/-- **C12 (truncation at a boundary).** Cut exactly between two sections the archive is a complete,
shorter archive (this is the only kind of cut the format cannot detect). -/
theorem C12_cut_at_boundary (H : HashTable) (roots : List Bytes) (pre : List Block)
    (hroots : ∀ r ∈ roots, WfRoot r) (hn : roots.length < 65536) (hsize : (encodeHeader roots).length ≤ maxAlloc)
    (hpre : ∀ x ∈ pre, WfBlock H x) :
    decodeCar H (encode (encodeHeader roots).length ++ encodeHeader roots ++ pre.flatMap sectionOf) = .ok roots pre false :=
  C12_roundtrip H roots pre hroots hn hpre hsize

/-- **C12 (truncated header).** Cut inside the header (length prefix or header bytes) `car.Decode` fails. -/
theorem C12_truncated_header (H : HashTable) (hdr : Bytes) (m : Nat) (hsize : hdr.length ≤ maxAlloc)
    (hm : m < (encode hdr.length ++ hdr).length) :
    decodeCar H ((encode hdr.length ++ hdr).take m) = .headerError := by
  unfold decodeCar
  by_cases he : ((encode hdr.length ++ hdr).take m).isEmpty
  · simp [he]
  · simp only [he, Bool.false_eq_true, if_false]
    have hlt : hdr.length < 2 ^ 64 := Nat.lt_of_le_of_lt hsize maxAlloc_lt
    by_cases hk : m < (encode hdr.length).length
    · have e : (encode hdr.length ++ hdr).take m = (encode hdr.length).take m :=
        List.take_append_of_le_length (by omega)
      obtain ⟨er, her⟩ := readStd_trunc _ m hk
      rw [e, her]
    · have e : (encode hdr.length ++ hdr).take m = encode hdr.length ++ hdr.take (m - (encode hdr.length).length) := by
        rw [List.take_append]
        have : List.take m (encode hdr.length) = encode hdr.length := List.take_of_length_le (by omega)
        rw [this]
      rw [e, readStd_encode _ _ hlt]
      have h1 : ¬ hdr.length > maxAlloc := by omega
      simp only [h1, if_false]
      have hshort : (hdr.take (m - (encode hdr.length).length)).length < hdr.length := by
        simp only [List.length_append] at hm
        simp only [List.length_take]; omega
      rw [takeExact_short hshort]

end Car

namespace Car
open Varint

/-- **C12 (allocation bound).** A section that announces more than the 32 MiB limit — whatever follows,
however large the number — is an error, and nothing of it is delivered or allocated. -/
theorem C12_oversize_is_error (H : HashTable) (l : Nat) (rest : Bytes) (h1 : maxAlloc < l) (h2 : l < 2 ^ 64) :
    next H (encode l ++ rest) = some (.err, rest) := by
  unfold next
  have hne : (encode l ++ rest).isEmpty = false := by
    have := encode_ne_nil l
    cases h : encode l with
    | nil => exact absurd h this
    | cons x xs => rfl
  simp only [hne, Bool.false_eq_true, if_false]
  rw [readStd_encode l rest h2]
  simp [h1]

/-- and a length that does not fit 64 bits is an error as well (ten bytes with a final byte above 1,
or more than ten bytes) — via `readStd`'s overflow check: the iteration never continues past it -/
theorem C12_blocks_stop_at_oversize (H : HashTable) (pre : List Block) (l : Nat) (rest : Bytes) (fuel : Nat)
    (hpre : ∀ x ∈ pre, WfBlock H x) (h1 : maxAlloc < l) (h2 : l < 2 ^ 64) (hf : pre.length < fuel) :
    blocks H fuel (pre.flatMap sectionOf ++ (encode l ++ rest)) = (pre, true) := by
  induction pre generalizing fuel with
  | nil =>
    cases fuel with
    | zero => omega
    | succ n => simp [blocks, C12_oversize_is_error H l rest h1 h2]
  | cons p ps ih =>
    cases fuel with
    | zero => omega
    | succ n =>
      simp only [List.flatMap_cons, List.append_assoc, blocks]
      rw [next_section H p _ (hpre p (by simp))]
      simp only
      rw [ih n (fun x hx => hpre x (by simp [hx])) (by simp at hf; omega)]

/-! ## a zero-length section is an error, not the end of the archive -/

theorem readStd_zero (rest : Bytes) : Varint.readStd (0 :: rest) = .ok (0, rest) := by
  simp [Varint.readStd, Varint.readStdAux]

theorem parseCid_nil : parseCid [] = none := by
  simp [parseCid, Varint.readMf, Varint.readMfAux]

/-- **C12 (no silent end).** A `0x00` where a section should start — a length byte zeroed, zero padding
spliced between sections — is a section of no bytes, which holds no CID: an error, whatever follows. -/
theorem C12_zero_section_is_error (H : HashTable) (rest : Bytes) : next H (0 :: rest) = some (.err, rest) := by
  unfold next
  simp only [List.isEmpty_cons, Bool.false_eq_true, if_false, readStd_zero]
  simp [maxAlloc, takeExact, parseCid_nil]

/-- … so an archive with a zero byte at a section boundary is never read as the shorter archive that
ends there: the blocks before it are delivered and the iteration ends **with an error** -/
theorem C12_blocks_stop_at_zero (H : HashTable) (pre : List Block) (rest : Bytes) (fuel : Nat)
    (hpre : ∀ x ∈ pre, WfBlock H x) (hf : pre.length < fuel) :
    blocks H fuel (pre.flatMap sectionOf ++ (0 :: rest)) = (pre, true) := by
  induction pre generalizing fuel with
  | nil =>
    cases fuel with
    | zero => omega
    | succ n => simp [blocks, C12_zero_section_is_error H rest]
  | cons p ps ih =>
    cases fuel with
    | zero => omega
    | succ n =>
      simp only [List.flatMap_cons, List.append_assoc, blocks]
      rw [next_section H p _ (hpre p (by simp))]
      simp only
      rw [ih n (fun x hx => hpre x (by simp [hx])) (by simp at hf; omega)]

end Car
