import UcantoModel.Model.Lock
/-!
# C17 — a block store can be shared between goroutines
-/
namespace Lock

/-! ## sequential specification -/

theorem fold_put_keys (ls : List Nat) : ∀ acc : List Nat,
    (ls.foldl Store.put ⟨acc⟩).keys = acc ++ firsts acc ls := by
  induction ls with
  | nil => intro acc; simp [firsts]
  | cons l ls ih =>
    intro acc
    simp only [List.foldl_cons, firsts]
    by_cases h : l ∈ acc
    · have hc : acc.contains l = true := by simpa using h
      have : Store.put ⟨acc⟩ l = ⟨acc⟩ := by simp only [Store.put, hc, if_true]
      rw [this, ih acc]
      simp only [hc, if_true]
    · have hf : acc.contains l = false := by simpa using h
      have : Store.put ⟨acc⟩ l = ⟨acc ++ [l]⟩ := by simp only [Store.put, hf, Bool.false_eq_true, if_false]
      rw [this, ih (acc ++ [l])]
      simp only [hf, Bool.false_eq_true, if_false, List.append_assoc, List.singleton_append]

theorem firsts_nodup (ls : List Nat) : ∀ acc : List Nat, acc.Nodup → (acc ++ firsts acc ls).Nodup := by
  induction ls with
  | nil => intro acc h; simpa [firsts] using h
  | cons l ls ih =>
    intro acc h
    simp only [firsts]
    by_cases hc : acc.contains l = true
    · simp only [hc, if_true]; exact ih acc h
    · have hf : acc.contains l = false := by simpa using hc
      simp only [hf, Bool.false_eq_true, if_false]
      have hn : (acc ++ [l]).Nodup := by
        rw [List.nodup_append]
        refine ⟨h, by simp, ?_⟩
        intro a ha b hb
        simp only [List.mem_singleton] at hb
        subst hb
        intro e; subst e
        have : acc.contains a = true := by simpa using ha
        rw [this] at hf; cases hf
      have := ih (acc ++ [l]) hn
      simpa [List.append_assoc] using this

theorem mem_firsts (ls : List Nat) : ∀ (acc : List Nat) (l : Nat), l ∈ ls → l ∈ acc ++ firsts acc ls := by
  induction ls with
  | nil => intro acc l h; cases h
  | cons x xs ih =>
    intro acc l h
    simp only [firsts]
    by_cases hc : acc.contains x = true
    · simp only [hc, if_true]
      rcases List.mem_cons.mp h with rfl | h'
      · exact List.mem_append_left _ (by simpa using hc)
      · exact ih acc l h'
    · have hf : acc.contains x = false := by simpa using hc
      simp only [hf, Bool.false_eq_true, if_false]
      rcases List.mem_cons.mp h with rfl | h'
      · simp
      · have := ih (acc ++ [x]) l h'
        simpa [List.append_assoc] using this

/-- **C17 (sequential).** After any sequence of Puts into an empty store: every link that was put is
retrievable, iteration yields each exactly once, in the order of first Puts. -/
theorem C17_seq (ls : List Nat) :
    let s := ls.foldl Store.put ⟨[]⟩
    (∀ l ∈ ls, s.get l = true) ∧ s.iter.Nodup ∧ s.iter = firsts [] ls := by
  have hk := fold_put_keys ls []
  simp only [List.nil_append] at hk
  refine ⟨?_, ?_, ?_⟩
  · intro l hl
    simp only [Store.get, hk]
    have := mem_firsts ls [] l hl
    simpa using this
  · simp only [Store.iter, hk]
    have := firsts_nodup ls [] List.nodup_nil
    simpa using this
  · simp only [Store.iter, hk]

/-! ## mutual exclusion -/

structure Inv (F : Facts) (s : St) : Prop where
  w : ∀ t op, s.cur t = some op → modeOf F op = .write → s.writer = some t
  r : ∀ t op, s.cur t = some op → modeOf F op = .read → t ∈ s.readers
  wr : ∀ t, s.writer = some t → s.readers = [] ∧ ∃ op, s.cur t = some op ∧ modeOf F op = .write
  rd : ∀ t, t ∈ s.readers → ∃ op, s.cur t = some op ∧ modeOf F op = .read
  nd : s.readers.Nodup

theorem inv_init (F : Facts) : Inv F init where
  w := by intro t op h; simp [init] at h
  r := by intro t op h; simp [init] at h
  wr := by intro t h; simp [init] at h
  rd := by intro t h; simp [init] at h
  nd := List.nodup_nil

theorem inv_acquire {F : Facts} {s : St} {t : Nat} {op : Op} (hi : Inv F s) (hc : s.cur t = none)
    (ha : canAcquire s (modeOf F op) = true) : Inv F (acquire F s t op) := by
  cases hm : modeOf F op with
  | write =>
    rw [hm] at ha
    simp only [canAcquire, Bool.and_eq_true, Option.isNone_iff_eq_none, List.isEmpty_iff] at ha
    obtain ⟨hw, hr⟩ := ha
    refine ⟨?_, ?_, ?_, ?_, ?_⟩
    · intro u op' hu hmo
      simp only [acquire, hm, if_true]
      by_cases hut : u = t
      · rw [hut]
      · simp only [acquire, hut, if_false] at hu
        have := hi.w u op' hu hmo
        rw [hw] at this; cases this
    · intro u op' hu hmo
      simp only [acquire, hm]
      by_cases hut : u = t
      · subst hut
        simp only [acquire, if_true, Option.some.injEq] at hu
        subst hu; rw [hm] at hmo; cases hmo
      · simp only [acquire, hut, if_false] at hu
        simpa using hi.r u op' hu hmo
    · intro t' ht'
      simp only [acquire, hm, if_true, Option.some.injEq] at ht'
      subst ht'
      refine ⟨by simp [acquire, hm, hr], op, by simp [acquire], hm⟩
    · intro t' ht'
      simp only [acquire, hm] at ht'
      rw [hr] at ht'; simp at ht'
    · simp only [acquire, hm]; simpa [hr] using List.nodup_nil
  | read =>
    rw [hm] at ha
    simp only [canAcquire, Option.isNone_iff_eq_none] at ha
    have htr : t ∉ s.readers := by
      intro hmem
      obtain ⟨op', ho, _⟩ := hi.rd t hmem
      rw [hc] at ho; cases ho
    refine ⟨?_, ?_, ?_, ?_, ?_⟩
    · intro u op' hu hmo
      by_cases hut : u = t
      · subst hut
        simp only [acquire, if_true, Option.some.injEq] at hu
        subst hu; rw [hm] at hmo; cases hmo
      · simp only [acquire, hut, if_false] at hu
        have := hi.w u op' hu hmo
        rw [ha] at this; cases this
    · intro u op' hu hmo
      simp only [acquire, hm, if_true]
      by_cases hut : u = t
      · simp [hut]
      · simp only [acquire, hut, if_false] at hu
        exact List.mem_cons_of_mem _ (hi.r u op' hu hmo)
    · intro t' ht'
      simp only [acquire, hm] at ht'
      simp at ht'
      rw [ha] at ht'; cases ht'
    · intro t' ht'
      simp only [acquire, hm, if_true, List.mem_cons] at ht'
      rcases ht' with rfl | ht'
      · exact ⟨op, by simp [acquire], hm⟩
      · obtain ⟨op', ho, hmo⟩ := hi.rd t' ht'
        have hne : t' ≠ t := by intro e; subst e; exact htr ht'
        exact ⟨op', by simp [acquire, hne, ho], hmo⟩
    · simp only [acquire, hm, if_true]
      exact List.nodup_cons.mpr ⟨htr, hi.nd⟩
  | none =>
    refine ⟨?_, ?_, ?_, ?_, ?_⟩
    · intro u op' hu hmo
      by_cases hut : u = t
      · subst hut
        simp only [acquire, if_true, Option.some.injEq] at hu
        subst hu; rw [hm] at hmo; cases hmo
      · simp only [acquire, hut, if_false] at hu
        simpa [acquire, hm] using hi.w u op' hu hmo
    · intro u op' hu hmo
      by_cases hut : u = t
      · subst hut
        simp only [acquire, if_true, Option.some.injEq] at hu
        subst hu; rw [hm] at hmo; cases hmo
      · simp only [acquire, hut, if_false] at hu
        simpa [acquire, hm] using hi.r u op' hu hmo
    · intro t' ht'
      have ht'' : s.writer = some t' := by simpa [acquire, hm] using ht'
      obtain ⟨hr, op', ho, hmo⟩ := hi.wr t' ht''
      have hne : t' ≠ t := by intro e; subst e; rw [hc] at ho; cases ho
      exact ⟨by simpa [acquire, hm] using hr, op', by simp [acquire, hne, ho], hmo⟩
    · intro t' ht'
      have ht'' : t' ∈ s.readers := by simpa [acquire, hm] using ht'
      obtain ⟨op', ho, hmo⟩ := hi.rd t' ht''
      have hne : t' ≠ t := by intro e; subst e; rw [hc] at ho; cases ho
      exact ⟨op', by simp [acquire, hne, ho], hmo⟩
    · simpa [acquire, hm] using hi.nd

theorem inv_release {F : Facts} {s : St} {t : Nat} {op : Op} (hi : Inv F s) (hc : s.cur t = some op) :
    Inv F (release F s t op) := by
  cases hm : modeOf F op with
  | write =>
    have hw := hi.w t op hc hm
    obtain ⟨hr, _⟩ := hi.wr t hw
    refine ⟨?_, ?_, ?_, ?_, ?_⟩
    · intro u op' hu hmo
      by_cases hut : u = t
      · subst hut; simp [release] at hu
      · simp only [release, hut, if_false] at hu
        have := hi.w u op' hu hmo
        rw [hw] at this
        simp only [Option.some.injEq] at this
        exact absurd this.symm hut
    · intro u op' hu hmo
      by_cases hut : u = t
      · subst hut; simp [release] at hu
      · simp only [release, hut, if_false] at hu
        simpa [release, hm] using hi.r u op' hu hmo
    · intro t' ht'
      simp [release, hm] at ht'
    · intro t' ht'
      simp only [release, hm] at ht'
      simp at ht'
      rw [hr] at ht'; cases ht'
    · simpa [release, hm] using hi.nd
  | read =>
    have hmem := hi.r t op hc hm
    refine ⟨?_, ?_, ?_, ?_, ?_⟩
    · intro u op' hu hmo
      by_cases hut : u = t
      · subst hut; simp [release] at hu
      · simp only [release, hut, if_false] at hu
        simpa [release, hm] using hi.w u op' hu hmo
    · intro u op' hu hmo
      by_cases hut : u = t
      · subst hut; simp [release] at hu
      · simp only [release, hut, if_false] at hu
        simp only [release, hm, if_true]
        exact (List.mem_erase_of_ne hut).mpr (hi.r u op' hu hmo)
    · intro t' ht'
      have ht'' : s.writer = some t' := by simpa [release, hm] using ht'
      obtain ⟨hr, _⟩ := hi.wr t' ht''
      rw [hr] at hmem; cases hmem
    · intro t' ht'
      simp only [release, hm, if_true] at ht'
      have hne : t' ≠ t := by
        intro e; subst e
        exact (List.Nodup.not_mem_erase hi.nd) ht'
      have hin := List.mem_of_mem_erase ht'
      obtain ⟨op', ho, hmo⟩ := hi.rd t' hin
      exact ⟨op', by simp [release, hne, ho], hmo⟩
    · simp only [release, hm, if_true]
      exact hi.nd.erase t
  | none =>
    refine ⟨?_, ?_, ?_, ?_, ?_⟩
    · intro u op' hu hmo
      by_cases hut : u = t
      · subst hut; simp [release] at hu
      · simp only [release, hut, if_false] at hu
        simpa [release, hm] using hi.w u op' hu hmo
    · intro u op' hu hmo
      by_cases hut : u = t
      · subst hut; simp [release] at hu
      · simp only [release, hut, if_false] at hu
        simpa [release, hm] using hi.r u op' hu hmo
    · intro t' ht'
      have ht'' : s.writer = some t' := by simpa [release, hm] using ht'
      obtain ⟨hr, op', ho, hmo⟩ := hi.wr t' ht''
      have hne : t' ≠ t := by
        intro e; subst e; rw [hc] at ho
        simp only [Option.some.injEq] at ho
        subst ho; rw [hm] at hmo; cases hmo
      exact ⟨by simpa [release, hm] using hr, op', by simp [release, hne, ho], hmo⟩
    · intro t' ht'
      have ht'' : t' ∈ s.readers := by simpa [release, hm] using ht'
      obtain ⟨op', ho, hmo⟩ := hi.rd t' ht''
      have hne : t' ≠ t := by
        intro e; subst e; rw [hc] at ho
        simp only [Option.some.injEq] at ho
        subst ho; rw [hm] at hmo; cases hmo
      exact ⟨op', by simp [release, hne, ho], hmo⟩
    · simpa [release, hm] using hi.nd

theorem reach_inv {F : Facts} {s : St} (h : Reach F s) : Inv F s := by
  induction h with
  | init => exact inv_init F
  | acquire _ hc ha ih => exact inv_acquire ih hc ha
  | release _ hc ih => exact inv_release ih hc

theorem good_modes {F : Facts} (hg : F.good = true) :
    (∀ l, modeOf F (.put l) = .write) ∧ ∀ op, modeOf F op ≠ .none := by
  simp only [Facts.good, Bool.and_eq_true, beq_iff_eq, bne_iff_ne, ne_eq, Bool.not_eq_true'] at hg
  obtain ⟨⟨⟨hp, hgl⟩, hil⟩, hio⟩ := hg
  refine ⟨fun l => hp, ?_⟩
  intro op
  cases op with
  | put l => simp [modeOf, hp]
  | get l => simpa [modeOf] using hgl
  | iter => simpa [modeOf, hio] using hil

/-- **C17 (mutual exclusion).** Under a good locking discipline — `Put` under the write lock, `Get`
and iteration under at least the read lock, nothing touched outside — no reachable state, for any
number of threads, any programs and any schedule, has two threads inside their critical sections
while one of them mutates the store. -/
theorem C17_mutex (F : Facts) (hg : F.good = true) (s : St) (h : Reach F s) : ¬ Conflict s := by
  obtain ⟨hput, hnone⟩ := good_modes hg
  have hi := reach_inv h
  rintro ⟨t1, t2, op1, op2, hne, h1, h2, hmut⟩
  have hw1 : modeOf F op1 = .write := by
    cases op1 with
    | put l => exact hput l
    | get l => cases hmut
    | iter => cases hmut
  have hwr := hi.w t1 op1 h1 hw1
  obtain ⟨hr, _⟩ := hi.wr t1 hwr
  cases hm2 : modeOf F op2 with
  | write =>
    have := hi.w t2 op2 h2 hm2
    rw [hwr] at this
    simp only [Option.some.injEq] at this
    exact hne this
  | read =>
    have := hi.r t2 op2 h2 hm2
    rw [hr] at this; cases this
  | none => exact hnone op2 hm2

/-- **C17 (linearization).** The store reached under any schedule is the result of applying the
operations one after the other in the order in which they entered their critical sections. -/
theorem C17_linearizable (F : Facts) (s : St) (h : Reach F s) :
    s.store = s.history.foldl apply ⟨[]⟩ := by
  induction h with
  | init => rfl
  | acquire _ _ _ ih => simp [acquire, List.foldl_append, ih]
  | release _ _ ih => simpa [release] using ih

/-- … hence every link put is retrievable and iteration is duplicate free whatever the schedule -/
theorem C17_contents (F : Facts) (s : St) (h : Reach F s) :
    s.store.keys.Nodup ∧ ∀ l, Op.put l ∈ s.history → s.store.get l = true := by
  rw [C17_linearizable F s h]
  generalize s.history = hs
  have gen : ∀ (acc : Store), acc.keys.Nodup →
      (hs.foldl apply acc).keys.Nodup ∧ (∀ l, l ∈ acc.keys → (hs.foldl apply acc).get l = true) ∧
      ∀ l, Op.put l ∈ hs → (hs.foldl apply acc).get l = true := by
    induction hs with
    | nil => intro acc hn; exact ⟨hn, fun l hl => by simpa [Store.get] using hl, fun l hl => by cases hl⟩
    | cons op ops ih =>
      intro acc hn
      have hn' : (apply acc op).keys.Nodup := by
        cases op with
        | put l =>
          simp only [apply, Store.put]
          split
          · exact hn
          · rename_i hc
            rw [List.nodup_append]
            refine ⟨hn, by simp, ?_⟩
            intro a ha b hb
            simp only [List.mem_singleton] at hb
            subst hb; intro e; subst e
            exact hc (by simpa using ha)
        | get l => exact hn
        | iter => exact hn
      have hsub : ∀ l, l ∈ acc.keys → l ∈ (apply acc op).keys := by
        intro l hl
        cases op with
        | put x =>
          simp only [apply, Store.put]
          split
          · exact hl
          · exact List.mem_append_left _ hl
        | get x => exact hl
        | iter => exact hl
      obtain ⟨h1, h2, h3⟩ := ih (apply acc op) hn'
      simp only [List.foldl_cons]
      refine ⟨h1, fun l hl => h2 l (hsub l hl), ?_⟩
      intro l hl
      rcases List.mem_cons.mp hl with rfl | hl'
      · apply h2
        simp only [apply, Store.put]
        split
        · rename_i hc; simpa using hc
        · simp
      · exact h3 l hl'
  obtain ⟨h1, _, h3⟩ := gen ⟨[]⟩ List.nodup_nil
  exact ⟨h1, h3⟩

/-- **the pinned tree.** `Put` under the *read* lock: two Puts are inside at once. -/
theorem C17_pinned_race (F : Facts) (hp : F.putLock = .read) : ∃ s, Reach F s ∧ Conflict s := by
  have hm : ∀ l, modeOf F (.put l) = .read := fun l => hp
  have r1 : Reach F (acquire F init 0 (.put 1)) :=
    Reach.acquire Reach.init rfl (by rw [hm]; rfl)
  have r2 : Reach F (acquire F (acquire F init 0 (.put 1)) 1 (.put 2)) :=
    Reach.acquire r1 (by simp [acquire, init]) (by rw [hm]; simp [canAcquire, acquire, hm, init])
  refine ⟨_, r2, 0, 1, .put 1, .put 2, by decide, ?_, ?_, rfl⟩
  · simp [acquire]
  · simp [acquire]

end Lock
