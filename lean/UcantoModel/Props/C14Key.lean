import UcantoModel.Props.C14
import UcantoModel.Lemmas.Base58Lemmas
/-!
# C14 — `did:key` strings: formatting a key DID and parsing the string gives back the DID
(base58btc round trip proved in `Lemmas/Base58Lemmas.lean`)
-/
namespace DidM
open Varint

theorem decode_nonempty {b : Bytes} {d : Did} (h : decode b = some d) : b ≠ [] := by
  intro hb
  subst hb
  simp [decode, readMf, readMfAux] at h

/-- **DID strings (`did:key`)**: for every DID that `did.Decode` produces from key bytes (Ed25519 or
RSA multicodec), `Parse(String(d)) = d` — whatever the key bytes are, leading zero bytes included. -/
theorem did_key_string_roundtrip (d : Did) (hd : decode d.str = some d) (hk : d.key = true) :
    parse (toString d) = some d := by
  have hne : d.str ≠ [] := decode_nonempty hd
  have hemp : d.str.isEmpty = false := by
    cases h : d.str with
    | nil => exact absurd h hne
    | cons _ _ => rfl
  have hstr : toString d = keyPrefix ++ ([122] ++ Base58.encode d.str) := by
    unfold toString
    simp [hemp, hk]
  rw [hstr]
  unfold parse
  have h1 : didPrefix.isPrefixOf (keyPrefix ++ ([122] ++ Base58.encode d.str)) = true := by
    have : keyPrefix = didPrefix ++ [107, 101, 121, 58] := rfl
    rw [this, List.append_assoc]
    exact isPrefixOf_append _ _
  have h2 : keyPrefix.isPrefixOf (keyPrefix ++ ([122] ++ Base58.encode d.str)) = true := isPrefixOf_append _ _
  have h3 : (keyPrefix ++ ([122] ++ Base58.encode d.str)).drop 8 = 122 :: Base58.encode d.str := by
    have : keyPrefix.length = 8 := rfl
    rw [← this, drop_append_len]; rfl
  simp only [h1, Bool.not_true, Bool.false_eq_true, if_false, h2, if_true, h3]
  rw [Base58.decode_encode d.str hne]
  exact hd

/-- and the string is never the empty string of the undefined DID, and always starts with `did:key:z` -/
theorem did_key_string_shape (d : Did) (hd : decode d.str = some d) (hk : d.key = true) :
    ∃ t, toString d = keyPrefix ++ 122 :: t := by
  have hne : d.str ≠ [] := decode_nonempty hd
  have hemp : d.str.isEmpty = false := by
    cases h : d.str with
    | nil => exact absurd h hne
    | cons _ _ => rfl
  exact ⟨Base58.encode d.str, by unfold toString; simp [hemp, hk]⟩

/-- non-vacuity: the Ed25519 multicodec prefix followed by any bytes decodes to a key DID -/
example : ∃ d, decode ([0xed, 0x01] ++ List.replicate 32 0) = some d ∧ d.key = true ∧ decode d.str = some d := by
  refine ⟨⟨true, [0xed, 0x01] ++ List.replicate 32 0⟩, ?_, rfl, ?_⟩ <;> decide

end DidM
