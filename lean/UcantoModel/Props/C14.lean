import UcantoModel.Model.SigScheme
import UcantoModel.Lemmas.VarintLemmas
/-!
# C14 — principals survive every representation; keys never cross-verify
-/
namespace DidM
open Varint

theorem drop_append_len {α} (a b : List α) : (a ++ b).drop a.length = b := by simp

/-- **signature framing**: `Code`, `Size`, `Raw` recover what `NewSignature` framed -/
theorem sig_frame (code : Nat) (raw : Bytes) (hc : code < 2 ^ 63) (hr : raw.length < 2 ^ 63) :
    sigCode (newSig code raw) = code ∧ sigSize (newSig code raw) = raw.length ∧
    sigRaw (newSig code raw) = raw := by
  have h1 : sigCode (newSig code raw) = code := by
    unfold sigCode newSig
    rw [List.append_assoc, readMf_encode code _ hc]
  have h2 : sigSize (newSig code raw) = raw.length := by
    unfold sigSize
    rw [h1]
    unfold newSig size
    have : ¬ (encode code).length > (encode code ++ encode raw.length ++ raw).length := by
      simp
    simp only [this, if_false]
    rw [List.append_assoc, drop_append_len, readMf_encode _ _ hr]
  refine ⟨h1, h2, ?_⟩
  unfold sigRaw
  rw [h1, h2]
  unfold newSig size
  have : ¬ (encode code).length + (encode raw.length).length > (encode code ++ encode raw.length ++ raw).length := by
    simp
  simp only [this, if_false]
  have : (encode code).length + (encode raw.length).length = (encode code ++ encode raw.length).length := by simp
  rw [this, drop_append_len]

/-- `Size`/`Raw` are total: the result is always a suffix of the input, whatever the bytes -/
theorem sigRaw_suffix (s : Bytes) : ∃ p, s = p ++ sigRaw s ∨ sigRaw s = [] := by
  unfold sigRaw
  simp only
  split
  · exact ⟨[], Or.inr rfl⟩
  · exact ⟨s.take (size (sigCode s) + size (sigSize s)), Or.inl (List.take_append_drop _ s).symm⟩

/-- the pinned `Size`/`Raw` panicked on a code-only signature (`ed a1 03`: EdDSA code, nothing else) -/
theorem sig_pinned_panics : sigRawPinned [0xed, 0xa1, 0x03] = none := by
  have hc : sigCode [0xed, 0xa1, 0x03] = 0xd0ed := by decide
  simp [sigRawPinned, sigSizePinned, hc, readMf, readMfAux, size, encode]

theorem sigRaw_total_example : sigRaw [0xed, 0xa1, 0x03] = [] := by
  have hc : sigCode [0xed, 0xa1, 0x03] = 0xd0ed := by decide
  simp [sigRaw, sigSize, hc, readMf, readMfAux, size, encode]

/-- **DID bytes**: decoding the bytes of a decoded DID gives the same DID -/
theorem did_decode_bytes (b : Bytes) (d : Did) (h : decode b = some d) :
    bytes d = b ∧ decode (bytes d) = some d := by
  have hb : bytes d = b := by
    unfold decode at h
    split at h
    · cases h
    · split at h
      · cases h; rfl
      · split at h
        · cases h; rfl
        · cases h
  exact ⟨hb, by rw [hb]; exact h⟩

theorem isPrefixOf_append {α} [BEq α] [LawfulBEq α] (p r : List α) : p.isPrefixOf (p ++ r) = true := by
  rw [List.isPrefixOf_iff_prefix]; exact List.prefix_append p r

/-- **DID strings (non-key methods)**: any string `did:<rest>` that is not a `did:key:` parses, prints
back to exactly the same string, and that string parses to the same DID (empty and non-ASCII method
specific ids included) -/
theorem did_parse_string_nonkey (rest : Bytes)
    (hk : keyPrefix.isPrefixOf (didPrefix ++ rest) = false) :
    ∃ d, parse (didPrefix ++ rest) = some d ∧ toString d = didPrefix ++ rest ∧
      parse (toString d) = some d := by
  have hp : didPrefix.isPrefixOf (didPrefix ++ rest) = true := isPrefixOf_append _ _
  have hparse : parse (didPrefix ++ rest) = some ⟨false, [0x9d, 0x1a] ++ rest⟩ := by
    unfold parse
    simp only [hp, Bool.not_true, Bool.false_eq_true, if_false, hk]
    have : (didPrefix ++ rest).drop 4 = rest := drop_append_len didPrefix rest
    rw [this]
  have hstr : toString ⟨false, [0x9d, 0x1a] ++ rest⟩ = didPrefix ++ rest := by
    unfold toString
    simp
  exact ⟨_, hparse, hstr, by rw [hstr]; exact hparse⟩

/-- **Ed25519 signer bytes**: decoding what was encoded gives back the two keys -/
theorem edSigner_decode_encode (priv pub : Bytes) (h1 : priv.length = 32) (h2 : pub.length = 32) :
    edSignerDecode (edSignerEncode priv pub) = some (priv, pub) := by
  have e1 : encode 0x1300 = [0x80, 0x26] := by simp [encode]
  have e2 : encode 0xed = [0xed, 0x01] := by simp [encode]
  unfold edSignerEncode
  rw [e1, e2]
  unfold edSignerDecode
  have hlen : ([0x80, 0x26] ++ priv ++ [0xed, 0x01] ++ pub : Bytes).length = 68 := by simp [h1, h2]
  simp only [hlen, bne_self_eq_false, Bool.false_eq_true, if_false]
  have r1 : readMf ([0x80, 0x26] ++ priv ++ [0xed, 0x01] ++ pub : Bytes) = .ok (0x1300, priv ++ [0xed, 0x01] ++ pub) := by
    have := readMf_encode 0x1300 (priv ++ [0xed, 0x01] ++ pub) (by decide)
    rw [e1] at this
    simpa using this
  rw [r1]
  simp only [bne_self_eq_false, Bool.false_eq_true, if_false]
  have hdrop : ([0x80, 0x26] ++ priv ++ [0xed, 0x01] ++ pub : Bytes).drop 34 = [0xed, 0x01] ++ pub := by
    have : ([0x80, 0x26] ++ priv : Bytes).length = 34 := by simp [h1]
    rw [List.append_assoc ([0x80, 0x26] ++ priv), ← this, drop_append_len]
  rw [hdrop]
  have r2 : readMf ([0xed, 0x01] ++ pub : Bytes) = .ok (0xed, pub) := by
    have := readMf_encode 0xed pub (by decide)
    rw [e2] at this
    exact this
  rw [r2]
  simp only [bne_self_eq_false, Bool.false_eq_true, if_false]
  unfold edVerifierDecode
  rw [r2]
  have : ([0xed, 0x01] ++ pub : Bytes).length = 34 := by simp [h2]
  simp only [h2, this, beq_self_eq_true, Bool.and_self, if_true]
  congr 2
  have : ([0x80, 0x26] ++ priv ++ [0xed, 0x01] ++ pub : Bytes).drop 2 = priv ++ ([0xed, 0x01] ++ pub) := by simp
  rw [this, ← h1, List.take_left]

/-- **C14 (only its own algorithm code).** A verifier consults its primitive only for signatures
framed with its own algorithm code … -/
theorem C14_own_code (S : SigScheme) (alg : Nat) (pub : S.Pub) (msg sig : Bytes)
    (h : verifyWith S alg pub msg sig = true) :
    sigCode sig = alg ∧ S.verify pub msg (sigRaw sig) = true := by
  unfold verifyWith at h
  simpa using h

/-- … so, with ideal signatures, it accepts only what the holder of the matching key produced for
exactly that message — never another key's signature, never for different bytes. -/
theorem C14_accept_only (S : SigScheme) (hS : S.Ideal) (alg : Nat) (pub : S.Pub) (msg sig : Bytes)
    (h : verifyWith S alg pub msg sig = true) :
    sigCode sig = alg ∧ ∃ k, S.pubOf k = pub ∧ sigRaw sig = S.sign k msg := by
  obtain ⟨hc, hv⟩ := C14_own_code S alg pub msg sig h
  exact ⟨hc, hS pub msg _ hv⟩

/-- a signature produced by the key verifies under its own code, and fails under any other -/
theorem C14_sign_verify (S : SigScheme) (alg : Nat) (k : S.Key) (msg : Bytes) (ha : alg < 2 ^ 63)
    (hl : (S.sign k msg).length < 2 ^ 63) :
    verifyWith S alg (S.pubOf k) msg (newSig alg (S.sign k msg)) = true ∧
    ∀ other, other ≠ alg → verifyWith S other (S.pubOf k) msg (newSig alg (S.sign k msg)) = false := by
  obtain ⟨h1, _, h3⟩ := sig_frame alg (S.sign k msg) ha hl
  constructor
  · unfold verifyWith; rw [h1, h3, S.correct]; simp
  · intro other hne
    unfold verifyWith; rw [h1]
    have : (alg == other) = false := by simpa using fun h => hne h.symm
    simp [this]

/-- non-vacuity: the toy scheme is ideal, so the hypotheses above are satisfiable -/
example : SigScheme.toy.Ideal := SigScheme.toy_ideal

end DidM
