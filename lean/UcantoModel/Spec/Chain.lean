import UcantoModel.Model.Validator
/-!
# Declarative specification of a valid authorization (what C01/C04/C05 call "a chain")
-/
namespace V

/-- aligned siblings of the proofs of `v`: what `ResolveSources` validates each proof against -/
def alignedProofs (W : World) (v : View) : List View :=
  (resolveProofs W (proofsView W v)).filter fun p => p.tok.aud == v.tok.iss

def InWindow (W : World) (t : Token) : Prop :=
  isExpired t.exp W.now = false ∧ isTooEarly t.nbf W.now = false

/-- the signature on `t` is a valid signature by key `k` over `t`'s current payload, under a known
algorithm code (ideal signatures: ground truth) -/
def SignedBy (t : Token) (k : Nat) : Prop :=
  t.signer = k ∧ t.intact = true ∧ t.algOk = true

mutual

/-- `v` is inside its validity window and was authorised by its stated issuer, `sibs` being the
proofs presented next to it (where session attestations are looked for). -/
inductive ValidTok (W : World) : View → List View → Prop
  | key {v sibs k} : InWindow W v.tok → v.tok.iss.key = true → W.keyOf v.tok.iss = some k →
      SignedBy v.tok k → ValidTok W v sibs
  | authority {v sibs} : InWindow W v.tok → v.tok.iss.key = false → v.tok.iss = W.authority →
      SignedBy v.tok W.authorityKey → ValidTok W v sibs
  | session {v sibs a} : InWindow W v.tok → v.tok.iss.key = false → v.tok.iss ≠ W.authority →
      ClaimOk W (attDesc W v.tok.id) (attCandidates v.tok sibs) a → ValidTok W v sibs
  | resolved {v sibs kd k} : InWindow W v.tok → v.tok.iss.key = false → v.tok.iss ≠ W.authority →
      (∃ n e, claim W n (attDesc W v.tok.id) ((attCandidates v.tok sibs).map .inline) = .fail e ∧
        e.failedProofs = false) →
      W.resolveKey v.tok.iss = some kd → W.keyOf kd = some k → SignedBy v.tok k → ValidTok W v sibs

/-- `a` is a complete valid authorization of a capability described by `d`, rooted in one of the
presented proofs `views`, and accepted by the revocation checker. -/
inductive ClaimOk (W : World) : Desc → List View → Auth → Prop
  | mk {d views a c} : a.view ∈ views → ValidTok W a.view views → c ∈ a.view.tok.caps →
      parseCap d c = some a.cap → Rest W d a → W.notRevoked a = true → ClaimOk W d views a

/-- everything below the top token of an authorization: either its issuer may issue the capability
on its own, or the capability derives from a capability of a cited, available, aligned, valid proof,
recursively. -/
inductive Rest (W : World) : Desc → Auth → Prop
  | root {d v cap} : W.canIssue cap v.tok.iss = true → Rest W d (.root v cap)
  | step {d v cap sub sc} :
      sub.view ∈ alignedProofs W v →
      ValidTok W sub.view (alignedProofs W v) →
      sc ∈ sub.view.tok.caps → resolveCap d cap sc = some sub.cap → d.derives cap sub.cap = true →
      Rest W d sub → Rest W d (.step v cap sub)

end

end V
