-- Root of the `UcantoModel` library: the executable model (Model/*), the declarative specification
-- (Spec/*), helper lemmas (Lemmas/*) and one file of property theorems per property (Props/*).
import UcantoModel.Props.C01
import UcantoModel.Props.C02
import UcantoModel.Props.C03
import UcantoModel.Props.C04
import UcantoModel.Props.C05
import UcantoModel.Props.C06
import UcantoModel.Props.Termination
import UcantoModel.Props.C07
import UcantoModel.Props.C08
import UcantoModel.Props.C09
import UcantoModel.Props.C10
import UcantoModel.Props.C11
import UcantoModel.Props.C12
import UcantoModel.Props.C12Roundtrip
import UcantoModel.Props.C13
import UcantoModel.Props.C14
import UcantoModel.Props.C16
import UcantoModel.Props.C17
import UcantoModel.Props.C17Facts
import UcantoModel.Props.C18
import UcantoModel.Props.C19
import UcantoModel.Props.C20
import UcantoModel.Props.Examples
import UcantoModel.Props.OracleSound
