import UcantoModel.Model.Basic
import UcantoModel.Model.Patterns
import UcantoModel.Props.C16
