import UcantoModel.Model.Basic
import UcantoModel.Model.Enum
import UcantoModel.Model.Patterns
import UcantoModel.Model.WorldJson
import UcantoModel.Model.Http
import UcantoModel.Model.CarDriver
import UcantoModel.Model.Did
import UcantoModel.Model.Cost
import UcantoModel.Model.UcanJson
import UcantoModel.Model.Message
import UcantoModel.Model.CborJson
import UcantoModel.Model.ReadersJson
import UcantoModel.Model.Base64
/-!
# Line-protocol driver
stdin: one case per line, TAB separated: `op  arg1  arg2 …`
stdout: one line per case: `model-output TAB oracle` (`oracle` is `-` when the op has no separate
oracle, `ok`, or `fail:<reason>`).
The driver imports only `Model/*` (core Lean) so that it links as a native executable.
-/
open Patterns

def c16Alpha : List UInt8 := [97, 98, 65, 47, 42, 58]  -- a b A / * :

/-- one hex digit per pair: bit0 ability granted, bit1 resource resolved, bit2 derives accepted,
bit3 range violation (never set by the model: results are `c` or `""`) -/
def c16Pair (p c : Bytes) : Nat :=
  (if resolveAbility p c != [] then 1 else 0) +
  (if resolveResource p c != [] then 2 else 0) +
  (if defaultDerives c p then 4 else 0)

def c16Row (n : Nat) (p : Bytes) : String :=
  String.ofList ((Enum.upTo c16Alpha (n - p.length)).map fun c => Bytes.hexDigit (c16Pair p c))

def bad (msg : String) : String := s!"bad-op:{msg}\t-"

structure CheckerCall where
  links : List Int
  accept : Bool

def parseChecker (j : Lean.Json) : Except String (List CheckerCall) := do
  (← j.getArr?).toList.mapM fun c => do
    let ls ← (← WorldJson.getArr c "links").toList.mapM (·.getInt?)
    pure ⟨ls, ← WorldJson.getBool c "accept"⟩

def implClass (impl : String) : String :=
  if impl == "ok" then "ok" else if impl.startsWith "fail" then "fail" else impl

def implFlags (impl : String) : String :=
  match impl.splitOn "+" with
  | [_, f] => f
  | _ => ""

/-- `access`: mode (property id), world, implementation's spine, checker log, derives log,
implementation's outcome.  The model column echoes the implementation's outcome whenever the two
agree on the *hard observables of that property*; otherwise it is the model's own outcome. -/
def doAccess (mode world spine checker impl : String) : String :=
  match Lean.Json.parse world >>= WorldJson.parseWorld, Lean.Json.parse spine >>= WorldJson.parseSpine,
        Lean.Json.parse checker >>= parseChecker with
  | .ok p, .ok sp, .ok ck =>
    let fuel := 64 + 4 * p.ntokens
    let r := V.access p.W fuel p.d p.inv
    let (model, mspine, mrev) := match r with
      | .ok a => ("ok", ",".intercalate (WorldJson.spineStr a), false)
      | .fail e => ("fail", "", e.revoked)
      | .oof => ("oof", "", false)
    let ic := implClass impl
    let fl := implFlags impl
    let badName := (fl.splitOn "name=").length > 1
    let irev := fl.contains 'r' && !badName
    let agree :=
      if badName then false
      else match mode with
      | "C01" | "C02" => if ic == "fail" then true else ic == model
      | "C06" => if ic == "ok" then true else ic == model
      | "C05" => ic == model && (ic != "fail" || irev == mrev)
      | _ => ic == model
    let chainOracle :=
      if ic == "ok" then
        if V.checkAuth p.W fuel p.d p.inv sp then "ok"
        else "fail:the authorization returned by the implementation is not a complete valid chain for this world"
      else if ic == "fail" then
        if model == "ok" && mode == "C03" then
          s!"fail:every token of a complete valid chain ({mspine}) is inside its validity window at the validation second but the implementation refused"
        else if model == "ok" && (mode == "C06" || mode == "C04" || mode == "ALL") then
          s!"fail:a complete valid chain exists and nothing on it is revoked ({mspine}) but the implementation refused"
        else if badName then "fail:refusal is not an Unauthorized error"
        else "ok"
      else s!"fail:implementation outcome {impl}"
    let revOracle :=
      if mode != "C05" then "ok"
      else if ic == "ok" then
        let spLinks : List Int := sp.map fun s => (s.tok : Int)
        match ck.getLast? with
        | none => "fail:authorization returned without consulting the revocation checker"
        | some last =>
          if !last.accept then "fail:authorization returned although the checker rejected the last authorization it saw"
          else if last.links != spLinks then "fail:the authorization the checker accepted does not expose the delegations of the returned chain"
          else "ok"
      else if ic == "fail" && model == "fail" && mrev && !irev then
        "fail:every candidate authorization was rejected by the revocation checker but the Unauthorized error reports no revocation"

      else "ok"
    let oracle := if chainOracle != "ok" then chainOracle else revOracle
    s!"{if agree then impl else model}\t{oracle}\t{mspine}"
  | .error e, _, _ => bad s!"world:{e}"
  | _, .error e, _ => bad s!"spine:{e}"
  | _, _, .error e => bad s!"checker:{e}"

/-- `serve`: the batch of the world is run invocation by invocation through the server model -/
def doServe (mode world impl : String) : String :=
  match Lean.Json.parse world >>= WorldJson.parseWorld with
  | .ok p =>
    let fuel := 64 + 4 * p.ntokens
    let parts := p.invs.map fun inv =>
      let r := Srv.run p.W fuel p.services inv
      -- the effects of the receipt are what the handler that ran returned (nothing else has effects)
      let fxs := match r.out, r.calls with
        | .ok, c :: _ => match (p.results.find? (fun (kv : Bytes × String) => kv.1 == c.can)).map (fun (kv : Bytes × String) => kv.2) with
          | some "okfx" => "+f1j0"
          | some "okjoin" => "+f0j1"
          | _ => "+f0j0"
        | _, _ => ""
      if mode == "C09" then s!"{inv.tok.id}:{WorldJson.outStr r.out}{fxs}"
      else s!"{inv.tok.id}:{WorldJson.outStr r.out}{fxs}:{"&".intercalate (r.calls.map WorldJson.callStr)}"
    let model := ";".intercalate parts
    let oracle := if model == impl then "ok" else if mode == "C08" || mode == "C09" then "-"
      else s!"fail:through the server the outcome differs from the stateless model: expected {model}"
    s!"{model}\t{oracle}"
  | .error e => bad s!"world:{e}"

def doHandle (ct acc body : String) : String :=
  match Bytes.ofHex ct, Bytes.ofHex acc with
  | some ct, some acc =>
    let b : Option Http.Body := match body with
      | "valid" | "valid0" | "big" | "twocap" | "zerocap" | "validmh20" | "validv0" | "validid" | "validempty" => some (.message true)
      | "missinginv" => some (.message false)
      | "empty" | "garbage" | "nonmsg" | "noroot" | "validtrunc" | "validbadhash" | "validbadcid" => some .undecodable
      | _ => none
    match b with
    | none => bad "body kind"
    | some b =>
      let (h, runs) := Http.handle ct acc b
      let calls := if runs && (body == "valid" || body == "big" || body == "validmh20" || body == "validv0" || body == "validid" || body == "validempty") then 1 else 0
      match h with
      | .status c => s!"status:{c}|calls={calls}\t-"
      | .error => s!"error|calls={calls}\t-"
  | _, _ => bad "handle args"

def doChannel (st : String) : String :=
  match st.toNat? with
  | some n => match Http.channel n with
    | .response => s!"response:{n}\t-"
    | .httpError s => s!"httperror:{s}\t-"
  | none => bad "channel args"

open CarDriver in
def doCar (op : String) (args : List String) (impl : String) : String :=
  match op, args with
  | "cardec", [inp] =>
    match Bytes.ofHex inp with
    | some b => let m := token b; s!"{if agrees m impl then impl else m.1}\t-"
    | none => bad "cardec args"
  | _, rj :: bj :: rest =>
    match parseList rj, parseBlocks bj with
    | some roots, some blocks =>
      let enc := Car.encodeCar roots blocks
      match op, rest with
      | "carrt", [] =>
        let dec := match Car.decodeCar H enc with
          | .ok r bs e => rootsStr r ++ "|" ++ blocksStr bs e
          | .headerError => "E"
          | .foreign _ _ => "foreign"
        s!"{Bytes.toHex enc}|{dec}\t-"
      | "cartrunc", [] =>
        s!"{compareAll ((List.range enc.length).map fun n => enc.take n) impl}\t-"
      | "carflip", [m] =>
        match Bytes.ofHex m with
        | some [mask] => s!"{compareAll ((List.range enc.length).map fun i => flipAt enc i mask) impl}\t-"
        | _ => bad "mask"
      | _, _ => bad "car op"
    | _, _ => bad "car args"
  | _, _ => bad "car args"

open DidM in
def didCanon (d : Did) : String :=
  let s := toString d
  let k := if d.key && !d.str.isEmpty then 1 else 0
  let p := if parse s == some d then "P" else ""
  let q := if decode (bytes d) == some d then "D" else ""
  s!"ok|{k}|{Bytes.toHexTok (bytes d)}|{Bytes.toHexTok s}|{p}{q}"

open DidM in
def doDid (op arg : String) : String :=
  match Bytes.ofHex arg with
  | none => bad "hex"
  | some b =>
    match op with
    | "didparse" => (match parse b with | some d => didCanon d | none => "err") ++ "\t-"
    | "diddecode" => (match decode b with | some d => didCanon d | none => "err") ++ "\t-"
    | "sigframe" => s!"{sigCode b}|{sigSize b}|{Bytes.toHexTok (sigRaw b)}\t-"
    | "edsigner" => (match edSignerDecode b with
        | some (priv, pub) => s!"ok|{Bytes.toHexTok priv}|{Bytes.toHexTok pub}" | none => "err") ++ "\t-"
    | "edverifier" => (match edVerifierDecode b with
        | some pub => s!"ok|{Bytes.toHexTok pub}" | none => "err") ++ "\t-"
    | _ => bad op

open DidM in
/-- `didread`: `schema.DIDString(WithMethod m)` -/
def doDidRead (m arg impl : String) : String :=
  match Bytes.ofHex arg with
  | none => bad "hex"
  | some b =>
    let pfx : Bytes := if m == "-" then didPrefix else didPrefix ++ Bytes.ofString m ++ [58]
    let model := if !pfx.isPrefixOf b then "err"
      else match parse b with
        | some d => s!"ok:{Bytes.toHexTok (toString d)}"
        | none => "err"
    let oracle := if model == impl then "ok"
      else s!"fail:the DID reader (method {m}) answers {impl} where the DID rules give {model}"
    s!"{model}\t{oracle}"

open DidM in
def doSigNew (code raw : String) : String :=
  match code.toNat?, Bytes.ofHex raw with
  | some c, some r =>
    let s := newSig c r
    s!"{Bytes.toHexTok s}|{sigCode s}|{sigSize s}|{Bytes.toHexTok (sigRaw s)}\t-"
  | _, _ => bad "signew"

/-- `cbor`: bytes the DAG-CBOR model writes for the value, and whether its decoder reads them back -/
def doCbor (v : String) : String :=
  match Lean.Json.parse v >>= CborJson.parse with
  | .error e => bad s!"cbor:{e}"
  | .ok x =>
    let c := Cbor.canon x
    let enc := Cbor.encode c
    let back := match Cbor.decodeTop enc with
      | some y => Cbor.beq y c
      | none => false
    s!"{Bytes.toHex enc}|{if back then "T" else "F"}\t-"

/-- `cborblock`: a block the library wrote, read by the model's decoder and written again -/
def doCborBlock (h : String) : String :=
  match Bytes.ofHex h with
  | none => bad "hex"
  | some b =>
    match Cbor.decodeTop b with
    | none => "undecodable\t-"
    | some v => s!"{Bytes.toHex (Cbor.encodeCanon v)}\t-"

/-- `wire`: the root block bytes the format model writes for each item's fields -/
def doWire (items : String) : String :=
  match Lean.Json.parse items with
  | .ok (.arr xs) =>
    let outs := xs.toList.map fun j => match WireJson.itemBytes j with
      | .ok h => h
      | .error e => s!"bad:{e}"
    "[" ++ " ".intercalate outs ++ "]\t-"
  | _ => bad "wire items"

/-- `cost`: number of signature verifications. The property is an upper bound, so fewer
verifications than the model's un-memoised search is agreement; more is not. -/
def doCost (world impl : String) : String :=
  match Lean.Json.parse world >>= WorldJson.parseWorld with
  | .ok p =>
    let fuel := 64 + 4 * p.ntokens
    let (r, c) := V.accessC p.W fuel p.d p.inv
    let mo := match r with | .ok _ => "ok" | .fail _ => "fail" | .oof => "oof"
    match impl.splitOn ":" with
    | [io, ic] =>
      match ic.toNat? with
      | some ic =>
        let agree := io == mo && ic ≤ c
        let n := p.ntokens
        let oracle :=
          if ic > c then s!"fail:C19-excess impl={ic} model={c} n={n}: more signature verifications than the exhaustive un-memoised search performs"
          else if ic > n * n then s!"fail:C19-bound impl={ic} model={c} n={n}: {ic} signature verifications for {n} delegations exceeds n^2"
          else "ok"
        s!"{if agree then impl else s!"{mo}:{c}"}\t{oracle}"
      | none => bad "cost impl"
    | _ => s!"{mo}:{c}\t-"
  | .error e => bad s!"world:{e}"

/-- `ucan`: predicted verification outcomes of an issued token and of its single alteration -/
def doUcan (spec : String) : String :=
  match Lean.Json.parse spec with
  | .error e => bad s!"spec:{e}"
  | .ok j =>
    let alter := (UcanJson.optStr j "alter").getD "none"
    let alg := (UcanJson.optStr j "alg").getD ""
    match j.getObjVal? "fields" >>= UcanJson.parseToken, j.getObjVal? "altered" >>= UcanJson.parseToken with
    | .ok t, .ok t' =>
      let fieldKinds := ["none", "aud", "iss", "with", "can", "nb-value", "nb-add", "cap-add", "cap-drop", "prf-add", "prf-drop",
        "prf-reorder", "exp", "exp-none", "nbf", "nnc", "fct-add", "fct-change", "version",
        "nb-link-to-slashmap", "nb-bytes-to-slashmap", "fct-link-to-slashmap"]
      -- the altered token verifies exactly when the record rebuilt from it is the record that was signed
      -- (and, for an altered issuer, never: the verifier's DID is the original issuer)
      let altered :=
        if fieldKinds.contains alter then
          UcanJson.beqRec (Payload.verifyRec alg t') (Payload.verifyRec alg t) && t'.iss == t.iss
        else false
      let tf := fun (b : Bool) => if b then "T" else "F"
      s!"issued=T|transported=T|altered={tf altered}\t-"
    | .error e, _ => bad s!"fields:{e}"
    | _, .error e => bad s!"altered:{e}"

/-- `roundtrip` (C13): the model predicts, from which proofs were embedded, the set of blocks every
delegation carries; everything else the implementation reports about reading back is expected `T` -/
def doRoundtrip (world : String) : String :=
  match Lean.Json.parse world with
  | .error e => bad s!"world:{e}"
  | .ok j =>
    match WorldJson.parseWorld j, (WorldJson.getArr j "tokens") with
    | .ok p, .ok tj =>
      let ps : Array WorldJson.Principal := #[]
      let toks := tj.filterMap fun t => match WorldJson.parseToken ps t with | .ok x => some x | .error _ => none
      let sets := (List.range toks.size).map fun i => WorldJson.sortNat (Msg.storeOf toks p.inlines (toks.size + 1) i)
      let js := "[" ++ ",".intercalate (sets.map fun s => "[" ++ ",".intercalate (s.map toString) ++ "]") ++ "]"
      s!"bs={CarDriver.hash4 js}|readback=T\t-"
    | .error e, _ => bad s!"world:{e}"
    | _, .error e => bad s!"tokens:{e}"

/-- `c18`: the recorded artifacts are read with the Lean format model -/
def doC18Key (didHex didBytes signer verifier sig : String) : Option String :=
  match Bytes.ofHex didHex, Bytes.ofHex didBytes, Bytes.ofHex signer, Bytes.ofHex verifier, Bytes.ofHex sig with
  | some ds, some db, some sg, some vf, some sb =>
    match DidM.parse ds with
    | none => some "recorded DID string does not parse in the model"
    | some d =>
      if DidM.bytes d != db then some "DID bytes differ from the model's"
      else if DidM.toString d != ds then some "DID string does not print back in the model"
      else if d.key && DidM.sigCode [] == 0 && (DidM.sigCode sb != DidM.edDSA && DidM.sigCode sb != DidM.rs256) then some "signature algorithm code"
      else if DidM.sigRaw sb |>.length |> (· != DidM.sigSize sb) then some "signature framing"
      else if DidM.sigCode sb == DidM.edDSA then
        (match DidM.edSignerDecode sg, DidM.edVerifierDecode vf with
         | some (_, pub), some pub' => if pub == pub' && (db == vf || !d.key) then none else some "Ed25519 key layout"
         | _, _ => some "Ed25519 key layout does not decode in the model")
      else none
  | _, _, _, _, _ => some "hex"

def doC18 (args : List String) (impl : String) : String :=
  let verdict : Option String :=
    match args with
    | "key" :: didHex :: didBytes :: signer :: verifier :: sig :: [] => doC18Key didHex didBytes signer verifier sig
    | "did" :: didHex :: didBytes :: [] =>
      match Bytes.ofHex didHex, Bytes.ofHex didBytes with
      | some ds, some db =>
        match DidM.parse ds with
        | none => some "recorded DID string does not parse in the model"
        | some d => if DidM.bytes d != db then some "DID bytes differ from the model's"
                    else if DidM.toString d != ds then some "DID string does not print back in the model" else none
      | _, _ => some "hex"
    | "key" :: didHex :: didBytes :: signer :: verifier :: sig :: sstr :: [] =>
      -- the stored key text (multibase M) read by the text-form model, then the binary artifacts as above
      match Bytes.ofHex signer, Bytes.ofHex sstr with
      | some sg, some st =>
        if Base64.parseKey st != .ok sg then some "stored key text does not read back to the stored key bytes in the model"
        else if Base64.formatKey sg != st then some "stored key text is not the model's text of the key bytes"
        else doC18Key didHex didBytes signer verifier sig
      | _, _ => some "hex"
    | kind :: archive :: fmt :: [] =>
      if kind == "token" || kind == "world" then
        match Bytes.ofHex archive, Bytes.ofHex fmt with
        | some a, some f =>
          if Base64.format a != f then some "stored delegation text is not the model's text of the stored archive"
          else if Base64.parse f != .payload a then some "stored delegation text does not read back to the stored archive in the model"
          else
          match Car.decodeCar CarDriver.H a with
          | .ok roots bs e => if e then some "recorded archive ends in an error in the model" else if roots.length != 1 then some "archive roots" else if bs.isEmpty then some "archive without blocks" else none
          | .headerError => some "recorded archive header is refused by the model"
          | .foreign _ _ => some "recorded archive header is not in canonical form"
        | _, _ => some "hex"
      else none
    | kind :: archive :: [] =>
      if kind == "token" || kind == "world" then
        match Bytes.ofHex archive with
        | some a =>
          match Car.decodeCar CarDriver.H a with
          | .ok roots bs e => if e then some "recorded archive ends in an error in the model" else if roots.length != 1 then some "archive roots" else if bs.isEmpty then some "archive without blocks" else none
          | .headerError => some "recorded archive header is refused by the model"
          | .foreign _ _ => some "recorded archive header is not in canonical form"
        | none => some "hex"
      else none
    | _ => none
  match verdict with
  | none => s!"{impl}\t-"
  | some why => s!"model-format-mismatch:{why}\t-"

/-- text forms (Model/Base64.lean): every string is recomputed from the raw bytes and read back -/
def hex3 (impl : String) : Option (Bytes × Bytes × Bytes) :=
  match impl.splitOn "|" with
  | [a, b, c] => match Bytes.ofHex a, Bytes.ofHex b, Bytes.ofHex c with
    | some x, some y, some z => some (x, y, z)
    | _, _, _ => none
  | _ => none

open Base64 in
def parseClassOf (s : Bytes) (impl : String) : String :=
  match parse s with
  | .payload _ => "extract"
  | .errCid => "err-cid"
  | .errCodec => "err-codec"
  | .errNotIdentity => "err-notidentity"
  | .abstain => impl

open Base64 in
def doText (op : String) (args : List String) (impl : String) : String :=
  let mism (why : String) := s!"model-text-mismatch:{why}\t-"
  match op, args with
  | "sigtext", [_, raw] => (match Bytes.ofHex raw with
      | some b => s!"{Bytes.toHexTok (rawUrlEncode b)}\t-"
      | none => bad "hex")
  | "signtext", [_] => (match hex3 impl with
      | some (h, p, s) =>
        if s != joinDot h p then mism "the signing string is not base64url(header).base64url(payload)"
        else if splitDot s != (rawUrlEncode h, rawUrlEncode p) then mism "the halves are not recovered at the first dot"
        else if rawUrlDecode (rawUrlEncode h) != some h || rawUrlDecode (rawUrlEncode p) != some p then mism "halves do not decode"
        else s!"{impl}\t-"
      | none => s!"three-hex-fields\t-")
  | "keyfmt", [_] => (match hex3 impl with
      | some (enc, f, back) =>
        if f != formatKey enc then mism "key text is not multibase M over the key bytes"
        else if parseKey f != .ok enc then mism "key text does not read back in the model"
        else if back != enc then mism "parsed key encodes to other bytes"
        else s!"{impl}\t-"
      | none => s!"three-hex-fields\t-")
  | "mbdec", [s] => (match Bytes.ofHex s with
      | some b => (match mbDecode b with
        | .ok d => s!"ok|{Bytes.toHexTok d}"
        | .err => "err"
        | .abstain => impl) ++ "\t-"
      | none => bad "hex")
  | "dlgfmt", [_] => (match hex3 impl with
      | some (re, s, re2) =>
        if s != format re then mism "delegation text is not the identity CID (CAR codec, multibase m) over the archive"
        else if parse s != .payload re then mism "delegation text does not read back to the archive in the model"
        else if re2 != re then mism "parsed delegation archives to other bytes"
        else s!"{impl}\t-"
      | none => s!"three-hex-fields\t-")
  | "cidfmt", [b] => (match Bytes.ofHex b with
      | some b => s!"{Bytes.toHexTok (format b)}|{parseClassOf (format b) "abstain"}\t-"
      | none => bad "hex")
  | "dlgparse", [s] => (match Bytes.ofHex s with
      | some b => s!"{parseClassOf b impl}\t-"
      | none => bad "hex")
  | _, _ => bad op

def handle (line : String) : String :=
  match line.splitOn "\t" with
  | ["sigtext", c, r, impl] => doText "sigtext" [c, r] impl
  | ["signtext", a, impl] => doText "signtext" [a] impl
  | ["keyfmt", a, impl] => doText "keyfmt" [a] impl
  | ["mbdec", a, impl] => doText "mbdec" [a] impl
  | ["dlgfmt", a, impl] => doText "dlgfmt" [a] impl
  | ["cidfmt", a, impl] => doText "cidfmt" [a] impl
  | ["dlgparse", a, impl] => doText "dlgparse" [a] impl
  | ["access", mode, world, spine, checker, _, impl] => doAccess mode world spine checker impl
  | ["didparse", a, _] => doDid "didparse" a
  | ["diddecode", a, _] => doDid "diddecode" a
  | ["sigframe", a, _] => doDid "sigframe" a
  | ["edsigner", a, _] => doDid "edsigner" a
  | ["edverifier", a, _] => doDid "edverifier" a
  | ["signew", c, r, _] => doSigNew c r
  | ["didundef", _, _] => s!"str={Bytes.toHexTok (DidM.toString DidM.undef)}|bytes={Bytes.toHexTok (DidM.bytes DidM.undef)}\t-"
  | ["keys", _, _, _, _] => "ok\t-"
  | ["cardec", inp, impl] => doCar "cardec" [inp] impl
  | ["cardecx", inp, impl] => doCar "cardec" [inp] impl
  | ["carrt", r, b, impl] => doCar "carrt" [r, b] impl
  | ["cartrunc", r, b, impl] => doCar "cartrunc" [r, b] impl
  | ["carflip", r, b, m, impl] => doCar "carflip" [r, b, m] impl
  | ["handle", ct, acc, body, _] => doHandle ct acc body
  | ["channel", st, _, _] => doChannel st
  | ["roundtrip", world, _, _, _] => doRoundtrip world
  | "c18" :: _ :: rest => (match rest.reverse with
      | impl :: revArgs => doC18 revArgs.reverse impl
      | [] => bad "c18")
  | ["ucan", spec, _] => doUcan spec
  | ["rcpt", spec, _] =>
    -- C10_verifies / C10_same / C10_tamper: an issued receipt verifies and reads back unchanged after
    -- transport; any alteration of outcome or signature, or another key, is rejected
    (match Lean.Json.parse spec with
     | .ok j => let alter := (UcanJson.optStr j "alter").getD "none"
                s!"verified=T|same=T|altered={if alter == "none" then "T" else "F"}"
     | .error e => s!"bad-op:{e}") ++ "\t-"
  | ["cost", world, impl] => doCost world impl
  | ["servetime", _, _] => "done\t-"
  | ["rsastrip", _, impl] => (if impl.startsWith "skip:" then impl else "issued=true|altered=false") ++ "\t-"
  | ["delegwin", e, n, _, _, _] => (if e == "past" || n == "future" then "fail" else "ok") ++ "\t-"
  | ["clientexec2", st, _, b, _] => (if st == "200" && b == "car" then "response" else "error") ++ "\t-"
  | ["clientexec", st, _] => (if st == "200" then "response" else "error") ++ "\t-"
  | ["rsatag", _, n, _] => (if n == "0" then "ok" else "err") ++ "\t-"
  | ["servecost", world, impl] => doCost world impl
  | ["didread", m, arg, impl] => doDidRead m arg impl
  | ["structread", sc, v, _, _] => (match StructRdJson.run sc v with
      | .ok r => s!"{r}\t-"
      | .error e => bad s!"structread {e}")
  | ["servepanic", mode, world, impl] => if impl == "crashed-or-refused" then s!"{impl}\t-" else doServe mode world impl
  | ["srvrun", k, _, _] => (match k with
      | "onecap" => "ok|calls=1"
      | "unknown" => "HandlerNotFoundError|calls=0"
      | _ => "InvocationCapabilityError|calls=0") ++ "\t-"
  | ["rcptrepr", _, _, _] => "same\t-"
  | ["caralign", _, _, n, _] => s!"blocks={n}/{n}\t-"
  | ["issuealias", _, _, _] => "same\t-"
  | ["rdtree", t, xs, _] => (match RdJson.run t xs with
      | .ok r => s!"{r}\t-"
      | .error e => bad s!"rdtree {e}")
  | ["cbor", v, _] => doCbor v
  | ["rcptconc", _, g, per, _, _] => (match g.toNat?, per.toNat? with
      | some g, some p => s!"issued={g * p}|bad=0\t-"
      | _, _ => bad "rcptconc")
  | ["wire", _, items, _] => doWire items
  | ["wire", _, _, _, impl] => s!"{impl}\t-"
  | ["cborblock", h, _, _] => doCborBlock h
  | ["bsfresh", _, _, _, _, _, impl] => (if impl.startsWith "consistent:" then impl else "consistent") ++ "\t-"
  | ["bsconc", _, _, _, _, _, impl] => (if impl.startsWith "consistent:" then impl else "consistent") ++ "\t-"
  | ["req", _, impl] => (if impl.startsWith "status:" || impl == "error" || impl.startsWith "skip:" then impl else "status-or-error") ++ "\t-"
  | ["reqcraft", _, _, _, impl] => (if impl.startsWith "status:" || impl == "error" || impl.startsWith "skip:" then impl else "status-or-error") ++ "\t-"
  | ["reqmut", _, _, _, impl] => (if impl.startsWith "status:" || impl == "error" || impl.startsWith "skip:" then impl else "status-or-error") ++ "\t-"
  | ["resp", _, _, _, _, impl] => (if impl == "response" || impl == "error" then impl else "response-or-error") ++ "\t-"
  | ["resp", _, _, _, impl] => (if impl == "response" || impl == "error" then impl else "response-or-error") ++ "\t-"
  | ["batch", mode, world, _, _, _, impl] => doServe mode world impl
  | ["batchfresh", mode, world, _, _, _, impl] => doServe mode world impl
  | ["serve", mode, world, impl] => doServe mode world impl
  | ["serve3seq", mode, world, impl] => doServe mode world impl
  | ["access3", mode, world, spine, checker, _, impl] => doAccess mode world spine checker impl
  | ["access3seq", mode, world, spine, checker, _, impl] => doAccess mode world spine checker impl
  | ["c16x", n, p, _] =>
    match n.toNat?, Bytes.ofHex p with
    | some n, some p => s!"{c16Row n p}\t-"
    | _, _ => bad "c16x args"
  | ["c16r", p, c, _] =>
    match Bytes.ofHex p, Bytes.ofHex c with
    | some p, some c => s!"{Bytes.hexDigit (c16Pair p c)}\t-"
    | _, _ => bad "c16r args"
  | op :: _ => bad op
  | [] => bad "empty"

partial def loop (hin hout : IO.FS.Stream) : IO Unit := do
  let line ← hin.getLine
  if line.isEmpty then return ()
  let l := if line.endsWith "\n" then (line.dropEnd 1).toString else line
  hout.putStrLn (handle l)
  loop hin hout

def main : IO Unit := do
  let hin ← IO.getStdin
  let hout ← IO.getStdout
  loop hin hout
  hout.flush
