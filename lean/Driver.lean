import UcantoModel.Model.Basic
import UcantoModel.Model.Enum
import UcantoModel.Model.Patterns
/-!
# Line-protocol driver
stdin: one case per line, TAB separated: `op  arg1  arg2 …`
stdout: one line per case: `model-output TAB oracle` (`oracle` is `-` when the op has no separate
oracle, `ok`, or `fail:<reason>`).
The driver imports only `Model/*` (core Lean) so that it links as a native executable.
-/
open Patterns

def c16Alpha : List UInt8 := [97, 98, 65, 47, 42, 58]  -- a b A / * :

/-- one hex digit per pair: bit0 ability granted, bit1 resource resolved, bit2 derives accepted,
bit3 range violation (never set by the model: results are `c` or `""`) -/
def c16Pair (p c : Bytes) : Nat :=
  (if resolveAbility p c != [] then 1 else 0) +
  (if resolveResource p c != [] then 2 else 0) +
  (if defaultDerives c p then 4 else 0)

def c16Row (n : Nat) (p : Bytes) : String :=
  String.ofList ((Enum.upTo c16Alpha (n - p.length)).map fun c => Bytes.hexDigit (c16Pair p c))

def bad (msg : String) : String := s!"bad-op:{msg}\t-"

def handle (line : String) : String :=
  match line.splitOn "\t" with
  | ["c16x", n, p] =>
    match n.toNat?, Bytes.ofHex p with
    | some n, some p => s!"{c16Row n p}\t-"
    | _, _ => bad "c16x args"
  | ["c16r", p, c] =>
    match Bytes.ofHex p, Bytes.ofHex c with
    | some p, some c => s!"{Bytes.hexDigit (c16Pair p c)}\t-"
    | _, _ => bad "c16r args"
  | op :: _ => bad op
  | [] => bad "empty"

partial def loop (hin hout : IO.FS.Stream) : IO Unit := do
  let line ← hin.getLine
  if line.isEmpty then return ()
  let l := if line.endsWith "\n" then (line.dropEnd 1).toString else line
  hout.putStrLn (handle l)
  loop hin hout

def main : IO Unit := do
  let hin ← IO.getStdin
  let hout ← IO.getStdout
  loop hin hout
  hout.flush
